import SeqVerif.Model.Pruning
import SeqVerif.Model.Borders
/-!
# Narrowing a fraction's scan to the LID borders of the time range (frac/processor/search.go:getLIDsBorders),
composed with the pruning of whole fractions

`SV.Borders` (C02) models `getLIDsBorders` over the ids table of one fraction (sorted descending, LID 0 unused)
and proves `getLIDsBorders_exact`.  Here the narrowed scan of a fraction is the slice of its table between the
borders, and the scan of a store is: prune fractions by `IsIntersecting`, then narrow each kept fraction.
-/
namespace SV.Pruning
open SV SV.Spec SV.Borders SV.FracInfo

/-- a contiguous index window that coincides with a predicate is what `filter` keeps -/
theorem filter_eq_slice {α} (p : α → Bool) (l : List α) (a b : Nat)
    (h : ∀ i (hi : i < l.length), (a ≤ i ∧ i < b) ↔ p l[i] = true) :
    l.filter p = (l.drop a).take (b - a) := by
  induction l generalizing a b with
  | nil => simp
  | cons x xs ih =>
    have h0 := h 0 (by simp)
    simp only [List.getElem_cons_zero] at h0
    cases a with
    | zero =>
      cases b with
      | zero =>
        have hx : p x = false := by
          cases hp : p x with
          | false => rfl
          | true => have := h0.2 hp; omega
        have : xs.filter p = [] := by
          rw [List.filter_eq_nil_iff]
          intro y hy hpy
          rcases List.getElem_of_mem hy with ⟨i, hi, rfl⟩
          have := (h (i + 1) (by simp; omega)).2 (by simpa using hpy)
          omega
        simp [hx, this]
      | succ b =>
        have hx : p x = true := h0.1 (by omega)
        have := ih 0 b (fun i hi => by
          have := h (i + 1) (by simp; omega)
          simp only [List.getElem_cons_succ] at this
          rw [← this]; omega)
        simp only [List.filter_cons, hx, if_true, List.drop_zero, Nat.sub_zero, List.take_succ_cons] at this ⊢
        rw [this]
    | succ a =>
      have hx : p x = false := by
        cases hp : p x with
        | false => rfl
        | true => have := h0.2 hp; omega
      have := ih a (b - 1) (fun i hi => by
        have := h (i + 1) (by simp; omega)
        simp only [List.getElem_cons_succ] at this
        rw [← this]; omega)
      simp only [List.filter_cons, hx, List.drop_succ_cons]
      rw [this]
      have e : b - 1 - a = b - (a + 1) := by omega
      rw [e]
      simp

theorem flatMap_congr' {α β} (l : List α) (f g : α → List β) (h : ∀ x, x ∈ l → f x = g x) :
    l.flatMap f = l.flatMap g := by
  induction l with
  | nil => rfl
  | cons x xs ih =>
    simp only [List.flatMap_cons]
    rw [h x List.mem_cons_self, ih (fun y hy => h y (List.mem_cons_of_mem _ hy))]

/-- the documents `IndexSearch` can reach after narrowing: LIDs `minLID..maxLID` of the ids table -/
def narrowed (tbl : List ID) (qf qt : Nat) : List ID :=
  (tbl.drop ((getLIDsBorders qf qt tbl).1 - 1)).take ((getLIDsBorders qf qt tbl).2 - ((getLIDsBorders qf qt tbl).1 - 1))

def idInRange (qf qt : Nat) (id : ID) : Bool := decide (qf ≤ id.mid) && decide (id.mid ≤ qt)

/-- **narrowing is exact**: the slice between the LID borders holds exactly the IDs with `qf ≤ mid ≤ qt`, in table
order.  Side conditions as in `getLIDsBorders_exact` (rids are uint64; for `qf = 0` no stored ID is `{0,0}`). -/
theorem narrowed_eq_filter (tbl : List ID) (hs : SortedDesc tbl) (hr : ∀ id ∈ tbl, id.rid ≤ Borders.maxU64)
    (qf qt : Nat) (h0 : 0 < qf ∨ ∀ id ∈ tbl, id ≠ ⟨0, 0⟩) :
    narrowed tbl qf qt = tbl.filter (idInRange qf qt) := by
  unfold narrowed
  symm
  have hrange := getLIDsBorders_range qf qt tbl
  apply filter_eq_slice
  intro i hi
  have hex := getLIDsBorders_exact qf qt tbl hs hr h0 (i + 1) (by omega) (by omega)
  rw [idAt_eq tbl (i + 1) (by omega) (by omega)] at hex
  simp only [Nat.add_sub_cancel] at hex
  unfold idInRange
  simp only [Bool.and_eq_true, decide_eq_true_eq]
  rw [← hex]
  omega

/-- a fraction with its ids table (LID order: descending IDs) -/
structure TFrac where
  info : Info
  tbl : List ID

def TFrac.toFrac (f : TFrac) : Frac := ⟨f.info, f.tbl.map fun id => (id.mid, id.rid)⟩

/-- reference: every ID of every table is examined -/
def scanAllT (fs : List TFrac) (qf qt : Nat) : List ID := fs.flatMap fun f => f.tbl.filter (idInRange qf qt)

/-- the store: `FilterInRange` over the fractions, then the narrowed scan of every kept fraction -/
def scanStore (fs : List TFrac) (qf qt : Nat) : List ID :=
  (fs.filter fun f => FracInfo.isIntersecting f.info qf qt).flatMap fun f => narrowed f.tbl qf qt

theorem scanStore_eq (fs : List TFrac) (hsound : ∀ f, f ∈ fs → Sound f.toFrac)
    (hsorted : ∀ f, f ∈ fs → SortedDesc f.tbl) (hrid : ∀ f, f ∈ fs → ∀ id ∈ f.tbl, id.rid ≤ Borders.maxU64)
    (qf qt : Nat) (hqt : qt < 18446744073709551616) (h0 : 0 < qf ∨ ∀ f, f ∈ fs → ∀ id ∈ f.tbl, id ≠ ⟨0, 0⟩) :
    scanStore fs qf qt = scanAllT fs qf qt := by
  unfold scanStore scanAllT
  have step1 : ((fs.filter fun f => FracInfo.isIntersecting f.info qf qt).flatMap fun f => narrowed f.tbl qf qt)
      = (fs.filter fun f => FracInfo.isIntersecting f.info qf qt).flatMap fun f => f.tbl.filter (idInRange qf qt) := by
    apply flatMap_congr'
    intro f hf
    have hf' := (List.mem_filter.1 hf).1
    exact narrowed_eq_filter f.tbl (hsorted f hf') (hrid f hf') qf qt
      (h0.elim Or.inl (fun h => Or.inr (h f hf')))
  rw [step1]
  apply flatMap_filter_of_empty
  intro f hf hp
  rw [List.filter_eq_nil_iff]
  intro id hid hin
  unfold idInRange at hin
  simp only [Bool.and_eq_true, decide_eq_true_eq] at hin
  have hmem : (id.mid, id.rid) ∈ f.toFrac.docs := by
    unfold TFrac.toFrac; simp only
    exact List.mem_map_of_mem (f := fun id : ID => (id.mid, id.rid)) hid
  have := hsound f hf (id.mid, id.rid) hmem qf qt hin.1 hin.2 hqt
  simp only [TFrac.toFrac] at this
  rw [this] at hp
  exact absurd hp (by simp)

end SV.Pruning
