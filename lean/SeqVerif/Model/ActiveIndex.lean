import SeqVerif.Model.SearchSpec
/-!
# The active fraction as a search index  (C02: frac/active_index.go, active_lids.go, inverser.go)

Documents get *arrival* LIDs `1, 2, ...` in the order the indexer appends them (`Active.AppendIDs`; index 0 of
the mids/rids arrays is the system entry).  Every token keeps the arrival LIDs of its documents; `GetLIDs`
returns them sorted descending by (mid, rid, lid) (`sort.Sort(queueIDs)` + `mergeSorted`).  The `_all_` list
sorted this way is the `mapping` of the `inverser`: search-LID `i` (1-based position in the mapping) stands for
arrival LID `mapping[i-1]`.  `inverseLIDs` translates a token's list into search LIDs.
-/
namespace SV.ActiveIndex
open SV SV.Spec SV.Borders SV.EvalTree

/-- mids[v], rids[v] -/
def idOf (ids : List ID) (v : Nat) : ID := ids.getD v ⟨0, 0⟩

/-- `SeqIDCmp.compare(a, b)`: 1 / -1 / 0 on (mid, rid, lid) -/
def compare (ids : List ID) (a b : Nat) : Int :=
  let x := idOf ids a
  let y := idOf ids b
  if x.mid > y.mid then 1 else if x.mid < y.mid then -1
  else if x.rid > y.rid then 1 else if x.rid < y.rid then -1
  else if a < b then -1 else if a > b then 1 else 0

/-- the tail loop over `left[l:]` of `mergeSorted` -/
def appendDedup : List Nat → Nat → List Nat
  | [], _ => []
  | v :: rest, prev => if v = prev then appendDedup rest prev else v :: appendDedup rest v

/-- the main loop of `mergeSorted(right, left, mids, rids)`, then the two tails -/
def mergeLoop (ids : List ID) : (right left : List Nat) → (prev : Nat) → List Nat
  | [], left, prev => appendDedup left prev          -- l ≠ len(left) possible, r == len(right)
  | right, [], _ => right                           -- `result = append(result, right[r:]...)` (no dedup)
  | ri :: rs, li :: ls, prev =>
    let c := compare ids ri li
    if c = 0 then (if prev = ri then mergeLoop ids rs ls prev else ri :: mergeLoop ids rs ls ri)
    else if c = 1 then (if prev = ri then mergeLoop ids rs (li :: ls) prev else ri :: mergeLoop ids rs (li :: ls) ri)
    else (if prev = li then mergeLoop ids (ri :: rs) ls prev else li :: mergeLoop ids (ri :: rs) ls li)
termination_by right left => right.length + left.length

def maxU32 : Nat := 4294967295

def mergeSorted (ids : List ID) (right left : List Nat) : List Nat := mergeLoop ids right left maxU32

/-- `a` is not below `b` in the (mid, rid, lid) order -/
def keyGe (ids : List ID) (a b : Nat) : Bool := compare ids a b != -1

/-- what `TokenLIDs.GetLIDs` returns once everything queued was sorted and merged:
the token's arrival LIDs, descending by (mid, rid, lid), without repetitions -/
def getLIDs (ids : List ID) (arrival : List Nat) : List Nat := dedupAdj (sortBy (keyGe ids) arrival)

/-- `inverser.Inverse(k)`: 1-based position of `k` in the mapping (`inversion[v] = i + 1`), if any -/
def inverse (mapping : List Nat) (size : Nat) (k : Nat) : Option Nat :=
  if k ≥ size then none
  else if k ∈ mapping then some (mapping.idxOf k + 1) else none

/-- one iteration of the loop in `inverseLIDs`: translate, skip LIDs unknown to the inverser, keep inside the borders -/
def inverseOne (mapping : List Nat) (size lo hi : Nat) (v : Nat) : Option Nat :=
  match inverse mapping size v with
  | some val => if lo ≤ val ∧ val ≤ hi then some val else none
  | none => none

/-- `inverseLIDs(unmapped, inv, minLID, maxLID)` -/
def inverseLIDs (mapping : List Nat) (size lo hi : Nat) (unmapped : List Nat) : List Nat :=
  unmapped.filterMap (inverseOne mapping size lo hi)

structure Active where
  /-- `ids[v]` = (mids[v], rids[v]) for arrival LID `v`; `ids[0]` is the system entry -/
  ids : List ID
  /-- per token the arrival LIDs of its documents, in any order -/
  toks : List TokenEntry
deriving Repr

/-- `GetAllTokenLIDs().GetLIDs(mids, rids)`: every document carries `_all_` -/
def mapping (a : Active) : List Nat := getLIDs a.ids (List.range' 1 (a.ids.length - 1))

/-- the `searchIndex` the active data provider hands to `IndexSearch`:
`GetMID/GetRID(lid) = mids/rids[Revert(lid)]`, posting lists through `inverseLIDs` -/
def toIndex (a : Active) : Index :=
  let m := mapping a
  { ids := m.map (idOf a.ids),
    toks := a.toks.map fun t => ⟨t.field, t.val, inverseLIDs m a.ids.length 0 m.length (getLIDs a.ids t.lids)⟩ }

def minMid (a : Active) : Nat := (a.ids.drop 1).foldl (fun acc i => min acc i.mid) maxU64
def maxMid (a : Active) : Nat := (a.ids.drop 1).foldl (fun acc i => max acc i.mid) 0

/-- `activeDataProvider.Search`: clamp the window to the fraction's `[info.From, info.To]`, then `IndexSearch` -/
def search (a : Active) (q : Query) (from_ to : Nat) (asc : Bool) (limit : Nat) (withTotal : Bool) : Result :=
  EvalTree.search (toIndex a) q (max from_ (minMid a)) (min to (maxMid a)) asc limit withTotal

/-- the stored documents in arrival order -/
def arrivalDoc (a : Active) (v : Nat) : Doc :=
  { id := idOf a.ids v, tokens := (a.toks.filter fun t => t.lids.contains v).map fun t => (t.field, t.val) }

def arrivalDocs (a : Active) : List Doc := (List.range' 1 (a.ids.length - 1)).map (arrivalDoc a)

end SV.ActiveIndex
