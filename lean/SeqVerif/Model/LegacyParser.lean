import SeqVerif.Model.SeqQLFilter
/-!
# The legacy query parser at rune level (C12 level B for `ParseQuery`, term builders shared with C11)

parser/token_parser.go, parser/term_builder.go, parser/query_parser.go written over the remaining input
`tp.data[tp.pos:]` as a list of runes (`Rn`: code point plus what Go's `unicode` says about it).  `tp.pos++` is `tail`,
`tp.eof()` is `= []`, and **`tp.cur()` on an exhausted input is an index-out-of-range panic** - modelled as `PRes.panic`
wherever the code calls `cur()` without a preceding `eof()` check (`errorUnexpectedSymbol`).  Restoring `tp.pos`
before building an error message only affects the message, not the outcome, and is not modelled.
-/
namespace SV.Parser

def isSpecial (r : Rn) : Bool :=     -- specialSymbol: ( ) { } [ ] * " \ :
  r.cp = 40 || r.cp = 41 || r.cp = 123 || r.cp = 125 || r.cp = 91 || r.cp = 93 || r.cp = 42 || r.cp = 34 || r.cp = 92 || r.cp = 58
def isGraylogEscaped (r : Rn) : Bool := r.cp = 45 || r.cp = 47          -- - /
def isQuoteEscaped (r : Rn) : Bool := r.cp = 34 || r.cp = 92 || r.cp = 42   -- " \ *

/-- `skipSpaces` -/
def skipSpaces : List Rn → List Rn
  | [] => []
  | r :: rest => if r.space then skipSpaces rest else r :: rest

/-- the word part of `parseSimpleTerm`: runes up to the first space or special symbol, and what follows them -/
def simpleWord : List Rn → List Rn × List Rn
  | [] => ([], [])
  | r :: rest =>
    if r.space || isSpecial r then ([], r :: rest)
    else ((r :: (simpleWord rest).1), (simpleWord rest).2)

/-- `parseSimpleTerm`: the word and the input after the word and the spaces following it -/
def simpleTerm (rs : List Rn) : List Rn × List Rn := ((simpleWord rs).1, skipSpaces (simpleWord rs).2)

/-- `errorUnexpectedSymbol`: builds its message from `parseSimpleTerm` and, when that word is empty, from `tp.cur()` -/
def errUnexpected {β : Type} (rs : List Rn) : PRes β :=
  if (simpleWord rs).1 ≠ [] then .err
  else match rs with
    | [] => .panic       -- `tp.data[tp.pos]` with `tp.pos == len(tp.data)`
    | _ :: _ => .err

/-- `if tp.eof() { return tp.errorEOF(..) }; return tp.errorUnexpectedSymbol(..)` -/
def eofOrUnexpected {β : Type} (rs : List Rn) : PRes β :=
  match rs with
  | [] => .err
  | r :: rest => errUnexpected (r :: rest)

/-- ASCII case-insensitive comparison with a lower-case ASCII word (`strings.EqualFold(x, "not")`, `"to"`) -/
def foldEq (w : List Rn) (lowerWord : List Nat) : Bool :=
  w.map (fun r => if 65 ≤ r.cp ∧ r.cp ≤ 90 then r.cp + 32 else r.cp) = lowerWord

/-- `strings.ToLower(operator) == word` -/
def lowerEq (w : List Rn) (word : List Nat) : Bool := w.map (·.lower) = word

/-! ## term builders (parser/term_builder.go) -/

/-- `baseTokenBuilder`: finished literals, terms of the current literal, current text term (as code points) -/
structure TB where
  cs : Bool
  tokens : List (List Term)
  terms : List Term
  term : List Nat

def TB.finishTextTerm (b : TB) : TB :=
  if b.term.isEmpty then b else { b with terms := b.terms ++ [⟨false, b.term⟩], term := [] }

def TB.finishToken (b : TB) : TB :=
  let b1 := b.finishTextTerm
  if b1.terms.isEmpty then b1 else { b1 with tokens := b1.tokens ++ [b1.terms], terms := [] }

def TB.getTokens (b : TB) : List (List Term) := b.finishToken.tokens

def TB.appendRuneInternal (b : TB) (r : Rn) : TB := { b with term := b.term ++ [if b.cs then r.cp else r.lower] }

def TB.appendSymbolTerm (b : TB) : TB :=
  let b1 := b.finishTextTerm
  { b1 with terms := b1.terms ++ [⟨true, [42]⟩] }

def TB.endsWithStar (b : TB) : Bool :=
  b.term.isEmpty && (match b.terms.getLast? with
    | some t => t.sym && t.data.head? = some 42
    | none => false)

/-- which `termBuilder` implementation -/
inductive BKind | keyword | text | single
deriving DecidableEq, Repr

/-- builder state: the token builders share `TB`; `singleTermBuilder` has `wildcard` and `data` -/
structure BSt where
  kind : BKind
  tb : TB
  wildcard : Bool
  data : List Nat

def BSt.appendRune (s : BSt) (r : Rn) : Option BSt :=
  match s.kind with
  | .keyword => some { s with tb := s.tb.appendRuneInternal r }
  | .text =>
    if isWordRune r then some { s with tb := s.tb.appendRuneInternal r }      -- `isIndexed`
    else some { s with tb := s.tb.finishToken }
  | .single =>
    if s.wildcard then none                                                  -- "only single wildcard is allowed"
    else some { s with data := s.data ++ [if s.tb.cs then r.cp else r.lower] }

def BSt.appendWildcard (s : BSt) : Option BSt :=
  match s.kind with
  | .keyword => if s.tb.endsWithStar then none else some { s with tb := s.tb.appendSymbolTerm }   -- "duplicate wildcard"
  | .text => some { s with tb := (if s.tb.endsWithStar then s.tb.finishToken else s.tb).appendSymbolTerm }
  | .single => if s.wildcard || !s.data.isEmpty then none else some { s with wildcard := true }

def BSt.getTerm (s : BSt) : Term := if s.wildcard then ⟨true, [42]⟩ else ⟨false, s.data⟩

def newBuilder (kind : BKind) (cs : Bool) : BSt := ⟨kind, ⟨cs, [], [], []⟩, false, []⟩

/-! ## terms -/

/-- `parseTerms(tb)` -/
def parseTerms (s : BSt) : List Rn → PRes (BSt × List Rn)
  | [] => .ok (s, skipSpaces [])
  | r :: rest =>
    if r.cp = 42 then                                   -- '*'
      match s.appendWildcard with
      | none => .err
      | some s' => parseTerms s' rest
    else if r.cp = 92 then                              -- '\\'
      match rest with
      | [] => .err                                      -- errorEOF("escaped symbol")
      | e :: rest' =>
        if !e.space && !isSpecial e && !isGraylogEscaped e then errUnexpected (e :: rest')
        else match s.appendRune e with
          | none => .err
          | some s' => parseTerms s' rest'
    else if r.space || isSpecial r then .ok (s, skipSpaces (r :: rest))
    else match s.appendRune r with
      | none => .err
      | some s' => parseTerms s' rest

/-- the loop of `parseQuotedTerms(tb)` after the opening quote -/
def quotedLoop (s : BSt) : List Rn → PRes (BSt × List Rn)
  | [] => .err                                          -- errorEOF("closing quote")
  | r :: rest =>
    if r.cp = 92 then
      match rest with
      | [] => .err
      | e :: rest' =>
        let s1 := if isQuoteEscaped e then some s else s.appendRune ⟨[92], 92, false, false, false, 92, false⟩
        match s1 with
        | none => .err
        | some s1 =>
          match s1.appendRune e with
          | none => .err
          | some s2 => quotedLoop s2 rest'
    else if r.cp = 42 then
      match s.appendWildcard with
      | none => .err
      | some s' => quotedLoop s' rest
    else if r.cp = 34 then .ok (s, skipSpaces rest)
    else match s.appendRune r with
      | none => .err
      | some s' => quotedLoop s' rest

/-- `parseQuotedTerms(tb)`; `panic("quote not found")` when the current rune is not a quote -/
def parseQuotedTerms (s : BSt) : List Rn → PRes (BSt × List Rn)
  | [] => .panic
  | r :: rest => if r.cp = 34 then quotedLoop s rest else .panic

/-- `!tp.eof() && tp.cur() == '"'` -/
def startsWithQuote : List Rn → Bool
  | r :: _ => decide (r.cp = 34)
  | [] => false

/-- `parseRangeTerm(term)` -/
def legacyRangeTerm (cs : Bool) (rs : List Rn) : PRes (Term × List Rn) :=
  let quoted : Bool := startsWithQuote rs
  (if quoted then parseQuotedTerms (newBuilder .single cs) rs else parseTerms (newBuilder .single cs) rs).bind fun p =>
    let term := p.1.getTerm
    if term.data.isEmpty && !quoted then eofOrUnexpected p.2
    else .ok (term, p.2)

/-- `parseRange(r)`; the current rune is `[` or `{` (otherwise `panic("range start not found")`) -/
def legacyRange (field : List Nat) (cs : Bool) : List Rn → PRes (Leaf × List Rn)
  | [] => .panic
  | r :: rest =>
    if r.cp ≠ 91 ∧ r.cp ≠ 123 then .panic
    else
      (legacyRangeTerm cs (skipSpaces rest)).bind fun p1 =>
        let to := simpleTerm p1.2
        if !foldEq to.1 [116, 111] then                 -- "to"
          (match to.2 with
           | [] => .err                                 -- errorEOF
           | _ :: _ => if to.1.isEmpty then errUnexpected p1.2 else .err)
        else
          (legacyRangeTerm cs to.2).bind fun p2 =>
            match p2.2 with
            | [] => .err                                -- errorEOF("closing bracket")
            | c :: rest2 =>
              if c.cp = 93 then .ok (.range field p1.1 p2.1 (r.cp = 91) true, skipSpaces rest2)
              else if c.cp = 125 then .ok (.range field p1.1 p2.1 (r.cp = 91) false, skipSpaces rest2)
              else errUnexpected (c :: rest2)

/-- `parseLiteral(fieldName, indexType)`: the tokens (a range, or literals) -/
def legacyLiteral (dp rl : Bool) (csConf : Bool) (field : List Nat) (t : FT) : List Rn → PRes (List Leaf × List Rn)
  | [] => .err                                          -- errorEOF("search term")
  | r :: rest =>
    let cs := if field = tokenExists then true else csConf
    if r.cp = 91 ∨ r.cp = 123 then
      (legacyRange field (if rl then cs else true) (r :: rest)).bind fun p => .ok ([p.1], p.2)
    else
      let kind : Option BKind := match t with
        | .text => some .text
        | .keyword => some .keyword
        | .path => some .keyword
        | _ => none
      match kind with
      | none => if dp then .panic else .err             -- `default:` of the type switch
      | some k =>
        if r.cp = 34 then
          (parseQuotedTerms (newBuilder k cs) (r :: rest)).bind fun p =>
            let toks := p.1.tb.getTokens
            if toks.isEmpty then .ok ([.lit field [⟨false, []⟩]], p.2)
            else .ok (toks.map (Leaf.lit field), p.2)
        else
          (parseTerms (newBuilder k cs) (r :: rest)).bind fun p =>
            let toks := p.1.tb.getTokens
            if toks.isEmpty then
              (if p.2.length = (r :: rest).length then errUnexpected p.2 else .err)   -- `pos == tp.pos`
            else .ok (toks.map (Leaf.lit field), p.2)

/-- `parseTokenQuery(fieldName, indexType)` -/
def legacyTokenQuery (dp rl : Bool) (csConf : Bool) (field : List Nat) (t : FT) : List Rn → PRes (List Leaf × List Rn)
  | [] => .err
  | r :: rest =>
    if r.cp ≠ 58 then errUnexpected (r :: rest)
    else legacyLiteral dp rl csConf field t (skipSpaces rest)

/-- `buildAndTree(tokens)`: `tokens[0]` on an empty slice is an index-out-of-range panic -/
def legacyAndTree : List Leaf → PRes (Ast Leaf)
  | [] => .panic
  | l :: ls => .ok (ls.foldl (fun t x => .bin .and t (.leaf x)) (.leaf l))

/-- bytes of a field name read by `parseSimpleTerm` (`string(tp.data[start:finish])`: code points re-encoded, which is
the original bytes for valid input and EF BF BD for what was an invalid byte) -/
def wordBytes (w : List Rn) : List Nat := w.flatMap fun r => if r.cp = 0xFFFD then [0xEF, 0xBF, 0xBD] else r.bytes

/-- `qp.nesting >= maxQueryNesting` -/
def nestTooDeep (mx : Option Nat) (nest : Nat) : Bool :=
  match mx with
  | none => false
  | some m => decide (m ≤ nest)

mutual
/-- `parseExpr(depth)` -/
def lgrExpr (c : Cfg) (mx : Option Nat) : Nat → List Rn → Nat → Nat → PRes (Ast Leaf × List Rn)
  | 0, _, _, _ => .oof
  | f+1, rs, d, nest => (lgrSub c mx f rs d nest).bind fun p => lgrLoop c mx f none p.1 p.2 d nest
termination_by structural f _ _ _ => f

/-- the loop of `parseExpr` -/
def lgrLoop (c : Cfg) (mx : Option Nat) : Nat → Option (Ast Leaf) → Ast Leaf → List Rn → Nat → Nat → PRes (Ast Leaf × List Rn)
  | 0, _, _, _, _, _ => .oof
  | f+1, leftLow, leftHigh, rs, d, nest =>
    let op := simpleTerm rs
    if lowerEq op.1 [97, 110, 100] then                 -- "and"
      (lgrSub c mx f op.2 d nest).bind fun p => lgrLoop c mx f leftLow (.bin .and leftHigh p.1) p.2 d nest
    else if lowerEq op.1 [111, 114] then                -- "or"
      (lgrSub c mx f op.2 d nest).bind fun p => lgrLoop c mx f (some (joinOr leftLow leftHigh)) p.1 p.2 d nest
    else if op.1.isEmpty then
      (match op.2 with
       | [] => .ok (joinOr leftLow leftHigh, [])
       | r :: rest => if r.cp = 41 ∧ d > 0 then .ok (joinOr leftLow leftHigh, r :: rest) else errUnexpected (r :: rest))
    else .err
termination_by structural f _ _ _ _ _ => f

/-- `parseSubexpr(depth)` -/
def lgrSub (c : Cfg) (mx : Option Nat) : Nat → List Rn → Nat → Nat → PRes (Ast Leaf × List Rn)
  | 0, _, _, _ => .oof
  | f+1, rs, d, nest =>
    if nestTooDeep mx nest then .err
    else match rs with
    | [] => .err
    | r :: rest =>
      if r.cp = 40 then
        (lgrExpr c mx f (skipSpaces rest) (d+1) (nest+1)).bind fun p =>
          match p.2 with
          | [] => .err
          | r' :: rest' => if r'.cp ≠ 41 then errUnexpected (r' :: rest') else .ok (p.1, skipSpaces rest')
      else
        let w := simpleTerm (r :: rest)
        if foldEq w.1 [110, 111, 116] then              -- "not"
          (lgrSub c mx f w.2 d (nest+1)).bind fun p => .ok (.not p.1, p.2)
        else if w.1.isEmpty then errUnexpected w.2
        else
          let field := wordBytes w.1
          let t := indexType c.mapping field
          if t = .noop then .err
          else (legacyTokenQuery c.dp c.rangeLower c.cs field t w.2).bind fun p => (legacyAndTree p.1).bind fun a => .ok (a, p.2)
termination_by structural f _ _ _ => f
end

/-- `ParseQuery(data, mapping)` on `[]rune(data)` -/
def parseQueryRunes (c : Cfg) (mx : Option Nat) (rs : List Rn) : PRes (Ast Leaf) :=
  (lgrExpr c mx (2 * rs.length + 2) (skipSpaces rs) 0 0).bind fun p => .ok (finish p.1)

/-- `ParseAggregationFilter(data)`: `none` for an empty filter -/
def parseAggFilter (dp rl cs : Bool) (rs : List Rn) : PRes (Option Leaf) :=
  match skipSpaces rs with
  | [] => .ok none
  | r :: rest =>
    let w := simpleTerm (r :: rest)
    if w.1.isEmpty then errUnexpected w.2
    else
      (legacyTokenQuery dp rl cs (wordBytes w.1) .keyword w.2).bind fun p =>
        match p.2, p.1 with
        | [], [.lit f ts] => .ok (some (.lit f ts))
        | _, _ => .err

end SV.Parser
