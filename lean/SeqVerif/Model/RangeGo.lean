import SeqVerif.Model.Borders
import SeqVerif.Model.Nodes
/-!
# node/node_range.go with Go's integer types  (C02)

`nodeRange` keeps `cur int` and compares `uint32(cur)` with `maxVal`; stepping past `MaxUint32` (ascending) or
below 0 (descending) wraps and the node never ends.  Here `Next` is modelled with the wrap, drained with fuel, and
shown to end with exactly `rangeNode` for every pair of borders `getLIDsBorders` can produce.
-/
namespace SV.RangeGo
open SV SV.Spec SV.Borders

def maxU32 : Nat := 4294967295

/-- `uint32(cur)` for Go's (64-bit) `int` -/
def u32 (cur : Int) : Nat := (cur % 4294967296).toNat

/-- `NewRange(minVal, maxVal, reverse)`: the fields `(maxVal, cur)` after the swap -/
def newRange (rev : Bool) (minVal maxVal : Nat) : Nat × Int :=
  if rev then (minVal, (maxVal : Int)) else (maxVal, (minVal : Int))

/-- `nodeRange.Next` -/
def next (rev : Bool) (maxVal : Nat) (cur : Int) : Option (Nat × Int) :=
  if lessFn rev maxVal (u32 cur) then none else some (u32 cur, if rev then cur - 1 else cur + 1)

/-- call `Next` until it reports the end, at most `fuel` times: the values and whether the end was reached -/
def drain (rev : Bool) (maxVal : Nat) : Nat → Int → List Nat × Bool
  | 0, _ => ([], false)
  | fuel + 1, cur =>
    match next rev maxVal cur with
    | none => ([], true)
    | some r => ((r.1 :: (drain rev maxVal fuel r.2).1), (drain rev maxVal fuel r.2).2)

theorem u32_small (n : Nat) (h : n < 4294967296) : u32 (n : Int) = n := by
  unfold u32
  have : ((n : Int) % 4294967296) = (n : Int) := Int.emod_eq_of_lt (by omega) (by omega)
  rw [this]; simp

theorem drain_asc (hi : Nat) (hhi : hi < maxU32) (d cur fuel : Nat) (hd : hi + 1 - cur = d) (hc : cur ≤ hi + 1)
    (hf : d + 1 ≤ fuel) : drain false hi fuel (cur : Int) = (List.range' cur d, true) := by
  unfold maxU32 at hhi
  induction d generalizing cur fuel with
  | zero =>
    cases fuel with
    | zero => omega
    | succ fuel =>
      have hlt : hi < cur := by omega
      simp only [drain, next, u32_small cur (by omega), lessFn]
      simp [hlt]
  | succ d ih =>
    cases fuel with
    | zero => omega
    | succ fuel =>
      have hlt : ¬ hi < cur := by omega
      have := ih (cur + 1) fuel (by omega) (by omega) (by omega)
      simp only [drain, next, u32_small cur (by omega), lessFn, hlt, decide_false, Bool.false_eq_true, if_false]
      rw [show ((cur : Int) + 1) = ((cur + 1 : Nat) : Int) by simp, this]
      simp [List.range'_succ]

theorem drain_desc (lo : Nat) (hlo : 1 ≤ lo) (d cur fuel : Nat) (hd : cur + 1 - lo = d) (hc : lo ≤ cur + 1)
    (hcur : cur < 4294967296) (hf : d + 1 ≤ fuel) :
    drain true lo fuel (cur : Int) = ((List.range' lo d).reverse, true) := by
  induction d generalizing cur fuel with
  | zero =>
    cases fuel with
    | zero => omega
    | succ fuel =>
      have hlt : cur < lo := by omega
      simp only [drain, next, u32_small cur hcur, lessFn]
      simp [hlt]
  | succ d ih =>
    cases fuel with
    | zero => omega
    | succ fuel =>
      have hlt : ¬ cur < lo := by omega
      have hpos : 1 ≤ cur := by omega
      have := ih (cur - 1) fuel (by omega) (by omega) (by omega) (by omega)
      simp only [drain, next, u32_small cur hcur, lessFn, hlt, decide_false, Bool.false_eq_true, if_false, if_true]
      rw [show ((cur : Int) - 1) = ((cur - 1 : Nat) : Int) by omega, this]
      rw [List.range'_concat, List.reverse_append]
      simp
      omega

/-- **Inside the uint32 range the Go node ends and yields `rangeNode`**: descending needs `1 ≤ minVal` (below it
`cur` reaches -1 = MaxUint32), ascending needs `maxVal < MaxUint32` (above it `cur` reaches 2^32 = 0). -/
theorem drain_eq_rangeNode (rev : Bool) (lo hi : Nat) (h1 : 1 ≤ lo) (h2 : hi < maxU32) (h3 : lo ≤ maxU32) :
    drain rev (newRange rev lo hi).1 (hi + 2) (newRange rev lo hi).2 = (rangeNode rev lo hi, true) := by
  unfold rangeNode newRange
  cases rev
  · simp only [Bool.false_eq_true, if_false]
    by_cases hc : lo ≤ hi + 1
    · exact drain_asc hi h2 (hi + 1 - lo) lo (hi + 2) rfl hc (by omega)
    · have hz : hi + 1 - lo = 0 := by omega
      have hlt : hi < lo := by omega
      unfold maxU32 at h3
      simp only [hz, drain, next, u32_small lo (by omega), lessFn]
      simp [hlt]
  · simp only [if_true]
    unfold maxU32 at h2
    by_cases hc : lo ≤ hi + 1
    · exact drain_desc lo h1 (hi + 1 - lo) hi (hi + 2) rfl hc (by omega) (by omega)
    · have hz : hi + 1 - lo = 0 := by omega
      have hlt : hi < lo := by omega
      simp only [hz, drain, next, u32_small hi (by omega), lessFn]
      simp [hlt]

/-- the lower border never exceeds `Len()` -/
theorem getLIDsBorders_min_le (from_ to : Nat) (tbl : List ID) : (getLIDsBorders from_ to tbl).1 ≤ tbl.length + 1 := by
  unfold getLIDsBorders
  simp only
  have := binSearchInRange_bounds 1 tbl.length (fun lid => lessOrEqual tbl lid ⟨to, maxU64⟩)
  omega

/-- **The wrap is unreachable from `getLIDsBorders`.**  For every ids table with `Len() = tbl.length + 1 ≤ MaxUint32`
(LIDs are uint32 and `mergeSorted` already reserves MaxUint32), every window and both directions, the range node a
NOT creates over the borders ends and yields exactly `rangeNode`. -/
theorem borders_range_terminates (from_ to : Nat) (tbl : List ID) (hlen : tbl.length < maxU32) (rev : Bool) :
    drain rev (newRange rev (getLIDsBorders from_ to tbl).1 (getLIDsBorders from_ to tbl).2).1
        ((getLIDsBorders from_ to tbl).2 + 2)
        (newRange rev (getLIDsBorders from_ to tbl).1 (getLIDsBorders from_ to tbl).2).2 =
      (rangeNode rev (getLIDsBorders from_ to tbl).1 (getLIDsBorders from_ to tbl).2, true) := by
  have hb := getLIDsBorders_range from_ to tbl
  have hm := getLIDsBorders_min_le from_ to tbl
  exact drain_eq_rangeNode rev _ _ hb.1 (by omega) (by omega)

/-- outside: ascending up to MaxUint32 keeps going (0, 1, 2 ... after the wrap); descending down to 0 likewise -/
theorem wrap_witness :
    drain false maxU32 4 (maxU32 : Int) = ([maxU32, 0, 1, 2], false) ∧
    drain true 0 3 (1 : Int) = ([1, 0, maxU32], false) := by
  constructor <;> decide

end SV.RangeGo
