import SeqVerif.Model.FetchIDs
/-!
# C04 - the time range of an active fraction (`frac/meta_data_collector.go: Filter`, `frac/active.go: UpdateStats`)

`groupIDsByFraction` asks a fraction only for IDs whose timestamp lies in `[Info.From, Info.To]`, so the fetch is
right only if that range covers every stored ID.  For a bulk in which some IDs were already stored (a retried
bulk) the collector recomputes `MinMID` / `MaxMID` over the really appended IDs (`Filter`), and `UpdateStats`
widens the fraction's range with them.
-/
namespace SV.Fetch

/-- `getIndexesOfIntercept(c.IDs, appended)` + the loop of `Filter`: the collector's IDs that were appended, in the
collector's order -/
def keptIDs (ids appended : List ID) : List ID := ids.filter fun i => appended.contains i

/-- the `MinMID` / `MaxMID` part of `Filter`: two independent comparisons per kept ID, starting from
(`math.MaxUint64`, 0) -/
def filterStats (ids appended : List ID) : Nat × Nat :=
  (keptIDs ids appended).foldl
    (fun s i => (if i.mid < s.1 then i.mid else s.1, if i.mid > s.2 then i.mid else s.2))
    (18446744073709551615, 0)

/-- `Active.UpdateStats` on `(From, To)` -/
def updateStats (range : Nat × Nat) (mm : Nat × Nat) : Nat × Nat :=
  (if range.1 > mm.1 then mm.1 else range.1, if range.2 < mm.2 then mm.2 else range.2)

theorem foldStats_bounds (l : List ID) (s : Nat × Nat) :
    let r := l.foldl (fun s i => (if i.mid < s.1 then i.mid else s.1, if i.mid > s.2 then i.mid else s.2)) s
    r.1 ≤ s.1 ∧ s.2 ≤ r.2 ∧ ∀ i, i ∈ l → r.1 ≤ i.mid ∧ i.mid ≤ r.2 := by
  induction l generalizing s with
  | nil => exact ⟨Nat.le_refl _, Nat.le_refl _, fun i hi => by cases hi⟩
  | cons x t ih =>
    simp only [List.foldl_cons]
    have ha : (if x.mid < s.1 then x.mid else s.1) ≤ s.1 ∧ (if x.mid < s.1 then x.mid else s.1) ≤ x.mid := by
      split <;> omega
    have hb : s.2 ≤ (if x.mid > s.2 then x.mid else s.2) ∧ x.mid ≤ (if x.mid > s.2 then x.mid else s.2) := by
      split <;> omega
    generalize (if x.mid < s.1 then x.mid else s.1) = a at ha ⊢
    generalize (if x.mid > s.2 then x.mid else s.2) = b at hb ⊢
    have h := ih (a, b)
    dsimp only at h ⊢
    obtain ⟨h1, h2, h3⟩ := h
    refine ⟨by omega, by omega, fun i hi => ?_⟩
    rcases List.mem_cons.mp hi with rfl | hm
    · exact ⟨by omega, by omega⟩
    · exact h3 i hm

/-- **the recomputed range covers every appended ID, in whatever order the bulk lists them** -/
theorem filterStats_covers (ids appended : List ID) (i : ID) (hi : i ∈ ids) (ha : i ∈ appended) :
    (filterStats ids appended).1 ≤ i.mid ∧ i.mid ≤ (filterStats ids appended).2 := by
  have h := (foldStats_bounds (keptIDs ids appended) (18446744073709551615, 0)).2.2 i
    (by unfold keptIDs; exact List.mem_filter.mpr ⟨hi, by simpa using ha⟩)
  exact h

/-- **and so does the fraction's range after `UpdateStats`; what was covered before stays covered** -/
theorem updateStats_covers (range : Nat × Nat) (ids appended : List ID) :
    (∀ i, i ∈ ids → i ∈ appended →
      (updateStats range (filterStats ids appended)).1 ≤ i.mid ∧ i.mid ≤ (updateStats range (filterStats ids appended)).2) ∧
    (∀ m, range.1 ≤ m → m ≤ range.2 →
      (updateStats range (filterStats ids appended)).1 ≤ m ∧ m ≤ (updateStats range (filterStats ids appended)).2) := by
  unfold updateStats
  refine ⟨fun i hi ha => ?_, fun m h1 h2 => ?_⟩
  · have := filterStats_covers ids appended i hi ha
    dsimp only
    constructor
    · split <;> omega
    · split <;> omega
  · dsimp only
    constructor
    · split <;> omega
    · split <;> omega

end SV.Fetch
