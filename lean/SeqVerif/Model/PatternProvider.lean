import SeqVerif.Model.PatternNarrow
/-!
# token.Provider.GetToken reads the concatenated dictionary (C13)

For entries laid out consecutively from TID `base` over non-empty runs `blocks`, `GetToken tid` (with any valid
cached block index) is `blocks.flatten[tid - base]`: the real ordered provider is the abstract provider
`⟨base, blocks.flatten, true⟩` used by the search theorems.
-/
namespace SV.Pattern
open SV

/-- number of tokens in the first `i` runs -/
def pre (blocks : List (List Bytes)) (i : Nat) : Nat := ((blocks.take i).map List.length).sum

theorem pre_zero (blocks : List (List Bytes)) : pre blocks 0 = 0 := by simp [pre]

theorem pre_cons_succ (b : List Bytes) (bs : List (List Bytes)) (i : Nat) :
    pre (b :: bs) (i + 1) = b.length + pre bs i := by simp [pre]

theorem pre_succ (blocks : List (List Bytes)) (j : Nat) (hj : j < blocks.length) :
    pre blocks (j + 1) = pre blocks j + (blocks.getD j []).length := by
  induction blocks generalizing j with
  | nil => simp at hj
  | cons b bs ih =>
    cases j with
    | zero => simp [pre]
    | succ j =>
      rw [pre_cons_succ, pre_cons_succ, ih j (by simpa using hj)]
      simp [Nat.add_assoc]

theorem pre_mono (blocks : List (List Bytes)) {i j : Nat} (hij : i ≤ j) (hj : j ≤ blocks.length) :
    pre blocks i ≤ pre blocks j := by
  induction j with
  | zero => have : i = 0 := by omega
            subst this; exact Nat.le_refl _
  | succ j ih =>
    by_cases h : i = j + 1
    · subst h; exact Nat.le_refl _
    · have := ih (by omega) (by omega)
      rw [pre_succ blocks j (by omega)]; omega

theorem pre_length (blocks : List (List Bytes)) : pre blocks blocks.length = blocks.flatten.length := by
  simp [pre, List.length_flatten]

theorem mkEntries_length (base : Nat) (blocks : List (List Bytes)) : (mkEntries base blocks).length = blocks.length := by
  induction blocks generalizing base with
  | nil => rfl
  | cons b bs ih => simp [mkEntries, ih]

theorem mkEntries_getD (base : Nat) (blocks : List (List Bytes)) (i : Nat) (hi : i < blocks.length) :
    (mkEntries base blocks).getD i ⟨0, 0⟩ = ⟨base + pre blocks i, (blocks.getD i []).length⟩ := by
  induction blocks generalizing base i with
  | nil => simp at hi
  | cons b bs ih =>
    cases i with
    | zero => simp [mkEntries, pre]
    | succ i =>
      simp only [mkEntries, List.getD_cons_succ]
      rw [ih (base + b.length) i (by simpa using hi), pre_cons_succ]
      simp [Nat.add_assoc]

theorem flatten_getD (blocks : List (List Bytes)) (j k : Nat) (hj : j < blocks.length)
    (h1 : pre blocks j ≤ k) (h2 : k < pre blocks (j + 1)) :
    blocks.flatten.getD k [] = (blocks.getD j []).getD (k - pre blocks j) [] := by
  induction blocks generalizing j k with
  | nil => simp at hj
  | cons b bs ih =>
    cases j with
    | zero =>
      rw [pre_cons_succ, pre_zero] at h2
      simp only [List.flatten_cons, pre_zero, Nat.sub_zero, List.getD_cons_zero]
      simp only [List.getD_eq_getElem?_getD]
      rw [List.getElem?_append_left (by omega)]
    | succ j =>
      rw [pre_cons_succ] at h1
      rw [pre_cons_succ] at h2
      simp only [List.flatten_cons, List.getD_cons_succ]
      have := ih j (k - b.length) (by simpa using hj) (by omega) (by rw [pre_succ bs j (by simpa using hj)] at *; omega)
      rw [pre_cons_succ]
      rw [show k - (b.length + pre bs j) = k - b.length - pre bs j by omega, ← this]
      simp only [List.getD_eq_getElem?_getD]
      rw [List.getElem?_append_right (by omega)]

theorem locate (blocks : List (List Bytes)) (k : Nat) (hk : k < blocks.flatten.length) :
    ∃ j, j < blocks.length ∧ pre blocks j ≤ k ∧ k < pre blocks (j + 1) := by
  induction blocks generalizing k with
  | nil => simp at hk
  | cons b bs ih =>
    by_cases h : k < b.length
    · exact ⟨0, by simp, by simp [pre], by rw [pre_cons_succ, pre_zero]; omega⟩
    · have hk' : k - b.length < bs.flatten.length := by
        rw [List.flatten_cons, List.length_append] at hk; omega
      obtain ⟨j, hj, h1, h2⟩ := ih (k - b.length) hk'
      refine ⟨j + 1, by simpa using hj, ?_, ?_⟩
      · rw [pre_cons_succ]; omega
      · rw [pre_cons_succ]; omega

/-- **`Provider.GetToken` = indexing the concatenated dictionary**, whatever valid block is cached -/
theorem providerGetToken_eq (base : Nat) (blocks : List (List Bytes)) (hne : ∀ b ∈ blocks, b ≠ [])
    (cur : Option Nat) (hcur : ∀ c, cur = some c → c < blocks.length)
    (tid : Nat) (h1 : base ≤ tid) (h2 : tid < base + blocks.flatten.length) :
    (providerGetToken (mkEntries base blocks) blocks cur tid).1 = blocks.flatten.getD (tid - base) [] ∧
    ∃ j, (providerGetToken (mkEntries base blocks) blocks cur tid).2 = some j ∧ j < blocks.length := by
  obtain ⟨k, rfl⟩ : ∃ k, tid = base + k := ⟨tid - base, by omega⟩
  have hk : k < blocks.flatten.length := by omega
  obtain ⟨j, hj, hj1, hj2⟩ := locate blocks k hk
  have hlen : ∀ i, i < blocks.length → 1 ≤ (blocks.getD i []).length := by
    intro i hi
    have hmem : blocks.getD i [] ∈ blocks := by
      rw [List.getD_eq_getElem?_getD, List.getElem?_eq_getElem hi]; exact List.getElem_mem hi
    have := hne _ hmem
    exact List.length_pos_iff.mpr this
  -- the interval test of entry i
  have hin : ∀ i, i < blocks.length →
      (((mkEntries base blocks).getD i ⟨0, 0⟩).checkTIDInBlock (base + k) = true ↔ pre blocks i ≤ k ∧ k < pre blocks (i + 1)) := by
    intro i hi
    rw [mkEntries_getD base blocks i hi]
    have hl := hlen i hi
    have hs := pre_succ blocks i hi
    generalize (blocks.getD i []).length = L at *
    simp only [Entry.checkTIDInBlock, Entry.lastTID]
    by_cases ha : base + k < base + pre blocks i
    · simp [ha]; omega
    · by_cases hb : base + k > base + pre blocks i + L - 1
      · simp [ha, hb]; omega
      · simp [ha, hb]; omega
  have huniq : ∀ i, i < blocks.length → pre blocks i ≤ k → k < pre blocks (i + 1) → i = j := by
    intro i hi a b
    by_cases hlt : i < j
    · have := pre_mono blocks (show i + 1 ≤ j by omega) (by omega); omega
    · by_cases hgt : j < i
      · have := pre_mono blocks (show j + 1 ≤ i by omega) (by omega); omega
      · omega
  -- the binary search finds j
  let f : Nat → Bool := fun i => decide (base + k ≤ ((mkEntries base blocks).getD i ⟨0, 0⟩).lastTID)
  have hf : ∀ i, i < blocks.length → (f i = true ↔ k < pre blocks (i + 1)) := by
    intro i hi
    simp only [f, decide_eq_true_eq, mkEntries_getD base blocks i hi, Entry.lastTID]
    have := hlen i hi
    have hs := pre_succ blocks i hi
    omega
  have hmono : Mono f 0 blocks.length := by
    intro a b _ hab hb hfa
    rw [hf a (by omega)] at hfa
    rw [hf b hb]
    have := pre_mono blocks (show a + 1 ≤ b + 1 by omega) (by omega)
    omega
  obtain ⟨hr, hbelow, habove⟩ := searchGo_least f blocks.length hmono
  have hslow : searchGo f 0 blocks.length = j := by
    generalize searchGo f 0 blocks.length = r at *
    have hfj : f j = true := (hf j hj).mpr hj2
    have hrj : r ≤ j := by
      by_cases h : r ≤ j
      · exact h
      · have := hbelow j (by omega); rw [hfj] at this; simp at this
    by_cases h : r = j
    · exact h
    · have hrlt : r < j := by omega
      have h3 := habove r (Nat.le_refl _) (by omega)
      rw [hf r (by omega)] at h3
      have := pre_mono blocks (show r + 1 ≤ j by omega) (by omega)
      omega
  have hfind : findBlock (mkEntries base blocks) cur (base + k) = j := by
    simp only [findBlock, mkEntries_length]
    cases cur with
    | none => exact hslow
    | some c =>
      have hc := hcur c rfl
      simp only
      split
      · rename_i hchk
        have := (hin c hc).mp hchk
        exact huniq c hc this.1 this.2
      · exact hslow
  simp only [providerGetToken, hfind]
  refine ⟨?_, j, rfl, hj⟩
  rw [mkEntries_getD base blocks j hj]
  simp only [Nat.add_sub_cancel_left]
  rw [flatten_getD blocks j k hj hj1 hj2]
  congr 1; omega

/-- a whole sequence of `GetToken` calls (as made by `Narrow` and the `Search` loop) reads the flat dictionary -/
theorem providerGetTokens_eq (base : Nat) (blocks : List (List Bytes)) (hne : ∀ b ∈ blocks, b ≠ [])
    (tids : List Nat) (hr : ∀ t ∈ tids, base ≤ t ∧ t < base + blocks.flatten.length)
    (cur : Option Nat) (hcur : ∀ c, cur = some c → c < blocks.length) :
    providerGetTokens (mkEntries base blocks) blocks cur tids = tids.map fun t => blocks.flatten.getD (t - base) [] := by
  induction tids generalizing cur with
  | nil => rfl
  | cons t ts ih =>
    have ht := hr t (List.mem_cons_self ..)
    obtain ⟨h1, j, h2, h3⟩ := providerGetToken_eq base blocks hne cur hcur t ht.1 ht.2
    simp only [providerGetTokens, List.map_cons, h1]
    congr 1
    apply ih (fun t' ht' => hr t' (List.mem_cons_of_mem _ ht'))
    intro c hc
    rw [h2] at hc
    simp only [Option.some.injEq] at hc
    omega

end SV.Pattern
