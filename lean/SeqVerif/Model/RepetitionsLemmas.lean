import SeqVerif.Model.Repetitions
/-!
Lemmas about `removeRepetitionsAdvanced` (C17): on a list in which equal ids are adjacent (sorted by any
antisymmetric relation) the loop keeps exactly one entry per id, reports the number of dropped entries and
takes each dropped entry out of its histogram bucket.
-/
namespace SV.Repetitions

theorem inBucket_cons (iv : Nat) (x : IDSource) (xs : List IDSource) (k : Nat) :
    inBucket iv (x :: xs) k = inBucket iv xs k + (if bucketOf x.1 iv = k then 1 else 0) := by
  unfold inBucket
  by_cases h : bucketOf x.1 iv = k <;> simp [h]

theorem dec64_pos (v : Nat) (h1 : 1 ≤ v) (h2 : v < two64) : dec64 v = v - 1 := by
  unfold dec64 two64 at *
  omega

theorem removeLoop_keep (iv : Nat) (last x : IDSource) (xs : List IDSource) (h : Hist) (hne : last.1 ≠ x.1) :
    removeLoop iv last (x :: xs) h
      = (x :: (removeLoop iv x xs h).1, (removeLoop iv x xs h).2.1, (removeLoop iv x xs h).2.2) := by
  rw [removeLoop, if_pos hne]

theorem removeLoop_drop (iv : Nat) (last x : IDSource) (xs : List IDSource) (h : Hist) (heq : last.1 = x.1) :
    removeLoop iv last (x :: xs) h
      = ((removeLoop iv last xs (if iv > 0 then histDec h (bucketOf last.1 iv) else h)).1,
         (removeLoop iv last xs (if iv > 0 then histDec h (bucketOf last.1 iv) else h)).2.1 + 1,
         (removeLoop iv last xs (if iv > 0 then histDec h (bucketOf last.1 iv) else h)).2.2) := by
  rw [removeLoop, if_neg (fun hh => hh heq)]

theorem removeLoop_spec (r : ID → ID → Prop) (hanti : ∀ a b, r a b → r b a → a = b) (iv : Nat)
    (last : IDSource) (xs : List IDSource) (h : Hist) (hp : (last.1 :: xs.map (·.1)).Pairwise r) :
    (∀ y ∈ (removeLoop iv last xs h).1, y.1 ≠ last.1) ∧
    ((removeLoop iv last xs h).1.map (·.1)).Nodup ∧
    (∀ i, i ∈ (removeLoop iv last xs h).1.map (·.1) ↔ (i ∈ xs.map (·.1) ∧ i ≠ last.1)) ∧
    (removeLoop iv last xs h).1.length + (removeLoop iv last xs h).2.1 = xs.length ∧
    (removeLoop iv last xs h).1.Sublist xs := by
  induction xs generalizing last h with
  | nil => simp [removeLoop]
  | cons x xs ih =>
    have hp' := List.pairwise_cons.mp hp
    have hpx : (x.1 :: xs.map (·.1)).Pairwise r := by
      simpa using hp'.2
    by_cases hne : last.1 ≠ x.1
    · obtain ⟨i1, i2, i3, i4, i5⟩ := ih x h hpx
      rw [removeLoop_keep iv last x xs h hne]
      have hx' := List.pairwise_cons.mp hpx
      refine ⟨?_, ?_, ?_, ?_, ?_⟩
      · intro y hy
        rcases List.mem_cons.mp hy with rfl | hy
        · exact fun hh => hne hh.symm
        · intro hyl
          have hyx : y.1 ∈ xs.map (·.1) := ((i3 y.1).mp (List.mem_map_of_mem hy)).1
          have r1 : r last.1 x.1 := hp'.1 x.1 (by simp)
          have r2 : r x.1 y.1 := hx'.1 y.1 hyx
          rw [hyl] at r2
          exact hne (hanti _ _ r1 r2)
      · simp only [List.map_cons, List.nodup_cons]
        refine ⟨?_, i2⟩
        intro hm
        obtain ⟨y, hy, hyx⟩ := List.mem_map.mp hm
        exact i1 y hy hyx
      · intro i
        simp only [List.map_cons, List.mem_cons, i3 i]
        constructor
        · rintro (rfl | ⟨h1, h2⟩)
          · exact ⟨Or.inl rfl, fun hh => hne hh.symm⟩
          · refine ⟨Or.inr h1, ?_⟩
            intro hil
            have r1 : r last.1 x.1 := hp'.1 x.1 (by simp)
            have r2 : r x.1 i := hx'.1 i h1
            rw [hil] at r2
            exact hne (hanti _ _ r1 r2)
        · rintro ⟨h1 | h1, h2⟩
          · exact Or.inl h1
          · by_cases hix : i = x.1
            · exact Or.inl hix
            · exact Or.inr ⟨h1, hix⟩
      · simp only [List.length_cons]; omega
      · exact List.Sublist.cons_cons x i5
    · have heq : last.1 = x.1 := by
        by_cases hh : last.1 = x.1
        · exact hh
        · exact absurd hh hne
      have hpl : (last.1 :: xs.map (·.1)).Pairwise r := by
        rw [heq]; exact hpx
      obtain ⟨i1, i2, i3, i4, i5⟩ := ih last (if iv > 0 then histDec h (bucketOf last.1 iv) else h) hpl
      rw [removeLoop_drop iv last x xs h heq]
      refine ⟨i1, i2, ?_, ?_, ?_⟩
      · intro i
        rw [i3 i]
        simp only [List.map_cons, List.mem_cons]
        constructor
        · rintro ⟨h1, h2⟩; exact ⟨Or.inr h1, h2⟩
        · rintro ⟨h1 | h1, h2⟩
          · exact absurd (h1.trans heq.symm) h2
          · exact ⟨h1, h2⟩
      · simp only [List.length_cons]; omega
      · exact List.Sublist.cons x i5

/-- the histogram after the loop: every dropped entry left its bucket (no `uint64` wrap when the histogram covers
the entries, which holds for partial results: a fraction's histogram counts every id it lists) -/
theorem removeLoop_hist (iv : Nat) (hiv : 0 < iv) (last : IDSource) (xs : List IDSource) (h : Hist)
    (hcov : ∀ k, inBucket iv xs k ≤ h k) (hlt : ∀ k, h k < two64) (k : Nat) :
    (removeLoop iv last xs h).2.2 k + inBucket iv xs k = h k + inBucket iv (removeLoop iv last xs h).1 k := by
  induction xs generalizing last h with
  | nil => simp [removeLoop, inBucket]
  | cons x xs ih =>
    have hc' : ∀ k, inBucket iv xs k ≤ h k := by
      intro k'
      have := hcov k'
      rw [inBucket_cons] at this
      omega
    by_cases hne : last.1 ≠ x.1
    · rw [removeLoop_keep iv last x xs h hne]
      have := ih x h hc' hlt
      show (removeLoop iv x xs h).2.2 k + inBucket iv (x :: xs) k = h k + inBucket iv (x :: (removeLoop iv x xs h).1) k
      rw [inBucket_cons, inBucket_cons]
      omega
    · have heq : last.1 = x.1 := by
        by_cases hh : last.1 = x.1
        · exact hh
        · exact absurd hh hne
      rw [removeLoop_drop iv last x xs h heq]
      simp only [hiv, if_true]
      have hb : bucketOf last.1 iv = bucketOf x.1 iv := by rw [heq]
      have hcovb := hcov (bucketOf x.1 iv)
      rw [inBucket_cons] at hcovb
      simp only [if_true] at hcovb
      have hc2 : ∀ k, inBucket iv xs k ≤ histDec h (bucketOf last.1 iv) k := by
        intro k'
        unfold histDec
        by_cases hk : k' = bucketOf last.1 iv
        · subst hk
          simp only [if_true]
          rw [hb, dec64_pos _ (by omega) (hlt _)]
          omega
        · simp only [hk, if_false]; exact hc' k'
      have hl2 : ∀ k, histDec h (bucketOf last.1 iv) k < two64 := by
        intro k'
        unfold histDec
        by_cases hk : k' = bucketOf last.1 iv
        · subst hk
          simp only [if_true]
          rw [hb, dec64_pos _ (by omega) (hlt _)]
          have := hlt (bucketOf x.1 iv)
          omega
        · simp only [hk, if_false]; exact hlt k'
      have := ih last (histDec h (bucketOf last.1 iv)) hc2 hl2
      show (removeLoop iv last xs (histDec h (bucketOf last.1 iv))).2.2 k + inBucket iv (x :: xs) k
        = h k + inBucket iv (removeLoop iv last xs (histDec h (bucketOf last.1 iv))).1 k
      rw [inBucket_cons]
      by_cases hk : bucketOf x.1 iv = k
      · have hd : histDec h (bucketOf last.1 iv) k = h k - 1 := by
          unfold histDec
          rw [hb, hk]
          simp only [if_true]
          exact dec64_pos _ (by rw [← hk]; omega) (hlt _)
        have hk1 : 1 ≤ h k := by rw [← hk]; omega
        simp only [hk, if_true]
        omega
      · have hd : histDec h (bucketOf last.1 iv) k = h k := by
          unfold histDec
          rw [hb]
          have : ¬ k = bucketOf x.1 iv := fun hh => hk hh.symm
          simp [this]
        simp only [hk, if_false]
        omega

theorem removeLoop_hist0 (last : IDSource) (xs : List IDSource) (h : Hist) : (removeLoop 0 last xs h).2.2 = h := by
  induction xs generalizing last h with
  | nil => rfl
  | cons x xs ih =>
    by_cases hne : last.1 ≠ x.1
    · rw [removeLoop_keep 0 last x xs h hne]; exact ih x h
    · have heq : last.1 = x.1 := by
        by_cases hh : last.1 = x.1
        · exact hh
        · exact absurd hh hne
      rw [removeLoop_drop 0 last x xs h heq]; exact ih last h

/-- ascending / descending id order as a relation on ids -/
def idRel (asc : Bool) (a b : ID) : Prop :=
  if asc then (a.1 < b.1 ∨ (a.1 = b.1 ∧ a.2 ≤ b.2)) else (b.1 < a.1 ∨ (a.1 = b.1 ∧ b.2 ≤ a.2))

theorem idRel_antisymm (asc : Bool) (a b : ID) (h1 : idRel asc a b) (h2 : idRel asc b a) : a = b := by
  obtain ⟨a1, a2⟩ := a
  obtain ⟨b1, b2⟩ := b
  cases asc <;> simp only [idRel, Bool.false_eq_true, if_false, if_true] at h1 h2 <;>
    (have : a1 = b1 ∧ a2 = b2 := by omega) <;> simp [this.1, this.2]

end SV.Repetitions
