/-!
# Model of `seq/qpr.go`: `removeRepetitionsAdvanced`, `removeHistogramRepetition`, the id/total/histogram part of
`MergeQPRs` (C17: a repeat that landed in another fraction is listed once after the merge)

* an `IDSource` is `(id, source)` with `id = (MID, RID)`;
* the histogram (`map[MID]uint64`) is a function `bucket -> count`; `histogram[bucket]--` is the `uint64` decrement;
* `sort.Sort` is not stable: which of two equal ids comes first is not determined by the code, so the model sorts
  with `List.mergeSort` and theorems / harness only talk about ids, never about the surviving source.
Core-only.
-/
namespace SV.Repetitions

abbrev ID := Nat × Nat
abbrev IDSource := ID × Nat
abbrev Hist := Nat → Nat

def two64 : Nat := 18446744073709551616

/-- `x--` on a `uint64` -/
def dec64 (v : Nat) : Nat := (v + (two64 - 1)) % two64

/-- `removeHistogramRepetition`: `bucket := mid - mid % interval; histogram[bucket]--` -/
def bucketOf (id : ID) (interval : Nat) : Nat := id.1 - id.1 % interval

def histDec (h : Hist) (b : Nat) : Hist := fun k => if k = b then dec64 (h k) else h k

/-- the loop of `removeRepetitionsAdvanced` from index 1 on: `last` is `lastID`; returns the kept entries, the
number of removed ones and the corrected histogram -/
def removeLoop (interval : Nat) : IDSource → List IDSource → Hist → List IDSource × Nat × Hist
  | _, [], h => ([], 0, h)
  | last, x :: xs, h =>
    if last.1 ≠ x.1 then
      let r := removeLoop interval x xs h
      (x :: r.1, r.2.1, r.2.2)
    else
      let r := removeLoop interval last xs (if interval > 0 then histDec h (bucketOf last.1 interval) else h)
      (r.1, r.2.1 + 1, r.2.2)

/-- `removeRepetitionsAdvanced(ids, histogram, histInterval)` -/
def removeRepetitions (ids : List IDSource) (h : Hist) (interval : Nat) : List IDSource × Nat × Hist :=
  match ids with
  | [] => ([], 0, h)
  | x :: xs => let r := removeLoop interval x xs h; (x :: r.1, r.2.1, r.2.2)

/-- `seq.Less` / its reverse as a total preorder for sorting (`asc = order.IsReverse()`) -/
def idLe (asc : Bool) (a b : IDSource) : Bool :=
  if asc then (a.1.1 < b.1.1 || (a.1.1 == b.1.1 && a.1.2 ≤ b.1.2))
  else (b.1.1 < a.1.1 || (a.1.1 == b.1.1 && b.1.2 ≤ a.1.2))

structure QPR where
  ids : List IDSource
  total : Nat
  hist : List (Nat × Nat)

/-- sum of the partial histograms (`dst.Histogram[time] += count`) -/
def histSum (qs : List QPR) : Hist := fun k => (qs.map fun q => (q.hist.filter (·.1 = k)).foldl (· + ·.2) 0).sum % two64

/-- the id / total / histogram part of `MergeQPRs` into an empty `dst` -/
def mergeQPRs (qs : List QPR) (limit interval : Nat) (asc : Bool) : List IDSource × Nat × Hist :=
  let total := (qs.map (·.total)).sum % two64
  let sorted := (qs.flatMap (·.ids)).mergeSort (fun a b => idLe asc a b)
  let r := removeRepetitions sorted (histSum qs) interval
  (r.1.take limit, (if total > 0 then (total + two64 - r.2.1 % two64) % two64 else total), r.2.2)

/-- number of entries whose bucket is `k` -/
def inBucket (interval : Nat) (ids : List IDSource) (k : Nat) : Nat :=
  (ids.filter fun x => bucketOf x.1 interval == k).length

end SV.Repetitions
