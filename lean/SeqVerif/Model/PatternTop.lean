import SeqVerif.Model.PatternTable
import SeqVerif.Model.PatternGlobProof
/-!
# Putting the pieces together: every search path returns the TIDs of the tokens that glob-match (C13)
-/
namespace SV.Pattern

/-- the declarative answer: TIDs of the dictionary tokens matching the term list as a glob -/
def globTids (terms : List Term) (base : Nat) (dict : List Bytes) : List Nat :=
  (List.range' base dict.length).filter fun tid => globB terms (dict.getD (tid - base) [])

theorem kindOf_literal (pf : Bytes → Option Int) (maxKey : Int) (terms : List Term) :
    match kindOf pf maxKey (.literal terms) with
    | some k => ∀ v, checkTerms terms false v = some (k.check pf v)
    | none => ∀ v, checkTerms terms false v = none := by
  have hw : ∀ ts, (∀ d, ts ≠ [.text d]) →
      (match newWildcardSearch ts with
        | some s => ∀ v, (newWildcardSearch ts).map (fun s => ({ s with narrowed := false } : Wild).check v) = some (s.check v)
        | none => ∀ v, (newWildcardSearch ts).map (fun s => ({ s with narrowed := false } : Wild).check v) = none) := by
    intro ts _
    cases h : newWildcardSearch ts with
    | none => intro v; rfl
    | some s =>
      intro v
      have hn : s.narrowed = false := by
        simp only [newWildcardSearch] at h
        split at h
        · simp at h
        · split at h
          · simp at h
          · simp only [Option.some.injEq] at h; rw [← h]
      have : ({ s with narrowed := false } : Wild) = s := by cases s; simp at hn; simp [hn]
      simp [this]
  match terms with
  | [.text d] => simp [kindOf, newSearcher, checkTerms, Kind.check]
  | [] => simp [kindOf, newSearcher, checkTerms, newWildcardSearch]
  | [.star] =>
    have := hw [.star] (by simp)
    simp only [kindOf, newSearcher, checkTerms]
    cases h : newWildcardSearch [.star] with
    | none => simp
    | some s => rw [h] at this; simpa [Kind.check] using this
  | t0 :: t1 :: rest =>
    have := hw (t0 :: t1 :: rest) (by simp)
    simp only [kindOf, newSearcher, checkTerms]
    cases h : newWildcardSearch (t0 :: t1 :: rest) with
    | none => simp
    | some s => rw [h] at this; simpa [Kind.check] using this

theorem search_eq_globTids (pf : Bytes → Option Int) (maxKey : Int) (terms : List Term) (hwf : WF terms)
    (base : Nat) (dict : List Bytes) :
    search pf maxKey (.literal terms) ⟨base, dict, false⟩ = some (globTids terms base dict) := by
  rw [search_unordered]
  have hk := kindOf_literal pf maxKey terms
  cases h : kindOf pf maxKey (.literal terms) with
  | none =>
    rw [h] at hk
    obtain ⟨b, hb, _⟩ := checkTerms_iff_glob terms hwf []
    rw [hk []] at hb; simp at hb
  | some k =>
    rw [h] at hk
    simp only [Option.map_some, Option.some.injEq, scanFrom, globTids]
    apply List.filter_congr
    intro t _
    obtain ⟨b, hb, hbg⟩ := checkTerms_iff_glob terms hwf (dict.getD (t - base) [])
    rw [hk] at hb
    simp only [Option.some.injEq] at hb
    rw [hb, Bool.eq_iff_iff, hbg, globB_iff]

end SV.Pattern
