import SeqVerif.Model.PatternTable
import SeqVerif.Model.PatternGlobProof
/-!
# Putting the pieces together: every search path returns the TIDs of the tokens that glob-match (C13)
-/
namespace SV.Pattern

/-- the declarative answer: TIDs of the dictionary tokens matching the term list as a glob -/
def globTids (terms : List Term) (base : Nat) (dict : List Bytes) : List Nat :=
  (List.range' base dict.length).filter fun tid => globB terms (dict.getD (tid - base) [])

theorem kindOf_literal (pf : Bytes → Option Int) (maxKey : Int) (terms : List Term) :
    match kindOf pf maxKey (.literal terms) with
    | some k => ∀ v, checkTerms terms false v = some (k.check pf v)
    | none => ∀ v, checkTerms terms false v = none := by
  have hw : ∀ ts, (∀ d, ts ≠ [.text d]) →
      (match newWildcardSearch ts with
        | some s => ∀ v, (newWildcardSearch ts).map (fun s => ({ s with narrowed := false } : Wild).check v) = some (s.check v)
        | none => ∀ v, (newWildcardSearch ts).map (fun s => ({ s with narrowed := false } : Wild).check v) = none) := by
    intro ts _
    cases h : newWildcardSearch ts with
    | none => intro v; rfl
    | some s =>
      intro v
      have hn : s.narrowed = false := by
        simp only [newWildcardSearch] at h
        split at h
        · simp at h
        · split at h
          · simp at h
          · simp only [Option.some.injEq] at h; rw [← h]
      have : ({ s with narrowed := false } : Wild) = s := by cases s; simp at hn; simp [hn]
      simp [this]
  match terms with
  | [.text d] => simp [kindOf, newSearcher, checkTerms, Kind.check]
  | [] => simp [kindOf, newSearcher, checkTerms, newWildcardSearch]
  | [.star] =>
    have := hw [.star] (by simp)
    simp only [kindOf, newSearcher, checkTerms]
    cases h : newWildcardSearch [.star] with
    | none => simp
    | some s => rw [h] at this; simpa [Kind.check] using this
  | t0 :: t1 :: rest =>
    have := hw (t0 :: t1 :: rest) (by simp)
    simp only [kindOf, newSearcher, checkTerms]
    cases h : newWildcardSearch (t0 :: t1 :: rest) with
    | none => simp
    | some s => rw [h] at this; simpa [Kind.check] using this

theorem search_eq_globTids (pf : Bytes → Option Int) (maxKey : Int) (terms : List Term) (hwf : WF terms)
    (base : Nat) (dict : List Bytes) :
    search pf maxKey (.literal terms) ⟨base, dict, false⟩ = some (globTids terms base dict) := by
  rw [search_unordered]
  have hk := kindOf_literal pf maxKey terms
  cases h : kindOf pf maxKey (.literal terms) with
  | none =>
    rw [h] at hk
    obtain ⟨b, hb, _⟩ := checkTerms_iff_glob terms hwf []
    rw [hk []] at hb; simp at hb
  | some k =>
    rw [h] at hk
    simp only [Option.map_some, Option.some.injEq, scanFrom, globTids]
    apply List.filter_congr
    intro t _
    obtain ⟨b, hb, hbg⟩ := checkTerms_iff_glob terms hwf (dict.getD (t - base) [])
    rw [hk] at hb
    simp only [Option.some.injEq] at hb
    rw [hb, Bool.eq_iff_iff, hbg, globB_iff]

theorem filter_map_positions (P : Bytes → Bool) (entries : List (Nat × Bytes)) (b : Nat) :
    ((List.range' b entries.length).filter fun tid => P ((entries.map (·.2)).getD (tid - b) [])).map
      (fun p => (entries.getD (p - b) (0, [])).1) = (entries.filter fun e => P e.2).map (·.1) := by
  induction entries generalizing b with
  | nil => simp
  | cons e es ih =>
    have htail : ((List.range' (b + 1) es.length).filter fun tid => P (((e :: es).map (·.2)).getD (tid - b) [])).map
        (fun p => ((e :: es).getD (p - b) (0, [])).1) = (es.filter fun e => P e.2).map (·.1) := by
      rw [← ih (b + 1)]
      have hc : ∀ t, t ∈ List.range' (b + 1) es.length → t - b = (t - (b + 1)) + 1 := by
        intro t ht; rw [List.mem_range'_1] at ht; omega
      rw [List.filter_congr (q := fun tid => P ((es.map (·.2)).getD (tid - (b + 1)) []))]
      · apply List.map_congr_left
        intro t ht
        have ht' := (List.mem_filter.mp ht).1
        rw [hc t ht']; simp
      · intro t ht
        rw [hc t ht]; simp
    simp only [List.map_cons] at htail
    simp only [List.length_cons, List.range'_succ, List.filter_cons]
    by_cases hp : P e.2 = true
    · simp only [Nat.sub_self, List.map_cons, List.getD_cons_zero, hp, if_true]
      rw [htail]
    · simp only [Nat.sub_self, List.map_cons, List.getD_cons_zero, hp, if_false, Bool.false_eq_true]
      rw [htail]

theorem activeFind_eq_glob (pf : Bytes → Option Int) (maxKey : Int) (terms : List Term) (hwf : WF terms)
    (entries : List (Nat × Bytes)) :
    activeFind pf maxKey (.literal terms) entries = some ((entries.filter fun e => globB terms e.2).map (·.1)) := by
  simp only [activeFind, search_eq_globTids pf maxKey terms hwf, Option.map_some, Option.some.injEq, globTids,
    List.length_map]
  exact filter_map_positions (globB terms) entries 1

end SV.Pattern
