/-!
# `seq.ID.String()` / `seq.FromString` - the textual document ID of the public API (`seq/seq.go`)

`ID.Bytes`: `hex(littleEndian8(MID)) ++ "-" ++ hex(littleEndian8(RID))`, 33 bytes, lower-case digits.
`FromString`: the length must be 33; `hex.DecodeString(x[:16])`, `hex.DecodeString(x[17:])` (either case of a digit is
accepted), little-endian back to the two numbers.  The byte at index 16 is not looked at.
Search hands these strings to the client (`proxyapi`: `doc.Id = id.ID.String()`), fetch parses them back
(`proxyapi/grpc_fetch.go: seq.FromString(id)`): "an ID returned by search fetches that document" goes through this pair.
Strings are lists of byte values.  Core-only.
-/
namespace SV.IDStr

/-- `hextable[n]` of encoding/hex: `0123456789abcdef` -/
def hexDigit (n : Nat) : Nat := if n < 10 then 48 + n else 87 + n

def hexByte (b : Nat) : List Nat := [hexDigit (b / 16), hexDigit (b % 16)]

/-- `hex.Encode` -/
def hexEnc (bs : List Nat) : List Nat := bs.flatMap hexByte

/-- `binary.LittleEndian.PutUint64` -/
def le8 (x : Nat) : List Nat :=
  [x % 256, x / 256 % 256, x / 65536 % 256, x / 16777216 % 256, x / 4294967296 % 256, x / 1099511627776 % 256,
   x / 281474976710656 % 256, x / 72057594037927936 % 256]

/-- `ID.Bytes()` / `ID.String()` -/
def idString (mid rid : Nat) : List Nat := hexEnc (le8 mid) ++ [45] ++ hexEnc (le8 rid)

/-- `fromHexChar` of encoding/hex -/
def unhex (c : Nat) : Option Nat :=
  if 48 ≤ c ∧ c ≤ 57 then some (c - 48)
  else if 97 ≤ c ∧ c ≤ 102 then some (c - 87)
  else if 65 ≤ c ∧ c ≤ 70 then some (c - 55)
  else none

/-- `hex.DecodeString`: `none` = `InvalidByteError` or `ErrLength` -/
def hexDec : List Nat → Option (List Nat)
  | [] => some []
  | [_] => none
  | a :: b :: rest =>
    match unhex a, unhex b, hexDec rest with
    | some x, some y, some r => some ((x * 16 + y) :: r)
    | _, _, _ => none

/-- `binary.LittleEndian.Uint64` -/
def fromLE (bs : List Nat) : Nat := bs.foldr (fun b acc => b + 256 * acc) 0

/-- `seq.FromString` -/
def fromString (x : List Nat) : Option (Nat × Nat) :=
  if x.length ≠ 33 then none
  else
    match hexDec (x.take 16), hexDec (x.drop 17) with
    | some m, some r => some (fromLE m, fromLE r)
    | _, _ => none

theorem unhex_hexDigit : ∀ n, n < 16 → unhex (hexDigit n) = some n := by decide

theorem hexDec_hexByte (b : Nat) (hb : b < 256) (rest : List Nat) :
    hexDec (hexByte b ++ rest) = (hexDec rest).map (b :: ·) := by
  have h1 : b / 16 < 16 := by omega
  have h2 : b % 16 < 16 := by omega
  have h3 : b / 16 * 16 + b % 16 = b := by omega
  simp only [hexByte, List.cons_append, List.nil_append, hexDec, unhex_hexDigit _ h1, unhex_hexDigit _ h2]
  cases hexDec rest with
  | none => rfl
  | some r => simp only [Option.map_some, h3]

theorem hexDec_hexEnc (bs : List Nat) (h : ∀ b, b ∈ bs → b < 256) : hexDec (hexEnc bs) = some bs := by
  induction bs with
  | nil => rfl
  | cons b bs ih =>
    have : hexEnc (b :: bs) = hexByte b ++ hexEnc bs := by simp [hexEnc]
    rw [this, hexDec_hexByte b (h b (by simp)), ih (fun x hx => h x (by simp [hx]))]
    rfl

theorem le8_lt (x : Nat) : ∀ b, b ∈ le8 x → b < 256 := by
  intro b hb
  simp only [le8, List.mem_cons, List.not_mem_nil, or_false] at hb
  omega

theorem fromLE_le8 (x : Nat) (hx : x < 18446744073709551616) : fromLE (le8 x) = x := by
  simp only [fromLE, le8, List.foldr_cons, List.foldr_nil]
  omega

theorem hexEnc_le8_length (x : Nat) : (hexEnc (le8 x)).length = 16 := by
  simp [hexEnc, le8, hexByte]

theorem idString_length (mid rid : Nat) : (idString mid rid).length = 33 := by
  simp [idString, hexEnc_le8_length]

/-- **round trip**: every ID survives `String()` followed by `FromString` -/
theorem fromString_idString (mid rid : Nat) (hm : mid < 18446744073709551616) (hr : rid < 18446744073709551616) :
    fromString (idString mid rid) = some (mid, rid) := by
  have hl := hexEnc_le8_length mid
  have ht : (idString mid rid).take 16 = hexEnc (le8 mid) := by
    unfold idString
    rw [List.append_assoc, List.take_append_of_le_length (by omega), List.take_of_length_le (by omega)]
  have hd : (idString mid rid).drop 17 = hexEnc (le8 rid) := by
    unfold idString
    have : (hexEnc (le8 mid) ++ [45]).length = 17 := by simp [hl]
    rw [← this, List.drop_left]
  unfold fromString
  rw [if_neg (by rw [idString_length]; simp), ht, hd, hexDec_hexEnc _ (le8_lt mid), hexDec_hexEnc _ (le8_lt rid)]
  simp only [fromLE_le8 mid hm, fromLE_le8 rid hr]

/-- distinct IDs have distinct strings -/
theorem idString_injective (m1 r1 m2 r2 : Nat) (h1 : m1 < 18446744073709551616) (h2 : r1 < 18446744073709551616)
    (h3 : m2 < 18446744073709551616) (h4 : r2 < 18446744073709551616) (h : idString m1 r1 = idString m2 r2) :
    m1 = m2 ∧ r1 = r2 := by
  have a := fromString_idString m1 r1 h1 h2
  rw [h, fromString_idString m2 r2 h3 h4] at a
  simp only [Option.some.injEq, Prod.mk.injEq] at a
  exact ⟨a.1.symm, a.2.symm⟩

/-! ## the proxy -> store hop of a fetch: `Ingestor.makeFetchReq` and the store's `extractIDs` -/

/-- an ID with its fraction hint (`seq.IDSource`; the hint is an opaque string) -/
structure IDSrc where
  mid : Nat
  rid : Nat
  hint : List Nat
deriving DecidableEq, Repr

/-- `storeapi.FetchRequest` as far as IDs go: `Ids` and `IdsWithHints` -/
structure FetchReq where
  ids : List (List Nat)
  idsWithHints : List (List Nat × List Nat)
deriving DecidableEq, Repr

/-- `makeFetchReq`: both lists are filled, one entry per ID, in the order given -/
def makeFetchReq (ids : List IDSrc) : FetchReq :=
  ⟨ids.map fun i => idString i.mid i.rid, ids.map fun i => (idString i.mid i.rid, i.hint)⟩

/-- `extractIDsWithHints` / `extractIDsNoHints`: the first text that does not parse fails the whole request -/
def extractWith : List (List Nat × List Nat) → Option (List IDSrc)
  | [] => some []
  | (x, h) :: rest =>
    match fromString x, extractWith rest with
    | some (m, r), some tl => some (⟨m, r, h⟩ :: tl)
    | _, _ => none

def extractNo : List (List Nat) → Option (List IDSrc)
  | [] => some []
  | x :: rest =>
    match fromString x, extractNo rest with
    | some (m, r), some tl => some (⟨m, r, []⟩ :: tl)
    | _, _ => none

/-- `extractIDs`: the hinted list wins when it is not empty -/
def extractIDs (req : FetchReq) : Option (List IDSrc) :=
  if req.idsWithHints.length ≠ 0 then extractWith req.idsWithHints else extractNo req.ids

/-- **the hop is the identity**: the store reads exactly the IDs (and hints) the proxy was asked to fetch, in order -/
theorem extractIDs_makeFetchReq (ids : List IDSrc)
    (h : ∀ i, i ∈ ids → i.mid < 18446744073709551616 ∧ i.rid < 18446744073709551616) :
    extractIDs (makeFetchReq ids) = some ids := by
  have hw : extractWith (ids.map fun i => (idString i.mid i.rid, i.hint)) = some ids := by
    induction ids with
    | nil => rfl
    | cons i tl ih =>
      obtain ⟨h1, h2⟩ := h i (by simp)
      simp only [List.map_cons, extractWith, fromString_idString i.mid i.rid h1 h2,
        ih (fun j hj => h j (by simp [hj]))]
  unfold extractIDs makeFetchReq
  cases ids with
  | nil => rfl
  | cons i tl =>
    rw [if_pos (by simp)]
    exact hw

/-- a request without hints (an older proxy) loses only the hints -/
theorem extractNo_ids (ids : List IDSrc)
    (h : ∀ i, i ∈ ids → i.mid < 18446744073709551616 ∧ i.rid < 18446744073709551616) :
    extractNo (makeFetchReq ids).ids = some (ids.map fun i => ⟨i.mid, i.rid, []⟩) := by
  unfold makeFetchReq
  induction ids with
  | nil => rfl
  | cons i tl ih =>
    obtain ⟨h1, h2⟩ := h i (by simp)
    simp only [List.map_cons, extractNo, fromString_idString i.mid i.rid h1 h2]
    rw [ih (fun j hj => h j (by simp [hj]))]

/-! ## the public `Fetch` handler of the proxy (`proxyapi/grpc_fetch.go`): request texts -> IDs -/

/-- the loop over `req.Ids`: a text that does not parse is logged and skipped, the others keep their order -/
def apiParse (reqIds : List (List Nat)) : List (Nat × Nat) := reqIds.filterMap fromString

/-- after the loop: `conf.MaxRequestedDocuments` (0 = no limit) is checked on the PARSED count; `none` = InvalidArgument -/
def apiFetchIDs (maxReq : Nat) (reqIds : List (List Nat)) : Option (List (Nat × Nat)) :=
  if maxReq > 0 ∧ (apiParse reqIds).length > maxReq then none else some (apiParse reqIds)

/-- **fetching what search returned**: the texts search put into its response name exactly those IDs, in order -/
theorem apiParse_idStrings (ids : List (Nat × Nat))
    (h : ∀ i, i ∈ ids → i.1 < 18446744073709551616 ∧ i.2 < 18446744073709551616) :
    apiParse (ids.map fun i => idString i.1 i.2) = ids := by
  unfold apiParse
  induction ids with
  | nil => rfl
  | cons i tl ih =>
    obtain ⟨h1, h2⟩ := h i (by simp)
    simp only [List.map_cons, List.filterMap_cons, fromString_idString i.1 i.2 h1 h2]
    rw [ih (fun j hj => h j (by simp [hj]))]

/-- a malformed text among them is dropped and does not disturb the others -/
theorem apiParse_skips_malformed (a b : List (List Nat)) (bad : List Nat) (hbad : fromString bad = none) :
    apiParse (a ++ bad :: b) = apiParse a ++ apiParse b := by
  unfold apiParse
  rw [List.filterMap_append, List.filterMap_cons, hbad]

/-- the ID text of every document sent back parses to the ID that was asked for: the client can pair answers with
requests (`Id: doc.ID.String()`) -/
theorem apiSent_pairs (mid rid : Nat) (hm : mid < 18446744073709551616) (hr : rid < 18446744073709551616) :
    apiParse [idString mid rid] = [(mid, rid)] := by
  simpa using apiParse_idStrings [(mid, rid)] (by intro i hi; simp at hi; subst hi; exact ⟨hm, hr⟩)

theorem apiFetchIDs_within (maxReq : Nat) (ids : List (Nat × Nat))
    (h : ∀ i, i ∈ ids → i.1 < 18446744073709551616 ∧ i.2 < 18446744073709551616)
    (hmax : maxReq = 0 ∨ ids.length ≤ maxReq) :
    apiFetchIDs maxReq (ids.map fun i => idString i.1 i.2) = some ids := by
  unfold apiFetchIDs
  rw [apiParse_idStrings ids h, if_neg (by omega)]

/-! ## what `FromString` accepts -/

theorem unhex_lt (c n : Nat) (h : unhex c = some n) : n < 16 := by
  unfold unhex at h
  split at h
  · simp only [Option.some.injEq] at h; omega
  · split at h
    · simp only [Option.some.injEq] at h; omega
    · split at h
      · simp only [Option.some.injEq] at h; omega
      · cases h

theorem hexDec_spec : ∀ (x bs : List Nat), hexDec x = some bs → x.length = 2 * bs.length ∧ ∀ b, b ∈ bs → b < 256
  | [], bs, h => by simp only [hexDec, Option.some.injEq] at h; subst h; simp
  | [_], bs, h => by simp [hexDec] at h
  | a :: b :: rest, bs, h => by
    simp only [hexDec] at h
    cases ha : unhex a with
    | none => simp [ha] at h
    | some x =>
      cases hb : unhex b with
      | none => simp [ha, hb] at h
      | some y =>
        cases hr : hexDec rest with
        | none => simp [ha, hb, hr] at h
        | some r =>
          simp only [ha, hb, hr, Option.some.injEq] at h
          subst h
          obtain ⟨hl, hlt⟩ := hexDec_spec rest r hr
          have hx := unhex_lt a x ha
          have hy := unhex_lt b y hb
          refine ⟨by simp only [List.length_cons]; omega, ?_⟩
          intro c hc
          rcases List.mem_cons.mp hc with rfl | hc
          · omega
          · exact hlt c hc

theorem fromLE_lt_pow (bs : List Nat) (hb : ∀ b, b ∈ bs → b < 256) : fromLE bs < 256 ^ bs.length := by
  induction bs with
  | nil => simp [fromLE]
  | cons b tl ih =>
    have h1 := hb b (by simp)
    have h2 := ih (fun c hc => hb c (by simp [hc]))
    have e : fromLE (b :: tl) = b + 256 * fromLE tl := rfl
    rw [e, List.length_cons, Nat.pow_succ]
    have : 256 * fromLE tl + 256 ≤ 256 * 256 ^ tl.length := by
      have : fromLE tl + 1 ≤ 256 ^ tl.length := h2
      calc 256 * fromLE tl + 256 = 256 * (fromLE tl + 1) := by rw [Nat.mul_add, Nat.mul_one]
        _ ≤ 256 * 256 ^ tl.length := Nat.mul_le_mul_left _ this
    rw [Nat.mul_comm (256 ^ tl.length) 256]
    omega

theorem fromLE_lt (bs : List Nat) (hl : bs.length = 8) (hb : ∀ b, b ∈ bs → b < 256) :
    fromLE bs < 18446744073709551616 := by
  have h := fromLE_lt_pow bs hb
  rw [hl] at h
  exact h

/-- every accepted text names a 64-bit ID -/
theorem fromString_range (x : List Nat) (m r : Nat) (h : fromString x = some (m, r)) :
    m < 18446744073709551616 ∧ r < 18446744073709551616 := by
  unfold fromString at h
  split at h
  · cases h
  · rename_i hlen
    have hlen : x.length = 33 := by omega
    cases hm : hexDec (x.take 16) with
    | none => simp [hm] at h
    | some mb =>
      cases hr : hexDec (x.drop 17) with
      | none => simp [hm, hr] at h
      | some rb =>
        simp only [hm, hr, Option.some.injEq, Prod.mk.injEq] at h
        obtain ⟨rfl, rfl⟩ := h
        obtain ⟨l1, b1⟩ := hexDec_spec _ _ hm
        obtain ⟨l2, b2⟩ := hexDec_spec _ _ hr
        have : mb.length = 8 := by simp [List.length_take, hlen] at l1; omega
        have : rb.length = 8 := by simp [List.length_drop, hlen] at l2; omega
        exact ⟨fromLE_lt mb ‹_› b1, fromLE_lt rb ‹_› b2⟩

/-- ... and `String()` of that ID is a canonical text for it: parsing is idempotent through re-encoding -/
theorem fromString_canonical (x : List Nat) (m r : Nat) (h : fromString x = some (m, r)) :
    fromString (idString m r) = some (m, r) := by
  obtain ⟨h1, h2⟩ := fromString_range x m r h
  exact fromString_idString m r h1 h2

end SV.IDStr
