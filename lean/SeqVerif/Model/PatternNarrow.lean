import SeqVerif.Model.PatternOrder
/-!
# Narrowing on an ordered provider returns the same TIDs as the full scan (C13)

For a strictly sorted dictionary (`dict.Pairwise bLt`): `literalSearch.Narrow` + length-only check and
`wildcardSearch.Narrow` + skipped prefix check give exactly the TIDs of the unnarrowed loop.
-/
namespace SV.Pattern
open SV

theorem sorted_getD {dict : List Bytes} (hs : dict.Pairwise bLt) {i j : Nat} (hij : i < j) (hj : j < dict.length) :
    bLt (dict.getD i []) (dict.getD j []) := by
  have hi : i < dict.length := by omega
  rw [List.getD_eq_getElem?_getD, List.getD_eq_getElem?_getD, List.getElem?_eq_getElem hi, List.getElem?_eq_getElem hj]
  exact List.pairwise_iff_getElem.mp hs i j hi hj hij

theorem sorted_getD_le {dict : List Bytes} (hs : dict.Pairwise bLt) {i j : Nat} (hij : i ≤ j) (hj : j < dict.length) :
    bLe (dict.getD i []) (dict.getD j []) := by
  by_cases h : i = j
  · subst h; exact bLe_refl _
  · exact bLe_of_bLt (sorted_getD hs (by omega) hj)

theorem bLe_of_not_lt {x d : Bytes} (h : ¬ bcmp x d = .lt) : bLe d x := by
  unfold bLe; intro hg; rw [bcmp_gt_iff] at hg; exact h hg

theorem searchGo_least (f : Nat → Bool) (n : Nat) (hm : Mono f 0 n) :
    searchGo f 0 n ≤ n ∧ (∀ k, k < searchGo f 0 n → f k = false) ∧ (∀ k, searchGo f 0 n ≤ k → k < n → f k = true) := by
  have hb := searchGo_bounds f 0 n (Nat.zero_le _)
  have hsp := searchGo_spec f 0 n hm 0 n (Nat.le_refl _) (Nat.zero_le _) (Nat.le_refl _)
    (fun k _ h => by omega) (fun k h1 h2 => by omega)
  exact ⟨hb.2, fun k hk => hsp.1 k (Nat.zero_le _) hk, fun k h1 h2 => hsp.2 k h1 h2⟩

/-- a filter over `[base, base+n)` whose predicate is false outside the window `[a, b)` -/
theorem filter_range_window (P Q : Nat → Bool) (base n a b : Nat) (h1 : base ≤ a) (h2 : a ≤ b) (h3 : b ≤ base + n)
    (hout : ∀ t, base ≤ t → t < base + n → (t < a ∨ b ≤ t) → P t = false)
    (hin : ∀ t, a ≤ t → t < b → P t = Q t) :
    (List.range' base n).filter P = (List.range' a (b - a)).filter Q := by
  have hsplit : List.range' base n =
      List.range' base (a - base) ++ (List.range' a (b - a) ++ List.range' b (base + n - b)) := by
    rw [show List.range' b (base + n - b) = List.range' (a + (b - a)) (base + n - b) by congr 1; omega]
    rw [List.range'_append_1]
    rw [show List.range' a (b - a + (base + n - b)) = List.range' (base + (a - base)) (b - a + (base + n - b)) by
      congr 1; omega]
    rw [List.range'_append_1]
    congr 1; omega
  rw [hsplit, List.filter_append, List.filter_append]
  have e1 : (List.range' base (a - base)).filter P = [] := by
    rw [List.filter_eq_nil_iff]
    intro t ht
    rw [List.mem_range'_1] at ht
    rw [hout t ht.1 (by omega) (Or.inl (by omega))]; simp
  have e3 : (List.range' b (base + n - b)).filter P = [] := by
    rw [List.filter_eq_nil_iff]
    intro t ht
    rw [List.mem_range'_1] at ht
    rw [hout t (by omega) (by omega) (Or.inr ht.1)]; simp
  rw [e1, e3, List.nil_append, List.append_nil]
  apply List.filter_congr
  intro t ht
  rw [List.mem_range'_1] at ht
  exact hin t ht.1 (by omega)

theorem getToken_add (base : Nat) (dict : List Bytes) (o : Bool) (i : Nat) :
    (⟨base, dict, o⟩ : Provider).getToken (base + i) = dict.getD i [] := by
  simp [Provider.getToken]

/-! ## literal -/

theorem lit_narrow_eq_scan (pf : Bytes → Option Int) (base : Nat) (dict : List Bytes) (hs : dict.Pairwise bLt) (d : Bytes) :
    (narrowLit ⟨base, dict, true⟩ base (base + dict.length) d).run pf ⟨base, dict, true⟩ =
    (⟨base, base + dict.length, .lit ⟨d, false⟩⟩ : Searcher).run pf ⟨base, dict, false⟩ := by
  let f : Nat → Bool := fun i => bcmp (dict.getD i []) d != .lt
  have hf : (fun i => bcmp ((⟨base, dict, true⟩ : Provider).getToken (base + i)) d != .lt) = f := by
    funext i; simp [f, getToken_add]
  have hmono : Mono f 0 dict.length := by
    intro a b _ hab hb hfa
    simp only [f, bne_iff_ne, ne_eq] at hfa ⊢
    intro hlt
    -- d ≤ dict[a] ≤ dict[b] < d
    have h1 : bLe d (dict.getD a []) := bLe_of_not_lt hfa
    have h2 := sorted_getD_le hs hab hb
    exact bLt_irrefl d (bLt_of_bLe_of_bLt (bLe_trans h1 h2) hlt)
  obtain ⟨hr, hbelow, habove⟩ := searchGo_least f dict.length hmono
  simp only [narrowLit, binSearch, Nat.add_sub_cancel_left, hf]
  generalize hrdef : searchGo f 0 dict.length = r at *
  -- facts about the tokens around r
  have hlt : ∀ i, i < r → bLt (dict.getD i []) d := by
    intro i hi
    have := hbelow i hi
    simpa [f, bLt] using this
  have hge : ∀ i, r ≤ i → i < dict.length → bLe d (dict.getD i []) := by
    intro i h1 h2
    have := habove i h1 h2
    simp only [f, bne_iff_ne, ne_eq] at this
    exact bLe_of_not_lt this
  have hne : ∀ i, i < dict.length → i ≠ r → dict.getD i [] ≠ d := by
    intro i hi hir heq
    by_cases h : i < r
    · have := hlt i h; rw [heq] at this; exact bLt_irrefl d this
    · have hri : r < i := by omega
      have h1 := hge r (Nat.le_refl _) (by omega)
      have h2 := sorted_getD hs hri hi
      rw [heq] at h2
      exact bLt_irrefl d (bLt_of_bLe_of_bLt h1 h2)
  have hscan : ∀ (c : Bool), (c = true ↔ r < dict.length ∧ dict.getD r [] = d) →
      (List.range' base (base + dict.length - base)).filter
        (fun tid => (Kind.lit ⟨d, false⟩).check pf ((⟨base, dict, false⟩ : Provider).getToken tid)) =
      if c then [base + r] else [] := by
    intro c hc
    cases c with
    | true =>
      obtain ⟨hrl, hrd⟩ := hc.mp rfl
      rw [Nat.add_sub_cancel_left]
      rw [filter_range_window _ (fun _ => true) base dict.length (base + r) (base + r + 1) (by omega) (by omega) (by omega)]
      · simp
      · intro t h1 h2 h3
        obtain ⟨i, rfl⟩ : ∃ i, t = base + i := ⟨t - base, by omega⟩
        simp only [getToken_add, Kind.check, Lit.check, Bool.false_eq_true, if_false, beq_eq_false_iff_ne, ne_eq]
        exact fun h => hne i (by omega) (by omega) h.symm
      · intro t h1 h2
        have : t = base + r := by omega
        subst this
        have hrd' : dict[r]?.getD [] = d := by rw [← List.getD_eq_getElem?_getD]; exact hrd
        simp [getToken_add, Kind.check, Lit.check, hrd']
    | false =>
      rw [Nat.add_sub_cancel_left]
      simp only [Bool.false_eq_true, if_false, List.filter_eq_nil_iff, List.mem_range'_1]
      intro t ht
      obtain ⟨i, rfl⟩ : ∃ i, t = base + i := ⟨t - base, by omega⟩
      simp only [getToken_add, Kind.check, Lit.check, Bool.false_eq_true, if_false, beq_iff_eq]
      intro heq
      by_cases hir : i = r
      · subst hir
        have := hc.mpr ⟨by omega, heq.symm⟩
        simp at this
      · exact hne i (by omega) hir heq.symm
  by_cases hfound : base + r < base + dict.length ∧ ((⟨base, dict, true⟩ : Provider).getToken (base + r) == d) = true
  · rw [if_pos hfound]
    simp only [Searcher.run]
    rw [hscan true (by
      simp only [true_iff]
      obtain ⟨h1, h2⟩ := hfound
      rw [getToken_add, beq_iff_eq] at h2
      exact ⟨by omega, h2⟩)]
    obtain ⟨h1, h2⟩ := hfound
    rw [getToken_add, beq_iff_eq] at h2
    have h2' : dict[r]?.getD [] = d := by rw [← List.getD_eq_getElem?_getD]; exact h2
    simp [getToken_add, Kind.check, Lit.check, h2']
  · rw [if_neg hfound]
    simp only [Searcher.run]
    rw [hscan false (by
      simp only [Bool.false_eq_true, false_iff]
      rintro ⟨h1, h2⟩
      exact hfound ⟨by omega, by rw [getToken_add, beq_iff_eq]; exact h2⟩)]
    simp

/-! ## wildcard -/

theorem checkPrefix_unnarrowed (s : Wild) (v : Bytes) :
    ({ s with narrowed := false } : Wild).checkPrefix v = true ↔ cut v s.pre.length = s.pre := by
  simp only [Wild.checkPrefix, cut, Bool.false_eq_true, false_or]
  by_cases h0 : s.pre.length = 0
  · have : s.pre = [] := List.eq_nil_of_length_eq_zero h0
    simp [this]
  · simp only [h0, if_false]
    by_cases hl : s.pre.length > v.length
    · simp only [hl, if_true, Bool.false_eq_true, false_iff]
      intro h
      have := congrArg List.length h
      simp at this; omega
    · simp only [hl, if_false, beq_iff_eq]
      exact eq_comm

theorem check_narrowed_of_prefix (s : Wild) (v : Bytes) (h : cut v s.pre.length = s.pre) :
    ({ s with narrowed := true } : Wild).check v = ({ s with narrowed := false } : Wild).check v := by
  have h1 := (checkPrefix_unnarrowed s v).mpr h
  simp only [Wild.check, h1]
  simp [Wild.checkPrefix, Wild.checkSuffix, Wild.checkMiddle]

theorem check_unnarrowed_false (s : Wild) (v : Bytes) (h : cut v s.pre.length ≠ s.pre) :
    ({ s with narrowed := false } : Wild).check v = false := by
  have h1 : ({ s with narrowed := false } : Wild).checkPrefix v = false := by
    cases hc : ({ s with narrowed := false } : Wild).checkPrefix v with
    | false => rfl
    | true => exact absurd ((checkPrefix_unnarrowed s v).mp hc) h
  simp [Wild.check, h1]

theorem wild_narrow_eq_scan (pf : Bytes → Option Int) (base : Nat) (dict : List Bytes) (hs : dict.Pairwise bLt)
    (s : Wild) (hn : s.narrowed = false) :
    (narrowWild ⟨base, dict, true⟩ base (base + dict.length) s).run pf ⟨base, dict, true⟩ =
    (⟨base, base + dict.length, .wild s⟩ : Searcher).run pf ⟨base, dict, false⟩ := by
  have hs_eq : s = { s with narrowed := false } := by cases s; simp at hn; simp [hn]
  let c : Nat → Bytes := fun i => cut (dict.getD i []) s.pre.length
  have hcmono : ∀ a b, a ≤ b → b < dict.length → bLe (c a) (c b) :=
    fun a b hab hb => cut_mono _ (sorted_getD_le hs hab hb)
  let f1 : Nat → Bool := fun i => bcmp (c i) s.pre != .lt
  have hf1 : (fun i => bcmp (cut ((⟨base, dict, true⟩ : Provider).getToken (base + i)) s.pre.length) s.pre != .lt) = f1 := by
    funext i; simp [f1, c, getToken_add]
  have hmono1 : Mono f1 0 dict.length := by
    intro a b _ hab hb hfa
    simp only [f1, bne_iff_ne, ne_eq] at hfa ⊢
    intro hlt
    have h1 : bLe s.pre (c a) := bLe_of_not_lt hfa
    exact bLt_irrefl _ (bLt_of_bLe_of_bLt (bLe_trans h1 (hcmono a b hab hb)) hlt)
  obtain ⟨hr1, hbelow1, habove1⟩ := searchGo_least f1 dict.length hmono1
  simp only [narrowWild, binSearch, Nat.add_sub_cancel_left, hf1]
  generalize hr1def : searchGo f1 0 dict.length = r1 at *
  let f2 : Nat → Bool := fun i => bcmp (c (r1 + i)) s.pre == .gt
  have hf2 : (fun i => bcmp (cut ((⟨base, dict, true⟩ : Provider).getToken (base + r1 + i)) s.pre.length) s.pre == .gt) = f2 := by
    funext i; simp [f2, c, Nat.add_assoc, getToken_add]
  have hsub : base + dict.length - (base + r1) = dict.length - r1 := by omega
  rw [hf2, hsub]
  have hmono2 : Mono f2 0 (dict.length - r1) := by
    intro a b _ hab hb hfa
    simp only [f2, beq_iff_eq] at hfa ⊢
    rw [bcmp_gt_iff] at hfa ⊢
    exact bLt_of_bLt_of_bLe hfa (hcmono (r1 + a) (r1 + b) (by omega) (by omega))
  obtain ⟨hr2, hbelow2, habove2⟩ := searchGo_least f2 (dict.length - r1) hmono2
  generalize hr2def : searchGo f2 0 (dict.length - r1) = r2 at *
  simp only [Searcher.run]
  rw [show base + r1 + r2 - (base + r1) = base + r1 + r2 - (base + r1) from rfl]
  symm
  rw [Nat.add_sub_cancel_left]
  apply filter_range_window _ _ base dict.length (base + r1) (base + r1 + r2) (by omega) (by omega) (by omega)
  · intro t h1 h2 h3
    obtain ⟨i, rfl⟩ : ∃ i, t = base + i := ⟨t - base, by omega⟩
    simp only [getToken_add, Kind.check]
    rw [hs_eq]
    apply check_unnarrowed_false
    show c i ≠ s.pre
    intro heq
    rcases h3 with h3 | h3
    · have := hbelow1 i (by omega)
      simp only [f1, heq, bcmp_refl] at this
      simp at this
    · have := habove2 (i - r1) (by omega) (by omega)
      simp only [f2] at this
      rw [show r1 + (i - r1) = i by omega, heq, bcmp_refl] at this
      simp at this
  · intro t h1 h2
    obtain ⟨i, rfl⟩ : ∃ i, t = base + i := ⟨t - base, by omega⟩
    simp only [getToken_add, Kind.check]
    have hci : c i = s.pre := by
      have hA := habove1 i (by omega) (by omega)
      have hB := hbelow2 (i - r1) (by omega)
      simp only [f2] at hB
      rw [show r1 + (i - r1) = i by omega] at hB
      simp only [f1, bne_iff_ne, ne_eq] at hA
      rw [← bcmp_eq_iff]
      cases hcmp : bcmp (c i) s.pre with
      | lt => exact absurd hcmp hA
      | eq => rfl
      | gt => simp [hcmp] at hB
    conv => lhs; rw [hs_eq]
    exact (check_narrowed_of_prefix s _ hci).symm

/-! ## Search -/

theorem narrow_eq_scan (pf : Bytes → Option Int) (maxKey : Int) (token : Token) (base : Nat) (dict : List Bytes)
    (hs : dict.Pairwise bLt) :
    search pf maxKey token ⟨base, dict, true⟩ = search pf maxKey token ⟨base, dict, false⟩ := by
  cases token with
  | range r =>
    simp only [search, newSearcher, Provider.firstTID, Provider.lastP1]
    cases newRangeNumberSearch pf maxKey r <;> simp [Searcher.run, Provider.getToken]
  | literal terms =>
    simp only [search]
    match terms with
    | [.text d] =>
      simp only [newSearcher, Provider.firstTID, Provider.lastP1, if_true, Bool.false_eq_true, if_false, Option.map_some]
      rw [lit_narrow_eq_scan pf base dict hs d]
    | [] => simp [newSearcher, newWildcardSearch]
    | [.star] =>
      simp only [newSearcher, Provider.firstTID, Provider.lastP1]
      cases hw : newWildcardSearch [.star] with
      | none => rfl
      | some s =>
        have hn : s.narrowed = false := by
          simp only [newWildcardSearch] at hw
          split at hw
          · simp at hw
          · simp only [Option.some.injEq] at hw; rw [← hw]
        simp only [if_true, Bool.false_eq_true, if_false, Option.map_some]
        rw [wild_narrow_eq_scan pf base dict hs s hn]
    | t0 :: t1 :: rest =>
      simp only [newSearcher, Provider.firstTID, Provider.lastP1]
      cases hw : newWildcardSearch (t0 :: t1 :: rest) with
      | none => rfl
      | some s =>
        have hn : s.narrowed = false := by
          simp only [newWildcardSearch] at hw
          split at hw
          · simp at hw
          · simp only [Option.some.injEq] at hw; rw [← hw]
        simp only [if_true, Bool.false_eq_true, if_false, Option.map_some]
        rw [wild_narrow_eq_scan pf base dict hs s hn]

end SV.Pattern
