/-!
# `proxyapi.IngestorConfig.setDefaults` - the configuration path in front of the bulk ingestor

`NewIngestor` calls `config.setDefaults()` first and builds the bulk ingestor from `config.Bulk`.  The record keeps
the fields `setDefaults` tests or assigns plus the two drifts of the time rule (durations in ns).  Zero drifts are
legal settings ("allow no drift"): `setDefaults` must hand them on unchanged.
-/
namespace SV.Bulk

structure ProxyCfg where
  searchTimeout : Int
  exportTimeout : Int
  maxInflightBulks : Int
  allowedTimeDrift : Int
  futureAllowedTimeDrift : Int
  deriving Repr, DecidableEq

/-- `setDefaults` with the three defaults it uses (`consts.DefaultSearchTimeout`, `consts.DefaultExportTimeout`,
`consts.IngestorMaxInflightBulks`) -/
def setDefaults (dSearch dExport dInflight : Int) (c : ProxyCfg) : ProxyCfg :=
  { c with
    searchTimeout := if c.searchTimeout = 0 then dSearch else c.searchTimeout
    exportTimeout := if c.exportTimeout = 0 then dExport else c.exportTimeout
    maxInflightBulks := if c.maxInflightBulks = 0 then dInflight else c.maxInflightBulks }

theorem setDefaults_drifts (dS dE dI : Int) (c : ProxyCfg) :
    (setDefaults dS dE dI c).allowedTimeDrift = c.allowedTimeDrift ∧
    (setDefaults dS dE dI c).futureAllowedTimeDrift = c.futureAllowedTimeDrift := ⟨rfl, rfl⟩

end SV.Bulk
