import SeqVerif.Model.Nodes
namespace SV

/-- two strictly sorted lists with the same members are equal -/
theorem sortedBy_ext (rev : Bool) (xs ys : List Nat) (hx : SortedBy rev xs) (hy : SortedBy rev ys)
    (hmem : ∀ v, v ∈ xs ↔ v ∈ ys) : xs = ys := by
  induction xs generalizing ys with
  | nil =>
    cases ys with
    | nil => rfl
    | cons y ys => have := (hmem y).mpr (by simp); simp at this
  | cons x xs ih =>
    cases ys with
    | nil => have := (hmem x).mp (by simp); simp at this
    | cons y ys =>
      have hx' := List.pairwise_cons.mp hx
      have hy' := List.pairwise_cons.mp hy
      have hxy : x = y := by
        have h1 := (hmem x).mp (by simp)
        have h2 := (hmem y).mpr (by simp)
        rcases List.mem_cons.mp h1 with h1 | h1
        · exact h1
        · rcases List.mem_cons.mp h2 with h2 | h2
          · exact h2.symm
          · have a := hy'.1 x h1
            have b := hx'.1 y h2
            have := lessFn_asymm rev a
            simp_all
      subst hxy
      congr 1
      apply ih ys hx'.2 hy'.2
      intro v
      constructor
      · intro hv
        have := (hmem v).mp (List.mem_cons_of_mem _ hv)
        rcases List.mem_cons.mp this with h | h
        · subst h
          have := hx'.1 v hv
          simp [lessFn_irrefl] at this
        · exact h
      · intro hv
        have := (hmem v).mpr (List.mem_cons_of_mem _ hv)
        rcases List.mem_cons.mp this with h | h
        · subst h
          have := hy'.1 v hv
          simp [lessFn_irrefl] at this
        · exact h

/-- cutting the accumulated result to M ≥ L before merging the next partial result does not change the top L -/
theorem take_orMerge_take (rev : Bool) (L M : Nat) (hLM : L ≤ M) (xs ys : List Nat) :
    (orMerge rev (xs.take M) ys).take L = (orMerge rev xs ys).take L := by
  induction L generalizing M xs ys with
  | zero => simp
  | succ L ih =>
    cases M with
    | zero => omega
    | succ M =>
      cases xs with
      | nil => simp
      | cons a as =>
        induction ys with
        | nil =>
          simp only [List.take_succ_cons]
          have e1 : orMerge rev (a :: List.take M as) [] = a :: List.take M as := by
            unfold orMerge; simp
          have e2 : orMerge rev (a :: as) [] = a :: as := by
            unfold orMerge; simp
          rw [e1, e2]
          simp only [List.take_succ_cons, List.take_take]
          congr 1
          rw [Nat.min_eq_left (by omega)]
        | cons b bs ihb =>
          simp only [List.take_succ_cons]
          by_cases h1 : lessFn rev a b = true
          · have e1 : orMerge rev (a :: List.take M as) (b :: bs) = a :: orMerge rev (List.take M as) (b :: bs) := by
              rw [orMerge]; simp [h1]
            have e2 : orMerge rev (a :: as) (b :: bs) = a :: orMerge rev as (b :: bs) := by
              rw [orMerge]; simp [h1]
            rw [e1, e2]
            simp only [List.take_succ_cons]
            congr 1
            exact ih M (by omega) as (b :: bs)
          · by_cases h2 : lessFn rev b a = true
            · have e1 : orMerge rev (a :: List.take M as) (b :: bs) = b :: orMerge rev (a :: List.take M as) bs := by
                rw [orMerge]; simp [h1, h2]
              have e2 : orMerge rev (a :: as) (b :: bs) = b :: orMerge rev (a :: as) bs := by
                rw [orMerge]; simp [h1, h2]
              rw [e1, e2]
              simp only [List.take_succ_cons]
              congr 1
              have := ih (M + 1) (by omega) (a :: as) bs
              simpa only [List.take_succ_cons] using this
            · have e1 : orMerge rev (a :: List.take M as) (b :: bs) = a :: orMerge rev (List.take M as) bs := by
                rw [orMerge]; simp [h1, h2]
              have e2 : orMerge rev (a :: as) (b :: bs) = a :: orMerge rev as bs := by
                rw [orMerge]; simp [h1, h2]
              rw [e1, e2]
              simp only [List.take_succ_cons]
              congr 1
              exact ih M (by omega) as bs

end SV
