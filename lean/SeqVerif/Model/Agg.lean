import SeqVerif.Model.AggSamples
set_option linter.unusedSimpArgs false
/-!
# Aggregations and histograms (frac/processor/aggregator.go, search.go, seq/qpr.go, node/node_or.go)

* `AS` = `seq.AggregatableSamples` (the Go map is an association list with distinct keys),
  `AS.merge`, `aggregate` / `getAggBucket` / `sortBuckets`;
* `orAgg` / `treeFold` = `nodeOrAgg` under `BuildORTreeAgg`; `consume` = `SourcedNodeIterator.ConsumeTokenSource`
  (source-count limit disabled: `uniqSourcesLimit <= 0`; with a limit the code returns an error, never a value);
* the four aggregators as `step` (= `Next`) folds plus `Aggregate`;
* histogram bucket rule of `iterateEvalTree` and the histogram part of `seq.MergeQPRs`.

Environment parameters: `gval` / `fval` = token value of a source (`ValueBySource`), `parse` of a field token
(`strconv.ParseFloat`, `none` = error / NaN / Inf), `extract` = MID of a LID.
-/
namespace SV.Agg

/-! ## AggregatableSamples -/

structure Bin where
  mid : Nat
  token : String
deriving DecidableEq, Repr, Inhabited

abbrev Bins := List (Bin × SC)

structure AS where
  bins : Bins
  notExists : Nat
deriving Repr, Inhabited

/-- the zero value (`SamplesByBin == nil`) -/
def AS.empty : AS := ⟨[], 0⟩

def AS.get (a : AS) (k : Bin) : Option SC := a.bins.lookup k

/-- `if m[k] == nil { m[k] = NewSamplesContainers() }; m[k] = f(m[k])` -/
def upsert (k : Bin) (f : SC → SC) : Bins → Bins
  | [] => [(k, f SC.new)]
  | (k', v) :: r => if k' = k then (k', f v) :: r else (k', v) :: upsert k f r

/-- `m[k] = v` -/
def put (k : Bin) (v : SC) : Bins → Bins
  | [] => [(k, v)]
  | (k', v') :: r => if k' = k then (k', v) :: r else (k', v') :: put k v r

/-- `AggregatableSamples.Merge` (q.Merge(agg)) -/
def AS.merge (lim : Nat) (pick : List Int → Nat) (q agg : AS) : AS :=
  { bins := agg.bins.foldl (fun bs kh => upsert kh.1 (fun c => SC.merge lim pick c kh.2) bs) q.bins
    notExists := q.notExists + agg.notExists }

/-! ## Aggregate -/

inductive Fn | count | sum | min | max | avg | quantile | unique
deriving DecidableEq, Repr, Inhabited

structure Bucket where
  name : String
  value : Val
  quantiles : List Val
  notExists : Nat
  mid : Nat
deriving DecidableEq, Repr, Inhabited

/-- `getAggBucket` (the `panic` on an empty quantile list is handled by `aggregate`) -/
def getAggBucket (fixed : Bool) (fn : Fn) (qs : List (Nat × Nat)) (bin : Bin) (h : SC) : Bucket :=
  let quantiles : List Val := if fn = .quantile then qs.map (fun q => h.quantile fixed q.1 q.2) else []
  let value : Val :=
    match fn with
    | .count | .unique => .int h.total
    | .sum => .int h.sum
    | .min => .int h.min
    | .max => .int h.max
    | .avg => if h.total ≠ 0 then .rat h.sum h.total else .int 0
    | .quantile => quantiles.headD .nan
  let value := if h.total = 0 ∧ fn ≠ .count ∧ fn ≠ .unique then Val.nan else value
  { name := bin.token, mid := bin.mid, value := value, quantiles := quantiles, notExists := h.notExists }

/-- three-way comparison: `cmp.Compare` -/
def cmpNat (a b : Nat) : Ordering := compare a b

/-- `cmp.Compare` on float64: NaN is below every number and equal to itself -/
def cmpVal : Val → Val → Ordering
  | .nan, .nan => .eq
  | .nan, _ => .lt
  | _, .nan => .gt
  | .rat a b, .rat c d => compare (a * d) (c * b)

def cmpStr (a b : String) : Ordering := compare a b

/-- `cmp.Or` -/
def orElse (a b : Ordering) : Ordering := if a = .eq then b else a

/-- the comparison function `sortBuckets` selects for the aggregation function -/
def bucketCmp (fn : Fn) (l r : Bucket) : Ordering :=
  match fn with
  | .min => orElse (cmpNat l.mid r.mid) (orElse (cmpVal l.value r.value) (cmpStr l.name r.name))
  | .quantile => orElse (cmpNat l.mid r.mid) (orElse (cmpStr l.name r.name) (cmpVal r.value l.value))
  | _ => orElse (cmpNat l.mid r.mid) (orElse (cmpVal r.value l.value) (cmpStr l.name r.name))

def insertBucket (fn : Fn) (a : Bucket) : List Bucket → List Bucket
  | [] => [a]
  | b :: l => if bucketCmp fn a b ≠ .gt then a :: b :: l else b :: insertBucket fn a l

/-- `slices.SortFunc(buckets, sortFunc)` (any correct sort: keys `(MID, Name)` are distinct, so there are no ties) -/
def sortBuckets (fn : Fn) : List Bucket → List Bucket
  | [] => []
  | a :: l => insertBucket fn a (sortBuckets fn l)

structure AggResult where
  buckets : List Bucket
  notExists : Nat
deriving Repr, Inhabited

/-- `AggregatableSamples.Aggregate(args)`; `none` = `panic("BUG: empty quantiles")` -/
def aggregate (fixed : Bool) (fn : Fn) (qs : List (Nat × Nat)) (skipWithoutTimestamp : Bool) (q : AS) : Option AggResult :=
  let kept := q.bins.filter (fun kh => !(skipWithoutTimestamp && kh.1.mid == 0))
  if fn = .quantile ∧ qs = [] ∧ kept ≠ [] then none
  else some { buckets := sortBuckets fn (kept.map (fun kh => getAggBucket fixed fn qs kh.1 kh.2)), notExists := q.notExists }

/-! ## sourced OR tree and the lock-step iterator -/

abbrev Stream := List (Nat × Nat)     -- (lid, source) in iteration order

def lessFn (rev : Bool) (a b : Nat) : Bool := if rev then decide (b < a) else decide (a < b)

/-- `nodeOrAgg`: two-pointer merge without de-duplication; on equal ids the right stream goes first -/
def orAgg (rev : Bool) : Stream → Stream → Stream
  | [], r => r
  | l, [] => l
  | a :: l, b :: r =>
    if lessFn rev a.1 b.1 then a :: orAgg rev l (b :: r) else b :: orAgg rev (a :: l) r

/-- `node.TreeFold` / `treeFold`: balanced fold, split at `len/2` -/
def treeFold {V : Type} (op : V → V → V) (dflt : V) (vs : List V) : V :=
  match h : vs with
  | [] => dflt
  | [v] => v
  | _ :: _ :: _ =>
    op (treeFold op dflt (vs.take (vs.length / 2))) (treeFold op dflt (vs.drop (vs.length / 2)))
termination_by vs.length
decreasing_by
  all_goals subst h; simp [List.length_take, List.length_drop] <;> omega

/-- posting list of source `i` as a sourced stream in iteration order (`NewStatic(data, reverse)` walks backwards) -/
def sourced (rev : Bool) (i : Nat) (lids : List Nat) : Stream :=
  (if rev then lids.reverse else lids).map (fun l => (l, i))

def zipIdxFrom {α : Type} : Nat → List α → List (Nat × α)
  | _, [] => []
  | i, a :: l => (i, a) :: zipIdxFrom (i + 1) l

/-- `BuildORTreeAgg(WrapWithSource(nodes), reverse)` -/
def buildStream (rev : Bool) (postings : List (List Nat)) : Stream :=
  treeFold (orAgg rev) [] ((zipIdxFrom 0 postings).map (fun p => sourced rev p.1 p.2))

/-- `SourcedNodeIterator.ConsumeTokenSource(lid)`: the head of the remaining stream is `(lastID, lastSource)` -/
def consume (rev : Bool) : Stream → Nat → Option Nat × Stream
  | [], _ => (none, [])
  | (id, src) :: rest, lid =>
    if lessFn rev id lid then consume rev rest lid
    else if id = lid then (some src, (id, src) :: rest)
    else (none, (id, src) :: rest)

/-- successive `ConsumeTokenSource` calls for the result LIDs -/
def walk (rev : Bool) : Stream → List Nat → List (Option Nat)
  | _, [] => []
  | s, lid :: lids => (consume rev s lid).1 :: walk rev (consume rev s lid).2 lids

/-- `provideExtractTimeFunc`: time bin of a MID (`interval` is an int64) -/
def extractBin (interval : Int) (mid : Nat) : Nat :=
  if interval ≤ 0 then 0 else mid - mid % interval.toNat

/-! ## aggregators -/

/-- `m[k]++` -/
def incr {κ : Type} [DecidableEq κ] (k : κ) : List (κ × Nat) → List (κ × Nat)
  | [] => [(k, 1)]
  | (k', n) :: r => if k' = k then (k', n + 1) :: r else (k', n) :: incr k r

/-- one matching document as the aggregators see it: time bin, group source, field source -/
structure Ev where
  bin : Nat
  g : Option Nat
  f : Option Nat
deriving DecidableEq, Repr, Inhabited

/-! ### SingleSourceCountAggregator -/

structure CountSt where
  counts : List ((Nat × Nat) × Nat)
  notExists : Nat
deriving Repr, Inhabited

def CountSt.init : CountSt := ⟨[], 0⟩

def countStep (st : CountSt) (ev : Ev) : CountSt :=
  match ev.g with
  | some s => { st with counts := incr (ev.bin, s) st.counts }
  | none => { st with notExists := st.notExists + 1 }

def legacyNotExists : Bin := ⟨0, "_not_exists"⟩

def countAggregate (gval : Nat → String) (st : CountSt) : AS :=
  let bins := st.counts.foldl
    (fun bs kc => upsert ⟨kc.1.1, gval kc.1.2⟩ (fun c => { c with total := kc.2 }) bs) []
  let bins := if st.notExists > 0 then put legacyNotExists ⟨0, 0, 0, st.notExists, 0, []⟩ bins else bins
  ⟨bins, st.notExists⟩

def countRun (gval : Nat → String) (evs : List Ev) : AS := countAggregate gval (evs.foldl countStep .init)

/-! ### SingleSourceUniqueAggregator -/

structure UniqSt where
  values : List Nat
  notExists : Nat
deriving Repr, Inhabited

def uniqStep (st : UniqSt) (ev : Ev) : UniqSt :=
  match ev.g with
  | some s => if s ∈ st.values then st else { st with values := st.values ++ [s] }
  | none => { st with notExists := st.notExists + 1 }

def uniqAggregate (gval : Nat → String) (st : UniqSt) : AS :=
  ⟨st.values.foldl (fun bs s => upsert ⟨0, gval s⟩ id bs) [], st.notExists⟩

def uniqRun (gval : Nat → String) (evs : List Ev) : AS := uniqAggregate gval (evs.foldl uniqStep ⟨[], 0⟩)

/-! ### SingleSourceHistogramAggregator (field only; one container per time bin) -/

/-- what `Next` does to the container of the document's time bin -/
def histIns (lim : Nat) (pick : List Int → Nat) (collect : Bool) (num : Int) (c : SC) : SC :=
  if collect then (c.insertNTimes num 1).insertSample lim pick num else c.insertNTimes num 1

/-- `Next` (the map `histogram[mid]` is kept under the key it gets in `Aggregate`: `AggBin{MID: mid}`);
`none` = parse error -/
def histAggStep (lim : Nat) (pick : List Int → Nat) (collect : Bool) (fval : Nat → Option Int)
    (st : Option Bins) (ev : Ev) : Option Bins :=
  st.bind fun m =>
    match ev.f with
    | none => some (upsert ⟨ev.bin, ""⟩ (fun c => { c with notExists := c.notExists + 1 }) m)
    | some s => (fval s).map fun num => upsert ⟨ev.bin, ""⟩ (histIns lim pick collect num) m

def histAggRun (lim : Nat) (pick : List Int → Nat) (collect : Bool) (fval : Nat → Option Int) (evs : List Ev) :
    Option AS :=
  (evs.foldl (histAggStep lim pick collect fval) (some [])).map fun m => ⟨m, 0⟩

/-! ### TwoSourceAggregator (group by + field) -/

structure TwoSt where
  groupNotExists : Nat
  groupByNotExists : List ((Nat × Nat) × Nat)
  countBySource : List ((Nat × Nat × Nat) × Nat)
deriving Repr, Inhabited

def TwoSt.init : TwoSt := ⟨0, [], []⟩

/-- time bin under which a document of a group that lacks the field is tallied.  `perBin = false`: the code as
found (`groupByNotExists[groupBySource]++`, reported in the bin without time, which `Aggregate` skips for time
series); `perBin = true`: fixes/C06-group-not-exists-per-time-bin.patch (keyed by the document's time bin like every
other tally).  Which one the source has is re-extracted on every run (`groupNotExistsPerBin`). -/
def missingBin (perBin : Bool) (bin : Nat) : Nat := if perBin then bin else 0

def twoStep (perBin : Bool) (st : TwoSt) (ev : Ev) : TwoSt :=
  match ev.g, ev.f with
  | none, none => st
  | some g, none => { st with groupByNotExists := incr (missingBin perBin ev.bin, g) st.groupByNotExists }
  | none, some _ => { st with groupNotExists := st.groupNotExists + 1 }
  | some g, some f => { st with countBySource := incr (ev.bin, g, f) st.countBySource }

/-- what the second loop of `Aggregate` does to the container of a bin -/
def twoIns (lim : Nat) (pick : List Int → Nat) (collect : Bool) (num : Int) (cnt : Nat) (c : SC) : SC :=
  if collect then (c.insertNTimes num cnt).insertSampleNTimes lim pick num cnt else c.insertNTimes num cnt

/-- `parseNum(n.field.ValueBySource(..))` for every entry of `countBySource`; `none` = some value does not parse
(the code returns the error from inside the loop; no partial result is visible) -/
def twoParse (fval : Nat → Option Int) (entries : List ((Nat × Nat × Nat) × Nat)) :
    Option (List ((Nat × Nat × Nat) × Int × Nat)) :=
  entries.mapM fun kc => (fval kc.1.2.2).map fun num => (kc.1, num, kc.2)

def twoAggregate (lim : Nat) (pick : List Int → Nat) (collect : Bool) (gval : Nat → String) (fval : Nat → Option Int)
    (st : TwoSt) : Option AS :=
  let bins := st.groupByNotExists.foldl
    (fun bs gc => upsert ⟨gc.1.1, gval gc.1.2⟩ (fun c => { c with notExists := gc.2 }) bs) []
  (twoParse fval st.countBySource).map fun es =>
    ⟨es.foldl (fun bs e => upsert ⟨e.1.1, gval e.1.2.1⟩ (twoIns lim pick collect e.2.1 e.2.2) bs) bins,
      st.groupNotExists⟩

def twoRun (perBin : Bool) (lim : Nat) (pick : List Int → Nat) (collect : Bool) (gval : Nat → String)
    (fval : Nat → Option Int) (evs : List Ev) : Option AS :=
  twoAggregate lim pick collect gval fval (evs.foldl (twoStep perBin) .init)

/-- `haveNotMinMaxQuantiles`: samples are collected only when some quantile lies strictly inside (0,1) -/
def haveNotMinMaxQuantiles (qs : List (Nat × Nat)) : Bool := qs.any fun q => decide (0 < q.1 ∧ q.1 < q.2)

/-- the events the aggregators see for the result LIDs: lock-step walk of the group / field streams -/
def events (rev : Bool) (interval : Int) (mid : Nat → Nat) (gs fs : Option Stream) (lids : List Nat) : List Ev :=
  let gw := match gs with | some s => walk rev s lids | none => lids.map fun _ => none
  let fw := match fs with | some s => walk rev s lids | none => lids.map fun _ => none
  (lids.zip (gw.zip fw)).map fun x => ⟨extractBin interval (mid x.1), x.2.1, x.2.2⟩

/-- `evalAgg` + `Aggregate()`: the aggregator chosen for the function, run over the events; `none` = error.
`hasGroup` = the query has a `GroupBy` (always true for count / unique: checked by `aggQueryFromProto`). -/
def evalAgg (perBin : Bool) (lim : Nat) (pick : List Int → Nat) (fn : Fn) (qs : List (Nat × Nat)) (hasGroup : Bool)
    (gval : Nat → String) (fval : Nat → Option Int) (evs : List Ev) : Option AS :=
  match fn with
  | .count => some (countRun gval evs)
  | .unique => some (uniqRun gval evs)
  | _ =>
    let collect := fn = .quantile && haveNotMinMaxQuantiles qs
    if hasGroup then twoRun perBin lim pick collect gval fval evs else histAggRun lim pick collect fval evs

/-! ## histogram of `iterateEvalTree` and its merge in `seq.MergeQPRs` -/

abbrev Hist := List (Nat × Nat)

/-- `bucket := mid; bucket -= bucket % interval` (`interval > 0`: `HasHist`) -/
def histBucket (interval mid : Nat) : Nat := mid - mid % interval

/-- `histogram[bucket]++` for every matching LID -/
def histRun (interval : Nat) (mids : List Nat) : Hist :=
  mids.foldl (fun h m => incr (histBucket interval m) h) []

def histAdd (k n : Nat) : Hist → Hist
  | [] => [(k, n)]
  | (k', n') :: r => if k' = k then (k', n' + n) :: r else (k', n') :: histAdd k n r

/-- `for time, count := range qpr.Histogram { dst.Histogram[time] += count }` -/
def histMerge (dst src : Hist) : Hist := src.foldl (fun h kc => histAdd kc.1 kc.2 h) dst

def histGet (h : Hist) (k : Nat) : Nat := (h.lookup k).getD 0

end SV.Agg

namespace SV.Agg
/-- `maxHistogramSamples` (seq/qpr.go); tied to the source by `c06_x_limit` -/
def maxHistogramSamples : Nat := 8096
end SV.Agg
