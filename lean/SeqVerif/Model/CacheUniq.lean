import SeqVerif.Model.CacheThm
/-!
# C18 - the set of `inMap` entries is a map: at most one entry per (cache, key), in every reachable state
(so `lookup`, which returns the first one, is `c.payload[key]`).
-/
namespace SV.Cache

def Uniq (h : List Entry) : Prop :=
  ∀ (i j : Nat) (a b : Entry), i < j → h[i]? = some a → h[j]? = some b → a.inMap = true → b.inMap = true →
    ¬(a.cache = b.cache ∧ a.key = b.key)

/-- identity kept, `inMap` only cleared -/
def KSim (h h' : List Entry) : Prop :=
  ∀ (i : Nat) (e' : Entry), h'[i]? = some e' →
    ∃ e, h[i]? = some e ∧ e'.cache = e.cache ∧ e'.key = e.key ∧ (e'.inMap = true → e.inMap = true)

theorem Sim.ksim {h h' : List Entry} (hs : Sim h h') : KSim h h' := by
  intro i e' he'
  obtain ⟨e, he, hc, hk, -, -, hin⟩ := hs.get he'
  exact ⟨e, he, hc, hk, hin⟩

theorem KSim.trans {a b c : List Entry} (h1 : KSim a b) (h2 : KSim b c) : KSim a c := by
  intro i e' he'
  obtain ⟨e1, he1, hc1, hk1, hi1⟩ := h2 i e' he'
  obtain ⟨e0, he0, hc0, hk0, hi0⟩ := h1 i e1 he1
  exact ⟨e0, he0, hc1.trans hc0, hk1.trans hk0, fun h => hi0 (hi1 h)⟩

theorem KSim.refl (h : List Entry) : KSim h h := fun _ e he => ⟨e, he, rfl, rfl, id⟩

theorem ksim_set (h : List Entry) (i : Nat) (e e' : Entry) (hi : h[i]? = some e) (hc : e'.cache = e.cache)
    (hk : e'.key = e.key) (hin : e'.inMap = true → e.inMap = true) : KSim h (h.set i e') := by
  intro j a ha
  rw [List.getElem?_set] at ha
  by_cases hij : i = j
  · subst hij
    simp only [if_true] at ha
    split at ha
    · cases ha; exact ⟨e, hi, hc, hk, hin⟩
    · cases ha
  · rw [if_neg hij] at ha; exact ⟨a, ha, rfl, rfl, id⟩

theorem Uniq.of_ksim {h h' : List Entry} (hs : KSim h h') (u : Uniq h) : Uniq h' := by
  intro i j a b hij ha hb hai hbi hkey
  obtain ⟨a0, ha0, hca, hka, hia⟩ := hs i a ha
  obtain ⟨b0, hb0, hcb, hkb, hib⟩ := hs j b hb
  exact u i j a0 b0 hij ha0 hb0 (hia hai) (hib hbi) ⟨by rw [← hca, ← hcb]; exact hkey.1, by rw [← hka, ← hkb]; exact hkey.2⟩

theorem uniq_acquire {s : St} (u : Uniq s.heap) (t c k : Nat) : Uniq (acquire s t c k).1.heap := by
  unfold acquire
  split
  · split
    · exact u
    · split <;> simp only [setPc] <;> exact u.of_ksim (sim_updGen _ _ _).ksim
  · rename_i hl
    simp only [setPc]
    unfold lookup at hl
    rw [List.findIdx?_eq_none_iff] at hl
    intro i j a b hij ha hb hai hbi hkey
    rw [List.getElem?_append] at ha hb
    have hjlen : j < (s.heap ++ [(⟨c, k, .loading, 0, s.cur c, 0, false, true⟩ : Entry)]).length :=
      (List.getElem?_eq_some_iff.mp (by rw [List.getElem?_append]; exact hb)).1
    simp only [List.length_append, List.length_cons, List.length_nil] at hjlen
    have hi : i < s.heap.length := by omega
    rw [if_pos hi] at ha
    split at hb
    · exact u i j a b hij ha hb hai hbi hkey
    · rename_i hj
      have hj0 : j - s.heap.length = 0 := by omega
      rw [hj0] at hb
      simp only [List.getElem?_cons_zero, Option.some.injEq] at hb
      subst hb
      have := hl a (List.mem_of_getElem? ha)
      simp [matchKey, hai, hkey.1, hkey.2] at this

theorem step_uniq (cfg : Cfg) {s s' : St} {l : Label} {o : Out} (hv : VInv s) (u : Uniq s.heap)
    (hs : step cfg s l = some (s', o)) : Uniq s'.heap := by
  cases l with
  | newCache =>
    simp only [step, Option.some.injEq, Prod.mk.injEq] at hs
    obtain ⟨rfl, -⟩ := hs; exact u
  | get t c k =>
    simp only [step] at hs
    split at hs
    · simp only [Option.some.injEq] at hs
      rw [← fst_of_eq hs]; exact uniq_acquire u t c k
    · exact absurd hs (by simp)
  | wake t =>
    simp only [step] at hs
    split at hs
    · split at hs
      · split at hs
        · simp only [Option.some.injEq, Prod.mk.injEq] at hs
          obtain ⟨rfl, -⟩ := hs; exact u
        · split at hs
          · simp only [Option.some.injEq] at hs
            rw [← fst_of_eq hs]; exact uniq_acquire u t _ _
          · exact absurd hs (by simp)
        · exact absurd hs (by simp)
      · exact absurd hs (by simp)
    · exact absurd hs (by simp)
  | finish t oc =>
    simp only [step] at hs
    split at hs
    · rename_i c k eid hpc
      obtain ⟨e, he, hc, hk, hst⟩ := hv.loading_own t c k eid hpc
      split at hs
      · simp only [Option.some.injEq] at hs
        rw [← fst_of_eq hs]
        unfold save; rw [he]
        simp only
        split <;> exact u.of_ksim (ksim_set _ _ e _ he rfl rfl id)
      all_goals
        simp only [Option.some.injEq, Prod.mk.injEq] at hs
        obtain ⟨rfl, -⟩ := hs
        unfold recover; rw [he]
        exact u.of_ksim (ksim_set _ _ e _ he rfl rfl (by simp))
    · exact absurd hs (by simp)
  | release c =>
    simp only [step] at hs
    split at hs
    · simp only [Option.some.injEq, Prod.mk.injEq] at hs
      obtain ⟨rfl, -⟩ := hs; exact u.of_ksim (sim_release s c).ksim
    · exact absurd hs (by simp)
  | rotate =>
    simp only [step] at hs
    split at hs
    · simp only [Option.some.injEq] at hs
      unfold rotate at hs
      split at hs <;> (simp only [Prod.mk.injEq] at hs; obtain ⟨rfl, -⟩ := hs; exact u)
    · exact absurd hs (by simp)
  | cleanupBegin =>
    simp only [step] at hs
    split at hs
    · simp only [Option.some.injEq] at hs
      unfold cleanupBegin at hs
      split at hs
      · simp only [Prod.mk.injEq] at hs; obtain ⟨rfl, -⟩ := hs; exact u
      · simp only [Prod.mk.injEq] at hs; obtain ⟨rfl, -⟩ := hs
        show Uniq (markStale s _).1.heap
        rw [(markStale_heap s _).1]; exact u
    · exact absurd hs (by simp)
  | cleanupBucket =>
    simp only [step] at hs
    split at hs
    · simp only [Option.some.injEq, Prod.mk.injEq] at hs
      obtain ⟨rfl, -⟩ := hs; exact u.of_ksim (sim_cacheCleanup s _).ksim
    · exact absurd hs (by simp)
  | cleanEmpty =>
    simp only [step] at hs
    split at hs
    · unfold cleanEmpty at hs
      split at hs
      · exact absurd hs (by simp)
      · simp only [Option.some.injEq, Prod.mk.injEq] at hs
        obtain ⟨rfl, -⟩ := hs; exact u
    · exact absurd hs (by simp)
  | releaseBuckets =>
    simp only [step] at hs
    split at hs
    · simp only [Option.some.injEq, Prod.mk.injEq] at hs
      obtain ⟨rfl, -⟩ := hs; exact u
    · exact absurd hs (by simp)

theorem reach_uniq (cfg : Cfg) {s : St} (h : Reach cfg s) : Uniq s.heap := by
  induction h with
  | init => intro i j a b _ ha; simp [init] at ha
  | step hr hs ih => exact step_uniq cfg (reach_vinv cfg hr) ih hs

/-- with `Uniq`, `lookup` finds exactly the map entry of the key -/
theorem lookup_eq_of_uniq {h : List Entry} (u : Uniq h) {c k eid : Nat} {e : Entry} (he : h[eid]? = some e)
    (hin : e.inMap = true) (hc : e.cache = c) (hk : e.key = k) : lookup h c k = some eid := by
  cases hl : lookup h c k with
  | none =>
    unfold lookup at hl
    rw [List.findIdx?_eq_none_iff] at hl
    have := hl e (List.mem_of_getElem? he)
    simp [matchKey, hin, hc, hk] at this
  | some j =>
    obtain ⟨e', he', hc', hk', hin'⟩ := lookup_sound hl
    by_cases hj : j = eid
    · rw [hj]
    · exfalso
      rcases Nat.lt_or_gt_of_ne hj with h1 | h1
      · exact u j eid e' e h1 he' he hin' hin ⟨hc'.trans hc.symm, hk'.trans hk.symm⟩
      · exact u eid j e e' h1 he he' hin hin' ⟨hc.trans hc'.symm, hk.trans hk'.symm⟩

/-- removing the (unique) map entry of a key leaves the key without entry -/
theorem lookup_set_none {h : List Entry} (u : Uniq h) {c k eid : Nat} {e e1 : Entry} (he : h[eid]? = some e)
    (hl : lookup h c k = some eid) (h1 : e1.inMap = false) : lookup (h.set eid e1) c k = none := by
  obtain ⟨e0, he0, hc0, hk0, hin0⟩ := lookup_sound hl
  rw [he] at he0; cases he0
  apply lookup_none_of_forall
  intro a ha hc hk
  obtain ⟨j, hj⟩ := List.mem_iff_getElem?.mp ha
  rcases get_set_cases hj with ⟨-, rfl⟩ | ⟨hne, hj⟩
  · exact h1
  · cases hin : a.inMap
    · rfl
    · exfalso
      rcases Nat.lt_or_gt_of_ne hne with h2 | h2
      · exact u j eid a e h2 hj he hin hin0 ⟨hc.trans hc0.symm, hk.trans hk0.symm⟩
      · exact u eid j e a h2 he hj hin0 hin ⟨hc0.trans hc.symm, hk0.trans hk.symm⟩

end SV.Cache

