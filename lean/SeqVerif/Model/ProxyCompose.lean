import SeqVerif.Model.ProxySearchLemmas
import SeqVerif.Model.SearchDocsTotals
/-!
Bridge between the two models of `seq.MergeQPRs` / `paginateIDs`:
  * `SV.ProxySearch` (C16): IDs are pairs `(mid, rid)` tagged with the answering replica, `rev = order.IsReverse()`
  * `SV.Merge` (C05): IDs are the numbers `mid * 2^64 + rid`, `desc = order.IsDesc() = !rev`, no sources
The two agree on IDs, total and pagination once RIDs are below 2^64 (they are `uint64` in the code; the C16 model
leaves them unbounded).  `Errors` are only in the C16 model (C05 does not model them), histograms only in C05's.
-/
namespace SV.ProxyCompose
open SV

/-- the number C05 uses for an ID -/
def keyOf (i : ProxySearch.ID) : Nat := Merge.key i.1 i.2

/-- the C05 view of a shard answer (histogram not carried by the C16 model) -/
def conv (q : ProxySearch.QPR) : Merge.QPR := ⟨q.ids.map keyOf, q.total, none⟩

/-- every RID of every answer fits `uint64` -/
def Bounded (qs : List ProxySearch.QPR) : Prop := ∀ q ∈ qs, ∀ i ∈ q.ids, i.2 < Merge.R

theorem before_iff_lessFn (rev : Bool) (i j : ProxySearch.ID) (hi : i.2 < Merge.R) (hj : j.2 < Merge.R) :
    ProxySearch.before rev i j = true ↔ lessFn (!rev) (keyOf i) (keyOf j) = true := by
  obtain ⟨i1, i2⟩ := i
  obtain ⟨j1, j2⟩ := j
  simp only at hi hj
  have h1 : ∀ a1 a2 b1 b2 : Nat, a2 < Merge.R → b2 < Merge.R →
      (keyOf (a1, a2) < keyOf (b1, b2) ↔ (a1 < b1 ∨ a1 = b1 ∧ a2 < b2)) := by
    intro a1 a2 b1 b2 ha hb
    simp only [keyOf, Merge.key, Merge.R] at *
    omega
  cases rev
  · simp only [ProxySearch.before, lessFn, Bool.false_eq_true, if_false, Bool.not_false, if_true, decide_eq_true_eq]
    rw [h1 j1 j2 i1 i2 hj hi]
    simp [ProxySearch.idLt]
  · simp only [ProxySearch.before, lessFn, Bool.false_eq_true, if_false, Bool.not_true, if_true, decide_eq_true_eq]
    rw [h1 i1 i2 j1 j2 hi hj]
    simp [ProxySearch.idLt]

/-- both models compute the same ID list before the cut -/
theorem merged_keys (rev : Bool) (qs : List ProxySearch.QPR) (hb : Bounded qs) :
    (ProxySearch.mergedFull rev qs).map (fun p => keyOf p.1) =
      Merge.sd (!rev) (qs.flatMap fun q => q.ids.map keyOf) := by
  have hspec := ProxySearch.mergedFull_spec rev qs
  have hbd : ∀ p ∈ ProxySearch.mergedFull rev qs, p.1.2 < Merge.R := by
    intro p hp
    obtain ⟨q, hq, _, hi⟩ := hspec.2.1 p hp
    exact hb q hq _ hi
  apply sortedBy_ext (!rev) _ _ _ (Merge.sd_sorted _ _)
  · intro v
    rw [Merge.mem_sd]
    simp only [List.mem_map, List.mem_flatMap]
    constructor
    · rintro ⟨p, hp, rfl⟩
      obtain ⟨q, hq, _, hi⟩ := hspec.2.1 p hp
      exact ⟨q, hq, p.1, hi, rfl⟩
    · rintro ⟨q, hq, i, hi, rfl⟩
      obtain ⟨p, hp, hpi⟩ := hspec.2.2 q hq i hi
      exact ⟨p, hp, by rw [hpi]⟩
  · apply List.pairwise_map.mpr
    apply List.Pairwise.imp_of_mem _ hspec.1
    intro a b ha hb' hab
    exact (before_iff_lessFn rev a.1 b.1 (hbd a ha) (hbd b hb')).mp hab

theorem allIds_conv (qs : List ProxySearch.QPR) :
    Merge.allIds Merge.emptyQPR (qs.map conv) = qs.flatMap fun q => q.ids.map keyOf := by
  simp [Merge.allIds, Merge.emptyQPR, List.flatMap_map, conv]

/-- **IDs.**  `MergeQPRs` of the two models agree -/
theorem merge_ids_agree (rev : Bool) (L hi : Nat) (qs : List ProxySearch.QPR) (hb : Bounded qs) :
    (ProxySearch.mergeQPRs rev L qs).ids.map (fun p => keyOf p.1) =
      (Merge.mergeQPRs (!rev) Merge.emptyQPR (qs.map conv) L hi).ids := by
  rw [Merge.mergeQPRs_ids, allIds_conv, ← merged_keys rev qs hb]
  simp only [ProxySearch.mergeQPRs, ProxySearch.mergedFull, List.map_take]

theorem length_allTagged (qs : List ProxySearch.QPR) :
    (ProxySearch.allTagged qs).length = (qs.flatMap fun q => q.ids.map keyOf).length := by
  induction qs with
  | nil => rfl
  | cons q qs ih => simp [ProxySearch.allTagged, ProxySearch.tagged, List.flatMap_cons] at ih ⊢

/-- **Total.**  Same sum, same number of repetitions, same uint64 subtraction -/
theorem merge_total_agree (rev : Bool) (L hi : Nat) (qs : List ProxySearch.QPR) (hb : Bounded qs) :
    (ProxySearch.mergeQPRs rev L qs).total = (Merge.mergeQPRs (!rev) Merge.emptyQPR (qs.map conv) L hi).total := by
  rw [Merge.mergeQPRs_total, allIds_conv, ← merged_keys rev qs hb]
  simp only [ProxySearch.mergeQPRs, ProxySearch.length_sortS, length_allTagged, List.length_map,
    ProxySearch.mergedFull, Merge.emptyQPR, Nat.zero_add, List.map_map]
  have : (List.map (fun q => q.total) qs) = (List.map ((fun x => x.total) ∘ conv) qs) := by
    apply List.map_congr_left; intro q _; rfl
  rw [this]
  rfl

/-- **Pagination.**  merge with limit `offset+size`, then `paginateIDs` -/
theorem page_agree (rev : Bool) (offset size hi : Nat) (qs : List ProxySearch.QPR) (hb : Bounded qs) :
    (ProxySearch.paginate (ProxySearch.mergeQPRs rev (offset + size) qs).ids offset size).map (fun p => keyOf p.1) =
      (Merge.proxyMerge (!rev) (qs.map conv) offset size hi).ids := by
  simp only [Merge.proxyMerge]
  rw [(Merge.paginate_eq _ offset size).1, ← merge_ids_agree rev (offset + size) hi qs hb]
  simp only [ProxySearch.paginate, List.map_take, List.map_drop]

/-- a hot-tier success of `Search` is `finish` of the classification of the hot arrivals -/
theorem search_ok_hot (hot cold : List (Nat × ProxySearch.ShardRes)) (offset size : Nat) (rev : Bool)
    (ids : List (ProxySearch.ID × ProxySearch.Src)) (t e : Nat) (p : Bool)
    (h : ProxySearch.search hot cold offset size rev = .ok ids t e p false) :
    ∃ qs, ProxySearch.searchStores hot = .data qs p ∧
      ids = ProxySearch.paginate (ProxySearch.mergeQPRs rev (offset + size) qs).ids offset size ∧
      t = (ProxySearch.mergeQPRs rev (offset + size) qs).total := by
  unfold ProxySearch.search at h
  cases hs : ProxySearch.searchStores hot with
  | panic => rw [hs] at h; simp [ProxySearch.finish] at h
  | data qs p' =>
    rw [hs] at h
    simp only [ProxySearch.finish] at h
    split at h
    · cases h
    · injection h with h1 h2 h3 h4 h5
      exact ⟨qs, by rw [h4], h1.symm, h2.symm⟩
  | err k =>
    rw [hs] at h
    cases k with
    | wod =>
      simp only at h
      split at h
      · cases h
      · cases hc : ProxySearch.searchStores cold with
        | err k => rw [hc] at h; simp [ProxySearch.finish] at h
        | panic => rw [hc] at h; simp [ProxySearch.finish] at h
        | data qs p' => rw [hc] at h; simp only [ProxySearch.finish] at h; split at h <;> simp at h
    | tmf => simp [ProxySearch.finish] at h
    | tmu => simp [ProxySearch.finish] at h
    | other => simp [ProxySearch.finish] at h

end SV.ProxyCompose
