import SeqVerif.Model.LegacyParser
/-!
# The index-side tokenizers (tokenizer/*.go) - model for C11

Values are byte strings; the model sees them as the list of runes `utf8.DecodeRune` yields from the left (`TRn`: the
bytes of the rune - a single byte for an invalid sequence -, what Go's `unicode` says about it, and the UTF-8 encodings
of `unicode.ToLower` applied once and twice).  Size limits cut at byte offsets: `truncRunes` re-decodes a cut rune as
one invalid rune per leftover byte (what `DecodeRune` does with a truncated sequence).
-/
namespace SV.Tok
open SV.Parser

structure TRn where
  r : Rn
  /-- UTF-8 of `unicode.ToLower(r.cp)` (for an invalid sequence: EF BF BD) -/
  lowerBytes : List Nat
  /-- UTF-8 of `unicode.ToLower(unicode.ToLower(r.cp))` (`bytes.Map` re-reads what the in-place pass already lowered) -/
  lower2Bytes : List Nat
deriving Repr, DecidableEq

def bytesOf (rs : List TRn) : List Nat := rs.flatMap (·.r.bytes)
def blen (rs : List TRn) : Nat := (bytesOf rs).length

/-- one invalid rune for a leftover byte of a cut multi-byte sequence -/
def invalidRn (b : Nat) : TRn := ⟨⟨[b], 0xFFFD, false, false, false, 0xFFFD, false⟩, [0xEF, 0xBF, 0xBD], [0xEF, 0xBF, 0xBD]⟩

/-- the runes of `value[:n]` given the runes of `value` -/
def truncRunes : List TRn → Nat → List TRn
  | [], _ => []
  | r :: rest, n =>
    if r.r.bytes.length ≤ n then r :: truncRunes rest (n - r.r.bytes.length)
    else (r.r.bytes.take n).map invalidRn

/-! ## lower-casing -/

def isAsciiRn (r : TRn) : Bool := decide (r.r.cp < 128) && decide (r.r.bytes.length = 1)

/-- `toLowerMap[b]` -/
def asciiLower (b : Nat) : Nat := if 65 ≤ b ∧ b ≤ 90 then b + 32 else b

/-- the rune makes `toLowerTryInplace` give up the in-place pass: `utf8.RuneLen(lower) != upperWid` -/
def widthChange (r : TRn) : Bool := !isAsciiRn r && decide (r.lowerBytes.length ≠ r.r.bytes.length)

/-- what the in-place pass writes for a rune -/
def inplaceLower (r : TRn) : List Nat := if isAsciiRn r then [asciiLower r.r.cp] else r.lowerBytes

/-- what `bytes.Map(unicode.ToLower, s)` makes of a rune the in-place pass has already rewritten -/
def mapAfterInplace (r : TRn) : List Nat := if isAsciiRn r then [asciiLower r.r.cp] else r.lower2Bytes

/-- `toLowerTryInplace(s)`: ASCII through the table, other runes re-encoded in place when the lower-case rune has the
same width; at the first rune whose width changes the result is `bytes.Map(unicode.ToLower, s)` over the partly
rewritten buffer -/
def lowerTok (rs : List TRn) : List Nat :=
  if rs.any widthChange then
    (rs.takeWhile fun r => !widthChange r).flatMap mapAfterInplace ++ (rs.dropWhile fun r => !widthChange r).flatMap (·.lowerBytes)
  else rs.flatMap inplaceLower

/-- what `bytes.Map(func(r rune) rune { return r }, x)` makes of a rune: an invalid byte becomes U+FFFD -/
def normBytes (r : TRn) : List Nat := if r.r.cp = 0xFFFD ∧ r.r.bytes.length = 1 then [0xEF, 0xBF, 0xBD] else r.r.bytes

/-- `toLowerIfCaseInsensitive(isCaseSensitive, x)`; `norm` = the case-sensitive branch replaces invalid UTF-8 by U+FFFD
(`if utf8.Valid(x) { return x }; return bytes.Map(identity, x)`), `false` = it returns `x` unchanged (the code before
the repair) -/
def lowerIfCI (cs norm : Bool) (rs : List TRn) : List Nat :=
  if cs then (if norm then rs.flatMap normBytes else bytesOf rs) else lowerTok rs

/-! ## keyword -/

structure TokCfg where
  maxTokenSize : Nat
  cs : Bool
  partialIdx : Bool
  maxFieldValueLength : Nat
  norm : Bool

/-- effective limit: the per-field `MaxSize` when non-zero -/
def effMax (fieldMax dflt : Nat) : Nat := if fieldMax = 0 then dflt else fieldMax

/-- `KeywordTokenizer.Tokenize`: token values appended -/
def keywordTokens (c : TokCfg) (fieldMax : Nat) (value : List TRn) : List (List Nat) :=
  let mx := effMax fieldMax c.maxTokenSize
  if blen value > mx && !c.partialIdx then []
  else [lowerIfCI c.cs c.norm (truncRunes value (min (blen value) mx))]

/-! ## path -/

/-- prefixes `value[:i]` for every separator position `i` found by the loop of `PathTokenizer.Tokenize`
(`acc` = runes before the current position, reversed order kept as a list) -/
def pathPrefixes : Bool → List TRn → List TRn → List (List TRn)
  | _, _, [] => []
  | first, acc, r :: rest =>
    if r.r.cp = 47 ∧ r.r.bytes = [47] ∧ !first then acc :: pathPrefixes false (acc ++ [r]) rest
    else pathPrefixes false (acc ++ [r]) rest

/-- `PathTokenizer.Tokenize` -/
def pathTokens (c : TokCfg) (fieldMax : Nat) (value : List TRn) : List (List Nat) :=
  let mx := effMax fieldMax c.maxTokenSize
  if blen value > mx && !c.partialIdx then []
  else
    let v := truncRunes value (min (blen value) mx)
    ((pathPrefixes true [] v).map (lowerIfCI c.cs c.norm)) ++ [lowerIfCI c.cs c.norm v]

/-! ## text -/

/-- `isTextToken[c]` for ASCII, `unicode.IsLetter(r) || unicode.IsNumber(r)` otherwise -/
def isTextRn (r : TRn) : Bool :=
  if isAsciiRn r then
    decide (97 ≤ r.r.cp ∧ r.r.cp ≤ 122) || decide (65 ≤ r.r.cp ∧ r.r.cp ≤ 90) || decide (48 ≤ r.r.cp ∧ r.r.cp ≤ 57) || r.r.cp = 95 || r.r.cp = 42
  else r.r.letter || r.r.number

/-- the words: maximal runs of text runes (possibly empty between two separators) -/
def textWords : List TRn → List TRn → List (List TRn)
  | cur, [] => [cur]
  | cur, r :: rest => if isTextRn r then textWords (cur ++ [r]) rest else cur :: textWords [] rest

/-- `TextTokenizer.Tokenize` -/
def textTokens (c : TokCfg) (fieldMax : Nat) (value : List TRn) : List (List Nat) :=
  let mxv := effMax fieldMax c.maxFieldValueLength
  if blen value > mxv && !c.partialIdx then []
  else if blen value = 0 then [[]]
  else
    let v := truncRunes value (min (blen value) mxv)
    ((textWords [] v).filter fun w => !w.isEmpty && decide (blen w ≤ c.maxTokenSize)).map (lowerIfCI c.cs c.norm)

/-! ## `indexer.index`: tokens of one field value for every type of the field -/

inductive TT | keyword | text | path | exists | other
deriving DecidableEq, Repr

structure MType where
  title : List Nat       -- empty = use the key
  tt : TT
  maxSize : Nat
deriving DecidableEq, Repr

/-- (token name, token value) pairs `index` appends for one field; `value = none` is the nil value of a tag without value -/
def indexField (c : TokCfg) (all : List MType) (key : List Nat) (value : Option (List TRn)) : List (List Nat × List Nat) :=
  all.flatMap fun t =>
    if t.tt = .other then []                     -- no tokenizer registered for object / tags / nested / noop
    else
      let title := if t.title.isEmpty then key else t.title
      let toks := match value with
        | none => []
        | some v => match t.tt with
          | .keyword => keywordTokens c t.maxSize v
          | .text => textTokens c t.maxSize v
          | .path => pathTokens c t.maxSize v
          | _ => []
      toks.map (fun x => (title, x)) ++ [(tokenExists, title)]

/-! ## `convertMappingWithMultipleTypes` (seq/mapping.go): a `types:` list of a field -/

/-- one entry of the YAML list: title (empty = the main type), tokenizer type, size -/
structure TypeIn where
  title : List Nat
  tt : TT
  size : Nat
deriving DecidableEq, Repr

/-- the loop: `seen` titles, the main type found so far, the `All` list in list order (titles `fn` / `fn.title`) -/
def convertLoop (fn : List Nat) : List TypeIn → List (List Nat) → Option MType → List MType → Option (Option MType × List MType)
  | [], _, main, all => some (main, all)
  | t :: rest, seen, main, all =>
    if seen.contains t.title then none                                   -- "duplicate field title in mapping"
    else
      let title := if t.title.isEmpty then fn else fn ++ [46] ++ t.title  -- PathDelim "."
      let main' := if t.title.isEmpty then some ⟨fn, t.tt, t.size⟩ else main
      convertLoop fn rest (t.title :: seen) main' (all ++ [⟨title, t.tt, t.size⟩])

/-- `MappingTypes{Main, All}` of a multi-type field, `none` = error (duplicate title, or no untitled entry) -/
def convertTypes (fn : List Nat) (types : List TypeIn) : Option (MType × List MType) :=
  match convertLoop fn types [] none [] with
  | some (some main, all) => some (main, all)
  | _ => none

end SV.Tok
