import SeqVerif.Model.AggMerge
set_option linter.unusedSimpArgs false
set_option linter.unusedVariables false
/-!
Helper lemmas for C06, part 8: `Aggregate` sees only what `SC.Eqv` preserves.
-/
namespace SV.Agg

theorem perm_nil_iff {α : Type} {l₁ l₂ : List α} (p : l₁.Perm l₂) : l₁ = [] ↔ l₂ = [] := by
  constructor
  · intro h; subst h; exact (List.Perm.nil_eq p).symm
  · intro h; subst h; exact List.Perm.eq_nil p

theorem quantile_eqv (fixed : Bool) {a b : SC} (h : SC.Eqv a b) (ha : a.WF) (hb : b.WF) (qn qd : Nat) :
    a.quantile fixed qn qd = b.quantile fixed qn qd := by
  have hs := isort_perm_eq h.samples
  have hlen := h.samples.length_eq
  have hnil := perm_nil_iff h.samples
  unfold SC.quantile
  by_cases ht : a.total = 0
  · have htb : b.total = 0 := by rw [← h.total]; exact ht
    have h1 := (ha ht).2
    have h2 := (hb htb).2
    cases fixed <;> simp [ht, htb, h1, h2]
  · have htb : ¬ b.total = 0 := by rw [← h.total]; exact ht
    have hm := h.minmax ht
    by_cases he : a.samples = []
    · have he' := hnil.mp he
      cases fixed <;> simp [ht, htb, he, he', hm.1, hm.2]
    · have he' : ¬ b.samples = [] := fun e => he (hnil.mpr e)
      cases fixed <;> simp [ht, htb, he, he', hm.1, hm.2, hs, hlen]

/-- a bucket is determined by the observable part of its container -/
theorem getAggBucket_eqv (fixed : Bool) (fn : Fn) (qs : List (Nat × Nat)) (k : Bin) {a b : SC}
    (h : SC.Eqv a b) (ha : a.WF) (hb : b.WF) :
    getAggBucket fixed fn qs k a = getAggBucket fixed fn qs k b := by
  have hq : ∀ q : Nat × Nat, a.quantile fixed q.1 q.2 = b.quantile fixed q.1 q.2 :=
    fun q => quantile_eqv fixed h ha hb q.1 q.2
  have hqs : qs.map (fun q => a.quantile fixed q.1 q.2) = qs.map (fun q => b.quantile fixed q.1 q.2) :=
    List.map_congr_left (fun q _ => hq q)
  unfold getAggBucket
  simp only [hqs, h.total, h.notExists, h.sum]
  by_cases ht : b.total = 0
  · cases fn <;> simp [ht]
  · have hm := h.minmax (by rw [h.total]; exact ht)
    cases fn <;> simp [ht, hm.1, hm.2]

end SV.Agg

namespace SV.Agg

theorem binVals_perm {xs ys : List ALeaf} (p : xs.Perm ys) (k : Bin) : (binVals xs k).Perm (binVals ys k) := by
  induction p with
  | nil => exact List.Perm.refl _
  | cons a _ ih => simpa [binVals] using List.Perm.append_left _ ih
  | swap a b l =>
    simp only [binVals, List.flatMap_cons]
    rw [← List.append_assoc, ← List.append_assoc]
    exact List.Perm.append_right _ List.perm_append_comm
  | trans _ _ ih1 ih2 => exact ih1.trans ih2

theorem binNe_perm {xs ys : List ALeaf} (p : xs.Perm ys) (k : Bin) : binNe xs k = binNe ys k := by
  unfold binNe
  exact (p.map (·.ne k)).sum_nat

theorem binPres_perm {xs ys : List ALeaf} (p : xs.Perm ys) (k : Bin) : binPres xs k = binPres ys k := by
  unfold binPres
  cases h1 : xs.any (·.pres k) <;> cases h2 : ys.any (·.pres k) <;> try rfl
  · obtain ⟨l, hl, hp⟩ := List.any_eq_true.mp h2
    have : xs.any (·.pres k) = true := List.any_eq_true.mpr ⟨l, p.mem_iff.mpr hl, hp⟩
    rw [h1] at this; cases this
  · obtain ⟨l, hl, hp⟩ := List.any_eq_true.mp h1
    have : ys.any (·.pres k) = true := List.any_eq_true.mpr ⟨l, p.mem_iff.mp hl, hp⟩
    rw [h2] at this; cases this

/-- **order freedom of whole results**: two merge trees (any bracketing) over any two orderings of the same
partial results agree on `NotExists`, on which bins exist, and on the bucket `Aggregate` builds for every bin -/
theorem ATree.order_free (lim : Nat) (pick : List Int → Nat) (collect : Bool) (t₁ t₂ : MTree ALeaf)
    (hperm : t₁.leaves.Perm t₂.leaves)
    (hleaf : ∀ l, l ∈ t₁.leaves → KeysNodup l.a.bins ∧ ∀ k, ORep (l.pres k) (l.vals k) (l.ne k) collect (l.a.get k))
    (hl : collect = true → ∀ k, (binVals t₁.leaves k).length ≤ lim) :
    (t₁.eval (mergeLeaf lim pick)).a.notExists = (t₂.eval (mergeLeaf lim pick)).a.notExists ∧
    ∀ k, ((t₁.eval (mergeLeaf lim pick)).a.get k = none ∧ (t₂.eval (mergeLeaf lim pick)).a.get k = none) ∨
      ∃ c₁ c₂, (t₁.eval (mergeLeaf lim pick)).a.get k = some c₁ ∧ (t₂.eval (mergeLeaf lim pick)).a.get k = some c₂ ∧
        SC.Eqv c₁ c₂ ∧
        ∀ fixed fn qs, getAggBucket fixed fn qs k c₁ = getAggBucket fixed fn qs k c₂ := by
  have h1 := ATree.rep lim pick collect t₁ hleaf hl
  have h2 := ATree.rep lim pick collect t₂ (fun l hl' => hleaf l (hperm.mem_iff.mpr hl'))
    (fun hc k => by rw [← (binVals_perm hperm k).length_eq]; exact hl hc k)
  refine ⟨?_, fun k => ?_⟩
  · rw [h1.2.1, h2.2.1]
    exact (hperm.map (·.a.notExists)).sum_nat
  · have r1 := (h1.2.2 k).1
    have r2 := (h2.2.2 k).1
    rw [← binPres_perm hperm k, ← binNe_perm hperm k] at r2
    cases hp : binPres t₁.leaves k with
    | false =>
      left
      exact ⟨(r1.absent hp).1, (r2.absent hp).1⟩
    | true =>
      right
      obtain ⟨c₁, e1, rep1⟩ := r1.present hp
      obtain ⟨c₂, e2, rep2⟩ := r2.present hp
      have rep1' := rep1.perm (binVals_perm hperm k)
      have heq := rep1'.eqv rep2
      exact ⟨c₁, c₂, e1, e2, heq, fun fixed fn qs => getAggBucket_eqv fixed fn qs k heq rep1'.wf rep2.wf⟩

end SV.Agg

namespace SV.Agg

/-! ## counters across any merge tree (count / unique: containers that carry no values) -/

def ototal (o : Option SC) : Nat := (o.map (·.total)).getD 0

theorem omerge_total (lim : Nat) (pick : List Int → Nat) (a b : Option SC) :
    ototal (omerge lim pick a b) = ototal a + ototal b ∧
    (omerge lim pick a b).isSome = (a.isSome || b.isSome) := by
  cases b with
  | none => simp [omerge, ototal]
  | some h =>
    cases a with
    | none => simp [omerge, ototal, SC.new]
    | some c => simp [omerge, ototal]

/-- plain merge tree of whole results -/
def evalAS (lim : Nat) (pick : List Int → Nat) (t : MTree AS) : AS := t.eval (AS.merge lim pick)

theorem evalAS_counters (lim : Nat) (pick : List Int → Nat) (t : MTree AS)
    (hleaf : ∀ l, l ∈ t.leaves → KeysNodup l.bins) :
    KeysNodup (evalAS lim pick t).bins ∧
    (evalAS lim pick t).notExists = (t.leaves.map (·.notExists)).sum ∧
    ∀ k, ototal ((evalAS lim pick t).get k) = (t.leaves.map fun l => ototal (l.get k)).sum ∧
         ((evalAS lim pick t).get k).isSome = t.leaves.any fun l => (l.get k).isSome := by
  induction t with
  | leaf a =>
    refine ⟨hleaf a (by simp [MTree.leaves]), by simp [evalAS, MTree.eval, MTree.leaves], fun k => ?_⟩
    simp [evalAS, MTree.eval, MTree.leaves]
  | node l r ihl ihr =>
    have h1 := ihl (fun x hx => hleaf x (by simp [MTree.leaves]; exact Or.inl hx))
    have h2 := ihr (fun x hx => hleaf x (by simp [MTree.leaves]; exact Or.inr hx))
    refine ⟨merge_nodup lim pick _ _ h1.1, ?_, fun k => ?_⟩
    · simp only [evalAS, MTree.eval, MTree.leaves, List.map_append, List.sum_append] at *
      rw [AS.merge_notExists, h1.2.1, h2.2.1]
    · simp only [evalAS, MTree.eval, MTree.leaves, List.map_append, List.sum_append, List.any_append] at *
      rw [AS.merge_get lim pick _ _ h2.1]
      have := omerge_total lim pick ((MTree.eval (AS.merge lim pick) l).get k) ((MTree.eval (AS.merge lim pick) r).get k)
      rw [this.1, this.2, (h1.2.2 k).1, (h2.2.2 k).1, (h1.2.2 k).2, (h2.2.2 k).2]
      exact ⟨rfl, rfl⟩

end SV.Agg
