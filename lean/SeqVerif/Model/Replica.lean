namespace SV.Replica

/-- outcome of one `shard.Bulk` under the circuit breaker -/
inductive Call
  | open                                   -- circuit open: callback not executed, error returned
  | exec (outs : List Bool) (timedOut : Bool)  -- per-replica result of sendBulkToHost; breaker may still report a timeout
deriving Repr

abbrev Status := Nat → Nat → Bool          -- written[shard][replica]
abbrev Log := List (Nat × Nat)             -- successful (shard, replica) calls

def setRow (st : Status) (s : Nat) (row : Nat → Bool) : Status :=
  fun s' r => if s' = s then row r else st s' r

/-- shard.Bulk: replicas 0..R-1; skip already written; mark written only on success -/
def replicaLoop (s : Nat) (outs : List Bool) : (r : Nat) → (n : Nat) → (row : Nat → Bool) → (log : Log) → (allOk : Bool)
    → (Nat → Bool) × Log × Bool
  | _, 0, row, log, ok => (row, log, ok)
  | r, n + 1, row, log, ok =>
    if row r then replicaLoop s outs (r + 1) n row log ok          -- skipped: no call
    else if outs.getD r false then
      replicaLoop s outs (r + 1) n (fun x => if x = r then true else row x) ((s, r) :: log) ok
    else replicaLoop s outs (r + 1) n row log false

def shardBulk (R : Nat) (s : Nat) (c : Call) (st : Status) (log : Log) : Bool × Status × Log :=
  match c with
  | .open => (false, st, log)
  | .exec outs timedOut =>
    let (row, log', ok) := replicaLoop s outs 0 R (st s) log true
    (ok && !timedOut, setRow st s row, log')

/-- sendBulkToStores over the visiting order chosen by the shuffle -/
def sendBulk (R : Nat) : (visits : List (Nat × Call)) → Status → Log → Bool × Status × Log
  | [], st, log => (false, st, log)
  | (s, c) :: rest, st, log =>
    let (ok, st', log') := shardBulk R s c st log
    if ok then (true, st', log') else sendBulk R rest st' log'

structure Tier where
  S : Nat
  R : Nat

structure St where
  cold : Status
  hot : Status
  coldWritten : Bool
  coldLog : Log
  hotLog : Log

def sendTier (t : Tier) (visits : List (Nat × Call)) (st : Status) (log : Log) : Bool × Status × Log :=
  if t.S = 0 then (true, st, log) else sendBulk t.R visits st log

/-- storeDocs: cold first (once), then hot -/
def storeDocs (cold hot : Tier) (cv hv : List (Nat × Call)) (x : St) : Bool × St :=
  if x.coldWritten then
    let h := sendTier hot hv x.hot x.hotLog
    (h.1, { x with hot := h.2.1, hotLog := h.2.2 })
  else
    let c := sendTier cold cv x.cold x.coldLog
    if c.1 then
      let h := sendTier hot hv x.hot x.hotLog
      (h.1, { cold := c.2.1, coldLog := c.2.2, coldWritten := true, hot := h.2.1, hotLog := h.2.2 })
    else (false, { x with cold := c.2.1, coldLog := c.2.2 })

/-- StoreDocuments: at most `tries` attempts, one oracle entry per attempt -/
def storeDocuments (cold hot : Tier) : (oracle : List (List (Nat × Call) × List (Nat × Call))) → St → Bool × St
  | [], x => (false, x)
  | (cv, hv) :: rest, x =>
    let (ok, x') := storeDocs cold hot cv hv x
    if ok then (true, x') else storeDocuments cold hot rest x'

def init : St := { cold := fun _ _ => false, hot := fun _ _ => false, coldWritten := false, coldLog := [], hotLog := [] }

/-- a full replica set of shard `s` accepted the payload -/
def FullSet (R : Nat) (log : Log) : Prop := ∃ s, ∀ r, r < R → (s, r) ∈ log

def Inv (st : Status) (log : Log) : Prop := ∀ s r, st s r = true → (s, r) ∈ log

theorem replicaLoop_spec (s : Nat) (outs : List Bool) (r n : Nat) (row : Nat → Bool) (log : Log) (ok : Bool)
    (hinv : ∀ q, row q = true → (s, q) ∈ log) :
    let res := replicaLoop s outs r n row log ok
    (∀ q, res.1 q = true → (s, q) ∈ res.2.1) ∧
    (∀ e, e ∈ log → e ∈ res.2.1) ∧
    (res.2.2 = true → ok = true ∧ ∀ q, r ≤ q → q < r + n → res.1 q = true) ∧
    (∀ q, row q = true → res.1 q = true) := by
  induction n generalizing r row log ok with
  | zero =>
    simp only [replicaLoop, Nat.add_zero]
    exact ⟨hinv, fun _ h => h, fun h => ⟨h, fun q h1 h2 => by omega⟩, fun _ h => h⟩
  | succ n ih =>
    simp only [replicaLoop]
    split
    · rename_i hrow
      have := ih (r + 1) row log ok hinv
      refine ⟨this.1, this.2.1, ?_, this.2.2.2⟩
      intro h
      obtain ⟨h1, h2⟩ := this.2.2.1 h
      refine ⟨h1, fun q hq1 hq2 => ?_⟩
      by_cases hq : q = r
      · subst hq; exact this.2.2.2 q hrow
      · exact h2 q (by omega) (by omega)
    · split
      · rename_i hrow hout
        have hinv' : ∀ q, (fun x => if x = r then true else row x) q = true → (s, q) ∈ (s, r) :: log := by
          intro q hq
          simp only at hq
          split at hq
          · rename_i h; subst h; simp
          · exact List.mem_cons_of_mem _ (hinv q hq)
        have := ih (r + 1) (fun x => if x = r then true else row x) ((s, r) :: log) ok hinv'
        refine ⟨this.1, fun e he => this.2.1 e (List.mem_cons_of_mem _ he), ?_, ?_⟩
        · intro h
          obtain ⟨h1, h2⟩ := this.2.2.1 h
          refine ⟨h1, fun q hq1 hq2 => ?_⟩
          by_cases hq : q = r
          · subst hq; exact this.2.2.2 q (by simp)
          · exact h2 q (by omega) (by omega)
        · intro q hq
          refine this.2.2.2 q ?_
          show (if q = r then true else row q) = true
          split
          · rfl
          · exact hq
      · have := ih (r + 1) row log false hinv
        refine ⟨this.1, this.2.1, ?_, this.2.2.2⟩
        intro h
        have := (this.2.2.1 h).1
        exact absurd this (by decide)

theorem FullSet.mono {R : Nat} {log log' : Log} (h : FullSet R log) (hsub : ∀ e, e ∈ log → e ∈ log') : FullSet R log' := by
  obtain ⟨s, hs⟩ := h
  exact ⟨s, fun r hr => hsub _ (hs r hr)⟩

theorem shardBulk_spec (R s : Nat) (c : Call) (st : Status) (log : Log) (hinv : Inv st log) :
    let res := shardBulk R s c st log
    Inv res.2.1 res.2.2 ∧ (∀ e, e ∈ log → e ∈ res.2.2) ∧ (res.1 = true → ∀ r, r < R → (s, r) ∈ res.2.2) := by
  cases c with
  | «open» => simp [shardBulk]; exact hinv
  | exec outs timedOut =>
    have h := replicaLoop_spec s outs 0 R (st s) log true (fun q hq => hinv s q hq)
    simp only [shardBulk]
    refine ⟨?_, h.2.1, ?_⟩
    · intro s' r hr
      simp only [setRow] at hr
      split at hr
      · rename_i heq; subst heq; exact h.1 r hr
      · exact h.2.1 _ (hinv s' r hr)
    · intro hok r hr
      simp only [Bool.and_eq_true] at hok
      have := (h.2.2.1 hok.1).2 r (by omega) (by omega)
      exact h.1 r this

theorem sendBulk_spec (R : Nat) (visits : List (Nat × Call)) (st : Status) (log : Log) (hinv : Inv st log) :
    let res := sendBulk R visits st log
    Inv res.2.1 res.2.2 ∧ (∀ e, e ∈ log → e ∈ res.2.2) ∧ (res.1 = true → FullSet R res.2.2) := by
  induction visits generalizing st log with
  | nil => simp [sendBulk]; exact hinv
  | cons v rest ih =>
    obtain ⟨s, c⟩ := v
    have h := shardBulk_spec R s c st log hinv
    simp only [sendBulk]
    split
    · rename_i hok
      exact ⟨h.1, h.2.1, fun _ => ⟨s, h.2.2 hok⟩⟩
    · have h2 := ih _ _ h.1
      exact ⟨h2.1, fun e he => h2.2.1 e (h.2.1 e he), h2.2.2⟩

theorem sendTier_spec (t : Tier) (visits : List (Nat × Call)) (st : Status) (log : Log) (hinv : Inv st log) :
    let res := sendTier t visits st log
    Inv res.2.1 res.2.2 ∧ (∀ e, e ∈ log → e ∈ res.2.2) ∧ (res.1 = true → t.S = 0 ∨ FullSet t.R res.2.2) := by
  unfold sendTier
  split
  · rename_i h0; exact ⟨hinv, fun _ h => h, fun _ => Or.inl h0⟩
  · have h := sendBulk_spec t.R visits st log hinv
    exact ⟨h.1, h.2.1, fun hok => Or.inr (h.2.2 hok)⟩

/-- invariant of the whole client state -/
structure Good (cold hot : Tier) (x : St) : Prop where
  coldInv : Inv x.cold x.coldLog
  hotInv : Inv x.hot x.hotLog
  coldDone : x.coldWritten = true → cold.S = 0 ∨ FullSet cold.R x.coldLog

theorem storeDocs_spec (cold hot : Tier) (cv hv : List (Nat × Call)) (x : St) (g : Good cold hot x) :
    let res := storeDocs cold hot cv hv x
    Good cold hot res.2 ∧
    (res.1 = true → (cold.S = 0 ∨ FullSet cold.R res.2.coldLog) ∧ (hot.S = 0 ∨ FullSet hot.R res.2.hotLog)) := by
  have hh := sendTier_spec hot hv x.hot x.hotLog g.hotInv
  have hc := sendTier_spec cold cv x.cold x.coldLog g.coldInv
  by_cases hcw : x.coldWritten = true
  · simp only [storeDocs, hcw, if_true]
    exact ⟨⟨g.coldInv, hh.1, fun _ => g.coldDone hcw⟩, fun hres => ⟨g.coldDone hcw, hh.2.2 hres⟩⟩
  · have hcw' : x.coldWritten = false := by simpa using hcw
    by_cases hok : (sendTier cold cv x.cold x.coldLog).1 = true
    · simp only [storeDocs, hcw', hok, if_true, Bool.false_eq_true, if_false]
      exact ⟨⟨hc.1, hh.1, fun _ => hc.2.2 hok⟩, fun hres => ⟨hc.2.2 hok, hh.2.2 hres⟩⟩
    · simp only [storeDocs, hcw', hok, Bool.false_eq_true, if_false]
      refine ⟨⟨hc.1, g.hotInv, fun h => ?_⟩, fun h => by simp at h⟩
      simp at h

/-- C09: an acknowledged bulk has a full replica set in the hot tier and, when configured, in the cold tier;
    for every topology, every oracle (orders, outcomes, circuit states), every number of tries. -/
theorem ack_sound (cold hot : Tier) (oracle : List (List (Nat × Call) × List (Nat × Call))) (x : St)
    (g : Good cold hot x) :
    (storeDocuments cold hot oracle x).1 = true →
      (cold.S = 0 ∨ FullSet cold.R (storeDocuments cold hot oracle x).2.coldLog) ∧
      (hot.S = 0 ∨ FullSet hot.R (storeDocuments cold hot oracle x).2.hotLog) := by
  induction oracle generalizing x with
  | nil => simp [storeDocuments]
  | cons a rest ih =>
    obtain ⟨cv, hv⟩ := a
    have h := storeDocs_spec cold hot cv hv x g
    simp only [storeDocuments]
    split
    · rename_i hok; intro _; exact h.2 hok
    · exact ih _ h.1

theorem good_init (cold hot : Tier) : Good cold hot init :=
  ⟨fun _ _ h => by simp [init] at h, fun _ _ h => by simp [init] at h, fun h => by simp [init] at h⟩

/-- non-vacuity: 2 replicas, first attempt half-fails, second attempt completes the same shard -/
example :
    (storeDocuments ⟨0, 0⟩ ⟨1, 2⟩
      [([], [(0, .exec [true, false] false)]), ([], [(0, .exec [false, true] false)])] init).1 = true := by
  decide

/-! ### the log only ever records calls that were executed and succeeded -/

/-- replica `e.2` of shard `e.1` was really called during `visits` and that call succeeded -/
def CallOk (visits : List (Nat × Call)) (e : Nat × Nat) : Prop :=
  ∃ outs t, (e.1, Call.exec outs t) ∈ visits ∧ outs.getD e.2 false = true

theorem replicaLoop_log (s : Nat) (outs : List Bool) (r n : Nat) (row : Nat → Bool) (log : Log) (ok : Bool) :
    ∀ e, e ∈ (replicaLoop s outs r n row log ok).2.1 → e ∈ log ∨ (e.1 = s ∧ outs.getD e.2 false = true) := by
  induction n generalizing r row log ok with
  | zero => intro e he; simp only [replicaLoop] at he; exact Or.inl he
  | succ n ih =>
    intro e he
    simp only [replicaLoop] at he
    split at he
    · exact ih _ _ _ _ e he
    · split at he
      · rename_i hout
        rcases ih _ _ _ _ e he with h | h
        · rcases List.mem_cons.mp h with h | h
          · subst h; exact Or.inr ⟨rfl, hout⟩
          · exact Or.inl h
        · exact Or.inr h
      · exact ih _ _ _ _ e he

theorem shardBulk_log (R s : Nat) (c : Call) (st : Status) (log : Log) :
    ∀ e, e ∈ (shardBulk R s c st log).2.2 → e ∈ log ∨ CallOk [(s, c)] e := by
  intro e he
  cases c with
  | «open» => simp only [shardBulk] at he; exact Or.inl he
  | exec outs t =>
    simp only [shardBulk] at he
    rcases replicaLoop_log s outs 0 R (st s) log true e he with h | ⟨h1, h2⟩
    · exact Or.inl h
    · exact Or.inr ⟨outs, t, by simp [h1], h2⟩

theorem CallOk.mono {v w : List (Nat × Call)} {e : Nat × Nat} (h : CallOk v e) (hsub : ∀ x, x ∈ v → x ∈ w) : CallOk w e := by
  obtain ⟨outs, t, h1, h2⟩ := h
  exact ⟨outs, t, hsub _ h1, h2⟩

theorem sendBulk_log (R : Nat) (visits : List (Nat × Call)) (st : Status) (log : Log) :
    ∀ e, e ∈ (sendBulk R visits st log).2.2 → e ∈ log ∨ CallOk visits e := by
  induction visits generalizing st log with
  | nil => intro e he; simp only [sendBulk] at he; exact Or.inl he
  | cons v rest ih =>
    obtain ⟨s, c⟩ := v
    intro e he
    simp only [sendBulk] at he
    have hs := shardBulk_log R s c st log
    split at he
    · rcases hs e he with h | h
      · exact Or.inl h
      · exact Or.inr (h.mono (by intro x hx; simp at hx; simp [hx]))
    · rcases ih _ _ e he with h | h
      · rcases hs e h with h | h
        · exact Or.inl h
        · exact Or.inr (h.mono (by intro x hx; simp at hx; simp [hx]))
      · exact Or.inr (h.mono (by intro x hx; exact List.mem_cons_of_mem _ hx))

theorem sendTier_log (t : Tier) (visits : List (Nat × Call)) (st : Status) (log : Log) :
    ∀ e, e ∈ (sendTier t visits st log).2.2 → e ∈ log ∨ CallOk visits e := by
  unfold sendTier
  split
  · intro e he; exact Or.inl he
  · exact sendBulk_log t.R visits st log

theorem storeDocs_log (cold hot : Tier) (cv hv : List (Nat × Call)) (x : St) :
    let res := storeDocs cold hot cv hv x
    (∀ e, e ∈ res.2.coldLog → e ∈ x.coldLog ∨ CallOk cv e) ∧
    (∀ e, e ∈ res.2.hotLog → e ∈ x.hotLog ∨ CallOk hv e) := by
  have hc := sendTier_log cold cv x.cold x.coldLog
  have hh := sendTier_log hot hv x.hot x.hotLog
  by_cases hcw : x.coldWritten = true
  · simp only [storeDocs, hcw, if_true]
    exact ⟨fun e he => Or.inl he, hh⟩
  · have hcw' : x.coldWritten = false := by simpa using hcw
    by_cases hok : (sendTier cold cv x.cold x.coldLog).1 = true
    · simp only [storeDocs, hcw', hok, if_true, Bool.false_eq_true, if_false]
      exact ⟨hc, hh⟩
    · simp only [storeDocs, hcw', hok, Bool.false_eq_true, if_false]
      exact ⟨hc, fun e he => Or.inl he⟩

/-- every logged (shard, replica) was called in some attempt and that call succeeded -/
theorem storeDocuments_log (cold hot : Tier) (oracle : List (List (Nat × Call) × List (Nat × Call))) (x : St) :
    (∀ e, e ∈ (storeDocuments cold hot oracle x).2.coldLog → e ∈ x.coldLog ∨ ∃ a, a ∈ oracle ∧ CallOk a.1 e) ∧
    (∀ e, e ∈ (storeDocuments cold hot oracle x).2.hotLog → e ∈ x.hotLog ∨ ∃ a, a ∈ oracle ∧ CallOk a.2 e) := by
  induction oracle generalizing x with
  | nil => simp only [storeDocuments]; exact ⟨fun e he => Or.inl he, fun e he => Or.inl he⟩
  | cons a rest ih =>
    obtain ⟨cv, hv⟩ := a
    have h := storeDocs_log cold hot cv hv x
    simp only [storeDocuments]
    split
    · refine ⟨fun e he => ?_, fun e he => ?_⟩
      · rcases h.1 e he with h' | h'
        · exact Or.inl h'
        · exact Or.inr ⟨(cv, hv), by simp, h'⟩
      · rcases h.2 e he with h' | h'
        · exact Or.inl h'
        · exact Or.inr ⟨(cv, hv), by simp, h'⟩
    · have ih' := ih (storeDocs cold hot cv hv x).2
      refine ⟨fun e he => ?_, fun e he => ?_⟩
      · rcases ih'.1 e he with h' | ⟨a, ha, h'⟩
        · rcases h.1 e h' with h'' | h''
          · exact Or.inl h''
          · exact Or.inr ⟨(cv, hv), by simp, h''⟩
        · exact Or.inr ⟨a, List.mem_cons_of_mem _ ha, h'⟩
      · rcases ih'.2 e he with h' | ⟨a, ha, h'⟩
        · rcases h.2 e h' with h'' | h''
          · exact Or.inl h''
          · exact Or.inr ⟨(cv, hv), by simp, h''⟩
        · exact Or.inr ⟨a, List.mem_cons_of_mem _ ha, h'⟩

end SV.Replica
