/-!
# DESIGN-PHASE SEED (partly superseded) - time rule of `proxy/bulk` (C10)

* `minI`, `maxI`, `subSat` (`time.Time.Sub`), `negWrap` (int64 unary minus) are LIVE: `Model/BulkTime.lean` imports
  and reuses them unchanged.
* `documentDelayed` below is the comparison as the code was BEFORE fix commit 5825a86 (`docDelay < 0 && -docDelay >
  futureDrift`); it is kept only for the historical counterexample (`delayed_counterexample`, `c10_time_rule_counterexample`).
  It is NOT the current code: the model of `documentDelayed` at HEAD is `SV.BulkTime.documentDelayedRepaired`
  (Model/BulkTime.lean), and `documentDelayedFixed` below is its specification-level form.
* Relation, proved in `Consistency/TimeRule.lean`: `cons_time_written_eq_repaired` (equal for `docDelay ≠ MinInt64`,
  `0 ≤ futureDrift`), `cons_time_written_ne_repaired_witness` (they differ at the saturated delay `MinInt64`),
  `cons_time_repaired_eq_fixed` / `cons_time_repaired_ne_fixed_witness` (`Repaired` = `Fixed` unless `futureDrift = MinInt64`).
-/
namespace SV.TimeRule

def minI : Int := -9223372036854775808
def maxI : Int := 9223372036854775807

/-- time.Time.Sub: saturates at the int64 range of Duration -/
def subSat (req doc : Int) : Int :=
  if req - doc < minI then minI else if req - doc > maxI then maxI else req - doc

/-- unary minus on int64 wraps at the minimum -/
def negWrap (d : Int) : Int := if d = minI then minI else -d

/-- proxy/bulk.documentDelayed as written -/
def documentDelayed (docDelay drift futureDrift : Int) : Bool :=
  decide (docDelay > drift) || (decide (docDelay < 0) && decide (negWrap docDelay > futureDrift))

/-- holds whenever the true distance fits the Duration range strictly -/
theorem delayed_iff_outside_partial (req doc drift fut : Int)
    (hd : 0 ≤ drift ∧ drift < maxI) (hf : 0 ≤ fut ∧ fut ≤ maxI)
    (hfit : minI < req - doc) :
    documentDelayed (subSat req doc) drift fut = true ↔ (req - doc > drift ∨ req - doc < -fut) := by
  unfold documentDelayed subSat negWrap minI maxI at *
  simp only [Bool.or_eq_true, Bool.and_eq_true, decide_eq_true_eq]
  by_cases h1 : req - doc < -9223372036854775808
  · omega
  · by_cases h2 : req - doc > 9223372036854775807
    · simp only [h1, h2, if_false, if_true]
      have : ¬ ((9223372036854775807 : Int) = -9223372036854775808) := by decide
      simp only [this, if_false]
      omega
    · simp only [h1, h2, if_false]
      by_cases h3 : req - doc = -9223372036854775808
      · omega
      · simp only [h3, if_false]; omega

/-- the full statement is false for the code as written: a document 2^63 ns or more ahead is not flagged -/
theorem delayed_counterexample :
    documentDelayed (subSat 0 9223372036854775808) 0 0 = false ∧ ((0:Int) - 9223372036854775808 < -0) := by
  decide

/-- repaired comparison `docDelay < -futureDrift` -/
def documentDelayedFixed (docDelay drift futureDrift : Int) : Bool :=
  decide (docDelay > drift) || decide (docDelay < -futureDrift)

theorem fixed_iff_outside (req doc drift fut : Int)
    (hd : 0 ≤ drift ∧ drift < maxI) (hf : 0 ≤ fut ∧ fut < maxI) :
    documentDelayedFixed (subSat req doc) drift fut = true ↔ (req - doc > drift ∨ req - doc < -fut) := by
  unfold documentDelayedFixed subSat minI maxI at *
  simp only [Bool.or_eq_true, decide_eq_true_eq]
  by_cases h1 : req - doc < -9223372036854775808
  · simp only [h1, if_true]; omega
  · by_cases h2 : req - doc > 9223372036854775807
    · simp only [h1, h2, if_false, if_true]; omega
    · simp only [h1, h2, if_false]

end SV.TimeRule
