import SeqVerif.Model.AggRun
set_option linter.unusedSimpArgs false
set_option linter.unusedVariables false
/-!
Helper lemmas for C06, part 7: `AggregatableSamples.Merge` seen from one bin, merge trees of whole results.
-/
namespace SV.Agg

theorem mem_upsert_key (k k' : Bin) (f : SC → SC) (bs : Bins) :
    k' ∈ (upsert k f bs).map (·.1) ↔ k' = k ∨ k' ∈ bs.map (·.1) := by
  induction bs with
  | nil => simp [upsert]
  | cons x bs ih =>
    obtain ⟨kx, v⟩ := x
    by_cases hx : kx = k
    · subst hx; simp [upsert]
    · simp only [upsert, hx, if_false, List.map_cons, List.mem_cons, ih]
      constructor
      · rintro (h | h | h)
        · exact Or.inr (Or.inl h)
        · exact Or.inl h
        · exact Or.inr (Or.inr h)
      · rintro (h | h | h)
        · exact Or.inr (Or.inl h)
        · exact Or.inl h
        · exact Or.inr (Or.inr h)

theorem upsert_nodup (k : Bin) (f : SC → SC) (bs : Bins) (h : KeysNodup bs) : KeysNodup (upsert k f bs) := by
  induction bs with
  | nil => simp [upsert, KeysNodup]
  | cons x bs ih =>
    obtain ⟨kx, v⟩ := x
    have h' : kx ∉ bs.map (·.1) ∧ KeysNodup bs := by simpa [KeysNodup] using h
    by_cases hx : kx = k
    · subst hx; simpa [upsert, KeysNodup] using h
    · simp only [upsert, hx, if_false, KeysNodup, List.map_cons, List.nodup_cons]
      refine ⟨?_, ih h'.2⟩
      intro hm
      rcases (mem_upsert_key k kx f bs).mp hm with e | e
      · exact hx e
      · exact h'.1 e

theorem merge_nodup (lim : Nat) (pick : List Int → Nat) (a b : AS) (h : KeysNodup a.bins) :
    KeysNodup (AS.merge lim pick a b).bins := by
  unfold AS.merge
  simp only
  generalize a.bins = bs at h
  induction b.bins generalizing bs with
  | nil => simpa using h
  | cons x r ih => simp only [List.foldl_cons]; exact ih _ (upsert_nodup _ _ _ h)

theorem filter_bin_le_one (m : Bins) (h : KeysNodup m) (k : Bin) :
    (m.filter fun kc => kc.1 = k) = [] ∨ ∃ c, (m.filter fun kc => kc.1 = k) = [(k, c)] ∧ m.lookup k = some c := by
  induction m with
  | nil => left; rfl
  | cons x m ih =>
    obtain ⟨kx, n⟩ := x
    have h' : kx ∉ m.map (·.1) ∧ KeysNodup m := by simpa [KeysNodup] using h
    by_cases hx : kx = k
    · subst hx
      right
      refine ⟨n, ?_, by simp [List.lookup]⟩
      have : m.filter (fun kc => kc.1 = kx) = [] := by
        rw [List.filter_eq_nil_iff]
        intro a ha; simp only [decide_eq_true_eq]
        intro e; exact h'.1 (by rw [← e]; exact List.mem_map_of_mem ha)
      simp [List.filter_cons, this]
    · have hb : (k == kx) = false := by simp; exact fun e => hx e.symm
      rcases ih h'.2 with h0 | ⟨c, h1, h2⟩
      · left; simpa [List.filter_cons, hx] using h0
      · right; exact ⟨c, by simpa [List.filter_cons, hx] using h1, by simp [List.lookup, hb, h2]⟩

theorem filter_nil_lookup (m : Bins) (k : Bin) (h : (m.filter fun kc => kc.1 = k) = []) : m.lookup k = none := by
  apply lookup_none_of_not_mem
  intro hm
  obtain ⟨kc, hkc, e⟩ := List.mem_map.mp hm
  rw [List.filter_eq_nil_iff] at h
  have := h kc hkc
  simp only [decide_eq_true_eq] at this
  exact this e

/-- what one `Merge` does to one bin -/
def omerge (lim : Nat) (pick : List Int → Nat) (a b : Option SC) : Option SC :=
  match b with
  | none => a
  | some h => some (SC.merge lim pick (a.getD SC.new) h)

/-- **`AggregatableSamples.Merge` bin by bin** -/
theorem AS.merge_get (lim : Nat) (pick : List Int → Nat) (a b : AS) (hb : KeysNodup b.bins) (k : Bin) :
    (AS.merge lim pick a b).get k = omerge lim pick (a.get k) (b.get k) := by
  unfold AS.merge AS.get
  simp only
  rw [lookup_foldl_upsert (fun kh : Bin × SC => kh.1) (fun kh c => SC.merge lim pick c kh.2)]
  rcases filter_bin_le_one b.bins hb k with h0 | ⟨c, h1, h2⟩
  · rw [h0, filter_nil_lookup _ _ h0]; simp [omerge]
  · rw [h1, h2]; simp [omerge]

theorem AS.merge_notExists (lim : Nat) (pick : List Int → Nat) (a b : AS) :
    (AS.merge lim pick a b).notExists = a.notExists + b.notExists := rfl

/-- presence-aware summary of one bin of a partial result -/
structure ORep (pres : Bool) (vals : List Int) (ne : Nat) (collect : Bool) (o : Option SC) : Prop where
  absent : pres = false → o = none ∧ vals = [] ∧ ne = 0
  present : pres = true → ∃ c, o = some c ∧ Rep vals ne collect c

theorem ORep.step {lim : Nat} {pick : List Int → Nat} {p1 p2 : Bool} {xs ys : List Int} {n1 n2 : Nat}
    {collect : Bool} {a b : Option SC} (ha : ORep p1 xs n1 collect a) (hb : ORep p2 ys n2 collect b)
    (hl : collect = true → xs.length + ys.length ≤ lim) :
    ORep (p1 || p2) (xs ++ ys) (n1 + n2) collect (omerge lim pick a b) := by
  cases p2 with
  | false =>
    obtain ⟨hb1, hb2, hb3⟩ := hb.absent rfl
    subst hb1 hb2 hb3
    simpa [omerge] using ha
  | true =>
    obtain ⟨cb, hb1, hb2⟩ := hb.present rfl
    subst hb1
    refine ⟨by simp, fun _ => ?_⟩
    cases p1 with
    | false =>
      obtain ⟨ha1, ha2, ha3⟩ := ha.absent rfl
      subst ha1 ha2 ha3
      refine ⟨_, rfl, ?_⟩
      have := Rep.merge (lim := lim) (pick := pick) (Rep.new collect) hb2 (by intro hc; have := hl hc; simpa using this)
      simpa [omerge] using this
    | true =>
      obtain ⟨ca, ha1, ha2⟩ := ha.present rfl
      subst ha1
      exact ⟨_, rfl, by simpa [omerge] using Rep.merge (lim := lim) (pick := pick) ha2 hb2 hl⟩

/-- a partial result (one fraction, or an already merged group) with what each of its bins summarises -/
structure ALeaf where
  a : AS
  pres : Bin → Bool
  vals : Bin → List Int
  ne : Bin → Nat

def binVals (ls : List ALeaf) (k : Bin) : List Int := ls.flatMap (·.vals k)
def binNe (ls : List ALeaf) (k : Bin) : Nat := (ls.map (·.ne k)).sum
def binPres (ls : List ALeaf) (k : Bin) : Bool := ls.any (·.pres k)

def mergeLeaf (lim : Nat) (pick : List Int → Nat) (x y : ALeaf) : ALeaf :=
  ⟨AS.merge lim pick x.a y.a, fun k => x.pres k || y.pres k, fun k => x.vals k ++ y.vals k, fun k => x.ne k + y.ne k⟩

/-- **merge trees of whole results**: any bracketing of `Merge` calls over the partial results gives, bin by
bin, a container present exactly when some partial result has the bin, summarising the concatenation of the
partial results' values -/
theorem ATree.rep (lim : Nat) (pick : List Int → Nat) (collect : Bool) (t : MTree ALeaf)
    (hleaf : ∀ l, l ∈ t.leaves → KeysNodup l.a.bins ∧ ∀ k, ORep (l.pres k) (l.vals k) (l.ne k) collect (l.a.get k))
    (hl : collect = true → ∀ k, (binVals t.leaves k).length ≤ lim) :
    KeysNodup (t.eval (mergeLeaf lim pick)).a.bins ∧
    (t.eval (mergeLeaf lim pick)).a.notExists = (t.leaves.map (·.a.notExists)).sum ∧
    ∀ k, ORep (binPres t.leaves k) (binVals t.leaves k) (binNe t.leaves k) collect ((t.eval (mergeLeaf lim pick)).a.get k) ∧
      (t.eval (mergeLeaf lim pick)).vals k = binVals t.leaves k ∧
      (t.eval (mergeLeaf lim pick)).ne k = binNe t.leaves k ∧
      (t.eval (mergeLeaf lim pick)).pres k = binPres t.leaves k := by
  induction t with
  | leaf a =>
    have := hleaf a (by simp [MTree.leaves])
    refine ⟨this.1, by simp [MTree.leaves, MTree.eval], fun k => ?_⟩
    simpa [MTree.leaves, MTree.eval, binVals, binNe, binPres] using this.2 k
  | node l r ihl ihr =>
    have h1 := ihl (fun x hx => hleaf x (by simp [MTree.leaves]; exact Or.inl hx))
      (fun hc k => by have := hl hc k; simp [MTree.leaves, binVals] at this ⊢; omega)
    have h2 := ihr (fun x hx => hleaf x (by simp [MTree.leaves]; exact Or.inr hx))
      (fun hc k => by have := hl hc k; simp [MTree.leaves, binVals] at this ⊢; omega)
    refine ⟨merge_nodup lim pick _ _ h1.1, ?_, fun k => ?_⟩
    · simp [MTree.eval, MTree.leaves, mergeLeaf, AS.merge_notExists, h1.2.1, h2.2.1]
    · simp only [MTree.eval, MTree.leaves, mergeLeaf]
      rw [AS.merge_get lim pick _ _ h2.1]
      have hk1 := h1.2.2 k
      have hk2 := h2.2.2 k
      refine ⟨?_, ?_, ?_, ?_⟩
      · have := ORep.step (lim := lim) (pick := pick) hk1.1 hk2.1
          (by intro hc; have := hl hc k; simpa [MTree.leaves, binVals] using this)
        simpa [binVals, binNe, binPres] using this
      · simp [binVals, hk1.2.1, hk2.2.1]
      · simp [binNe, hk1.2.2.1, hk2.2.2.1]
      · simp [binPres, hk1.2.2.2, hk2.2.2.2]

end SV.Agg
