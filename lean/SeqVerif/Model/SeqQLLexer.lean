import SeqVerif.Model.SeqQLFilter
/-!
# The SeqQL lexer (parser/seqql.go: `lexer.Next`, `unquotePrefix`, `unquoteChar`, `nextToken`) - C12, character level

The query is given as the list of its runes (`utf8.DecodeRuneInString` applied from the left; every place where the
lexer cuts the string is a rune boundary: it cuts after whole runes, at ASCII quotes, at `\n`, or after what
`strconv.UnquoteChar` consumed).  Oracles: Go's `unicode` predicates (fields of `Rn`) and, per position,
`strconv.UnquoteChar(q[i:], quote)` for the two quote characters (`QRn.uqS`, `QRn.uqD`: the decoded rune and how many
runes of the query it consumed).  `lexNext` is one call of `Next()`; `lexAll` calls it until `IsEnd()`.
-/
namespace SV.Parser

structure QRn where
  r : Rn
  /-- `strconv.UnquoteChar(q[i:], '\'')`: value and number of runes consumed, `none` = error -/
  uqS : Option (Rn × Nat)
  /-- `strconv.UnquoteChar(q[i:], '"')` -/
  uqD : Option (Rn × Nat)
deriving Repr, DecidableEq

/-- the lexer state after `Next()`: `Token` (as runes), `TokenQuoted`, `SpaceSkipped`, `rawString` -/
structure RawTok where
  rs : List Rn
  quoted : Bool
  space : Bool
  raw : Bool
deriving Repr, DecidableEq

def wildcardRn : Rn := ⟨[0xEE, 0x80, 0x80], 0xE000, false, false, false, 0xE000, false⟩
def starRn : Rn := ⟨[42], 42, false, false, false, 42, false⟩
def backslashRn : Rn := ⟨[92], 92, false, false, false, 92, false⟩

/-- `for unicode.IsSpace(r) { lex.q = lex.q[size:]; ...; lex.SpaceSkipped = true }` -/
def lexSkipSpaces : Bool → List QRn → Bool × List QRn
  | sp, [] => (sp, [])
  | sp, h :: t => if h.r.space then lexSkipSpaces true t else (sp, h :: t)

/-- the comment: `n := strings.IndexByte(lex.q[1:], '\n'); if n == -1 { q = "" } else { q = q[n+1:] }` - the rest starts
at the newline -/
def dropComment : List QRn → List QRn
  | [] => []
  | _ :: t => t.dropWhile fun x => x.r.cp ≠ 10

/-- the maximal prefix of token runes (`for isTokenRune(r) { tokenLen += size; ... }`) -/
def spanToken : List QRn → List Rn × List QRn
  | [] => ([], [])
  | h :: t => if isTokenRune h.r then (h.r :: (spanToken t).1, (spanToken t).2) else ([], h :: t)

/-- split at the first rune with code point `c` (`strings.IndexByte` for an ASCII byte): runes before it, runes after it -/
def splitAt (c : Nat) : List QRn → Option (List QRn × List QRn)
  | [] => none
  | h :: t => if h.r.cp = c then some ([], t) else (splitAt c t).map fun p => (h :: p.1, p.2)

/-- the second rune is `*` (`strings.HasPrefix(s, `\*`)` after a backslash) -/
def nextIsStar : List QRn → Bool
  | n :: _ => decide (n.r.cp = 42)
  | [] => false

/-- `unquoteChar(s, quote)`: `\*` is a literal asterisk, `*` is the wildcard, otherwise `strconv.UnquoteChar` -/
def unquoteChar (quote : Nat) : List QRn → Option (Rn × Nat)
  | [] => none
  | h :: t =>
    if h.r.cp = 92 ∧ nextIsStar t = true then some (starRn, 2)
    else if h.r.cp = 42 then some (wildcardRn, 1)
    else if quote = 39 then h.uqS else h.uqD

/-- the unquoting loop of `unquotePrefix`; `acc` is the buffer `b`.  A successful `UnquoteChar` consumes at least one
rune (assumption on strconv, made explicit by `max 1`). -/
def unquoteLoop (quote : Nat) : Nat → List Rn → List QRn → PRes (List Rn × List QRn)
  | 0, _, _ => .oof
  | _, _, [] => .err                                   -- `prefix == ""`: no closing quote
  | f+1, acc, p :: rest =>
    if p.r.cp = quote then .ok (acc, rest)
    else match unquoteChar quote (p :: rest) with
      | none => unquoteLoop quote f (acc ++ [backslashRn]) rest      -- skip the invalid escape's backslash
      | some (ch, k) => unquoteLoop quote f (acc ++ [ch]) ((p :: rest).drop (max 1 k))

/-- `unquotePrefix(q)` for `q` starting with `'` or `"` -/
def unquotePrefix : List QRn → PRes (List Rn × List QRn)
  | [] => .err
  | h :: t =>
    match splitAt h.r.cp t with
    | none => .err                                      -- also covers `len(q) < 2`
    | some (inner, after) =>
      if inner.all (fun x => x.r.cp ≠ 92 ∧ x.r.cp ≠ 42) then .ok (inner.map (·.r), after)      -- `!needUnquote`
      else unquoteLoop h.r.cp (t.length + 1) [] t

/-- `strconv.QuotedPrefix(q)` for a raw string: up to the next backquote -/
def rawPrefix : List QRn → PRes (List Rn × List QRn)
  | [] => .err
  | _ :: t =>
    match splitAt 96 t with
    | none => .err
    | some (inner, after) => .ok (inner.map (·.r), after)

/-- `Next()`; the fuel counts passes through `again:` (one per comment line) -/
def lexNext : Nat → Bool → List QRn → PRes (RawTok × List QRn)
  | 0, _, _ => .oof
  | _, sp, [] => .ok (⟨[], false, sp, false⟩, [])                          -- `nextToken(0)` at the end of the query
  | f+1, sp, h :: t =>
    if h.r.cp = 0xFFFD then .ok (⟨[h.r], false, sp, false⟩, t)             -- invalid UTF-8 (or a literal U+FFFD)
    else
      let s := lexSkipSpaces sp (h :: t)
      match s.2 with
      | [] => .ok (⟨[], false, s.1, false⟩, [])
      | h2 :: t2 =>
        if h2.r.cp = 35 then lexNext f s.1 (dropComment (h2 :: t2))        -- '#'
        else if isTokenRune h2.r then .ok (⟨(spanToken (h2 :: t2)).1, false, s.1, false⟩, (spanToken (h2 :: t2)).2)
        else if h2.r.cp = 42 then .ok (⟨[wildcardRn], false, s.1, false⟩, t2)
        else if h2.r.cp = 39 ∨ h2.r.cp = 34 then
          match unquotePrefix (h2 :: t2) with
          | .ok p => .ok (⟨p.1, true, s.1, false⟩, p.2)
          | .oof => .oof
          | _ => .ok (⟨[h2.r], false, s.1, false⟩, t2)                     -- `lex.nextToken(1)`
        else if h2.r.cp = 96 then
          match rawPrefix (h2 :: t2) with
          | .ok p => .ok (⟨p.1, true, s.1, true⟩, p.2)
          | .oof => .oof
          | _ => .ok (⟨[h2.r], false, s.1, false⟩, t2)
        else .ok (⟨[h2.r], false, s.1, false⟩, t2)                         -- any other single rune

/-- `lex.IsEnd()` -/
def RawTok.isEnd (t : RawTok) (rest : List QRn) : Bool := rest.isEmpty && t.rs.isEmpty && !t.quoted

/-- all tokens up to (not including) the end token -/
def lexAll : Nat → List QRn → PRes (List RawTok)
  | 0, _ => .oof
  | f+1, q =>
    (lexNext (q.length + 1) false q).bind fun p =>
      if p.1.isEnd p.2 then .ok []
      else (lexAll f p.2).bind fun ts => .ok (p.1 :: ts)

/-- `ParseSeqQL(q, mapping)` on the runes of `q`: lexer, keyword classification (`strings.EqualFold`, oracle `kwOf`), parser -/
def parseSeqQLRunes (kwOf : List Rn → KW) (c : Cfg) (mx : Option Nat) (q : List QRn) : PRes (Ast Leaf × List PipeFields) :=
  (lexAll (q.length + 1) q).bind fun toks =>
    parseSeqQL c mx (toks.map fun t => ⟨t.rs, t.quoted, t.space, if t.quoted then .none else kwOf t.rs⟩)

end SV.Parser
