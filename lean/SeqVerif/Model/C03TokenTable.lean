import SeqVerif.Model.C03Tokens
import SeqVerif.Model.C03Docs
/-!
# C03 - the token table on disk: `DiskTokenTableBlock.pack` / `writeTokenTableBlocks` and `token.TableLoader.load`

The table kept from sealing (`writeTokensBlocks` result, put into the cache by `NewSealedPreloaded`) versus the table
re-read from the index file (restart or cache eviction).  A table block is a sequence of
`field name, entry count, entries (StartTID, ValCount, StartIndex, BlockIndex as uint32; MinVal, MaxVal with size)`;
fields are packed one after another and a block is closed when it exceeds `consts.RegularBlockSize`.
-/
namespace SV.C03

def putStr (s : List Nat) : List Nat := le32 s.length ++ s

/-- `TableEntry.Pack` -/
def packEntry (e : TEntry) : List Nat :=
  le32 e.startTID ++ le32 e.valCount ++ le32 e.startIndex ++ le32 e.blockIndex ++ putStr (e.minVal.getD []) ++ putStr e.maxVal

/-- `DiskTokenTableBlock` -/
structure FieldEntries where
  name : List Nat
  entries : List TEntry
deriving Repr, DecidableEq

/-- `DiskTokenTableBlock.pack` -/
def packFieldBlock (f : FieldEntries) : List Nat := putStr f.name ++ le32 f.entries.length ++ f.entries.flatMap packEntry

/-- `writeTokenTableBlocks`: `block.pack(former.Packer()); FlushIfNeeded`, at the end `FlushForced` -/
def writeTable (rbs : Nat) : List FieldEntries → List Nat → List (List Nat)
  | [], buf => if buf = [] then [] else [buf]
  | f :: rest, buf =>
    if (buf ++ packFieldBlock f).length > rbs then (buf ++ packFieldBlock f) :: writeTable rbs rest []
    else writeTable rbs rest (buf ++ packFieldBlock f)

/-- an entry as the loaded table holds it (`MinVal` lives in `FieldData`) -/
structure LEntry where
  startIndex : Nat
  startTID : Nat
  blockIndex : Nat
  valCount : Nat
  maxVal : Tok
deriving Repr, DecidableEq

structure LField where
  name : List Nat
  minVal : Tok
  entries : List LEntry
deriving Repr, DecidableEq

/-- `unpacker.GetUint32()` -/
def getU32 (bs : List Nat) : Nat × List Nat := (unle32 bs, bs.drop 4)

/-- `unpacker.GetBinary()` -/
def getBinary (bs : List Nat) : List Nat × List Nat := (((bs.drop 4).take (unle32 bs)), (bs.drop 4).drop (unle32 bs))

/-- body of `for i := range field.Entries`: the stored StartIndex is read back -/
def parseEntry (bs : List Nat) : (LEntry × Tok) × List Nat :=
  let a := getU32 bs
  let b := getU32 a.2
  let c := getU32 b.2
  let d := getU32 c.2
  let mn := getBinary d.2
  let mx := getBinary mn.2
  (({ startTID := a.1, valCount := b.1, startIndex := c.1, blockIndex := d.1, maxVal := mx.1 }, mn.1), mx.2)

def parseEntries : Nat → List Nat → List (LEntry × Tok) × List Nat
  | 0, bs => ([], bs)
  | n + 1, bs =>
    let e := parseEntry bs
    let r := parseEntries n e.2
    (e.1 :: r.1, r.2)

def parseField (bs : List Nat) : LField × List Nat :=
  let nm := getBinary bs
  let cnt := getU32 nm.2
  let es := parseEntries cnt.1 cnt.2
  ({ name := nm.1, minVal := (es.1.head?.map (·.2)).getD [], entries := es.1.map (·.1) }, es.2)

/-- `for unpacker.Len() > 0 { ... }`; fuel = len(block) -/
def parseBlock : Nat → List Nat → List LField
  | 0, _ => []
  | fuel + 1, bs => if bs = [] then [] else (parseField bs).1 :: parseBlock fuel (parseField bs).2

/-- `TableLoader.load` over the table blocks -/
def loadTable (blocks : List (List Nat)) : List LField := blocks.flatMap fun b => parseBlock b.length b

/-- what sealing keeps in memory for a field (`FieldData{MinVal, Entries}`) -/
def keptField (f : FieldEntries) : LField :=
  { name := f.name, minVal := (f.entries.head?.map fun e => e.minVal.getD []).getD [],
    entries := f.entries.map fun e => { startIndex := e.startIndex, startTID := e.startTID, blockIndex := e.blockIndex,
                                        valCount := e.valCount, maxVal := e.maxVal } }

end SV.C03
