/-!
# C18 - small-step model of package `cache` (cache.go, cleaner.go) as of /repo commit b331fc5

One `step` per critical section of the Go code, several caches sharing one `Cleaner`, any number of caller
threads, one maintainer (Rotate / Cleanup / CleanEmptyGenerations / ReleaseBuckets run on one goroutine in
`fracmanager.CacheMaintainer.RunCleanLoop`).

Representation choices (all documented because the theorems are about exactly these definitions):

* Go's `*entry` pointers are indices into `St.heap`, a list that only grows.  `payload map[uint32]*entry` of all
  caches together is the set of heap entries with `inMap = true`; `delete(c.payload, k)` clears `inMap` of the
  entries of that cache and key, `c.payload = nil` (Release) clears it for the whole cache.  `lookup` returns the
  first heap entry that is in the map under `(cache, key)`; `Cache.lean` keeps at most one (`uniq` in CacheInv).
* `entry.wg`:  `loading` = wg set and not done, `valid` = wg nil (`save`), `abandoned` = wg set and done (`recover`).
* `*Generation` pointers are natural numbers (`ngens` = next fresh one); `Generation.size` is an `Int` because
  the Go counter is an atomic uint64 that is decremented and incremented by different critical sections.
* per thread a program counter `Pc`: idle / blocked in `wg.Wait()` / running the loader.  The value, size and
  outcome (value / error / panic) of a loader run are arguments of the `finish` label: the loader is an oracle.
* not modelled (invisible to the property): metrics, `creationTime`, `CleanStat` except the fields printed by the driver, the `Reset`
  methods used by tests only.
* atomicity assumptions: each label is one mutex-protected section; `Cleaner.Cleanup`'s bucket snapshot and
  `markStale` are one step (`cleanupBegin`), the bucket visits are separate steps.
-/
namespace SV.Cache

inductive EState | loading | valid | abandoned
deriving DecidableEq, Repr

structure Entry where
  cache : Nat
  key : Nat
  st : EState
  val : Nat
  gen : Nat
  size : Nat
  deleted : Bool
  inMap : Bool
deriving DecidableEq, Repr

inductive Pc
  | idle
  | waiting (c k eid : Nat)
  | loading (c k eid : Nat)
deriving DecidableEq, Repr

/-- what the loader `fn` did -/
inductive Outcome
  | ok (v sz : Nat)
  | err
  | panic
deriving DecidableEq, Repr

structure Cfg where
  sizeLimit : Nat
  /-- `Cache.entrySize` (key + entry struct + pointer), positive in Go -/
  entrySize : Nat
deriving DecidableEq, Repr

/-- `uint64(maxGenerationRatio * float64(sizeLimit))` with ratio 0.05 (exact for limits below 2^50) -/
def Cfg.maxGenSize (cfg : Cfg) : Nat := cfg.sizeLimit / 20

structure St where
  heap : List Entry
  ncaches : Nat
  curL : List Nat
  relL : List Bool
  ngens : Nat
  gsizeL : List Int
  staleL : List Bool
  glist : List Nat
  lastGen : Nat
  buckets : List Nat
  pcL : List Pc
  /-- `Cache.maxPayloadSize` per cache: the largest map length seen by `Cleanup` since the map was last rebuilt -/
  maxPL : List Nat
  /-- buckets the running `Cleaner.Cleanup` still has to visit (`none`: no pass in progress) -/
  todo : Option (List Nat)
  /-- ghost: (cache, key, value) of every loader run that returned a value -/
  produced : List (Nat × Nat × Nat)

/-- finite maps `Nat → α` with a default, stored as lists (so that the compiled driver does not build closure
chains): `mget d l i` reads, `mset d l i a` writes (padding with the default). -/
def mget {α} (d : α) (l : List α) (i : Nat) : α := l.getD i d

def mset {α} (d : α) : List α → Nat → α → List α
  | [], 0, a => [a]
  | [], i + 1, a => d :: mset d [] i a
  | _ :: xs, 0, a => a :: xs
  | x :: xs, i + 1, a => x :: mset d xs i a

/-- `c.currentGeneration` of cache `c` -/
def St.cur (s : St) (c : Nat) : Nat := mget 0 s.curL c
/-- `c.released` -/
def St.released (s : St) (c : Nat) : Bool := mget false s.relL c
/-- `g.size` -/
def St.gsize (s : St) (g : Nat) : Int := mget 0 s.gsizeL g
/-- `g.stale` -/
def St.stale (s : St) (g : Nat) : Bool := mget false s.staleL g
/-- program counter of thread `t` -/
def St.pc (s : St) (t : Nat) : Pc := mget .idle s.pcL t

/-- `NewCleaner` -/
def init : St :=
  { heap := [], ncaches := 0, curL := [], relL := [], ngens := 1, gsizeL := [], staleL := [], glist := [0],
    lastGen := 0, buckets := [], pcL := [], maxPL := [], todo := none, produced := [] }

/-- `g.size.Add(d)` -/
def addG (l : List Int) (g : Nat) (d : Int) : List Int := mset 0 l g (mget 0 l g + d)

def setPc (s : St) (t : Nat) (p : Pc) : St := { s with pcL := mset .idle s.pcL t p }

inductive Out
  | none
  | value (v : Nat)
  | waiting
  | loading
  | err
  | panic
  | rotated (b : Bool) (lastGenSize : Int)
  | cleanup (started : Bool) (sizeToClean : Int) (gens : Nat)
  | freed (n : Nat) (rebuilt : Bool)
  | count (n : Nat)
deriving DecidableEq, Repr

inductive Label
  | newCache
  | get (t c k : Nat)
  | wake (t : Nat)
  | finish (t : Nat) (o : Outcome)
  | release (c : Nat)
  | rotate
  | cleanupBegin
  | cleanupBucket
  | cleanEmpty
  | releaseBuckets
deriving DecidableEq, Repr

/-! ## cache.go -/

def matchKey (c k : Nat) (e : Entry) : Bool := e.inMap && (e.cache == c && e.key == k)

/-- `c.payload[key]` -/
def lookup (heap : List Entry) (c k : Nat) : Option Nat := heap.findIdx? (matchKey c k)

/-- `entry.updateGeneration` -/
def updGen (s : St) (eid ng : Nat) : St :=
  match s.heap[eid]? with
  | none => s
  | some e =>
    if ng = e.gen then s
    else { s with gsizeL := addG (addG s.gsizeL e.gen (-(e.size : Int))) ng e.size,
                  heap := s.heap.set eid { e with gen := ng } }

/-- the critical section(s) of `getOrCreate` up to the point where the caller returns, blocks or loads -/
def acquire (s : St) (t c k : Nat) : St × Out :=
  match lookup s.heap c k with
  | some eid =>
    match s.heap[eid]? with
    | none => (s, .none)
    | some e =>
      let s1 := updGen s eid (s.cur c)
      if e.st = .valid then (setPc s1 t .idle, .value e.val)
      else (setPc s1 t (.waiting c k eid), .waiting)
  | none =>
    (setPc { s with heap := s.heap ++ [⟨c, k, .loading, 0, s.cur c, 0, false, true⟩] } t (.loading c k s.heap.length),
     .loading)

/-- `save`: the value is published; an entry that is still wanted (not evicted, cache not released) is assigned to
the cache's current generation and accounted there, inside the critical section -/
def save (cfg : Cfg) (s : St) (t c k eid v sz : Nat) : St × Out :=
  match s.heap[eid]? with
  | none => (s, .none)
  | some e =>
    if e.deleted then
      (setPc { s with heap := s.heap.set eid { e with val := v, size := 0, st := .valid },
                      produced := (c, k, v) :: s.produced } t .idle, .value v)
    else
      (setPc { s with heap := s.heap.set eid { e with val := v, size := cfg.entrySize + sz, st := .valid, gen := s.cur c },
                      gsizeL := addG s.gsizeL (s.cur c) ((cfg.entrySize + sz : Nat) : Int),
                      produced := (c, k, v) :: s.produced } t .idle, .value v)

/-- `recover` (after a loader error, or from `handlePanic`): `if c.payload[key] == e { delete(c.payload, key) }` -
the caller's own entry leaves the map if it is still in it (`reach_uniq`: it is then the only entry of its key);
whatever another caller stored under the key in the meantime stays -/
def recover (s : St) (t _c _k eid : Nat) : St :=
  match s.heap[eid]? with
  | none => s
  | some e => setPc { s with heap := s.heap.set eid { e with st := .abandoned, inMap := false } } t .idle

def relGens (c : Nat) : List Entry → List Int → List Int
  | [], g => g
  | e :: es, g => relGens c es (if e.cache = c ∧ e.inMap then addG g e.gen (-(e.size : Int)) else g)

/-- `Cache.Release`: every map entry is un-accounted and marked deleted (a load still in flight will then save with
size 0), `payload = nil` -/
def release (s : St) (c : Nat) : St :=
  { s with gsizeL := relGens c s.heap s.gsizeL,
           heap := s.heap.map (fun e => if e.cache = c then { e with inMap := false, deleted := e.inMap || e.deleted } else e),
           relL := mset false s.relL c true }

def evict (stale : Nat → Bool) (c : Nat) (e : Entry) : Bool := e.cache == c && (e.inMap && stale e.gen)

/-- the map after the eviction loop of `Cache.Cleanup` -/
def evicted (s : St) (c : Nat) : List Entry :=
  s.heap.map fun e => if evict s.stale c e then { e with inMap := false, deleted := true } else e

/-- `len(c.payload)` -/
def payloadLen (heap : List Entry) (c : Nat) : Nat := (heap.filter fun e => e.inMap && e.cache == c).length

def recreateThreshold : Nat := 200
def excessiveSizeFactor : Nat := 10

/-- `c.maxPayloadSize` of cache `c` -/
def St.maxP (s : St) (c : Nat) : Nat := mget 0 s.maxPL c

/-- `maxPayloadSize` after the update at the start of `Cache.Cleanup` -/
def maxSeen (s : St) (c : Nat) : Nat := max (s.maxP c) (payloadLen s.heap c)

/-- `recreatePayload` goes ahead: the map was once large (`>= recreateThreshold`) and is now at most a tenth of that -/
def rebuilds (s : St) (c : Nat) : Bool :=
  decide (recreateThreshold ≤ maxSeen s c) && decide (payloadLen (evicted s c) c * excessiveSizeFactor ≤ maxSeen s c)

/-- which entries the copy loop of `recreatePayload` carries into the new map: every one (`newPayload[k] = v` for all
`k, v`), whatever its state - in particular entries that are still loading -/
def copied (_e : Entry) : Bool := true

/-- `recreatePayload`'s new map: an entry of cache `c` that is not copied would no longer be in the map -/
def recreate (heap : List Entry) (c : Nat) : List Entry :=
  heap.map fun e => if e.cache = c ∧ e.inMap = true ∧ copied e = false then { e with inMap := false } else e

/-- `Cache.Cleanup` : delete the entries of stale generations, then `recreatePayload`; returns the freed size -/
def cacheCleanup (s : St) (c : Nat) : St × Nat :=
  ({ s with heap := if rebuilds s c then recreate (evicted s c) c else evicted s c,
            maxPL := mset 0 s.maxPL c (if rebuilds s c then payloadLen (evicted s c) c else maxSeen s c) },
   ((s.heap.filter (evict s.stale c)).map (·.size)).sum)

/-! ## cleaner.go -/

/-- `Cleaner.getSize` -/
def getSize (s : St) : Int := (s.glist.map s.gsize).sum

/-- `Cleaner.rotate(NewGeneration())` -/
def doRotate (s : St) : St :=
  { s with ngens := s.ngens + 1, lastGen := s.ngens,
           curL := s.buckets.foldl (fun m b => mset 0 m b s.ngens) s.curL,
           glist := s.glist ++ [s.ngens] }

/-- `Cleaner.Rotate` -/
def rotate (cfg : Cfg) (s : St) : St × Out :=
  if cfg.maxGenSize = 0 ∨ s.gsize s.lastGen < cfg.maxGenSize then (s, .rotated false (s.gsize s.lastGen))
  else (doRotate s, .rotated true (s.gsize s.lastGen))

structure MarkRes where
  stale : List Bool
  glist : List Nat
  bytes : Int
  n : Nat

/-- first loop of `markStale`: `for bytes < sizeToClean && len(c.generations) > 1` -/
def markLoop (gsize : Nat → Int) (target : Int) : List Bool → List Nat → Int → Nat → MarkRes
  | stale, g :: g2 :: rest, bytes, n =>
    if bytes < target then markLoop gsize target (mset false stale g true) (g2 :: rest) (bytes + gsize g) (n + 1)
    else ⟨stale, g :: g2 :: rest, bytes, n⟩
  | stale, l, bytes, n => ⟨stale, l, bytes, n⟩

/-- `Cleaner.markStale` -/
def markStale (s : St) (target : Int) : St × Nat :=
  let r := markLoop s.gsize target s.staleL s.glist 0 0
  let s1 := { s with staleL := r.stale, glist := r.glist }
  if r.bytes < target then
    let s2 := doRotate s1
    match s2.glist with
    | g :: rest => ({ s2 with staleL := mset false s2.staleL g true, glist := rest }, r.n + 1)
    | [] => (s2, r.n)
  else (s1, r.n)

/-- `uint64(float64(totalSize) * minSizeToCleanRatio)` with ratio 0.05 (exact below 2^50) -/
def minSize (total : Int) : Int := total / 20

def sizeToClean (cfg : Cfg) (total : Int) : Int := max (minSize total) (total - cfg.sizeLimit)

def mkTodo (l : List Nat) : Option (List Nat) := if l.isEmpty then none else some l

/-- `Cleaner.Cleanup` up to and including `markStale`; the bucket snapshot goes to `todo` -/
def cleanupBegin (cfg : Cfg) (s : St) : St × Out :=
  if cfg.sizeLimit = 0 ∨ getSize s ≤ cfg.sizeLimit then (s, .cleanup false 0 0)
  else
    let r := markStale s (sizeToClean cfg (getSize s))
    ({ r.1 with todo := mkTodo s.buckets }, .cleanup true (sizeToClean cfg (getSize s)) r.2)

/-- `Cleaner.CleanEmptyGenerations` -/
def cleanEmpty (s : St) : Option (St × Out) :=
  match s.glist.getLast? with
  | none => none
  | some last =>
    let kept := s.glist.dropLast.filter (fun g => s.gsize g ≠ 0) ++ [last]
    some ({ s with glist := kept }, .count (s.glist.length - kept.length))

/-- `Cleaner.ReleaseBuckets` (repaired form): stable filter -/
def releaseBuckets (rel : Nat → Bool) (bs : List Nat) : List Nat := bs.filter fun b => !rel b

/-- `Cleaner.AddBucket` from `NewCache` -/
def newCache (s : St) : St :=
  { s with ncaches := s.ncaches + 1, curL := mset 0 s.curL s.ncaches s.lastGen,
           relL := mset false s.relL s.ncaches false, buckets := s.buckets ++ [s.ncaches] }

/-! ## the transition function -/

def step (cfg : Cfg) (s : St) : Label → Option (St × Out)
  | .newCache => some (newCache s, .none)
  | .get t c k =>
    if s.pc t = .idle ∧ c < s.ncaches ∧ s.released c = false then some (acquire s t c k) else none
  | .wake t =>
    match s.pc t with
    | .waiting c k eid =>
      match s.heap[eid]? with
      | some e =>
        match e.st with
        | .valid => some (setPc s t .idle, .value e.val)
        | .abandoned => if s.released c = false then some (acquire s t c k) else none
        | .loading => none
      | none => none
    | _ => none
  | .finish t o =>
    match s.pc t with
    | .loading c k eid =>
      match o with
      | .ok v sz => some (save cfg s t c k eid v sz)
      | .err => some (recover s t c k eid, .err)
      | .panic => some (recover s t c k eid, .panic)
    | _ => none
  | .release c => if c < s.ncaches then some (release s c, .none) else none
  | .rotate => if s.todo = none then some (rotate cfg s) else none
  | .cleanupBegin => if s.todo = none then some (cleanupBegin cfg s) else none
  | .cleanupBucket =>
    match s.todo with
    | some (b :: rest) => some ({ (cacheCleanup s b).1 with todo := mkTodo rest }, .freed (cacheCleanup s b).2 (rebuilds s b))
    | _ => none
  | .cleanEmpty => if s.todo = none then cleanEmpty s else none
  | .releaseBuckets =>
    if s.todo = none then
      some ({ s with buckets := releaseBuckets s.released s.buckets },
            .count (s.buckets.length - (releaseBuckets s.released s.buckets).length))
    else none

/-- run a list of labels; `none` as soon as one is not enabled -/
def run (cfg : Cfg) : St → List Label → Option (St × List Out)
  | s, [] => some (s, [])
  | s, l :: ls =>
    match step cfg s l with
    | none => none
    | some (s1, o) =>
      match run cfg s1 ls with
      | none => none
      | some (s2, os) => some (s2, o :: os)

/-- all states reachable from `NewCleaner` in any interleaving -/
inductive Reach (cfg : Cfg) : St → Prop
  | init : Reach cfg init
  | step {s s' l o} : Reach cfg s → step cfg s l = some (s', o) → Reach cfg s'

/-- sum of the sizes of the entries held by the caches' maps -/
def liveSum (heap : List Entry) : Int := (heap.map fun e => if e.inMap then (e.size : Int) else 0).sum

/-! ## sequential operations (each public call runs to completion on thread 0) -/

inductive Op
  | newCache
  | get (c k : Nat) (o : Outcome)
  | release (c : Nat)
  | rotate
  | cleanup
  | cleanEmpty
  | releaseBuckets
deriving DecidableEq, Repr

/-- the labels of one whole `Cleaner.Cleanup` call -/
def cleanupLabels (cfg : Cfg) (s : St) : List Label :=
  match (cleanupBegin cfg s).2 with
  | .cleanup true _ _ => .cleanupBegin :: s.buckets.map fun _ => .cleanupBucket
  | _ => [.cleanupBegin]

/-- the critical sections a sequential call consists of (`seqOp_eq_run` in CacheRefine) -/
def opLabels (cfg : Cfg) (s : St) : Op → List Label
  | .newCache => [.newCache]
  | .get c k o => if (lookup s.heap c k).isSome then [.get 0 c k] else [.get 0 c k, .finish 0 o]
  | .release c => [.release c]
  | .rotate => [.rotate]
  | .cleanup => cleanupLabels cfg s
  | .cleanEmpty => [.cleanEmpty]
  | .releaseBuckets => [.releaseBuckets]

/-- `Cleaner.Cleanup` run to completion: the remaining bucket visits -/
def cleanupRest (s : St) : List Nat → St × List Out
  | [] => (s, [])
  | b :: rest =>
    let r := cleanupRest (cacheCleanup s b).1 rest
    (r.1, .freed (cacheCleanup s b).2 (rebuilds s b) :: r.2)

def seqOp (cfg : Cfg) (s : St) : Op → Option (St × List Out)
  | .newCache => some (newCache s, [.none])
  | .get c k o =>
    if c < s.ncaches ∧ s.released c = false then
      let r := acquire s 0 c k
      match r.2, o with
      | .loading, .ok v sz => some ((save cfg r.1 0 c k s.heap.length v sz).1, [.loading, .value v])
      | .loading, .err => some (recover r.1 0 c k s.heap.length, [.loading, .err])
      | .loading, .panic => some (recover r.1 0 c k s.heap.length, [.loading, .panic])
      | o', _ => some (r.1, [o'])
    else none
  | .release c => if c < s.ncaches then some (release s c, [.none]) else none
  | .rotate => some ((rotate cfg s).1, [(rotate cfg s).2])
  | .cleanup =>
    let r := cleanupBegin cfg s
    match r.2 with
    | .cleanup true _ _ =>
      let r2 := cleanupRest { r.1 with todo := none } s.buckets
      some (r2.1, r.2 :: r2.2)
    | _ => some (r.1, [r.2])
  | .cleanEmpty => (cleanEmpty s).map fun r => (r.1, [r.2])
  | .releaseBuckets =>
    some ({ s with buckets := releaseBuckets s.released s.buckets },
          [.count (s.buckets.length - (releaseBuckets s.released s.buckets).length)])

def runSeq (cfg : Cfg) : St → List Op → Option (St × List (List Out))
  | s, [] => some (s, [])
  | s, o :: os =>
    match seqOp cfg s o with
    | none => none
    | some (s1, out) =>
      match runSeq cfg s1 os with
      | none => none
      | some (s2, outs) => some (s2, out :: outs)

/-- one maintenance tick of `fracmanager.CacheMaintainer.RunCleanLoop` as seen by one cleaner: `cm.rotate()`, then -
unconditionally - `cm.cleanup()`, and every `gcInterval` also `cm.garbageCollection()` = `CleanEmptyGenerations`,
`ReleaseBuckets` -/
def tickOps (gc : Bool) : List Op :=
  [.rotate, .cleanup] ++ (if gc then [.cleanEmpty, .releaseBuckets] else [])

/-- `frac.IndexCache.Release` (and every other owner of a set of caches): `Release` on each cache of the set -/
def releaseAllLabels (cs : List Nat) : List Label := cs.map .release

inductive SeqReach (cfg : Cfg) : St → Prop
  | init : SeqReach cfg init
  | op {s s' op o} : SeqReach cfg s → seqOp cfg s op = some (s', o) → SeqReach cfg s'

/-! ## `Cleaner.ReleaseBuckets` as it was before the repair (historical witness) -/

def toDelete (rel : Nat → Bool) (bs : List Nat) : List Nat :=
  (List.range bs.length).filter fun i => rel (bs.getD i 0)

/-- the swap-with-last loop -/
def swapLoop : List Nat → List Nat → Nat → List Nat × Nat
  | bs, [], last => (bs, last)
  | bs, i :: rest, last =>
    if i ≥ last - 1 then (bs, last - 1)
    else swapLoop (bs.set i (bs.getD (last - 1) 0)) rest (last - 1)

def releaseBucketsOld (rel : Nat → Bool) (bs : List Nat) : List Nat :=
  if (toDelete rel bs).isEmpty then bs
  else (swapLoop bs (toDelete rel bs) bs.length).1.take (swapLoop bs (toDelete rel bs) bs.length).2

end SV.Cache
