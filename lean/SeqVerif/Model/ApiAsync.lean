import SeqVerif.Model.ApiLemmas
import SeqVerif.Model.HistAssoc
/-!
# The public request of an asynchronous search (C19)

`GrpcV1.StartAsyncSearch(r)`: `From: seq.MID(r.From)`, `To: seq.MID(r.To)`, `HistInterval: uint64(r.HistogramInterval)`,
`Limit: math.MaxInt32`, `WithTotal: false`, `Order: r.Order.MustDocsOrder()`, `Retention: 24h` (a constant: the request
carries none).  These parameters are persisted as JSON in `<id>.info` (all integer fields, round trip exact), reloaded
after a restart and used unchanged by the resumed `doSearch` (`c19_x_same_mapping`, `c19_x_persisted_fractions`).
`syncRequest` is the synchronous `Search` request with the same meaning.
-/
namespace SV.Async
open SV SV.Merge SV.Api SV.Go

structure AsyncReq where
  from_ : Int
  to_ : Int
  interval : Int
  order : Int
deriving Repr

/-- math.MaxInt32 -/
def maxInt32 : Nat := 2147483647

/-- retention in hours: `time.Hour * 24`, whatever the request says -/
def retentionHours : Nat := 24

/-- the persisted / resumed parameters; `none` = `MustDocsOrder` panics and nothing is persisted -/
def asyncParams (r : AsyncReq) : Option Params :=
  if r.order = 0 ∨ r.order = 1 then
    some { from_ := (wrapU64 r.from_).toNat, to_ := (wrapU64 r.to_).toNat, limit := maxInt32, hi := (wrapU64 r.interval).toNat,
           withTotal := false, desc := decide (r.order = 0), hasAgg := false }
  else none

/-- the synchronous request that means the same -/
def syncRequest (r : AsyncReq) : StoreReq :=
  { from_ := r.from_, to_ := r.to_, size := maxInt32, offset := 0, interval := r.interval, withTotal := false, order := r.order }

theorem asyncParams_eq_sync (r : AsyncReq) : asyncParams r = storeParams (syncRequest r) := by
  unfold asyncParams storeParams syncRequest
  simp only [Int.add_zero, maxInt32, wrapI64]
  split <;> rfl

/-- **c19_eq_sync for the public request**: on a cold store, the fetched result of `StartAsyncSearch(r)` (fold at the
request's interval over the fractions in range, each answering with the persisted parameters) has the IDs - and, when a
histogram is requested, every histogram bucket - of `GrpcV1.Search(syncRequest r)`; fewer than `MaxInt32` matches. -/
theorem async_request_eq_sync (s : StoreCfg) (hcold : s.hot = false) (hmh : s.maxHits = 0) (fs : List RawFrac)
    (hok : ∀ f, f ∈ fs → f.OK) (r : AsyncReq) (p : Params) (hp : asyncParams r = some p)
    (hsize : (windowDocs fs p.from_ p.to_).length ≤ maxInt32) :
    ∃ q, grpcSearch s fs (syncRequest r) = .ok q ∧
      (fetchFoldWith p.hi p.desc ((filterInRange (fs.map (·.toFrac p.from_ p.to_)) p.from_ p.to_).map
        (fracSearch (p.cfg s) · maxInt32))).ids = q.ids ∧
      (p.hi > 0 → ∀ k, histGet (fetchFoldWith p.hi p.desc ((filterInRange (fs.map (·.toFrac p.from_ p.to_)) p.from_ p.to_).map
        (fracSearch (p.cfg s) · maxInt32))).hist k = histGet q.hist k) := by
  have hp' : storeParams (syncRequest r) = some p := by rw [← asyncParams_eq_sync]; exact hp
  have hlimit : p.limit = (maxInt32 : Int) := by
    unfold asyncParams at hp
    split at hp
    · cases hp; rfl
    · cases hp
  have hinv : ∀ g, g ∈ fs.map (·.toFrac p.from_ p.to_) → FracInv g := by
    intro g hg
    rcases List.mem_map.mp hg with ⟨f, hf, rfl⟩
    exact toFrac_inv f (hok f hf) _ _
  have hvis : ∀ g, g ∈ fs.map (·.toFrac p.from_ p.to_) → g.docs ≠ [] → isIntersecting g p.from_ p.to_ = true := by
    intro g hg hne
    rcases List.mem_map.mp hg with ⟨f, hf, rfl⟩
    exact toFrac_vis f (hok f hf) _ _ hne
  have hsz : (docsOf (fs.map (·.toFrac p.from_ p.to_))).length ≤ maxInt32 := by rw [docsOf_toFrac]; exact hsize
  have hL : maxInt32 ≤ maxInt := by decide
  obtain ⟨q, h1, h2⟩ := fetch_eq_sync_ids (p.cfg s) _ p.from_ p.to_ maxInt32 p.hi hinv hvis (Or.inl hmh) hsz hL
  have hg : grpcSearch s fs (syncRequest r) = .ok q := by
    unfold grpcSearch
    have : ¬ p.limit < 0 := by rw [hlimit]; decide
    have ht : p.limit.toNat = maxInt32 := by rw [hlimit]; rfl
    simp only [hcold, Bool.false_and, Bool.false_eq_true, if_false, hp', this, ht, h1]
  refine ⟨q, hg, h2, fun hhi k => ?_⟩
  obtain ⟨q', h1', h3⟩ := fetch_eq_sync_hist_full (p.cfg s) hhi _ p.from_ p.to_ maxInt32 hvis (Or.inl hmh) hsz hL
  rw [h1] at h1'
  cases h1'
  exact h3 k

/-! ## `seq.AggFunc` <-> wire `AggFunc` (pkg/storeapi/mappings.go)

`funcMappings[f]` is the wire value of `f`; `funcMappingsPb` is built as its inverse (`mappings[to] = from`).  The store
echoes the persisted aggregation queries of an async search through `ToProtoAggFunc`, the proxy reads them back with
`MustAggFunc` to compute the aggregation result. -/

/-- the inverse table: entry `v` = the index at which `t` holds `v` -/
def invTable (t : List Nat) : List Nat := (List.range t.length).map (fun v => t.idxOf v)

theorem idxOf_getElem_nodup (t : List Nat) (hnd : t.Nodup) (i : Nat) (hi : i < t.length) : t.idxOf t[i] = i := by
  induction t generalizing i with
  | nil => simp at hi
  | cons a r ih =>
    have h' := List.nodup_cons.mp hnd
    cases i with
    | zero => simp
    | succ j =>
      have hj : j < r.length := by simpa using hi
      have hne : a ≠ r[j] := fun e => h'.1 (e ▸ List.getElem_mem hj)
      simp only [List.getElem_cons_succ, List.idxOf_cons]
      have : (a == r[j]) = false := by simpa using hne
      simp [this, ih h'.2 j hj]

/-- **the function mapping is a bijection**: for an injective table whose values are below its length, reading the
inverse table at the wire value gives the function back -/
theorem aggFunc_roundtrip (t : List Nat) (hnd : t.Nodup) (i : Nat) (hi : i < t.length) (hv : t[i] < t.length) :
    (invTable t)[t[i]]? = some i := by
  unfold invTable
  rw [List.getElem?_map, List.getElem?_range hv]
  simp [idxOf_getElem_nodup t hnd i hi]

end SV.Async
