import SeqVerif.Model.C03Codec
/-!
# C03 - ID blocks of a sealed fraction

* `chopGo` = the loop of `getIDsBlocksGenerator(sortedSeqIDs, positions, size)`: consecutive slices of `size` IDs,
* `writeIDs` = `writeIDsBlocks`: per block three index blocks (delta-varint MIDs, raw little endian RIDs,
  delta-varint positions) and the registry extent = the block's last (minimal) ID -> `MinBlockIDs`,
* `getMID/getRID/getPos` = `IDsLoader` + `UnpackCache` (`getIDBlockIndexByLID = lid / perBlock`),
* `lessOrEqual` = `sealedIDsIndex.LessOrEqual` with its two block-min short cuts.
IDs are pairs `(mid, rid)` of `Nat`s below 2^64, sorted descending (LID 0 is the system ID).
-/
namespace SV.C03

abbrev ID := Nat × Nat

/-- `seq.LessOrEqual` -/
def idLE (a b : ID) : Bool := if a.1 = b.1 then decide (a.2 ≤ b.2) else decide (a.1 < b.1)

/-- the slicing loop of the ID block generator; fuel = len(ids) -/
def chopGo {α} (size : Nat) : Nat → List α → List (List α)
  | 0, _ => []
  | fuel + 1, l =>
    if l = [] then [] else
    l.take (min size l.length) :: chopGo size fuel (l.drop (min size l.length))

def chop {α} (size : Nat) (l : List α) : List (List α) := chopGo size l.length l

/-- 8 little endian bytes -/
def le64 (n : Nat) : List Nat :=
  [n % 256, n / 256 % 256, n / 65536 % 256, n / 16777216 % 256, n / 4294967296 % 256, n / 1099511627776 % 256,
   n / 281474976710656 % 256, n / 72057594037927936 % 256]

/-- `unpackRawIDsNoVarint` (a short tail panics in Go: `none`) -/
def unle64s : List Nat → Option (List Nat)
  | [] => some []
  | b0 :: b1 :: b2 :: b3 :: b4 :: b5 :: b6 :: b7 :: rest =>
    (unle64s rest).map ((b0 + 256 * b1 + 65536 * b2 + 16777216 * b3 + 4294967296 * b4 + 1099511627776 * b5 +
      281474976710656 * b6 + 72057594037927936 * b7) :: ·)
  | _ => none

def packRIDs (rids : List Nat) : List Nat := rids.flatMap le64

/-- one ID block on disk -/
structure IDBlockDisk where
  mids : List Nat      -- bytes
  rids : List Nat      -- bytes
  pos : List Nat       -- bytes
  ext : ID             -- registry extent of the MIDs block
deriving Repr, DecidableEq

/-- `writeIDsBlocks` over `getIDsBlocksGenerator(ids, positions, size)`; `posOf` = `DocsPositions.Get` (fillPos) -/
def writeIDs (size : Nat) (ids : List ID) (posOf : ID → Nat) : List IDBlockDisk :=
  (chop size ids).map fun c =>
    { mids := packDeltas (c.map (·.1)), rids := packRIDs (c.map (·.2)), pos := packDeltas (c.map posOf),
      ext := c.getLastD (0, 0) }

structure IDsTable where
  minBlockIDs : List ID
  idsTotal : Nat
deriving Repr, DecidableEq

/-- table kept from sealing (`minBlockIDs` collected by the writer) = table re-loaded from the registry extents -/
def idsTableOf (blocks : List IDBlockDisk) (total : Nat) : IDsTable := ⟨blocks.map (·.ext), total⟩

/-- `GetMIDsBlock` + `GetValByLID`; `none` = a panic (missing / undecodable block, index out of range) -/
def getMID (per : Nat) (blocks : List IDBlockDisk) (lid : Nat) : Option Nat :=
  match blocks[lid / per]? with
  | none => none
  | some b => match unpackDeltas b.mids with
    | none => none
    | some vals => vals[lid - (lid / per) * per]?

def getRID (per : Nat) (blocks : List IDBlockDisk) (lid : Nat) : Option Nat :=
  match blocks[lid / per]? with
  | none => none
  | some b => match unle64s b.rids with
    | none => none
    | some vals => vals[lid - (lid / per) * per]?

/-- `getDocPosByLIDs` for one non-zero LID -/
def getPos (per : Nat) (blocks : List IDBlockDisk) (lid : Nat) : Option Nat :=
  match blocks[lid / per]? with
  | none => none
  | some b => match unpackDeltas b.pos with
    | none => none
    | some vals => vals[lid - (lid / per) * per]?

/-- `seq.LessOrEqual(MinBlockIDs[blockIndex-1], id)` -/
def prevLE (t : IDsTable) (bi : Nat) (id : ID) : Bool :=
  match t.minBlockIDs[bi - 1]? with
  | some p => idLE p id
  | none => false

/-- `sealedIDsIndex.LessOrEqual`; `none` = a panic -/
def lessOrEqual (per : Nat) (t : IDsTable) (blocks : List IDBlockDisk) (lid : Nat) (id : ID) : Option Bool :=
  if lid ≥ t.idsTotal then some true else
  let bi := lid / per
  match t.minBlockIDs[bi]? with
  | none => none
  | some mn =>
    if !idLE mn id then some false else
    if decide (bi > 0) && prevLE t bi id then some true else
    match getMID per blocks lid with
    | none => none
    | some m =>
      if m = id.1 then
        if id.2 = 18446744073709551615 then some true
        else (getRID per blocks lid).map (fun r => decide (r ≤ id.2))
      else some (decide (m < id.1))

end SV.C03
