import SeqVerif.Model.ActiveIndex
/-!
# frac/inverser.go with its pooled table  (C02)

`newInverser` takes the `inversion []int` table from `bytespool` (`getSlice`), so its initial content is whatever a
previous user left there; `getSlice` clears it, then `inversion[v] = i + 1` for every `v = values[i]`.
`Inverse(k)` reads `inversion[k]` and reports "absent" for 0.  The list-level `ActiveIndex.inverse` (position of `k`
in the mapping, if any) is what the C02 theorems use; here the table is modelled with an *arbitrary* initial content
and the two are shown equal exactly because of the clear.
-/
namespace SV.ActiveIndex

/-- the loop `for i, v := range values { inversion[v] = i + 1 }` from index `start` on -/
def fill (buf : List Nat) : List Nat → Nat → List Nat
  | [], _ => buf
  | v :: rest, start => fill (buf.set v (start + 1)) rest (start + 1)

/-- `newInverser(values, size)` over a pool buffer with content `pool` (first `size` slots), `cleared` = `clear(s)` -/
def newInversion (pool : List Nat) (cleared : Bool) (values : List Nat) (size : Nat) : List Nat :=
  fill (if cleared then List.replicate size 0 else pool.take size) values 0

/-- `inverser.Inverse(k)` -/
def inverseArr (inversion : List Nat) (k : Nat) : Option Nat :=
  if k ≥ inversion.length then none
  else if inversion.getD k 0 > 0 then some (inversion.getD k 0) else none

theorem fill_length (buf : List Nat) (m : List Nat) (s : Nat) : (fill buf m s).length = buf.length := by
  induction m generalizing buf s with
  | nil => rfl
  | cons v rest ih => simp [fill, ih]

theorem fill_getD (buf : List Nat) (m : List Nat) (s k : Nat) (hnd : m.Nodup) (hlt : ∀ v ∈ m, v < buf.length) :
    (fill buf m s).getD k 0 = if k ∈ m then m.idxOf k + s + 1 else buf.getD k 0 := by
  induction m generalizing buf s with
  | nil => simp [fill]
  | cons v rest ih =>
    have hnd' := List.nodup_cons.mp hnd
    have hv : v < buf.length := hlt v (by simp)
    rw [fill, ih (buf.set v (s + 1)) (s + 1) hnd'.2 (by intro w hw; simp; exact hlt w (List.mem_cons_of_mem _ hw))]
    by_cases hkv : k = v
    · subst hkv
      simp [hnd'.1, List.getD, List.getElem?_set_self hv]
    · have hvk : (v == k) = false := by simpa using (fun h => hkv h.symm)
      by_cases hkr : k ∈ rest
      · simp only [hkr, if_true, List.mem_cons, or_true, List.idxOf_cons, hvk, cond_false]
        omega
      · simp only [hkr, if_false, List.mem_cons, hkv, or_self, List.getD]
        rw [List.getElem?_set_ne (by omega)]

/-- **With the clear, the pooled table is the mapping's position function** - whatever the pool held before. -/
theorem inverseArr_cleared (pool : List Nat) (m : List Nat) (size k : Nat) (hnd : m.Nodup) (hlt : ∀ v ∈ m, v < size) :
    inverseArr (newInversion pool true m size) k = inverse m size k := by
  unfold inverseArr newInversion inverse
  simp only [if_true, fill_length, List.length_replicate]
  by_cases hk : k ≥ size
  · simp [hk]
  · have hg := fill_getD (List.replicate size 0) m 0 k hnd (by simpa using hlt)
    simp only [hk, if_false, hg]
    by_cases hm : k ∈ m
    · simp [hm]
    · have : k < size := by omega
      simp [hm, List.getD, this]

/-- **Without it the statement is false**: a pool buffer left by a larger inverser maps LID 3, which the mapping
`[2, 1]` does not contain, to the stale position 9 instead of "absent". -/
theorem inverseArr_dirty_witness :
    inverseArr (newInversion [9, 9, 9, 9] false [2, 1] 4) 3 = some 9 ∧ inverse [2, 1] 4 3 = none := by decide

end SV.ActiveIndex
