/-!
# The files of one fraction and what the loader does with them   (shared by C08 and C15)

Go sources modelled: `consts/consts.go` (file suffixes), `fracmanager/loader.go`
(`makeInfos`, `filterInfos`, `load`, `removeFractionFiles`), `frac/sealed.go` (`openDocs`).

A fraction `seq-db-<ulid>` owns up to nine files, told apart by suffix.  The loader looks only at
*which* files exist (temporary suffixes `._sdocs` / `._index` are skipped by `makeInfos`); whether the
documents can then be served depends on the *contents*, which the model tracks as one of four values.
-/
namespace SV.FileSet

/-- the nine suffixes of `consts/consts.go` that belong to one fraction -/
inductive Suffix
  | docs | docsDel | sdocs | sdocsTmp | sdocsDel | index | indexTmp | indexDel | metaF
  deriving DecidableEq, Repr

/-- what a file holds.
* `absent`  - no such directory entry
* `empty`   - exists with length 0 (just created)
* `torn`    - exists; holds an arbitrary non-empty prefix of what was meant to be written (being written, or cut by a crash)
* `holed`   - exists, was written to the end, but at least one write failed without the writer noticing
* `full`    - exists, every byte that was meant to be there was written and fsynced -/
inductive Content
  | absent | empty | torn | holed | full
  deriving DecidableEq, Repr

structure FileSet where
  docs : Content := .absent
  docsDel : Content := .absent
  sdocs : Content := .absent
  sdocsTmp : Content := .absent
  sdocsDel : Content := .absent
  index : Content := .absent
  indexTmp : Content := .absent
  indexDel : Content := .absent
  metaF : Content := .absent
  deriving DecidableEq, Repr

def FileSet.get (fs : FileSet) : Suffix → Content
  | .docs => fs.docs | .docsDel => fs.docsDel | .sdocs => fs.sdocs | .sdocsTmp => fs.sdocsTmp
  | .sdocsDel => fs.sdocsDel | .index => fs.index | .indexTmp => fs.indexTmp | .indexDel => fs.indexDel
  | .metaF => fs.metaF

def FileSet.set (fs : FileSet) (s : Suffix) (c : Content) : FileSet :=
  match s with
  | .docs => { fs with docs := c } | .docsDel => { fs with docsDel := c } | .sdocs => { fs with sdocs := c }
  | .sdocsTmp => { fs with sdocsTmp := c } | .sdocsDel => { fs with sdocsDel := c } | .index => { fs with index := c }
  | .indexTmp => { fs with indexTmp := c } | .indexDel => { fs with indexDel := c } | .metaF => { fs with metaF := c }

def Content.has (c : Content) : Bool := c != .absent

theorem get_set_same (fs : FileSet) (s : Suffix) (c : Content) : (fs.set s c).get s = c := by
  cases s <;> rfl

theorem get_set_other (fs : FileSet) (s t : Suffix) (c : Content) (h : t ≠ s) : (fs.set s c).get t = fs.get t := by
  cases s <;> cases t <;> first | rfl | exact absurd rfl h

/-! ## loader -/

/-- `fracInfo` of loader.go: one flag per non-temporary suffix (`makeInfos` skips `._index` and `._sdocs`) -/
structure Info where
  hasDocs : Bool
  hasDocsDel : Bool
  hasIndex : Bool
  hasIndexDel : Bool
  hasMeta : Bool
  hasSdocs : Bool
  hasSdocsDel : Bool
  deriving DecidableEq, Repr

def makeInfo (fs : FileSet) : Info :=
  { hasDocs := fs.docs.has, hasDocsDel := fs.docsDel.has, hasIndex := fs.index.has, hasIndexDel := fs.indexDel.has,
    hasMeta := fs.metaF.has, hasSdocs := fs.sdocs.has, hasSdocsDel := fs.sdocsDel.has }

/-- `makeInfos` creates an entry for a fraction only when it sees one of its non-temporary files -/
def Info.known (i : Info) : Bool :=
  i.hasDocs || i.hasDocsDel || i.hasIndex || i.hasIndexDel || i.hasMeta || i.hasSdocs || i.hasSdocsDel

/-- `removeFractionFiles`: the seven non-temporary files (the two temporary ones are never removed by the loader) -/
def removeFractionFiles (fs : FileSet) : FileSet :=
  { fs with index := .absent, docs := .absent, sdocs := .absent, metaF := .absent,
            indexDel := .absent, docsDel := .absent, sdocsDel := .absent }

/-- what `loader.load` does with one fraction -/
inductive Outcome
  | unknown                 -- none of its non-temporary files exists: the loader does not see the fraction
  | cleaned                 -- a `.del` file exists: `removeFractionFiles`, the fraction is gone
  | skipped                 -- neither .docs nor .sdocs: error logged, nothing loaded, files stay
  | orphan                  -- .docs/.sdocs without .meta and .index: the last rule of `filterInfos` (`logger.Fatal`, or - after the
                            --   repair - `removeFractionFiles`); which of the two is the extracted fact `orphanFatal`
  | sealed (src : Suffix)   -- `loadSealedFrac`; documents will be read from `src` (`Sealed.openDocs`: .docs first, then .sdocs)
  | active                  -- `NewActive` + `Replay` of .docs/.meta
  deriving DecidableEq, Repr

/-- `filterInfos` followed by the per-fraction branch of `load`: a function of the seven flags only -/
def classifyInfo (i : Info) : Outcome :=
  if !i.known then .unknown
  else if i.hasDocsDel || i.hasIndexDel || i.hasSdocsDel then .cleaned
  else if !i.hasDocs && !i.hasSdocs then .skipped
  else if !(i.hasMeta || i.hasIndex) then .orphan
  else if i.hasSdocs && i.hasIndex then .sealed .sdocs     -- .meta and .docs are removed first, so `openDocs` falls through to .sdocs
  else if i.hasMeta then .active
  else .sealed (if i.hasDocs then .docs else .sdocs)

def classify (fs : FileSet) : Outcome := classifyInfo (makeInfo fs)

/-- the files the loader leaves behind; `orphanFatal` = the last rule of `filterInfos` is `logger.Fatal` -/
def loadEffect (orphanFatal : Bool) (fs : FileSet) : FileSet :=
  match classify fs with
  | .cleaned => removeFractionFiles fs
  | .orphan => if orphanFatal then fs else removeFractionFiles fs
  | .sealed .sdocs => { fs with metaF := .absent, docs := .absent }   -- `if info.hasMeta {removeFile}`, `if info.hasDocs {removeFile}`
  | _ => fs

def load (orphanFatal : Bool) (fs : FileSet) : Outcome × FileSet := (classify fs, loadEffect orphanFatal fs)

/-- what the store holds for the fraction once `FracManager.Load` returned -/
inductive Loaded
  | none      -- not loaded: unknown, skipped, deletion finished, or an empty active fraction that was removed
  | active    -- replayed active fraction
  | sealed    -- sealed fraction
  | down      -- the process died (`logger.Fatal` / `logger.Panic`): the store does not start
  deriving DecidableEq, Repr

/-- `load` with the parts that depend on contents: `NewActive` creates a missing `.docs`; a replayed active
fraction with no documents (empty `.meta`) is removed again (`removeFractionFiles`); `NewSealed` reads the header
block of the index (no `.frac-cache` entry) and dies on an empty index file. -/
def startup (orphanFatal : Bool) (fs : FileSet) : Loaded × FileSet :=
  match classify fs with
  | .unknown | .skipped => (.none, fs)
  | .cleaned => (.none, removeFractionFiles fs)
  | .orphan => if orphanFatal then (.down, fs) else (.none, removeFractionFiles fs)
  | .sealed _ => (if fs.index = .empty then .down else .sealed, loadEffect orphanFatal fs)
  | .active =>
    let fs' := { fs with docs := if fs.docs = .absent then .empty else fs.docs }
    if fs.metaF = .empty then (.none, removeFractionFiles fs') else (.active, fs')

/-- are the fraction's documents available after start-up? -/
inductive Served
  | all          -- every document of the fraction is searchable and fetchable
  | part         -- the fraction is loaded from incomplete files
  | none         -- the fraction is not loaded (gone, skipped or unknown)
  | down         -- the store does not start
  deriving DecidableEq, Repr

/-- A sealed fraction serves everything iff its index and its documents file are complete.  An active fraction
serves what .docs/.meta hold. -/
def served (orphanFatal : Bool) (fs : FileSet) : Served :=
  match classify fs with
  | .unknown | .cleaned | .skipped => .none
  | .orphan => if orphanFatal then .down else .none
  | .sealed src => if fs.index = .full ∧ fs.get src = .full then .all else if fs.index = .empty then .down else .part
  | .active => if fs.docs = .full ∧ fs.metaF = .full then .all else if fs.metaF = .empty then .none else .part

/-- the temporary files play no role in loading -/
theorem classify_tmp (fs : FileSet) (a b : Content) : classify { fs with sdocsTmp := a, indexTmp := b } = classify fs := rfl

/-- a sealed fraction reads its documents from .docs or .sdocs only -/
theorem classify_sealed_src (fs : FileSet) (src : Suffix) (h : classify fs = .sealed src) : src = .docs ∨ src = .sdocs := by
  simp only [classify, classifyInfo] at h
  repeat' split at h
  all_goals simp_all

theorem served_tmp (o : Bool) (fs : FileSet) (a b : Content) : served o { fs with sdocsTmp := a, indexTmp := b } = served o fs := by
  unfold served
  simp only [classify_tmp]
  cases h : classify fs <;> try rfl
  case sealed src =>
    rcases classify_sealed_src fs src h with rfl | rfl <;> rfl

end SV.FileSet
