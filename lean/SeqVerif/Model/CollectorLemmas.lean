import SeqVerif.Model.Collector
/-!
Lemmas about the collector model (C17): list plumbing, `collect` builds the expected per-document view,
`filter` is a projection of that view, `groupLIDsByToken` has the expected groups.
-/
namespace SV.Collector

/-! ## list plumbing -/

theorem filter_range'_map {α} (xs : List α) (p : α → Bool) (g : Nat → α) (s : Nat)
    (hg : ∀ k (h : k < xs.length), g (s + k) = xs[k]) :
    ((List.range' s xs.length).filter (fun i => p (g i))).map g = xs.filter p := by
  induction xs generalizing s with
  | nil => simp
  | cons x xs ih =>
    have h0 : g s = x := by
      have := hg 0 (by simp)
      simpa using this
    have ht : ∀ k (h : k < xs.length), g (s + 1 + k) = xs[k] := by
      intro k h
      have := hg (k + 1) (by simp; omega)
      simpa [Nat.add_assoc, Nat.add_comm 1 k] using this
    simp only [List.length_cons, List.range'_succ, List.filter_cons, h0]
    by_cases hp : p x = true
    · simp [hp, h0, ih (s + 1) ht]
    · simp [hp, ih (s + 1) ht]

theorem filter_range_map {α} [Inhabited α] (xs : List α) (p : α → Bool) :
    ((List.range xs.length).filter (fun i => p xs[i]!)).map (xs[·]!) = xs.filter p := by
  rw [List.range_eq_range']
  apply filter_range'_map xs p (fun i => xs[i]!) 0
  intro k h
  simp [h]

theorem splitBy_length {α} (ns : List Nat) (xs : List α) : (splitBy ns xs).length = ns.length := by
  induction ns generalizing xs with
  | nil => rfl
  | cons n ns ih => simp [splitBy, ih]

theorem tokensOffsets_length (ns : List Nat) (o : Nat) : (tokensOffsets ns o).length = ns.length := by
  induction ns generalizing o with
  | nil => rfl
  | cons n ns ih => simp [tokensOffsets, ih]

theorem tokensOffsets_getElem (ns : List Nat) (o i : Nat) (h : i < ns.length) :
    (tokensOffsets ns o)[i]! = o + (ns.take i).sum := by
  induction ns generalizing o i with
  | nil => simp at h
  | cons n ns ih =>
    cases i with
    | zero => simp [tokensOffsets]
    | succ i =>
      have := ih (o + n) i (by simpa using h)
      simp only [tokensOffsets, List.take_succ_cons, List.sum_cons]
      rw [List.getElem!_cons_succ, this]
      omega

theorem splitBy_getElem {α} (ns : List Nat) (xs : List α) (i : Nat) (h : i < ns.length) :
    (splitBy ns xs)[i]! = (xs.drop (ns.take i).sum).take ns[i]! := by
  induction ns generalizing xs i with
  | nil => simp at h
  | cons n ns ih =>
    cases i with
    | zero => simp [splitBy]
    | succ i =>
      have := ih (xs.drop n) i (by simpa using h)
      simp only [splitBy, List.take_succ_cons, List.sum_cons]
      rw [List.getElem!_cons_succ, List.getElem!_cons_succ, this, List.drop_drop]

theorem splitBy_flatMap {α β} (l : List β) (g : β → List α) :
    splitBy (l.map fun i => (g i).length) (l.flatMap g) = l.map g := by
  induction l with
  | nil => rfl
  | cons b l ih => simp [splitBy, ih]

theorem splitBy_append {α} (ns : List Nat) (xs ys : List α) (h : ns.sum = xs.length) :
    splitBy (ns ++ [ys.length]) (xs ++ ys) = splitBy ns xs ++ [ys] := by
  induction ns generalizing xs with
  | nil =>
    have : xs = [] := by simpa using h.symm
    subst this
    simp [splitBy]
  | cons n ns ih =>
    have hn : n ≤ xs.length := by simp at h; omega
    have h' : ns.sum = (xs.drop n).length := by simp at h ⊢; omega
    simp only [List.cons_append, splitBy]
    rw [List.take_append_of_le_length hn, List.drop_append_of_le_length hn, ih _ h']

theorem zip_map3 {ι α β γ} (l : List ι) (f : ι → α) (g : ι → β) (k : ι → γ) :
    List.zip (l.map f) (List.zip (l.map g) (l.map k)) = l.map fun i => (f i, g i, k i) := by
  induction l with
  | nil => rfl
  | cons a l ih => simp [ih]

/-! ## `extractTokens` / `AppendMeta` / `collect` -/

/-- token table is duplicate free and every stored token index points into it -/
def TVOk (c : Collector) : Prop :=
  c.tokensValues.Nodup ∧ ∀ j ∈ c.tokensIndex, j < c.tokensValues.length

theorem getD_append_left {α} (xs ys : List α) (j : Nat) (d : α) (h : j < xs.length) :
    (xs ++ ys).getD j d = xs.getD j d := by
  simp [List.getD, List.getElem?_append_left h]

/-- the only fields `extractTokens` touches -/
def addToks (c : Collector) (extra : List Bytes) (fl js : List Nat) : Collector :=
  { c with tokensValues := c.tokensValues ++ extra, fieldsLengths := c.fieldsLengths ++ fl, tokensIndex := c.tokensIndex ++ js }

theorem extractTokens_spec (c : Collector) (ts : List MetaToken) (hc : TVOk c) :
    ∃ extra fl js,
      extractTokens c ts = addToks c extra fl js ∧
      js.length = ts.length ∧
      js.map ((c.tokensValues ++ extra).getD · []) = ts.map MetaToken.bytes ∧
      TVOk (extractTokens c ts) := by
  induction ts generalizing c with
  | nil => exact ⟨[], [], [], by simp [extractTokens, addToks], rfl, rfl, by simpa [extractTokens] using hc⟩
  | cons t ts ih =>
    have hstep : ∃ e1 f1 i, extractToken c t = addToks c e1 f1 [i] ∧
        i < (c.tokensValues ++ e1).length ∧ (c.tokensValues ++ e1).getD i [] = t.bytes ∧ (c.tokensValues ++ e1).Nodup := by
      unfold extractToken
      by_cases h : c.tokensValues.idxOf t.bytes < c.tokensValues.length
      · refine ⟨[], [], c.tokensValues.idxOf t.bytes, by simp [h, addToks], by simpa using h, ?_, by simpa using hc.1⟩
        simp [List.getD, List.getElem?_eq_getElem h]
      · refine ⟨[t.bytes], [t.key.length], c.tokensValues.length, by simp [h, addToks], by simp, by simp [List.getD], ?_⟩
        have hn : t.bytes ∉ c.tokensValues := by
          intro hm
          exact h (List.idxOf_lt_length_iff.mpr hm)
        simpa [List.nodup_append] using ⟨hc.1, fun a ha hb => hn (hb ▸ ha)⟩
    obtain ⟨e1, f1, i, he, hi, hget, hnd⟩ := hstep
    have hc1 : TVOk (extractToken c t) := by
      rw [he]
      refine ⟨hnd, ?_⟩
      intro j hj
      simp only [addToks, List.mem_append, List.mem_singleton] at hj
      rcases hj with hj | hj
      · have := hc.2 j hj
        show j < (c.tokensValues ++ e1).length
        rw [List.length_append]; omega
      · subst hj; exact hi
    obtain ⟨e2, f2, js, he2, hl, hm, hok⟩ := ih (extractToken c t) hc1
    refine ⟨e1 ++ e2, f1 ++ f2, i :: js, ?_, by simp [hl], ?_, ?_⟩
    · simp only [extractTokens, List.foldl_cons] at he2 ⊢
      rw [he2, he]
      simp [addToks, List.append_assoc]
    · rw [he] at hm
      simp only [addToks, List.append_assoc] at hm
      simp only [List.map_cons, ← List.append_assoc]
      rw [List.append_assoc, hm]
      congr 1
      rw [← List.append_assoc, getD_append_left _ _ _ _ hi, hget]
    · simpa [extractTokens] using hok

theorem mem_splitBy {α} (ns : List Nat) (xs : List α) (piece : List α) (a : α)
    (hp : piece ∈ splitBy ns xs) (ha : a ∈ piece) : a ∈ xs := by
  induction ns generalizing xs with
  | nil => simp [splitBy] at hp
  | cons n ns ih =>
    simp only [splitBy, List.mem_cons] at hp
    rcases hp with hp | hp
    · subst hp; exact List.mem_of_mem_take ha
    · exact List.mem_of_mem_drop (ih _ hp)

/-- resolve the token indexes of one document of the view -/
def res (tv : List Bytes) (d : ID × DocPos × List Nat) : ID × DocPos × List Bytes :=
  (d.1, d.2.1, d.2.2.map fun j => tv.getD j [])

theorem rview_eq (c : Collector) : rview c = (view c).map (res c.tokensValues) := rfl

theorem mem_view_idx (c : Collector) (d : ID × DocPos × List Nat) (hd : d ∈ view c) (j : Nat) (hj : j ∈ d.2.2) :
    j ∈ c.tokensIndex := by
  unfold view at hd
  have h1 := (List.of_mem_zip hd).2
  have h2 := (List.of_mem_zip h1).2
  exact mem_splitBy _ _ _ _ h2 hj

def CInv (c : Collector) : Prop := WF c ∧ TVOk c

theorem cinv_init (b : Nat) : CInv (init b) := by
  simp [CInv, WF, TVOk, init]

theorem appendMeta_spec (c : Collector) (m : Meta) (h : CInv c) :
    CInv (appendMeta c m) ∧
    rview (appendMeta c m) = rview c ++ [(m.id, posOf c m, m.tokens.map MetaToken.bytes)] ∧
    (appendMeta c m).ids = c.ids ++ [m.id] ∧
    (appendMeta c m).positions = c.positions ++ [posOf c m] ∧
    (appendMeta c m).blockIndex = c.blockIndex ∧
    (appendMeta c m).nextDocOffset = (if m.size = 0 then c.nextDocOffset else c.nextDocOffset + m.size + 4) ∧
    (appendMeta c m).docsCounter = c.docsCounter + 1 ∧
    (appendMeta c m).sizeCounter = c.sizeCounter + m.size ∧
    (appendMeta c m).minMID = (if m.id.1 < c.minMID then m.id.1 else c.minMID) ∧
    (appendMeta c m).maxMID = (if m.id.1 > c.maxMID then m.id.1 else c.maxMID) := by
  obtain ⟨⟨hw1, hw2, hw3⟩, hok⟩ := h
  unfold appendMeta
  have hok1 : TVOk (appendMetaPre c m) := hok
  obtain ⟨extra, fl, js, he, hl, hm, hok2⟩ := extractTokens_spec (appendMetaPre c m) m.tokens hok1
  rw [he] at hok2 ⊢
  simp only [addToks, appendMetaPre] at hok2 hm ⊢
  refine ⟨⟨⟨by simp [hw1], by simp [hw2], by simp [hw3, hl]⟩, hok2⟩, ?_, by trivial, by trivial, by trivial, by trivial, by trivial, by trivial, by trivial, by trivial⟩
  simp only [rview, view]
  rw [← hl, splitBy_append _ _ _ hw3]
  rw [List.zip_append (by simp [splitBy_length, hw1, hw2]), List.zip_append (by simp [splitBy_length, hw1, hw2])]
  simp only [List.map_append, List.zip_cons_cons, List.zip_nil_right, List.map_cons, List.map_nil, posOf]
  congr 1
  · apply List.map_congr_left
    intro d hd
    have hidx := mem_view_idx c d hd
    congr 2
    apply List.map_congr_left
    intro j hj
    exact getD_append_left _ _ _ _ (hok.2 j (hidx j hj))
  · simpa using hm

theorem foldl_appendMeta_spec (b : Nat) (ms : List Meta) (c : Collector) (h : CInv c) (hb : c.blockIndex = b) :
    CInv (ms.foldl appendMeta c) ∧
    rview (ms.foldl appendMeta c) = rview c ++ docsFrom b ms c.nextDocOffset (c.positions.getLastD (0, 0)) ∧
    (ms.foldl appendMeta c).ids = c.ids ++ ms.map (·.id) ∧
    (ms.foldl appendMeta c).docsCounter = c.docsCounter + ms.length ∧
    (ms.foldl appendMeta c).sizeCounter = c.sizeCounter + (ms.map (·.size)).sum ∧
    (ms.foldl appendMeta c).minMID = ms.foldl (fun a m => if m.id.1 < a then m.id.1 else a) c.minMID ∧
    (ms.foldl appendMeta c).maxMID = ms.foldl (fun a m => if m.id.1 > a then m.id.1 else a) c.maxMID := by
  induction ms generalizing c with
  | nil => simp [docsFrom, h]
  | cons m ms ih =>
    obtain ⟨h1, h2, h3, h4, h5, h6, h7, h8, h9, h10⟩ := appendMeta_spec c m h
    obtain ⟨i1, i2, i3, i4, i5, i6, i7⟩ := ih (appendMeta c m) h1 (by rw [h5, hb])
    simp only [List.foldl_cons]
    refine ⟨i1, ?_, ?_, ?_, ?_, ?_, ?_⟩
    · rw [i2, h2, h4, h6, List.append_assoc]
      congr 1
      simp only [docsFrom, posOf, hb, List.getLastD_concat, List.singleton_append]
    · rw [i3, h3]; simp
    · rw [i4, h7]; simp; omega
    · rw [i5, h8]; simp; omega
    · rw [i6, h9]
    · rw [i7, h10]

/-- **`collect` builds the bulk's documents**: after parsing a bulk the collector's per-document view (ids,
positions, token bytes through `TokensValues`) is exactly the bulk, slices aligned, token table duplicate free -/
theorem collect_spec (b : Nat) (ms : List Meta) :
    CInv (collect b ms) ∧ rview (collect b ms) = docsOf b ms ∧ (collect b ms).ids = ms.map (·.id) ∧
    (collect b ms).docsCounter = ms.length ∧ (collect b ms).sizeCounter = (ms.map (·.size)).sum := by
  have := foldl_appendMeta_spec b ms (init b) (cinv_init b) rfl
  obtain ⟨h1, h2, h3, h4, h5, -, -⟩ := this
  refine ⟨h1, ?_, ?_, ?_, ?_⟩
  · simpa [collect, init, rview, view, docsOf, splitBy] using h2
  · simpa [collect, init] using h3
  · simpa [collect, init] using h4
  · simpa [collect, init] using h5

/-! ## `Filter` -/

theorem sum_take_add_le (ns : List Nat) (i : Nat) (h : i < ns.length) : (ns.take i).sum + ns[i]! ≤ ns.sum := by
  induction ns generalizing i with
  | nil => simp at h
  | cons n ns ih =>
    cases i with
    | zero => simp
    | succ i =>
      have := ih i (by simpa using h)
      simp only [List.take_succ_cons, List.sum_cons, List.getElem!_cons_succ]
      omega

theorem view_length (c : Collector) (h : WF c) : (view c).length = c.ids.length := by
  simp [view, splitBy_length, h.1, h.2.1]

/-- the token-index slice `Filter` copies for document `i` -/
def slice (c : Collector) (i : Nat) : List Nat :=
  (c.tokensIndex.drop (tokensOffsets c.tokensInDocs 0)[i]!).take c.tokensInDocs[i]!

theorem slice_length (c : Collector) (h : WF c) (i : Nat) (hi : i < c.ids.length) :
    (slice c i).length = c.tokensInDocs[i]! := by
  have hi' : i < c.tokensInDocs.length := by rw [h.2.1]; exact hi
  have := sum_take_add_le c.tokensInDocs i hi'
  simp only [slice, tokensOffsets_getElem _ _ _ hi', List.length_take, List.length_drop]
  rw [← h.2.2]
  omega

theorem view_getElem (c : Collector) (h : WF c) (i : Nat) (hi : i < c.ids.length) :
    (view c)[i]! = (c.ids[i]!, c.positions[i]!, slice c i) := by
  have hi' : i < c.tokensInDocs.length := by rw [h.2.1]; exact hi
  have hp : i < c.positions.length := by rw [h.1]; exact hi
  have hv : i < (view c).length := by rw [view_length c h]; exact hi
  have hs : i < (splitBy c.tokensInDocs c.tokensIndex).length := by rw [splitBy_length]; exact hi'
  rw [getElem!_pos (view c) i hv]
  simp only [view, List.getElem_zip]
  rw [← getElem!_pos c.ids i hi, ← getElem!_pos c.positions i hp, ← getElem!_pos _ i hs]
  rw [splitBy_getElem _ _ _ hi']
  simp [slice, tokensOffsets_getElem _ _ _ hi']

/-- **`Filter` is a projection**: the per-document view after `Filter(appended)` is the old view restricted to the
documents whose id is in `appended`; ids, positions, token counts and the rebuilt token indexes stay aligned -/
theorem filter_view (c : Collector) (app : List ID) (h : WF c) :
    view (filter c app) = (view c).filter (fun d => decide (d.1 ∈ app)) ∧ WF (filter c app) ∧
    (filter c app).tokensValues = c.tokensValues := by
  have hlen := view_length c h
  -- the index list, expressed over the view
  have hidx : indexesOfIntercept c.ids app
      = (List.range (view c).length).filter (fun i => decide (((view c)[i]!).1 ∈ app)) := by
    unfold indexesOfIntercept
    rw [hlen]
    apply List.filter_congr
    intro i hi
    rw [view_getElem c h i (by simpa using hi)]
  have hmem : ∀ i ∈ indexesOfIntercept c.ids app, i < c.ids.length := by
    intro i hi
    unfold indexesOfIntercept at hi
    simpa using (List.mem_filter.mp hi).1
  have hview : view (filter c app) = (indexesOfIntercept c.ids app).map ((view c)[·]!) := by
    unfold view filter
    simp only []
    have e1 : (indexesOfIntercept c.ids app).map (c.tokensInDocs[·]!)
        = (indexesOfIntercept c.ids app).map (fun i => (slice c i).length) := by
      apply List.map_congr_left
      intro i hi
      rw [slice_length c h i (hmem i hi)]
    have e2 : ((indexesOfIntercept c.ids app).flatMap fun i =>
        (c.tokensIndex.drop (tokensOffsets c.tokensInDocs 0)[i]!).take c.tokensInDocs[i]!)
        = (indexesOfIntercept c.ids app).flatMap (slice c) := rfl
    rw [e1, e2, splitBy_flatMap, zip_map3]
    apply List.map_congr_left
    intro i hi
    exact (view_getElem c h i (hmem i hi)).symm
  refine ⟨?_, ?_, rfl⟩
  · rw [hview, hidx]
    exact filter_range_map (view c) (fun d => decide (d.1 ∈ app))
  · unfold WF filter
    simp only [List.length_map, true_and]
    have e1 : (indexesOfIntercept c.ids app).map (c.tokensInDocs[·]!)
        = (indexesOfIntercept c.ids app).map (fun i => (slice c i).length) := by
      apply List.map_congr_left
      intro i hi
      rw [slice_length c h i (hmem i hi)]
    rw [e1]
    show _ = ((indexesOfIntercept c.ids app).flatMap (slice c)).length
    rw [List.length_flatMap]

theorem view_ids (c : Collector) (h : WF c) : (view c).map (·.1) = c.ids := by
  unfold view
  exact List.map_fst_zip (by simp [splitBy_length, h.1, h.2.1])

theorem view_positions (c : Collector) (h : WF c) : (view c).map (·.2.1) = c.positions := by
  unfold view
  have : (c.ids.zip (c.positions.zip (splitBy c.tokensInDocs c.tokensIndex))).map (·.2.1)
      = ((c.ids.zip (c.positions.zip (splitBy c.tokensInDocs c.tokensIndex))).map Prod.snd).map Prod.fst := by simp
  rw [this, List.map_snd_zip (by simp [splitBy_length, h.1, h.2.1]), List.map_fst_zip (by simp [splitBy_length, h.1, h.2.1])]

theorem view_pieces (c : Collector) (h : WF c) : (view c).map (·.2.2) = splitBy c.tokensInDocs c.tokensIndex := by
  unfold view
  have : (c.ids.zip (c.positions.zip (splitBy c.tokensInDocs c.tokensIndex))).map (·.2.2)
      = ((c.ids.zip (c.positions.zip (splitBy c.tokensInDocs c.tokensIndex))).map Prod.snd).map Prod.snd := by simp
  rw [this, List.map_snd_zip (by simp [splitBy_length, h.1, h.2.1]), List.map_snd_zip (by simp [splitBy_length, h.1, h.2.1])]

/-! ## `GroupLIDsByToken` -/

theorem groupLoop_getElem? (g : List (List Nat)) (ps : List (Nat × Nat)) (j : Nat) :
    (groupLoop g ps)[j]? = g[j]?.map (· ++ (ps.filter (fun p => p.1 == j)).map (·.2)) := by
  induction ps generalizing g with
  | nil => simp [groupLoop]
  | cons p ps ih =>
    have := ih (g.modify p.1 (· ++ [p.2]))
    simp only [groupLoop, List.foldl_cons] at this ⊢
    rw [this, List.getElem?_modify]
    by_cases hp : p.1 = j
    · cases hg : g[j]? <;> simp [hp]
    · have : (p.1 == j) = false := by simpa using hp
      cases hg : g[j]? <;> simp [hp, this]

theorem zip_replicate_right {α β} (xs : List α) (b : β) : xs.zip (List.replicate xs.length b) = xs.map (·, b) := by
  induction xs with
  | nil => rfl
  | cons x xs ih => simp [List.replicate_succ, ih]

theorem zip_restore (tid : List Nat) (ti lids : List Nat) (hs : tid.sum = ti.length) (hl : tid.length = lids.length) :
    ti.zip (restoreLIDsOrder tid lids)
      = ((splitBy tid ti).zip lids).flatMap (fun pl => pl.1.map (·, pl.2)) := by
  induction tid generalizing ti lids with
  | nil => simp [restoreLIDsOrder, splitBy]
  | cons n tid ih =>
    cases lids with
    | nil => simp at hl
    | cons l ls =>
      have hn : n ≤ ti.length := by simp at hs; omega
      have hs' : tid.sum = (ti.drop n).length := by simp at hs ⊢; omega
      have ih' := ih (ti.drop n) ls hs' (by simpa using hl)
      simp only [restoreLIDsOrder, List.zipWith_cons_cons, List.flatten_cons, splitBy, List.zip_cons_cons,
        List.flatMap_cons] at ih' ⊢
      have hlen : (ti.take n).length = (List.replicate n l).length := by simp [hn]
      conv => lhs; rw [← List.take_append_drop n ti]
      rw [List.zip_append hlen]
      rw [ih']
      congr 1
      have : List.replicate n l = List.replicate (ti.take n).length l := by simp [hn]
      rw [this, zip_replicate_right]

theorem filter_map_pair (piece : List Nat) (lid j : Nat) :
    ((piece.map (·, lid)).filter (fun p => p.1 == j)).map (·.2) = List.replicate (piece.count j) lid := by
  induction piece with
  | nil => rfl
  | cons a piece ih =>
    by_cases h : a = j
    · subst h; simp [List.replicate_succ, ih]
    · have h' : (a == j) = false := by simpa using h
      simp [List.count_cons, h', ih]

/-- the LIDs `GroupLIDsByToken` hands to token index `j`: the LID of every document once per occurrence of `j` in it -/
def postingsIdx (c : Collector) (lids : List Nat) (j : Nat) : List Nat :=
  ((view c).zip lids).flatMap fun dl => List.replicate (dl.1.2.2.count j) dl.2

theorem group_spec_idx (c : Collector) (lids : List Nat) (h : WF c) (hl : lids.length = c.ids.length) (j : Nat)
    (hj : j < c.tokensValues.length) :
    (groupLIDsByToken c lids)[j]? = some (postingsIdx c lids j) := by
  unfold groupLIDsByToken
  rw [groupLoop_getElem?, zip_restore _ _ _ h.2.2 (by rw [h.2.1, hl])]
  simp only [List.getElem?_replicate, hj, if_true, Option.map_some, List.nil_append, Option.some.injEq]
  rw [← view_pieces c h]
  unfold postingsIdx
  simp only [List.filter_flatMap, List.map_flatMap, filter_map_pair]
  clear hl
  generalize view c = V
  induction V generalizing lids with
  | nil => simp
  | cons d V ih =>
    cases lids with
    | nil => simp
    | cons l ls =>
      simp only [List.map_cons, List.zip_cons_cons, List.flatMap_cons]
      rw [ih ls]

theorem flatMap_congr' {α β} {l : List α} {f g : α → List β} (h : ∀ a ∈ l, f a = g a) : l.flatMap f = l.flatMap g := by
  induction l with
  | nil => rfl
  | cons a l ih =>
    simp only [List.flatMap_cons]
    rw [h a (by simp), ih (fun b hb => h b (List.mem_cons_of_mem _ hb))]

theorem count_map_getD (tv : List Bytes) (hnd : tv.Nodup) (xs : List Nat) (hx : ∀ k ∈ xs, k < tv.length) (j : Nat)
    (hj : j < tv.length) : (xs.map (tv.getD · [])).count tv[j] = xs.count j := by
  induction xs with
  | nil => rfl
  | cons k xs ih =>
    have hk : k < tv.length := hx k (by simp)
    have ih' := ih (fun k hk => hx k (List.mem_cons_of_mem _ hk))
    have e : tv.getD k [] = tv[k] := by simp [List.getD, List.getElem?_eq_getElem hk]
    simp only [List.map_cons, List.count_cons, ih', e]
    congr 1
    have := List.getElem_inj (h₀ := hk) (h₁ := hj) hnd
    by_cases hkj : k = j
    · subst hkj; simp
    · have h1 : ¬ tv[k] = tv[j] := fun hh => hkj (this.mp hh)
      simp [hkj, h1]

/-- the LIDs a bulk contributes to token `t`: the LID of every document once per occurrence of `t` in it -/
def postings (docs : List (ID × DocPos × List Bytes)) (lids : List Nat) (t : Bytes) : List Nat :=
  (docs.zip lids).flatMap fun dl => List.replicate (dl.1.2.2.count t) dl.2

theorem postingsIdx_eq (c : Collector) (h : CInv c) (lids : List Nat) (j : Nat) (hj : j < c.tokensValues.length) :
    postingsIdx c lids j = postings (rview c) lids c.tokensValues[j] := by
  unfold postingsIdx postings
  rw [rview_eq, List.zip_map_left, List.flatMap_map]
  apply flatMap_congr'
  intro dl hdl
  have hd : dl.1 ∈ view c := (List.of_mem_zip hdl).1
  simp only [Prod.map, id, res]
  rw [count_map_getD c.tokensValues h.2.1 dl.1.2.2 (fun k hk => h.2.2 k (mem_view_idx c dl.1 hd k hk)) j hj]

/-- **`GroupLIDsByToken`**: group `j` is exactly the postings of token `TokensValues[j]` in the collected documents -/
theorem group_spec (c : Collector) (lids : List Nat) (h : CInv c) (hl : lids.length = c.ids.length) (j : Nat)
    (hj : j < c.tokensValues.length) :
    (groupLIDsByToken c lids)[j]? = some (postings (rview c) lids c.tokensValues[j]) := by
  rw [group_spec_idx c lids h.1 hl j hj, postingsIdx_eq c h lids j hj]

theorem groupLIDsByToken_length (c : Collector) (lids : List Nat) :
    (groupLIDsByToken c lids).length = c.tokensValues.length := by
  unfold groupLIDsByToken groupLoop
  generalize c.tokensIndex.zip (restoreLIDsOrder c.tokensInDocs lids) = ps
  have : ∀ g : List (List Nat), (ps.foldl (fun g p => g.modify p.1 (· ++ [p.2])) g).length = g.length := by
    induction ps with
    | nil => simp
    | cons p ps ih => intro g; simp [ih]
  simp [this]

/-- every token of a collected document is in the token table -/
theorem rview_tokens_mem (c : Collector) (h : CInv c) (d : ID × DocPos × List Bytes) (hd : d ∈ rview c) (t : Bytes)
    (ht : t ∈ d.2.2) : t ∈ c.tokensValues := by
  rw [rview_eq] at hd
  obtain ⟨d0, hd0, rfl⟩ := List.mem_map.mp hd
  simp only [res, List.mem_map] at ht
  obtain ⟨k, hk, rfl⟩ := ht
  have hk' := h.2.2 k (mem_view_idx c d0 hd0 k hk)
  simp [List.getD, List.getElem?_eq_getElem hk']

theorem postings_not_mem (docs : List (ID × DocPos × List Bytes)) (lids : List Nat) (t : Bytes)
    (h : ∀ d ∈ docs, t ∉ d.2.2) : postings docs lids t = [] := by
  unfold postings
  simp only [List.flatMap_eq_nil_iff]
  intro dl hdl
  have := h dl.1 (List.of_mem_zip hdl).1
  simp [List.count_eq_zero_of_not_mem this]

end SV.Collector
