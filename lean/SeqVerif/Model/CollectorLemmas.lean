import SeqVerif.Model.Collector
/-!
Lemmas about the collector model (C17): list plumbing, `collect` builds the expected per-document view,
`filter` is a projection of that view, `groupLIDsByToken` has the expected groups.
-/
namespace SV.Collector

/-! ## list plumbing -/

theorem filter_range'_map {α} (xs : List α) (p : α → Bool) (g : Nat → α) (s : Nat)
    (hg : ∀ k (h : k < xs.length), g (s + k) = xs[k]) :
    ((List.range' s xs.length).filter (fun i => p (g i))).map g = xs.filter p := by
  induction xs generalizing s with
  | nil => simp
  | cons x xs ih =>
    have h0 : g s = x := by
      have := hg 0 (by simp)
      simpa using this
    have ht : ∀ k (h : k < xs.length), g (s + 1 + k) = xs[k] := by
      intro k h
      have := hg (k + 1) (by simp; omega)
      simpa [Nat.add_assoc, Nat.add_comm 1 k] using this
    simp only [List.length_cons, List.range'_succ, List.filter_cons, h0]
    by_cases hp : p x = true
    · simp [hp, h0, ih (s + 1) ht]
    · simp [hp, ih (s + 1) ht]

theorem filter_range_map {α} [Inhabited α] (xs : List α) (p : α → Bool) :
    ((List.range xs.length).filter (fun i => p xs[i]!)).map (xs[·]!) = xs.filter p := by
  rw [List.range_eq_range']
  apply filter_range'_map xs p (fun i => xs[i]!) 0
  intro k h
  simp [h]

theorem splitBy_length {α} (ns : List Nat) (xs : List α) : (splitBy ns xs).length = ns.length := by
  induction ns generalizing xs with
  | nil => rfl
  | cons n ns ih => simp [splitBy, ih]

theorem tokensOffsets_length (ns : List Nat) (o : Nat) : (tokensOffsets ns o).length = ns.length := by
  induction ns generalizing o with
  | nil => rfl
  | cons n ns ih => simp [tokensOffsets, ih]

theorem tokensOffsets_getElem (ns : List Nat) (o i : Nat) (h : i < ns.length) :
    (tokensOffsets ns o)[i]! = o + (ns.take i).sum := by
  induction ns generalizing o i with
  | nil => simp at h
  | cons n ns ih =>
    cases i with
    | zero => simp [tokensOffsets]
    | succ i =>
      have := ih (o + n) i (by simpa using h)
      simp only [tokensOffsets, List.take_succ_cons, List.sum_cons]
      rw [List.getElem!_cons_succ, this]
      omega

theorem splitBy_getElem {α} (ns : List Nat) (xs : List α) (i : Nat) (h : i < ns.length) :
    (splitBy ns xs)[i]! = (xs.drop (ns.take i).sum).take ns[i]! := by
  induction ns generalizing xs i with
  | nil => simp at h
  | cons n ns ih =>
    cases i with
    | zero => simp [splitBy]
    | succ i =>
      have := ih (xs.drop n) i (by simpa using h)
      simp only [splitBy, List.take_succ_cons, List.sum_cons]
      rw [List.getElem!_cons_succ, List.getElem!_cons_succ, this, List.drop_drop]

theorem splitBy_flatMap {α β} (l : List β) (g : β → List α) :
    splitBy (l.map fun i => (g i).length) (l.flatMap g) = l.map g := by
  induction l with
  | nil => rfl
  | cons b l ih => simp [splitBy, ih]

theorem splitBy_append {α} (ns : List Nat) (xs ys : List α) (h : ns.sum = xs.length) :
    splitBy (ns ++ [ys.length]) (xs ++ ys) = splitBy ns xs ++ [ys] := by
  induction ns generalizing xs with
  | nil =>
    have : xs = [] := by simpa using h.symm
    subst this
    simp [splitBy]
  | cons n ns ih =>
    have hn : n ≤ xs.length := by simp at h; omega
    have h' : ns.sum = (xs.drop n).length := by simp at h ⊢; omega
    simp only [List.cons_append, splitBy]
    rw [List.take_append_of_le_length hn, List.drop_append_of_le_length hn, ih _ h']

theorem zip_map3 {ι α β γ} (l : List ι) (f : ι → α) (g : ι → β) (k : ι → γ) :
    List.zip (l.map f) (List.zip (l.map g) (l.map k)) = l.map fun i => (f i, g i, k i) := by
  induction l with
  | nil => rfl
  | cons a l ih => simp [ih]

end SV.Collector
