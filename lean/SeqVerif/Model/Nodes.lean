import SeqVerif.Base.Search
namespace SV

/-- node.LessFn -/
def lessFn (rev : Bool) (a b : Nat) : Bool := if rev then decide (b < a) else decide (a < b)

theorem lessFn_irrefl (rev : Bool) (a : Nat) : lessFn rev a a = false := by
  unfold lessFn; split <;> simp

theorem lessFn_trans (rev : Bool) {a b c : Nat} (h1 : lessFn rev a b = true) (h2 : lessFn rev b c = true) :
    lessFn rev a c = true := by
  unfold lessFn at *; split at h1 <;> simp_all <;> omega

theorem lessFn_tri (rev : Bool) (a b : Nat) : lessFn rev a b = true ∨ a = b ∨ lessFn rev b a = true := by
  unfold lessFn; split <;> simp <;> omega

theorem lessFn_asymm (rev : Bool) {a b : Nat} (h : lessFn rev a b = true) : lessFn rev b a = false := by
  unfold lessFn at *; split at h <;> simp_all <;> omega

abbrev SortedBy (rev : Bool) (xs : List Nat) : Prop := xs.Pairwise (fun a b => lessFn rev a b = true)

/-- nodeAnd.Next drained: the two inner skip-loops and the equality step -/
def andMerge (rev : Bool) : List Nat → List Nat → List Nat
  | [], _ => []
  | _, [] => []
  | a :: as, b :: bs =>
    if a = b then a :: andMerge rev as bs
    else if lessFn rev a b then andMerge rev as (b :: bs)
    else andMerge rev (a :: as) bs
termination_by xs ys => xs.length + ys.length

/-- nodeOr.Next drained -/
def orMerge (rev : Bool) : List Nat → List Nat → List Nat
  | [], ys => ys
  | xs, [] => xs
  | a :: as, b :: bs =>
    if lessFn rev a b then a :: orMerge rev as (b :: bs)
    else if lessFn rev b a then b :: orMerge rev (a :: as) bs
    else a :: orMerge rev as bs
termination_by xs ys => xs.length + ys.length

/-- nodeNAnd.Next drained: regular minus negative -/
def nandMerge (rev : Bool) : (neg reg : List Nat) → List Nat
  | _, [] => []
  | [], reg => reg
  | n :: ns, r :: rs =>
    if lessFn rev n r then nandMerge rev ns (r :: rs)
    else if n = r then nandMerge rev (n :: ns) rs
    else r :: nandMerge rev (n :: ns) rs
termination_by neg reg => neg.length + reg.length

theorem mem_andMerge (rev : Bool) (xs ys : List Nat) (hx : SortedBy rev xs) (hy : SortedBy rev ys) (v : Nat) :
    v ∈ andMerge rev xs ys ↔ v ∈ xs ∧ v ∈ ys := by
  fun_induction andMerge rev xs ys with
  | case1 ys => simp
  | case2 xs h => simp
  | case3 a as bs ih =>
    have hx' := List.pairwise_cons.mp hx
    have hy' := List.pairwise_cons.mp hy
    simp only [List.mem_cons]
    rw [ih hx'.2 hy'.2]
    constructor
    · rintro (h | ⟨h1, h2⟩)
      · exact ⟨Or.inl h, Or.inl h⟩
      · exact ⟨Or.inr h1, Or.inr h2⟩
    · rintro ⟨h1 | h1, h2 | h2⟩
      · exact Or.inl h1
      · exact Or.inl h1
      · exact Or.inl h2
      · exact Or.inr ⟨h1, h2⟩
  | case4 a as b bs hne hlt ih =>
    have hx' := List.pairwise_cons.mp hx
    have hy' := List.pairwise_cons.mp hy
    rw [ih hx'.2 hy]
    simp only [List.mem_cons]
    constructor
    · rintro ⟨h1, h2⟩; exact ⟨Or.inr h1, h2⟩
    · rintro ⟨h1 | h1, h2⟩
      · subst h1
        rcases h2 with h2 | h2
        · exact absurd h2 hne
        · have h3 := hy'.1 _ h2
          have := lessFn_asymm rev hlt
          simp_all
      · exact ⟨h1, h2⟩
  | case5 a as b bs hne hlt ih =>
    have hx' := List.pairwise_cons.mp hx
    have hy' := List.pairwise_cons.mp hy
    rw [ih hx hy'.2]
    simp only [List.mem_cons]
    have hba : lessFn rev b a = true := by
      rcases lessFn_tri rev a b with h | h | h
      · simp_all
      · exact absurd h hne
      · exact h
    constructor
    · rintro ⟨h1, h2⟩; exact ⟨h1, Or.inr h2⟩
    · rintro ⟨h1, h2 | h2⟩
      · subst h2
        rcases h1 with h1 | h1
        · exact absurd h1.symm hne
        · have h3 := hx'.1 _ h1
          have := lessFn_asymm rev hba
          simp_all
      · exact ⟨h1, h2⟩

end SV

namespace SV

theorem mem_orMerge (rev : Bool) (xs ys : List Nat) (v : Nat) :
    v ∈ orMerge rev xs ys ↔ v ∈ xs ∨ v ∈ ys := by
  fun_induction orMerge rev xs ys with
  | case1 ys => simp
  | case2 xs h => simp
  | case3 a as b bs hlt ih => simp only [List.mem_cons, ih]; grind
  | case4 a as b bs hn hlt ih => simp only [List.mem_cons, ih]; grind
  | case5 a as b bs hn1 hn2 ih =>
    have : a = b := by
      rcases lessFn_tri rev a b with h | h | h <;> simp_all
    subst this
    simp only [List.mem_cons, ih]; grind

theorem mem_nandMerge (rev : Bool) (neg reg : List Nat) (hn : SortedBy rev neg) (hr : SortedBy rev reg) (v : Nat) :
    v ∈ nandMerge rev neg reg ↔ v ∈ reg ∧ v ∉ neg := by
  fun_induction nandMerge rev neg reg with
  | case1 neg => simp
  | case2 reg h => simp
  | case3 n ns r rs hlt ih =>
    have hn' := List.pairwise_cons.mp hn
    have hr' := List.pairwise_cons.mp hr
    rw [ih hn'.2 hr]
    simp only [List.mem_cons, not_or]
    constructor
    · rintro ⟨h1, h2⟩
      refine ⟨h1, ?_, h2⟩
      rintro rfl
      rcases h1 with h1 | h1
      · subst h1; simp [lessFn_irrefl] at hlt
      · have := hr'.1 _ h1
        have := lessFn_asymm rev hlt
        simp_all
    · rintro ⟨h1, _, h3⟩; exact ⟨h1, h3⟩
  | case4 n ns rs hnlt ih =>
    have hn' := List.pairwise_cons.mp hn
    have hr' := List.pairwise_cons.mp hr
    rw [ih hn hr'.2]
    simp only [List.mem_cons, not_or]
    constructor
    · rintro ⟨h1, h2⟩; exact ⟨Or.inr h1, h2⟩
    · rintro ⟨h1 | h1, h2, h3⟩
      · exact absurd h1 h2
      · exact ⟨h1, h2, h3⟩
  | case5 n ns r rs hnlt hne ih =>
    have hn' := List.pairwise_cons.mp hn
    have hr' := List.pairwise_cons.mp hr
    have hrn : lessFn rev r n = true := by
      rcases lessFn_tri rev n r with h | h | h
      · simp_all
      · exact absurd h hne
      · exact h
    simp only [List.mem_cons, not_or]
    rw [ih hn hr'.2]
    simp only [List.mem_cons, not_or]
    constructor
    · rintro (h | ⟨h1, h2, h3⟩)
      · subst h
        refine ⟨Or.inl rfl, fun h => hne h.symm, ?_⟩
        intro hmem
        have := hn'.1 _ hmem
        have h4 := lessFn_trans rev hrn this
        simp [lessFn_irrefl] at h4
      · exact ⟨Or.inr h1, h2, h3⟩
    · rintro ⟨h1 | h1, h2, h3⟩
      · exact Or.inl h1
      · exact Or.inr ⟨h1, h2, h3⟩

end SV

namespace SV

theorem andMerge_sublist (rev : Bool) (xs ys : List Nat) : (andMerge rev xs ys).Sublist xs := by
  fun_induction andMerge rev xs ys with
  | case1 ys => simp
  | case2 xs h => simp
  | case3 => exact List.Sublist.cons_cons _ (by assumption)
  | case4 => exact List.Sublist.cons _ (by assumption)
  | case5 => assumption

theorem andMerge_sorted (rev : Bool) (xs ys : List Nat) (hx : SortedBy rev xs) :
    SortedBy rev (andMerge rev xs ys) :=
  List.Pairwise.sublist (andMerge_sublist rev xs ys) hx

theorem nandMerge_sublist (rev : Bool) (neg reg : List Nat) : (nandMerge rev neg reg).Sublist reg := by
  fun_induction nandMerge rev neg reg with
  | case1 neg => simp
  | case2 reg h => simp
  | case3 => assumption
  | case4 => exact List.Sublist.cons _ (by assumption)
  | case5 => exact List.Sublist.cons_cons _ (by assumption)

theorem nandMerge_sorted (rev : Bool) (neg reg : List Nat) (hr : SortedBy rev reg) :
    SortedBy rev (nandMerge rev neg reg) :=
  List.Pairwise.sublist (nandMerge_sublist rev neg reg) hr

theorem orMerge_sorted (rev : Bool) (xs ys : List Nat) (hx : SortedBy rev xs) (hy : SortedBy rev ys) :
    SortedBy rev (orMerge rev xs ys) := by
  fun_induction orMerge rev xs ys with
  | case1 ys => exact hy
  | case2 xs h => exact hx
  | case3 a as b bs hlt ih =>
    have hx' := List.pairwise_cons.mp hx
    have hy' := List.pairwise_cons.mp hy
    refine List.pairwise_cons.mpr ⟨?_, ih hx'.2 hy⟩
    intro v hv
    rcases (mem_orMerge rev as (b :: bs) v).mp hv with h | h
    · exact hx'.1 v h
    · rcases List.mem_cons.mp h with h | h
      · subst h; exact hlt
      · exact lessFn_trans rev hlt (hy'.1 v h)
  | case4 a as b bs hn hlt ih =>
    have hx' := List.pairwise_cons.mp hx
    have hy' := List.pairwise_cons.mp hy
    refine List.pairwise_cons.mpr ⟨?_, ih hx hy'.2⟩
    intro v hv
    rcases (mem_orMerge rev (a :: as) bs v).mp hv with h | h
    · rcases List.mem_cons.mp h with h | h
      · subst h; exact hlt
      · exact lessFn_trans rev hlt (hx'.1 v h)
    · exact hy'.1 v h
  | case5 a as b bs hn1 hn2 ih =>
    have hab : a = b := by
      rcases lessFn_tri rev a b with h | h | h <;> simp_all
    subst hab
    have hx' := List.pairwise_cons.mp hx
    have hy' := List.pairwise_cons.mp hy
    refine List.pairwise_cons.mpr ⟨?_, ih hx'.2 hy'.2⟩
    intro v hv
    rcases (mem_orMerge rev as bs v).mp hv with h | h
    · exact hx'.1 v h
    · exact hy'.1 v h

/-- nodeRange drained: all values between lo and hi in iteration order -/
def rangeNode (rev : Bool) (lo hi : Nat) : List Nat :=
  if rev then (List.range' lo (hi + 1 - lo)).reverse else List.range' lo (hi + 1 - lo)

theorem mem_rangeNode (rev : Bool) (lo hi v : Nat) : v ∈ rangeNode rev lo hi ↔ lo ≤ v ∧ v ≤ hi := by
  unfold rangeNode
  split <;> simp only [List.mem_reverse, List.mem_range'_1] <;> omega

/-- nodeNot = NAnd(child, Range) -/
def notNode (rev : Bool) (child : List Nat) (lo hi : Nat) : List Nat :=
  nandMerge rev child (rangeNode rev lo hi)

end SV
