import SeqVerif.Model.Dist
/-!
# frac.Info: time borders + distribution (frac/info.go, frac/active.go:UpdateStats, frac/meta_data_collector.go)

`Info{DocsTotal, From, To, CreationTime, Distribution}`; everything else in the struct is irrelevant to pruning.
The three constants of info.go are parameters (`Consts`), instantiated at the values re-extracted from /repo.
-/
namespace SV.FracInfo
open SV.Dist

structure Consts where
  maxInterval : Int      -- DistributionMaxInterval (ns)
  bucket : Int           -- DistributionBucket (ns)
  spread : Int           -- DistributionSpreadThreshold (ns)
deriving Repr, DecidableEq

structure Info where
  docsTotal : Nat
  ifrom : Nat
  ito : Nat
  creationTime : Nat
  dist : Option Dist
deriving Repr, DecidableEq

def maxU64 : Nat := 18446744073709551615

/-- `NewInfo`: `From: math.MaxUint64, To: 0` -/
def newInfo (ct : Nat) : Info := ⟨0, 18446744073709551615, 0, ct, none⟩

/-- `Active.UpdateStats(minMID, maxMID, docCount, _)` -/
def updateStats (s : Info) (mn mx cnt : Nat) : Info :=
  { s with ifrom := if s.ifrom > mn then mn else s.ifrom,
           ito := if s.ito < mx then mx else s.ito,
           docsTotal := s.docsTotal + cnt }

/-- metaDataCollector: `MinMID = MaxUint64`, then `if id.MID < c.MinMID { c.MinMID = id.MID }` per document -/
def batchMin (mids : List Nat) : Nat := mids.foldl (fun a m => if m < a then m else a) 18446744073709551615
def batchMax (mids : List Nat) : Nat := mids.foldl (fun a m => if m > a then m else a) 0

/-- one indexed bulk -/
def appendBulk (s : Info) (mids : List Nat) : Info := updateStats s (batchMin mids) (batchMax mids) mids.length

/-- `InitEmptyDistribution`; `none` = returned false -/
def initEmptyDistribution (c : Consts) (s : Info) : Option Dist :=
  let f := midTime s.ifrom
  let ct := midTime s.creationTime
  if tsub ct f < c.spread then none
  else
    let distFrom := if tsub ct f > c.maxInterval then ct + -c.maxInterval else f
    some (Dist.new distFrom ct c.bucket)

/-- `BuildDistribution(ids)` (ids as MIDs; position 0 is the stub ID of the active fraction) -/
def buildDistribution (c : Consts) (s : Info) (mids : List Nat) : Info :=
  match initEmptyDistribution c s with
  | none => s
  | some d => { s with dist := some (mids.foldl Dist.add d) }

/-- `Info.IsIntersecting(from, to)` -/
def isIntersecting (s : Info) (qf qt : Nat) : Bool :=
  if s.docsTotal = 0 then false
  else if qt < s.ifrom ∨ s.ito < qf then false
  else match s.dist with
    | none => true
    | some d => Dist.isIntersecting d qf qt

/-- `Info.IsIntersecting` over the distribution check as it was before fix c7b3453 (historical counterexample) -/
def isIntersectingOld (s : Info) (qf qt : Nat) : Bool :=
  if s.docsTotal = 0 then false
  else if qt < s.ifrom ∨ s.ito < qf then false
  else match s.dist with
    | none => true
    | some d => Dist.isIntersectingOld d qf qt

/-- the same through the panicking variants (used by the driver) -/
def isIntersecting? (s : Info) (qf qt : Nat) : Option Bool :=
  if s.docsTotal = 0 then some false
  else if qt < s.ifrom ∨ s.ito < qf then some false
  else match s.dist with
    | none => some true
    | some d => Dist.isIntersecting? d qf qt

/-- `Save` then `Load` of the info (index info block, `.frac-cache`): the distribution goes through its JSON image;
an undefined distribution is written as `null` and comes back as a nil pointer.  Outer `none` = panic while loading. -/
def persist? (s : Info) : Option Info :=
  match s.dist with
  | none => some s
  | some d =>
    match Dist.marshal d with
    | none => some { s with dist := none }
    | some j => (Dist.unmarshal? j).map fun d' => { s with dist := some d' }

/-- the stub ID `systemMID = math.MaxUint64` stored at LID 0 of every active fraction -/
def systemMID : Nat := 18446744073709551615

/-- what sealing does to the info of an active fraction that indexed `bulks` (created at `ct`) -/
def sealed (c : Consts) (ct : Nat) (bulks : List (List Nat)) : Info :=
  buildDistribution c (bulks.foldl appendBulk (newInfo ct)) (systemMID :: bulks.flatten)

/-! ## lemmas -/

theorem batchMin_le (mids : List Nat) : ∀ (a : Nat),
    mids.foldl (fun a m => if m < a then m else a) a ≤ a ∧
    ∀ m, m ∈ mids → mids.foldl (fun a m => if m < a then m else a) a ≤ m := by
  induction mids with
  | nil => intro a; exact ⟨Nat.le_refl _, fun m hm => by simp at hm⟩
  | cons x xs ih =>
    intro a
    simp only [List.foldl_cons]
    by_cases hx : x < a
    · simp only [hx, if_true]
      have h := ih x
      refine ⟨by have := h.1; omega, ?_⟩
      intro m hm
      rcases List.mem_cons.1 hm with rfl | hm
      · exact h.1
      · exact h.2 m hm
    · simp only [hx, if_false]
      have h := ih a
      refine ⟨h.1, ?_⟩
      intro m hm
      rcases List.mem_cons.1 hm with rfl | hm
      · have := h.1; omega
      · exact h.2 m hm

theorem batchMax_ge (mids : List Nat) : ∀ (a : Nat),
    a ≤ mids.foldl (fun a m => if m > a then m else a) a ∧
    ∀ m, m ∈ mids → m ≤ mids.foldl (fun a m => if m > a then m else a) a := by
  induction mids with
  | nil => intro a; exact ⟨Nat.le_refl _, fun m hm => by simp at hm⟩
  | cons x xs ih =>
    intro a
    simp only [List.foldl_cons]
    by_cases hx : x > a
    · simp only [hx, if_true]
      have h := ih x
      refine ⟨by have := h.1; omega, ?_⟩
      intro m hm
      rcases List.mem_cons.1 hm with rfl | hm
      · exact h.1
      · exact h.2 m hm
    · simp only [hx, if_false]
      have h := ih a
      refine ⟨h.1, ?_⟩
      intro m hm
      rcases List.mem_cons.1 hm with rfl | hm
      · have := h.1; omega
      · exact h.2 m hm

/-- the borders cover every document appended so far; the count is the number of documents -/
structure Covers (s : Info) (docs : List Nat) : Prop where
  lo : ∀ m, m ∈ docs → s.ifrom ≤ m
  hi : ∀ m, m ∈ docs → m ≤ s.ito
  cnt : s.docsTotal = docs.length

theorem covers_updateStats {s : Info} {docs : List Nat} (h : Covers s docs) (mn mx : Nat) (mids : List Nat)
    (hmin : ∀ m, m ∈ mids → mn ≤ m) (hmax : ∀ m, m ∈ mids → m ≤ mx) :
    Covers (updateStats s mn mx mids.length) (docs ++ mids) := by
  refine ⟨?_, ?_, ?_⟩
  · intro m hm
    show (if s.ifrom > mn then mn else s.ifrom) ≤ m
    rcases List.mem_append.1 hm with hm | hm
    · have := h.lo m hm; by_cases c : s.ifrom > mn <;> simp only [c, if_true, if_false] <;> omega
    · have := hmin m hm; by_cases c : s.ifrom > mn <;> simp only [c, if_true, if_false] <;> omega
  · intro m hm
    show m ≤ (if s.ito < mx then mx else s.ito)
    rcases List.mem_append.1 hm with hm | hm
    · have := h.hi m hm; by_cases c : s.ito < mx <;> simp only [c, if_true, if_false] <;> omega
    · have := hmax m hm; by_cases c : s.ito < mx <;> simp only [c, if_true, if_false] <;> omega
  · show s.docsTotal + mids.length = (docs ++ mids).length
    rw [List.length_append, h.cnt]

theorem covers_appendBulk {s : Info} {docs : List Nat} (h : Covers s docs) (mids : List Nat) :
    Covers (appendBulk s mids) (docs ++ mids) :=
  covers_updateStats h _ _ mids (batchMin_le mids 18446744073709551615).2 (batchMax_ge mids 0).2

theorem covers_foldl {s : Info} {docs : List Nat} (h : Covers s docs) (bulks : List (List Nat)) :
    Covers (bulks.foldl appendBulk s) (docs ++ bulks.flatten) := by
  induction bulks generalizing s docs with
  | nil => simpa using h
  | cons b bs ih =>
    simp only [List.foldl_cons, List.flatten_cons]
    have := ih (covers_appendBulk h b)
    rwa [List.append_assoc] at this

theorem covers_new (ct : Nat) : Covers (newInfo ct) [] :=
  ⟨fun m hm => by simp at hm, fun m hm => by simp at hm, rfl⟩

/-- a distribution created by `InitEmptyDistribution` is well formed (positive bucket, `from ≤ to`) -/
theorem wf_init {c : Consts} (hb : 0 < c.bucket) (hs : 0 ≤ c.spread) (hm : 0 ≤ c.maxInterval)
    {s : Info} {d : Dist} (h : initEmptyDistribution c s = some d) : Dist.WF d := by
  unfold initEmptyDistribution at h
  simp only at h
  split at h
  · exact absurd h (by simp)
  · rename_i hsp
    injection h with h
    subst h
    apply Dist.wf_new hb
    split
    · omega
    · unfold tsub at hsp
      split at hsp
      · omega
      · split at hsp <;> omega

theorem buildDistribution_fields (c : Consts) (s : Info) (mids : List Nat) :
    (buildDistribution c s mids).ifrom = s.ifrom ∧ (buildDistribution c s mids).ito = s.ito ∧
    (buildDistribution c s mids).docsTotal = s.docsTotal ∧ (buildDistribution c s mids).creationTime = s.creationTime := by
  unfold buildDistribution; split <;> simp

theorem appendBulk_dist (s : Info) (mids : List Nat) : (appendBulk s mids).dist = s.dist := rfl

theorem foldl_appendBulk_dist (s : Info) (bulks : List (List Nat)) : (bulks.foldl appendBulk s).dist = s.dist := by
  induction bulks generalizing s with
  | nil => rfl
  | cons b bs ih => simp only [List.foldl_cons]; rw [ih, appendBulk_dist]

theorem foldl_appendBulk_creationTime (s : Info) (bulks : List (List Nat)) :
    (bulks.foldl appendBulk s).creationTime = s.creationTime := by
  induction bulks generalizing s with
  | nil => rfl
  | cons b bs ih => simp only [List.foldl_cons]; rw [ih]; rfl

/-- constants under which `InitEmptyDistribution` produces a well-formed, persistable distribution -/
structure GoodConsts (c : Consts) : Prop where
  bucket_pos : 0 < c.bucket
  spread_nonneg : 0 ≤ c.spread
  max_nonneg : 0 ≤ c.maxInterval
  max_ms : c.maxInterval % 1000000 = 0
  max_hi : c.maxInterval ≤ 9223372036854775807
  bucket_s : c.bucket % 1000000000 = 0
  bucket_hi : c.bucket ≤ 9223372036854775807

/-- **border + distribution soundness** for an info whose borders cover `docs` and whose distribution (if any) was
built by `BuildDistribution` from a list holding at least the MIDs of `docs` -/
theorem isIntersecting_build {c : Consts} (hc : GoodConsts c) {s : Info} {docs : List Nat} (hcov : Covers s docs)
    (hnd : s.dist = none) {mids : List Nat} (hsub : ∀ m, m ∈ docs → m ∈ mids)
    {m qf qt : Nat} (hm : m ∈ docs) (h1 : qf ≤ m) (h2 : m ≤ qt) (hqt : qt < 18446744073709551616) :
    isIntersecting (buildDistribution c s mids) qf qt = true := by
  have hf := buildDistribution_fields c s mids
  unfold isIntersecting
  rw [hf.1, hf.2.1, hf.2.2.1]
  have hlen : s.docsTotal ≠ 0 := by
    rw [hcov.cnt]; intro h0
    rw [List.length_eq_zero_iff] at h0; subst h0; simp at hm
  have hlo := hcov.lo m hm
  have hhi := hcov.hi m hm
  have hb : ¬ (qt < s.ifrom ∨ s.ito < qf) := by omega
  simp only [hlen, hb, if_false]
  unfold buildDistribution
  cases hi : initEmptyDistribution c s with
  | none => simp only [hnd]
  | some d =>
    simp only
    have hwf := wf_init hc.bucket_pos hc.spread_nonneg hc.max_nonneg hi
    have hfold := Dist.bit_foldl_add hwf mids
    apply Dist.isIntersecting_of_bit_u hfold.1 h1 h2 hqt
    rw [hfold.2.1 m]
    exact hfold.2.2.2 m (hsub m hm)

/-- without a distribution only the borders decide -/
theorem isIntersecting_nodist {s : Info} {docs : List Nat} (hcov : Covers s docs) (hnd : s.dist = none)
    {m qf qt : Nat} (hm : m ∈ docs) (h1 : qf ≤ m) (h2 : m ≤ qt) : isIntersecting s qf qt = true := by
  unfold isIntersecting
  have hlen : s.docsTotal ≠ 0 := by
    rw [hcov.cnt]; intro h0
    rw [List.length_eq_zero_iff] at h0; subst h0; simp at hm
  have hlo := hcov.lo m hm
  have hhi := hcov.hi m hm
  have hb : ¬ (qt < s.ifrom ∨ s.ito < qf) := by omega
  simp only [hlen, hb, if_false, hnd]

theorem toInt64_range (m : Nat) : -9223372036854775808 ≤ toInt64 m ∧ toInt64 m ≤ 9223372036854775807 := by
  unfold toInt64; split <;> omega

/-- the distribution made by `InitEmptyDistribution` survives the JSON image unchanged -/
theorem representable_init {c : Consts} (hc : GoodConsts c) {s : Info} (hct : s.creationTime < 9223372036854775808)
    {d : Dist} (h : initEmptyDistribution c s = some d) : Dist.Representable d := by
  unfold initEmptyDistribution at h
  simp only at h
  split at h
  · exact absurd h (by simp)
  · injection h with h
    subst h
    have r1 := toInt64_range s.ifrom
    have hct' : toInt64 s.creationTime = s.creationTime := Dist.toInt64_of_lt hct
    have m1 := hc.max_ms; have m2 := hc.max_hi; have m3 := hc.max_nonneg
    constructor
    all_goals simp only [Dist.new, midTime, hct']
    · split <;> omega
    · omega
    · split <;> omega
    · split <;> omega
    · omega
    · omega
    · exact hc.bucket_s
    · exact hc.bucket_hi

theorem persist_build {c : Consts} (hc : GoodConsts c) {s : Info} (hnd : s.dist = none)
    (hct : s.creationTime < 9223372036854775808) (mids : List Nat) :
    persist? (buildDistribution c s mids) = some (buildDistribution c s mids) := by
  unfold buildDistribution
  cases hi : initEmptyDistribution c s with
  | none => simp only; unfold persist?; simp only [hnd]
  | some d =>
    simp only
    have hwf := wf_init hc.bucket_pos hc.spread_nonneg hc.max_nonneg hi
    have hfold := (Dist.bit_foldl_add hwf mids).1
    have hrep := Dist.representable_foldl_add (representable_init hc hct hi) mids
    have hrt := Dist.json_roundtrip hfold hrep
    unfold persist?
    simp only
    cases hmj : Dist.marshal (List.foldl Dist.add d mids) with
    | none => rw [hmj] at hrt; simp at hrt
    | some j =>
      rw [hmj] at hrt
      simp only [Option.bind_some] at hrt
      simp only [hrt, Option.map_some]

/-! ## bulks that are (partially) retried: the duplicate filter of the index worker

`appendWorker`: `appended := DocsPositions.SetMultiple(collector.IDs, ..)` keeps the IDs that are not stored yet (a
second occurrence inside the bulk is not appended either); when `len(appended) != len(collector.IDs)` the collector
is filtered (`metaDataCollector.Filter(appended)`): the surviving entries are those of `collector.IDs` whose ID is in
`appended`, in bulk order, `MinMID/MaxMID` are recomputed over them from `MaxUint64 / 0` with two independent
comparisons (as `AppendMeta` does while collecting), `DocsCounter = len(appended)`; then `UpdateStats`. -/

/-- `DocsPositions.SetMultiple` for IDs `(mid, rid)` (plain documents) -/
def setMultiple (stored : List (Nat × Nat)) : List (Nat × Nat) → List (Nat × Nat)
  | [] => []
  | id :: rest => if id ∈ stored then setMultiple stored rest else id :: setMultiple (id :: stored) rest

/-- the collector's IDs after the optional `Filter(appended)` -/
def survivors (bulk appended : List (Nat × Nat)) : List (Nat × Nat) :=
  if appended.length = bulk.length then bulk else bulk.filter fun id => decide (id ∈ appended)

/-- `metaDataCollector` stats of a list of IDs: `(MinMID, MaxMID)` - the same fold in `AppendMeta` and in `Filter` -/
def collectorStats (ids : List (Nat × Nat)) : Nat × Nat := (batchMin (ids.map Prod.fst), batchMax (ids.map Prod.fst))

/-- one bulk through the index worker of an active fraction: `(info, stored IDs)` -/
def ingestBulk (st : Info × List (Nat × Nat)) (bulk : List (Nat × Nat)) : Info × List (Nat × Nat) :=
  let appended := setMultiple st.2 bulk
  let surv := survivors bulk appended
  (updateStats st.1 (collectorStats surv).1 (collectorStats surv).2 appended.length, st.2 ++ appended)

theorem setMultiple_sublist (stored bulk : List (Nat × Nat)) : (setMultiple stored bulk).Sublist bulk := by
  induction bulk generalizing stored with
  | nil => exact List.Sublist.slnil
  | cons id rest ih =>
    unfold setMultiple
    split
    · exact List.Sublist.cons _ (ih stored)
    · exact List.Sublist.cons_cons _ (ih (id :: stored))

theorem mem_survivors {bulk appended : List (Nat × Nat)} (hsub : appended.Sublist bulk) {id : Nat × Nat}
    (h : id ∈ appended) : id ∈ survivors bulk appended := by
  unfold survivors
  split
  · exact hsub.subset h
  · rw [List.mem_filter]; exact ⟨hsub.subset h, by simpa using h⟩

/-- the borders cover every stored document after any history of (partially retried, arbitrarily ordered) bulks -/
theorem covers_ingest {st : Info × List (Nat × Nat)} (h : Covers st.1 (st.2.map Prod.fst)) (bulk : List (Nat × Nat)) :
    Covers (ingestBulk st bulk).1 ((ingestBulk st bulk).2.map Prod.fst) := by
  simp only [ingestBulk, List.map_append]
  have hsub := setMultiple_sublist st.2 bulk
  have hlen : (setMultiple st.2 bulk).length = ((setMultiple st.2 bulk).map Prod.fst).length := by simp
  rw [hlen]
  apply covers_updateStats h
  · intro m hm
    rcases List.mem_map.1 hm with ⟨id, hid, rfl⟩
    exact (batchMin_le _ 18446744073709551615).2 _ (List.mem_map_of_mem (mem_survivors hsub hid))
  · intro m hm
    rcases List.mem_map.1 hm with ⟨id, hid, rfl⟩
    exact (batchMax_ge _ 0).2 _ (List.mem_map_of_mem (mem_survivors hsub hid))

theorem covers_ingest_foldl {st : Info × List (Nat × Nat)} (h : Covers st.1 (st.2.map Prod.fst))
    (hist : List (List (Nat × Nat))) :
    Covers (hist.foldl ingestBulk st).1 ((hist.foldl ingestBulk st).2.map Prod.fst) := by
  induction hist generalizing st with
  | nil => exact h
  | cons b bs ih => simp only [List.foldl_cons]; exact ih (covers_ingest h b)

theorem ingest_dist (st : Info × List (Nat × Nat)) (hist : List (List (Nat × Nat))) :
    (hist.foldl ingestBulk st).1.dist = st.1.dist ∧ (hist.foldl ingestBulk st).1.creationTime = st.1.creationTime := by
  induction hist generalizing st with
  | nil => exact ⟨rfl, rfl⟩
  | cons b bs ih => simp only [List.foldl_cons]; exact ih (ingestBulk st b)

end SV.FracInfo
