import SeqVerif.Model.Dist
/-!
# frac.Info: time borders + distribution (frac/info.go, frac/active.go:UpdateStats, frac/meta_data_collector.go)

`Info{DocsTotal, From, To, CreationTime, Distribution}`; everything else in the struct is irrelevant to pruning.
The three constants of info.go are parameters (`Consts`), instantiated at the values re-extracted from /repo.
-/
namespace SV.FracInfo
open SV.Dist

structure Consts where
  maxInterval : Int      -- DistributionMaxInterval (ns)
  bucket : Int           -- DistributionBucket (ns)
  spread : Int           -- DistributionSpreadThreshold (ns)
deriving Repr, DecidableEq

structure Info where
  docsTotal : Nat
  ifrom : Nat
  ito : Nat
  creationTime : Nat
  dist : Option Dist
deriving Repr, DecidableEq

def maxU64 : Nat := 18446744073709551615

/-- `NewInfo`: `From: math.MaxUint64, To: 0` -/
def newInfo (ct : Nat) : Info := ⟨0, 18446744073709551615, 0, ct, none⟩

/-- `Active.UpdateStats(minMID, maxMID, docCount, _)` -/
def updateStats (s : Info) (mn mx cnt : Nat) : Info :=
  { s with ifrom := if s.ifrom > mn then mn else s.ifrom,
           ito := if s.ito < mx then mx else s.ito,
           docsTotal := s.docsTotal + cnt }

/-- metaDataCollector: `MinMID = MaxUint64`, then `if id.MID < c.MinMID { c.MinMID = id.MID }` per document -/
def batchMin (mids : List Nat) : Nat := mids.foldl (fun a m => if m < a then m else a) 18446744073709551615
def batchMax (mids : List Nat) : Nat := mids.foldl (fun a m => if m > a then m else a) 0

/-- one indexed bulk -/
def appendBulk (s : Info) (mids : List Nat) : Info := updateStats s (batchMin mids) (batchMax mids) mids.length

/-- `InitEmptyDistribution`; `none` = returned false -/
def initEmptyDistribution (c : Consts) (s : Info) : Option Dist :=
  let f := midTime s.ifrom
  let ct := midTime s.creationTime
  if tsub ct f < c.spread then none
  else
    let distFrom := if tsub ct f > c.maxInterval then ct + -c.maxInterval else f
    some (Dist.new distFrom ct c.bucket)

/-- `BuildDistribution(ids)` (ids as MIDs; position 0 is the stub ID of the active fraction) -/
def buildDistribution (c : Consts) (s : Info) (mids : List Nat) : Info :=
  match initEmptyDistribution c s with
  | none => s
  | some d => { s with dist := some (mids.foldl Dist.add d) }

/-- `Info.IsIntersecting(from, to)` -/
def isIntersecting (s : Info) (qf qt : Nat) : Bool :=
  if s.docsTotal = 0 then false
  else if qt < s.ifrom ∨ s.ito < qf then false
  else match s.dist with
    | none => true
    | some d => Dist.isIntersecting d qf qt

/-- `Info.IsIntersecting` over the distribution check as it was before fix c7b3453 (historical counterexample) -/
def isIntersectingOld (s : Info) (qf qt : Nat) : Bool :=
  if s.docsTotal = 0 then false
  else if qt < s.ifrom ∨ s.ito < qf then false
  else match s.dist with
    | none => true
    | some d => Dist.isIntersectingOld d qf qt

/-- the same through the panicking variants (used by the driver) -/
def isIntersecting? (s : Info) (qf qt : Nat) : Option Bool :=
  if s.docsTotal = 0 then some false
  else if qt < s.ifrom ∨ s.ito < qf then some false
  else match s.dist with
    | none => some true
    | some d => Dist.isIntersecting? d qf qt

/-- `Save` then `Load` of the info (index info block, `.frac-cache`): the distribution goes through its JSON image;
an undefined distribution is written as `null` and comes back as a nil pointer.  Outer `none` = panic while loading. -/
def persist? (s : Info) : Option Info :=
  match s.dist with
  | none => some s
  | some d =>
    match Dist.marshal d with
    | none => some { s with dist := none }
    | some j => (Dist.unmarshal? j).map fun d' => { s with dist := some d' }

/-! ### `.frac-cache` (fracmanager/sealed_frac_cache.go)

`SaveCacheToDisk` writes `json.Marshal(map[name]*Info)`, `LoadFromDisk` reads it back with ONE `json.Unmarshal` into the
map: every entry gets its own freshly allocated `Info` (and `MIDsDistribution`), so the loaded info of a fraction is a
function of that fraction's entry alone, and nothing is added to it on load. -/

/-- `LoadFromDisk ∘ SaveCacheToDisk` on the entries `(name, info)`; inner `none` = that entry panics while decoding -/
def cacheLoad (entries : List (String × Info)) : List (String × Option Info) :=
  entries.map fun e => (e.1, persist? e.2)

/-- an entry written by an older release: no `distribution` (and no `sealing_time`, which pruning never reads) -/
def legacyEntry (s : Info) : Info := { s with dist := none }

/-- the stub ID `systemMID = math.MaxUint64` stored at LID 0 of every active fraction -/
def systemMID : Nat := 18446744073709551615

/-- what sealing does to the info of an active fraction that indexed `bulks` (created at `ct`) -/
def sealed (c : Consts) (ct : Nat) (bulks : List (List Nat)) : Info :=
  buildDistribution c (bulks.foldl appendBulk (newInfo ct)) (systemMID :: bulks.flatten)

/-! ## lemmas -/

theorem batchMin_le (mids : List Nat) : ∀ (a : Nat),
    mids.foldl (fun a m => if m < a then m else a) a ≤ a ∧
    ∀ m, m ∈ mids → mids.foldl (fun a m => if m < a then m else a) a ≤ m := by
  induction mids with
  | nil => intro a; exact ⟨Nat.le_refl _, fun m hm => by simp at hm⟩
  | cons x xs ih =>
    intro a
    simp only [List.foldl_cons]
    by_cases hx : x < a
    · simp only [hx, if_true]
      have h := ih x
      refine ⟨by have := h.1; omega, ?_⟩
      intro m hm
      rcases List.mem_cons.1 hm with rfl | hm
      · exact h.1
      · exact h.2 m hm
    · simp only [hx, if_false]
      have h := ih a
      refine ⟨h.1, ?_⟩
      intro m hm
      rcases List.mem_cons.1 hm with rfl | hm
      · have := h.1; omega
      · exact h.2 m hm

theorem batchMax_ge (mids : List Nat) : ∀ (a : Nat),
    a ≤ mids.foldl (fun a m => if m > a then m else a) a ∧
    ∀ m, m ∈ mids → m ≤ mids.foldl (fun a m => if m > a then m else a) a := by
  induction mids with
  | nil => intro a; exact ⟨Nat.le_refl _, fun m hm => by simp at hm⟩
  | cons x xs ih =>
    intro a
    simp only [List.foldl_cons]
    by_cases hx : x > a
    · simp only [hx, if_true]
      have h := ih x
      refine ⟨by have := h.1; omega, ?_⟩
      intro m hm
      rcases List.mem_cons.1 hm with rfl | hm
      · exact h.1
      · exact h.2 m hm
    · simp only [hx, if_false]
      have h := ih a
      refine ⟨h.1, ?_⟩
      intro m hm
      rcases List.mem_cons.1 hm with rfl | hm
      · have := h.1; omega
      · exact h.2 m hm

/-- the borders cover every document appended so far; the count is the number of documents -/
structure Covers (s : Info) (docs : List Nat) : Prop where
  lo : ∀ m, m ∈ docs → s.ifrom ≤ m
  hi : ∀ m, m ∈ docs → m ≤ s.ito
  cnt : s.docsTotal = docs.length

theorem covers_updateStats {s : Info} {docs : List Nat} (h : Covers s docs) (mn mx : Nat) (mids : List Nat)
    (hmin : ∀ m, m ∈ mids → mn ≤ m) (hmax : ∀ m, m ∈ mids → m ≤ mx) :
    Covers (updateStats s mn mx mids.length) (docs ++ mids) := by
  refine ⟨?_, ?_, ?_⟩
  · intro m hm
    show (if s.ifrom > mn then mn else s.ifrom) ≤ m
    rcases List.mem_append.1 hm with hm | hm
    · have := h.lo m hm; by_cases c : s.ifrom > mn <;> simp only [c, if_true, if_false] <;> omega
    · have := hmin m hm; by_cases c : s.ifrom > mn <;> simp only [c, if_true, if_false] <;> omega
  · intro m hm
    show m ≤ (if s.ito < mx then mx else s.ito)
    rcases List.mem_append.1 hm with hm | hm
    · have := h.hi m hm; by_cases c : s.ito < mx <;> simp only [c, if_true, if_false] <;> omega
    · have := hmax m hm; by_cases c : s.ito < mx <;> simp only [c, if_true, if_false] <;> omega
  · show s.docsTotal + mids.length = (docs ++ mids).length
    rw [List.length_append, h.cnt]

theorem covers_appendBulk {s : Info} {docs : List Nat} (h : Covers s docs) (mids : List Nat) :
    Covers (appendBulk s mids) (docs ++ mids) :=
  covers_updateStats h _ _ mids (batchMin_le mids 18446744073709551615).2 (batchMax_ge mids 0).2

theorem covers_foldl {s : Info} {docs : List Nat} (h : Covers s docs) (bulks : List (List Nat)) :
    Covers (bulks.foldl appendBulk s) (docs ++ bulks.flatten) := by
  induction bulks generalizing s docs with
  | nil => simpa using h
  | cons b bs ih =>
    simp only [List.foldl_cons, List.flatten_cons]
    have := ih (covers_appendBulk h b)
    rwa [List.append_assoc] at this

theorem covers_new (ct : Nat) : Covers (newInfo ct) [] :=
  ⟨fun m hm => by simp at hm, fun m hm => by simp at hm, rfl⟩

/-- a distribution created by `InitEmptyDistribution` is well formed (positive bucket, `from ≤ to`) -/
theorem wf_init {c : Consts} (hb : 0 < c.bucket) (hs : 0 ≤ c.spread) (hm : 0 ≤ c.maxInterval)
    {s : Info} {d : Dist} (h : initEmptyDistribution c s = some d) : Dist.WF d := by
  unfold initEmptyDistribution at h
  simp only at h
  split at h
  · exact absurd h (by simp)
  · rename_i hsp
    injection h with h
    subst h
    apply Dist.wf_new hb
    split
    · omega
    · unfold tsub at hsp
      split at hsp
      · omega
      · split at hsp <;> omega

theorem buildDistribution_fields (c : Consts) (s : Info) (mids : List Nat) :
    (buildDistribution c s mids).ifrom = s.ifrom ∧ (buildDistribution c s mids).ito = s.ito ∧
    (buildDistribution c s mids).docsTotal = s.docsTotal ∧ (buildDistribution c s mids).creationTime = s.creationTime := by
  unfold buildDistribution; split <;> simp

theorem appendBulk_dist (s : Info) (mids : List Nat) : (appendBulk s mids).dist = s.dist := rfl

theorem foldl_appendBulk_dist (s : Info) (bulks : List (List Nat)) : (bulks.foldl appendBulk s).dist = s.dist := by
  induction bulks generalizing s with
  | nil => rfl
  | cons b bs ih => simp only [List.foldl_cons]; rw [ih, appendBulk_dist]

theorem foldl_appendBulk_creationTime (s : Info) (bulks : List (List Nat)) :
    (bulks.foldl appendBulk s).creationTime = s.creationTime := by
  induction bulks generalizing s with
  | nil => rfl
  | cons b bs ih => simp only [List.foldl_cons]; rw [ih]; rfl

/-- constants under which `InitEmptyDistribution` produces a well-formed, persistable distribution -/
structure GoodConsts (c : Consts) : Prop where
  bucket_pos : 0 < c.bucket
  spread_nonneg : 0 ≤ c.spread
  max_nonneg : 0 ≤ c.maxInterval
  max_ms : c.maxInterval % 1000000 = 0
  max_hi : c.maxInterval ≤ 9223372036854775807
  bucket_s : c.bucket % 1000000000 = 0
  bucket_hi : c.bucket ≤ 9223372036854775807

/-- **border + distribution soundness** for an info whose borders cover `docs` and whose distribution (if any) was
built by `BuildDistribution` from a list holding at least the MIDs of `docs` -/
theorem isIntersecting_build {c : Consts} (hc : GoodConsts c) {s : Info} {docs : List Nat} (hcov : Covers s docs)
    (hnd : s.dist = none) {mids : List Nat} (hsub : ∀ m, m ∈ docs → m ∈ mids)
    {m qf qt : Nat} (hm : m ∈ docs) (h1 : qf ≤ m) (h2 : m ≤ qt) (hqt : qt < 18446744073709551616) :
    isIntersecting (buildDistribution c s mids) qf qt = true := by
  have hf := buildDistribution_fields c s mids
  unfold isIntersecting
  rw [hf.1, hf.2.1, hf.2.2.1]
  have hlen : s.docsTotal ≠ 0 := by
    rw [hcov.cnt]; intro h0
    rw [List.length_eq_zero_iff] at h0; subst h0; simp at hm
  have hlo := hcov.lo m hm
  have hhi := hcov.hi m hm
  have hb : ¬ (qt < s.ifrom ∨ s.ito < qf) := by omega
  simp only [hlen, hb, if_false]
  unfold buildDistribution
  cases hi : initEmptyDistribution c s with
  | none => simp only [hnd]
  | some d =>
    simp only
    have hwf := wf_init hc.bucket_pos hc.spread_nonneg hc.max_nonneg hi
    have hfold := Dist.bit_foldl_add hwf mids
    apply Dist.isIntersecting_of_bit_u hfold.1 h1 h2 hqt
    rw [hfold.2.1 m]
    exact hfold.2.2.2 m (hsub m hm)

/-- without a distribution only the borders decide -/
theorem isIntersecting_nodist {s : Info} {docs : List Nat} (hcov : Covers s docs) (hnd : s.dist = none)
    {m qf qt : Nat} (hm : m ∈ docs) (h1 : qf ≤ m) (h2 : m ≤ qt) : isIntersecting s qf qt = true := by
  unfold isIntersecting
  have hlen : s.docsTotal ≠ 0 := by
    rw [hcov.cnt]; intro h0
    rw [List.length_eq_zero_iff] at h0; subst h0; simp at hm
  have hlo := hcov.lo m hm
  have hhi := hcov.hi m hm
  have hb : ¬ (qt < s.ifrom ∨ s.ito < qf) := by omega
  simp only [hlen, hb, if_false, hnd]

theorem toInt64_range (m : Nat) : -9223372036854775808 ≤ toInt64 m ∧ toInt64 m ≤ 9223372036854775807 := by
  unfold toInt64; split <;> omega

/-- the distribution made by `InitEmptyDistribution` survives the JSON image unchanged -/
theorem representable_init {c : Consts} (hc : GoodConsts c) {s : Info} (hct : s.creationTime < 9223372036854775808)
    {d : Dist} (h : initEmptyDistribution c s = some d) : Dist.Representable d := by
  unfold initEmptyDistribution at h
  simp only at h
  split at h
  · exact absurd h (by simp)
  · injection h with h
    subst h
    have r1 := toInt64_range s.ifrom
    have hct' : toInt64 s.creationTime = s.creationTime := Dist.toInt64_of_lt hct
    have m1 := hc.max_ms; have m2 := hc.max_hi; have m3 := hc.max_nonneg
    constructor
    all_goals simp only [Dist.new, midTime, hct']
    · split <;> omega
    · omega
    · split <;> omega
    · split <;> omega
    · omega
    · omega
    · exact hc.bucket_s
    · exact hc.bucket_hi

theorem persist_build {c : Consts} (hc : GoodConsts c) {s : Info} (hnd : s.dist = none)
    (hct : s.creationTime < 9223372036854775808) (mids : List Nat) :
    persist? (buildDistribution c s mids) = some (buildDistribution c s mids) := by
  unfold buildDistribution
  cases hi : initEmptyDistribution c s with
  | none => simp only; unfold persist?; simp only [hnd]
  | some d =>
    simp only
    have hwf := wf_init hc.bucket_pos hc.spread_nonneg hc.max_nonneg hi
    have hfold := (Dist.bit_foldl_add hwf mids).1
    have hrep := Dist.representable_foldl_add (representable_init hc hct hi) mids
    have hrt := Dist.json_roundtrip hfold hrep
    unfold persist?
    simp only
    cases hmj : Dist.marshal (List.foldl Dist.add d mids) with
    | none => rw [hmj] at hrt; simp at hrt
    | some j =>
      rw [hmj] at hrt
      simp only [Option.bind_some] at hrt
      simp only [hrt, Option.map_some]

/-! ## bulks that are (partially) retried: the duplicate filter of the index worker

`appendWorker`: `appended := DocsPositions.SetMultiple(collector.IDs, collector.Positions)` keeps an entry when its ID is
not stored yet OR is stored with the SAME position (`!ok || savedPos == pos[i]`: a nested meta points to its parent's
position, so the same ID is appended again); a stored ID with another position (a retried document, or a second
occurrence of an ID inside the bulk) is dropped.  When `len(appended) != len(collector.IDs)` the collector is filtered
(`metaDataCollector.Filter(appended)`): the surviving entries are those of `collector.IDs` whose ID is in `appended`,
in bulk order, `MinMID/MaxMID` are recomputed over them from `MaxUint64 / 0` with two independent comparisons (as
`AppendMeta` does while collecting), `DocsCounter = len(appended)`; then `UpdateStats`.
A bulk is a list of `((mid, rid), pos)`: the collector's `IDs` and `Positions`. -/

abbrev Entry := (Nat × Nat) × Nat

/-- `DocsPositions.SetMultiple`: the new map and the `appended` slice -/
def setMultiple (dp : List Entry) : List Entry → List Entry × List (Nat × Nat)
  | [] => (dp, [])
  | (id, p) :: rest =>
    match dp.lookup id with
    | none => ((setMultiple ((id, p) :: dp) rest).1, id :: (setMultiple ((id, p) :: dp) rest).2)
    | some q => if q = p then ((setMultiple dp rest).1, id :: (setMultiple dp rest).2) else setMultiple dp rest

/-- the collector's IDs after the optional `Filter(appended)` -/
def survivors (bulk appended : List (Nat × Nat)) : List (Nat × Nat) :=
  if appended.length = bulk.length then bulk else bulk.filter fun id => decide (id ∈ appended)

/-- `metaDataCollector` stats of a list of IDs: `(MinMID, MaxMID)` - the same fold in `AppendMeta` and in `Filter` -/
def collectorStats (ids : List (Nat × Nat)) : Nat × Nat := (batchMin (ids.map Prod.fst), batchMax (ids.map Prod.fst))

/-- an active fraction as the index worker sees it: its info, the positions map, the IDs appended so far (`MIDs/RIDs`
after the stub; a nested meta contributes its ID again) -/
structure AState where
  info : Info
  pos : List Entry
  /-- the IDs `SetMultiple` appended (what `DocsCounter`/`DocsTotal` count) -/
  ids : List (Nat × Nat)
  /-- the IDs handed to `AppendIDs` (`collector.IDs` after the optional `Filter`: the SURVIVORS - an ID that occurs
  twice in a bulk at different positions is appended once but survives twice), i.e. the fraction's `MIDs/RIDs` after
  the stub -/
  lids : List (Nat × Nat)
deriving Repr, DecidableEq

def newActive (ct : Nat) : AState := ⟨newInfo ct, [], [], []⟩

/-- one bulk through the index worker of an active fraction -/
def ingestBulk (st : AState) (bulk : List Entry) : AState :=
  let r := setMultiple st.pos bulk
  let surv := survivors (bulk.map Prod.fst) r.2
  ⟨updateStats st.info (collectorStats surv).1 (collectorStats surv).2 r.2.length, r.1, st.ids ++ r.2, st.lids ++ surv⟩

theorem setMultiple_sublist (dp bulk : List Entry) : (setMultiple dp bulk).2.Sublist (bulk.map Prod.fst) := by
  induction bulk generalizing dp with
  | nil => exact List.Sublist.slnil
  | cons e rest ih =>
    obtain ⟨id, p⟩ := e
    unfold setMultiple
    simp only [List.map_cons]
    split
    · exact List.Sublist.cons_cons _ (ih _)
    · split
      · exact List.Sublist.cons_cons _ (ih _)
      · exact List.Sublist.cons _ (ih _)

theorem mem_survivors {bulk appended : List (Nat × Nat)} (hsub : appended.Sublist bulk) {id : Nat × Nat}
    (h : id ∈ appended) : id ∈ survivors bulk appended := by
  unfold survivors
  split
  · exact hsub.subset h
  · rw [List.mem_filter]; exact ⟨hsub.subset h, by simpa using h⟩

/-- the borders cover every appended ID after any history of (partially retried, nested, arbitrarily ordered) bulks,
and `DocsTotal` counts them -/
theorem covers_ingest {st : AState} (h : Covers st.info (st.ids.map Prod.fst)) (bulk : List Entry) :
    Covers (ingestBulk st bulk).info ((ingestBulk st bulk).ids.map Prod.fst) := by
  simp only [ingestBulk, List.map_append]
  have hsub := setMultiple_sublist st.pos bulk
  have hlen : (setMultiple st.pos bulk).2.length = ((setMultiple st.pos bulk).2.map Prod.fst).length := by simp
  rw [hlen]
  apply covers_updateStats h
  · intro m hm
    rcases List.mem_map.1 hm with ⟨id, hid, rfl⟩
    exact (batchMin_le _ 18446744073709551615).2 _ (List.mem_map_of_mem (mem_survivors hsub hid))
  · intro m hm
    rcases List.mem_map.1 hm with ⟨id, hid, rfl⟩
    exact (batchMax_ge _ 0).2 _ (List.mem_map_of_mem (mem_survivors hsub hid))

theorem survivors_subset {bulk appended : List (Nat × Nat)} (hsub : appended.Sublist bulk) {id : Nat × Nat}
    (h : id ∈ survivors bulk appended) : id ∈ appended := by
  unfold survivors at h
  split at h
  · rename_i hl
    rw [hsub.eq_of_length hl]; exact h
  · rw [List.mem_filter] at h; simpa using h.2

/-- every ID in the fraction's `MIDs/RIDs` was appended by `SetMultiple` (so it is covered and counted) -/
theorem lids_subset {st : AState} (h : ∀ id, id ∈ st.lids → id ∈ st.ids) (hist : List (List Entry)) :
    ∀ id, id ∈ (hist.foldl ingestBulk st).lids → id ∈ (hist.foldl ingestBulk st).ids := by
  induction hist generalizing st with
  | nil => exact h
  | cons b bs ih =>
    simp only [List.foldl_cons]
    apply ih
    intro id hid
    simp only [ingestBulk] at hid ⊢
    rcases List.mem_append.1 hid with h1 | h1
    · exact List.mem_append_left _ (h id h1)
    · exact List.mem_append_right _ (survivors_subset (setMultiple_sublist st.pos b) h1)

theorem covers_ingest_foldl {st : AState} (h : Covers st.info (st.ids.map Prod.fst)) (hist : List (List Entry)) :
    Covers (hist.foldl ingestBulk st).info ((hist.foldl ingestBulk st).ids.map Prod.fst) := by
  induction hist generalizing st with
  | nil => exact h
  | cons b bs ih => simp only [List.foldl_cons]; exact ih (covers_ingest h b)

theorem ingest_dist (st : AState) (hist : List (List Entry)) :
    (hist.foldl ingestBulk st).info.dist = st.info.dist ∧
    (hist.foldl ingestBulk st).info.creationTime = st.info.creationTime := by
  induction hist generalizing st with
  | nil => exact ⟨rfl, rfl⟩
  | cons b bs ih => simp only [List.foldl_cons]; exact ih (ingestBulk st b)

end SV.FracInfo
