import SeqVerif.Spec.Store
import SeqVerif.Model.PatternTop
import SeqVerif.Model.PatternRange
/-!
# C13 searchers = the shared Spec's leaf predicate (`SV.Spec.Leaf.valMatch`)

C02's search theorem takes leaf matching as the definition `Leaf.valMatch` (Spec/Store.lean).  This file proves
that every search path of the pattern package returns exactly the TIDs whose token satisfies that predicate.

* literal / wildcard leaves: unconditionally (`Spec.globMatch` = the inductive `Glob`);
* ranges: the text branch unconditionally; the numeric branch relative to `NumAgree`: the ParseFloat oracle `pf`
  and `Spec.numVal` (decimal integers `-?[0-9]+`) are defined on the same strings among those involved and order
  them the same way.  Outside that fragment the two definitions differ - see the witnesses at the end.
-/
namespace SV.Pattern
open SV

def specTerm : Term → Spec.Term
  | .text d => .text d
  | .star => .star

def specTerms (ts : List Term) : List Spec.Term := ts.map specTerm

/-- the Spec leaf of a pattern-package token (the field plays no role in `valMatch`) -/
def specLeaf (field : Bytes) : Token → Spec.Leaf
  | .literal ts => .lit field (specTerms ts)
  | .range r => .range field r.from_ r.includeFrom r.to r.includeTo

/-! ## glob -/

theorem spec_globMatch_iff (ts : List Term) (v : Bytes) : Spec.globMatch (specTerms ts) v = true ↔ Glob ts v := by
  induction ts generalizing v with
  | nil => simp [specTerms, Spec.globMatch, glob_nil_iff]
  | cons t ts ih =>
    cases t with
    | text d =>
      simp only [specTerms, List.map_cons, specTerm, Spec.globMatch, Bool.and_eq_true]
      rw [glob_text_iff, List.isPrefixOf_iff_prefix]
      have ih' := ih
      simp only [specTerms] at ih'
      constructor
      · rintro ⟨⟨r, hr⟩, hg⟩
        refine ⟨r, hr.symm, ?_⟩
        rw [ih', ← hr] at hg; simpa using hg
      · rintro ⟨w, rfl, hg⟩
        exact ⟨⟨w, rfl⟩, by rw [ih']; simpa using hg⟩
    | star =>
      simp only [specTerms, List.map_cons, specTerm, Spec.globMatch, List.any_eq_true, List.mem_range]
      rw [glob_star_iff]
      have ih' := ih
      simp only [specTerms] at ih'
      constructor
      · rintro ⟨k, _, hg⟩
        exact ⟨v.take k, v.drop k, (List.take_append_drop k v).symm, (ih' _).mp hg⟩
      · rintro ⟨x, w, rfl, hg⟩
        refine ⟨x.length, by simp; omega, ?_⟩
        rw [ih']; simpa using hg

theorem spec_globMatch_eq (ts : List Term) (v : Bytes) : Spec.globMatch (specTerms ts) v = globB ts v := by
  rw [Bool.eq_iff_iff, spec_globMatch_iff, globB_iff]

/-! ## byte order -/

theorem spec_bytesLt_eq (a b : Bytes) : Spec.bytesLt a b = (bcmp a b == .lt) := by
  induction a generalizing b with
  | nil => cases b <;> simp [Spec.bytesLt, bcmp]
  | cons x xs ih =>
    cases b with
    | nil => simp [Spec.bytesLt, bcmp]
    | cons y ys =>
      simp only [Spec.bytesLt, bcmp]
      by_cases h1 : x < y
      · simp [h1]
      · by_cases h2 : y < x
        · simp [h1, h2]
        · simp [h1, h2, ih]

theorem spec_bytesLe_eq (a b : Bytes) : Spec.bytesLe a b = (bcmp a b != .gt) := by
  unfold Spec.bytesLe
  rw [spec_bytesLt_eq, Bool.eq_iff_iff]
  simp only [Bool.not_eq_true', beq_eq_false_iff_ne, ne_eq, bne_iff_ne]
  rw [bcmp_gt_iff]

/-! ## ranges -/

/-- the ParseFloat oracle and the Spec's `numVal` agree on the strings in `S`: same domain, same order -/
structure NumAgree (pf : Bytes → Option Int) (S : Bytes → Prop) : Prop where
  dom : ∀ s, S s → ((pf s).isSome = (Spec.numVal s).isSome)
  le : ∀ s t x y a b, S s → S t → pf s = some x → pf t = some y → Spec.numVal s = some a → Spec.numVal t = some b →
    (x ≤ y ↔ a ≤ b)

theorem NumAgree.lt {pf : Bytes → Option Int} {S : Bytes → Prop} (h : NumAgree pf S) {s t : Bytes} {x y a b : Int}
    (hs : S s) (ht : S t) (h1 : pf s = some x) (h2 : pf t = some y) (h3 : Spec.numVal s = some a)
    (h4 : Spec.numVal t = some b) : (x < y ↔ a < b) := by
  have := h.le t s y x b a ht hs h2 h1 h4 h3
  omega

theorem checkText_eq_spec (r : Range) (v : Bytes) :
    r.checkText v =
      ((match r.from_ with | none => true | some l => if r.includeFrom then Spec.bytesLe l v else Spec.bytesLt l v) &&
       (match r.to with | none => true | some h => if r.includeTo then Spec.bytesLe v h else Spec.bytesLt v h)) := by
  obtain ⟨f, t, fi, ti⟩ := r
  simp only [Range.checkText, spec_bytesLe_eq, spec_bytesLt_eq]
  cases f <;> cases t <;> rfl

/-- **range semantics = Spec**, on strings where the two notions of "number" agree -/
theorem rangeCheck_eq_spec (pf : Bytes → Option Int) (maxKey : Int)
    (hb : ∀ b x, pf b = some x → -maxKey ≤ x ∧ x ≤ maxKey) (S : Bytes → Prop) (hag : NumAgree pf S)
    (field : Bytes) (r : Range) (hf : ∀ f, r.from_ = some f → S f) (ht : ∀ t, r.to = some t → S t)
    (v : Bytes) (hv : S v) :
    rangeCheck pf maxKey r v = (specLeaf field (.range r)).valMatch v := by
  obtain ⟨f, t, fi, ti⟩ := r
  simp only [specLeaf, Spec.Leaf.valMatch]
  have hdv := hag.dom v hv
  -- classify the two ends
  cases f with
  | none =>
    cases t with
    | none =>
      simp only [rangeCheck, newRangeNumberSearch, NumRange.check, Spec.boundIsNum, Bool.and_self, if_true, Option.bind]
      cases hpv : pf v with
      | none => rw [hpv] at hdv; cases hnv : Spec.numVal v with
        | none => rfl
        | some a => rw [hnv] at hdv; simp at hdv
      | some x =>
        rw [hpv] at hdv
        cases hnv : Spec.numVal v with
        | none => rw [hnv] at hdv; simp at hdv
        | some a => have := hb v x hpv; simp [this.1, this.2]
    | some t =>
      have hSt := ht t rfl
      have hdt := hag.dom t hSt
      cases hpt : pf t with
      | none =>
        rw [hpt] at hdt
        have hnt : Spec.numVal t = none := by cases h : Spec.numVal t with
          | none => rfl
          | some _ => rw [h] at hdt; simp at hdt
        simp only [rangeCheck, newRangeNumberSearch, hpt, Option.map_none, Spec.boundIsNum, hnt, Option.isSome_none,
          Bool.and_false, Bool.false_eq_true, if_false]
        exact checkText_eq_spec ⟨none, some t, fi, ti⟩ v
      | some tx =>
        rw [hpt] at hdt
        obtain ⟨tb, hnt⟩ : ∃ tb, Spec.numVal t = some tb := by cases h : Spec.numVal t with
          | none => rw [h] at hdt; simp at hdt
          | some b => exact ⟨b, rfl⟩
        simp only [rangeCheck, newRangeNumberSearch, hpt, Option.map_some, NumRange.check, Spec.boundIsNum, hnt,
          Option.isSome_some, Bool.and_self, if_true, Option.bind]
        cases hpv : pf v with
        | none => rw [hpv] at hdv; cases hnv : Spec.numVal v with
          | none => rfl
          | some a => rw [hnv] at hdv; simp at hdv
        | some x =>
          rw [hpv] at hdv
          cases hnv : Spec.numVal v with
          | none => rw [hnv] at hdv; simp at hdv
          | some a =>
            have h1 := hb v x hpv
            have hle := hag.le v t x tx a tb hv hSt hpv hpt hnv hnt
            have hlt := hag.lt hv hSt hpv hpt hnv hnt
            cases ti <;> simp [h1.1, hle, hlt]
  | some f =>
    have hSf := hf f rfl
    have hdf := hag.dom f hSf
    cases hpf : pf f with
    | none =>
      rw [hpf] at hdf
      have hnf : Spec.numVal f = none := by cases h : Spec.numVal f with
        | none => rfl
        | some _ => rw [h] at hdf; simp at hdf
      simp only [rangeCheck, newRangeNumberSearch, hpf, Option.map_none, Spec.boundIsNum, hnf, Option.isSome_none,
        Bool.false_and, Bool.false_eq_true, if_false]
      exact checkText_eq_spec ⟨some f, t, fi, ti⟩ v
    | some fx =>
      rw [hpf] at hdf
      obtain ⟨fa, hnf⟩ : ∃ fa, Spec.numVal f = some fa := by cases h : Spec.numVal f with
        | none => rw [h] at hdf; simp at hdf
        | some b => exact ⟨b, rfl⟩
      cases t with
      | none =>
        simp only [rangeCheck, newRangeNumberSearch, hpf, Option.map_some, NumRange.check, Spec.boundIsNum, hnf,
          Option.isSome_some, Bool.and_self, if_true, Option.bind]
        cases hpv : pf v with
        | none => rw [hpv] at hdv; cases hnv : Spec.numVal v with
          | none => rfl
          | some a => rw [hnv] at hdv; simp at hdv
        | some x =>
          rw [hpv] at hdv
          cases hnv : Spec.numVal v with
          | none => rw [hnv] at hdv; simp at hdv
          | some a =>
            have h1 := hb v x hpv
            have hle := hag.le f v fx x fa a hSf hv hpf hpv hnf hnv
            have hlt := hag.lt hSf hv hpf hpv hnf hnv
            cases fi <;> simp [h1.2, hle, hlt]
      | some t =>
        have hSt := ht t rfl
        have hdt := hag.dom t hSt
        cases hpt : pf t with
        | none =>
          rw [hpt] at hdt
          have hnt : Spec.numVal t = none := by cases h : Spec.numVal t with
            | none => rfl
            | some _ => rw [h] at hdt; simp at hdt
          simp only [rangeCheck, newRangeNumberSearch, hpf, hpt, Option.map_some, Option.map_none, Spec.boundIsNum, hnt,
            Option.isSome_none, Bool.and_false, Bool.false_eq_true, if_false]
          exact checkText_eq_spec ⟨some f, some t, fi, ti⟩ v
        | some tx =>
          rw [hpt] at hdt
          obtain ⟨tb, hnt⟩ : ∃ tb, Spec.numVal t = some tb := by cases h : Spec.numVal t with
            | none => rw [h] at hdt; simp at hdt
            | some b => exact ⟨b, rfl⟩
          simp only [rangeCheck, newRangeNumberSearch, hpf, hpt, Option.map_some, NumRange.check, Spec.boundIsNum, hnf,
            hnt, Option.isSome_some, Bool.and_self, if_true, Option.bind]
          cases hpv : pf v with
          | none => rw [hpv] at hdv; cases hnv : Spec.numVal v with
            | none => rfl
            | some a => rw [hnv] at hdv; simp at hdv
          | some x =>
            rw [hpv] at hdv
            cases hnv : Spec.numVal v with
            | none => rw [hnv] at hdv; simp at hdv
            | some a =>
              have hle1 := hag.le f v fx x fa a hSf hv hpf hpv hnf hnv
              have hlt1 := hag.lt hSf hv hpf hpv hnf hnv
              have hle2 := hag.le v t x tx a tb hv hSt hpv hpt hnv hnt
              have hlt2 := hag.lt hv hSt hpv hpt hnv hnt
              cases fi <;> cases ti <;> simp [hle1, hlt1, hle2, hlt2]

/-! ## every search path = filter by the Spec leaf -/

/-- TIDs of the dictionary tokens that satisfy the Spec leaf -/
def specTids (l : Spec.Leaf) (base : Nat) (dict : List Bytes) : List Nat :=
  (List.range' base dict.length).filter fun tid => l.valMatch (dict.getD (tid - base) [])

/-- the hypotheses under which a token's searcher coincides with the Spec leaf on the tokens of `dict` -/
def SpecOK (pf : Bytes → Option Int) (maxKey : Int) (token : Token) (dict : List Bytes) : Prop :=
  match token with
  | .literal terms => WF terms
  | .range r =>
    (∀ b x, pf b = some x → -maxKey ≤ x ∧ x ≤ maxKey) ∧
    ∃ S, NumAgree pf S ∧ (∀ f, r.from_ = some f → S f) ∧ (∀ t, r.to = some t → S t) ∧ ∀ v ∈ dict, S v

theorem kind_eq_spec (pf : Bytes → Option Int) (maxKey : Int) (field : Bytes) (token : Token) (dict : List Bytes)
    (hok : SpecOK pf maxKey token dict) :
    ∃ k, kindOf pf maxKey token = some k ∧ ∀ v ∈ dict, k.check pf v = (specLeaf field token).valMatch v := by
  cases token with
  | literal terms =>
    have hwf : WF terms := hok
    have hk := kindOf_literal pf maxKey terms
    cases h : kindOf pf maxKey (.literal terms) with
    | none =>
      rw [h] at hk
      obtain ⟨b, hb, _⟩ := checkTerms_iff_glob terms hwf []
      rw [hk []] at hb; simp at hb
    | some k =>
      rw [h] at hk
      refine ⟨k, rfl, fun v _ => ?_⟩
      obtain ⟨b, hb, hbg⟩ := checkTerms_iff_glob terms hwf v
      rw [hk] at hb
      simp only [Option.some.injEq] at hb
      simp only [specLeaf, Spec.Leaf.valMatch]
      rw [hb, Bool.eq_iff_iff, hbg, spec_globMatch_iff]
  | range r =>
    obtain ⟨hb, S, hag, hf, ht, hd⟩ := hok
    obtain ⟨s, hs, _, _, hchk⟩ := newSearcher_range pf maxKey r ⟨0, [], false⟩
    refine ⟨s.kind, by simp [kindOf, hs], fun v hv => ?_⟩
    rw [hchk v]
    exact rangeCheck_eq_spec pf maxKey hb S hag field r hf ht v (hd v hv)

theorem scanFrom_eq_specTids (pf : Bytes → Option Int) (k : Kind) (l : Spec.Leaf) (base : Nat) (dict : List Bytes)
    (h : ∀ v ∈ dict, k.check pf v = l.valMatch v) : scanFrom pf k base dict = specTids l base dict := by
  simp only [scanFrom, specTids]
  apply List.filter_congr
  intro t ht
  rw [List.mem_range'_1] at ht
  have hlt : t - base < dict.length := by omega
  rw [List.getD_eq_getElem?_getD, List.getElem?_eq_getElem hlt, Option.getD_some]
  exact h _ (List.getElem_mem hlt)

/-- unordered provider (scan) -/
theorem search_eq_spec (pf : Bytes → Option Int) (maxKey : Int) (field : Bytes) (token : Token) (base : Nat)
    (dict : List Bytes) (hok : SpecOK pf maxKey token dict) :
    search pf maxKey token ⟨base, dict, false⟩ = some (specTids (specLeaf field token) base dict) := by
  obtain ⟨k, hk, hc⟩ := kind_eq_spec pf maxKey field token dict hok
  rw [search_unordered, hk, Option.map_some, scanFrom_eq_specTids pf k _ base dict hc]

/-- ordered provider (narrowed) over a strictly sorted dictionary -/
theorem ordered_search_eq_spec (pf : Bytes → Option Int) (maxKey : Int) (field : Bytes) (token : Token) (base : Nat)
    (dict : List Bytes) (hs : dict.Pairwise bLt) (hok : SpecOK pf maxKey token dict) :
    search pf maxKey token ⟨base, dict, true⟩ = some (specTids (specLeaf field token) base dict) := by
  rw [narrow_eq_scan pf maxKey token base dict hs]; exact search_eq_spec pf maxKey field token base dict hok

/-- the sealed path (hint, SelectEntries, provider over the selected entries, narrowed Search) -/
theorem sealed_eq_spec (pf : Bytes → Option Int) (maxKey : Int) (field : Bytes) (token : Token) (base : Nat)
    (blocks : List (List Bytes)) (ok : BlocksOK blocks) (hok : SpecOK pf maxKey token blocks.flatten) :
    sealedSearch pf maxKey token base blocks = some (specTids (specLeaf field token) base blocks.flatten) :=
  sealed_eq_scan pf maxKey token base blocks ok _ (search_eq_spec pf maxKey field token base blocks.flatten hok)

/-- the active path (`FindPattern`): real TIDs of the entries whose value satisfies the Spec leaf -/
theorem active_eq_spec (pf : Bytes → Option Int) (maxKey : Int) (field : Bytes) (token : Token)
    (entries : List (Nat × Bytes)) (hok : SpecOK pf maxKey token (entries.map (·.2))) :
    activeFind pf maxKey token entries =
      some ((entries.filter fun e => (specLeaf field token).valMatch e.2).map (·.1)) := by
  simp only [activeFind, search_eq_spec pf maxKey field token 1 _ hok, Option.map_some, Option.some.injEq, specTids,
    List.length_map]
  exact filter_map_positions (specLeaf field token).valMatch entries 1

end SV.Pattern
