import SeqVerif.Model.Collector
/-!
# Model of the index side of an active fraction (C17): `appendWorker` of `frac/active_indexer.go`

One `indexBulk` = one iteration of `appendWorker`: `DocBlocks.Append`, `collector.Init`, `AppendMeta` for every
meta, `DocsPositions.SetMultiple`, `collector.Filter` when something was rejected, `Active.AppendIDs`,
`TokenList.Append`, `GroupLIDsByToken`, `PutLIDsInQueue`, `UpdateStats`.

* `Active.ids` is `MIDs`/`RIDs` (LID = index, entry 0 is the system id).
* `Active.tokens` is the token list: token bytes -> queued LIDs in arrival order (`TokenLIDs.queue`; sorting and
  `mergeSorted` only reorder / drop equal LIDs).  The order in which *new* tokens get their TIDs depends on the
  hash sharding of `getTokenLIDs`; nothing here or in the harness looks at that order.
* `Active.blocks` is the docs file as seen through `DocBlocks`: per appended block the `(offset, payload)` of the
  documents the bulk carried (`docBlock`: `[4-byte length][doc]` framing, nested metas carry no document).
* `appendWorker`s of several bulks run concurrently in Go; `SetMultiple`, `AppendIDs` and `PutLIDsInQueue` are each
  atomic under their mutex and the model runs the bulks one after the other (a linearisation; the harness compares
  only schedule-independent observations in its concurrent histories).
Core-only.
-/
namespace SV.Collector

structure Active where
  ids : List ID
  dp : DocsPositions
  blocks : List (List (Nat × Nat))
  tokens : List (Bytes × List Nat)
  docsTotal : Nat
  docsRaw : Nat
  from_ : Nat
  to : Nat
deriving Repr

def systemID : ID := (maxU64, maxU64)

/-- `_all_:` - the system token `initSystemTokens` registers when the token list is created -/
def allToken : Bytes := [95, 97, 108, 108, 95, 58]

/-- `NewActive` -/
def Active.empty : Active :=
  { ids := [systemID], dp := [], blocks := [], tokens := [(allToken, [])], docsTotal := 0, docsRaw := 0,
    from_ := maxU64, to := 0 }

/-- the documents of a bulk as laid out in its docs block: `(offset, payload)` per non-nested meta -/
def docBlock : List Meta → Nat → List (Nat × Nat)
  | [], _ => []
  | m :: ms, off => if m.size = 0 then docBlock ms off else (off, m.doc) :: docBlock ms (off + m.size + 4)

/-- `TokenList.Append`: unknown tokens get a fresh (empty) `TokenLIDs` -/
def tokenListAppend (T : List (Bytes × List Nat)) (tvs : List Bytes) : List (Bytes × List Nat) :=
  tvs.foldl (fun T t => if (T.lookup t).isSome then T else T ++ [(t, [])]) T

/-- `addLIDsToTokens`: `PutLIDsInQueue(groups[i])` on the `TokenLIDs` of token `i` -/
def putLIDs (T : List (Bytes × List Nat)) (tvs : List Bytes) (groups : List (List Nat)) : List (Bytes × List Nat) :=
  (tvs.zip groups).foldl (fun T p => T.map fun e => if e.1 = p.1 then (e.1, e.2 ++ p.2) else e) T

/-- the collector `appendWorker` ends up with: parsed bulk, `SetMultiple`, `Filter` iff something was rejected -/
def dedupCollector (a : Active) (ms : List Meta) : Collector × DocsPositions :=
  let c0 := collect a.blocks.length ms
  let r := setMultiple a.dp c0.ids c0.positions
  (if r.2.length ≠ c0.ids.length then filter c0 r.2 else c0, r.1)

/-- one iteration of `appendWorker` -/
def indexBulk (a : Active) (ms : List Meta) : Active :=
  let cd := dedupCollector a ms
  let c := cd.1
  let lids := List.range' a.ids.length c.ids.length
  { ids := a.ids ++ c.ids
    dp := cd.2
    blocks := a.blocks ++ [docBlock ms 0]
    tokens := putLIDs (tokenListAppend a.tokens c.tokensValues) c.tokensValues (groupLIDsByToken c lids)
    docsTotal := a.docsTotal + c.docsCounter
    docsRaw := a.docsRaw + c.sizeCounter
    from_ := if a.from_ > c.minMID then c.minMID else a.from_
    to := if a.to < c.maxMID then c.maxMID else a.to }

/-- a history of bulks delivered to one active fraction -/
def run (a : Active) (h : List (List Meta)) : Active := h.foldl indexBulk a

/-! ## concurrent index workers

Several `appendWorker`s run at once.  Each iteration is cut into the part up to and including `SetMultiple` /
`Filter` (`phaseS`: it fixes the bulk's block index, claims the ids under the `DocsPositions` mutex and yields the
collector) and the part that publishes the collector (`phaseI`: `AppendIDs`, token list, stats).  A schedule is any
sequence of `start bulk` / `finish k` (publish the k-th waiting collector) events.  (In Go `DocBlocks.Append` and
`SetMultiple` are two atomic steps; what the argument needs - every bulk has its own block index - holds for any
order of them, so they are taken as one step here.) -/

def phaseS (a : Active) (ms : List Meta) : Active × Collector :=
  ({ a with dp := (dedupCollector a ms).2, blocks := a.blocks ++ [docBlock ms 0] }, (dedupCollector a ms).1)

def phaseI (a : Active) (c : Collector) : Active :=
  { a with
    ids := a.ids ++ c.ids
    tokens := putLIDs (tokenListAppend a.tokens c.tokensValues) c.tokensValues
      (groupLIDsByToken c (List.range' a.ids.length c.ids.length))
    docsTotal := a.docsTotal + c.docsCounter
    docsRaw := a.docsRaw + c.sizeCounter
    from_ := if a.from_ > c.minMID then c.minMID else a.from_
    to := if a.to < c.maxMID then c.maxMID else a.to }

structure CState where
  a : Active
  pending : List Collector

inductive Ev where
  | start (ms : List Meta)
  | finish (k : Nat)

def cstep (s : CState) : Ev → CState
  | .start ms => ⟨(phaseS s.a ms).1, s.pending ++ [(phaseS s.a ms).2]⟩
  | .finish k =>
    match s.pending[k]? with
    | none => s
    | some c => ⟨phaseI s.a c, s.pending.eraseIdx k⟩

def crun (s : CState) (evs : List Ev) : CState := evs.foldl cstep s

/-- the bulks a schedule starts -/
def startedBulks : List Ev → List (List Meta)
  | [] => []
  | .start ms :: evs => ms :: startedBulks evs
  | .finish _ :: evs => startedBulks evs

/-! ## observations -/

/-- the queued LIDs of a token (`[]` for an unknown token) -/
def queue (a : Active) (t : Bytes) : List Nat := (a.tokens.lookup t).getD []

/-- the documents of the fraction (without the system entry) in LID order -/
def docIds (a : Active) : List ID := a.ids.drop 1

/-- fetch by id: position from `DocsPositions`, then the document at that offset of that block -/
def fetch (a : Active) (id : ID) : Option Nat :=
  match a.dp.lookup id with
  | none => none
  | some p => (a.blocks.getD p.1 []).lookup p.2

/-! ## specification side -/

/-- the history with every re-delivered document removed (a bulk stays a bulk, possibly empty) -/
def norepFrom (seen : List ID) : List (List Meta) → List (List Meta)
  | [] => []
  | b :: bs => b.filter (fun m => decide (m.id ∉ seen)) :: norepFrom (seen ++ b.map (·.id)) bs

def norep (h : List (List Meta)) : List (List Meta) := norepFrom [] h

/-- all ids delivered by a history, in delivery order -/
def allIds (h : List (List Meta)) : List ID := h.flatMap fun b => b.map (·.id)

/-- the proxy gives every document of a bulk its own id -/
def DistinctBulks (h : List (List Meta)) : Prop := ∀ b ∈ h, (b.map (·.id)).Nodup

/-- the shape of a bulk with nested metas, as `proxy/bulk/indexer.go` emits it: every document is one meta with
`Size > 0` (its id occurs for the first time in the bulk) followed by any number of nested metas with `Size = 0`
and the *same* id.  `seen` = ids met so far in the bulk, `cur` = id of the document being continued. -/
def NestedOK : List ID → Option ID → List Meta → Prop
  | _, _, [] => True
  | seen, cur, m :: ms =>
    (if m.size = 0 then cur = some m.id else m.id ∉ seen) ∧ NestedOK (m.id :: seen) (some m.id) ms

def BulkOK (b : List Meta) : Prop := NestedOK [] none b

/-- every bulk of the history is a sequence of documents, each with its nested metas, with pairwise distinct ids -/
def GoodBulks (h : List (List Meta)) : Prop := ∀ b ∈ h, BulkOK b

/-- first delivery of an id in a history -/
def firstMeta (h : List (List Meta)) (i : ID) : Option Meta := h.flatten.find? fun m => m.id == i

end SV.Collector
