import SeqVerif.Model.FetchIndex
import SeqVerif.Model.FetchDocs
import SeqVerif.Model.FetchBytes
/-!
# C04 - the fetch path of an ACTIVE fraction, statement level
(`frac/active_index.go: activeFetchIndex`, `frac/active_docs_positions.go: DocsPositions`, `frac/active.go`)

State of an active fraction as the fetch sees it: `docBlocks` (file offset of every docs block, append only),
`positions` (the `DocsPositions` map, an association list with unique keys) and the docs file (`file off` = the
decompressed payload of the block written at `off`).  The index worker appends the block offset first and stores the
positions of the bulk afterwards (`Active.append` below does both; a provider created in between sees the new
offset or not - both are covered because the snapshot is *any* prefix of the live list).
`activeBlocksOffset` is `GetBlocksOffsets` after the repair "re-read DocBlocks when the block number is past the
copy" (commit 9571283); `none` is the index-out-of-range panic.
-/
namespace SV.Fetch

/-- `DocsPositions.SetMultiple`: an ID that already has a position keeps it (`!ok || savedPos == pos[i]`) -/
def setMultiple (m : List (ID × Nat)) : List (ID × Nat) → List (ID × Nat)
  | [] => m
  | e :: rest => if (m.find? fun x => x.1 = e.1).isSome then setMultiple m rest else setMultiple (m ++ [e]) rest

structure Active where
  docBlocks : List Nat
  positions : List (ID × Nat)
  file : Nat → List Nat

/-- one bulk reaches the index: block offset appended, then the positions `PackDocPos(blockIndex, offset)` stored -/
def Active.append (bits : Nat) (st : Active) (off : Nat) (payload : List Nat) (entries : List (ID × Nat)) : Active :=
  { docBlocks := st.docBlocks ++ [off]
    positions := setMultiple st.positions (entries.map fun e => (e.1, packDocPos bits st.docBlocks.length e.2))
    file := fun o => if o = off then payload else st.file o }

/-- `activeFetchIndex.GetBlocksOffsets(num)`: `snap` is the copy taken by the provider, `live` is `DocBlocks` now -/
def activeBlocksOffset (snap live : List Nat) (num : Nat) : Option Nat :=
  if num ≥ snap.length then live[num]? else snap[num]?

/-- `ReadDocs(GetBlocksOffsets(block), [off])` for one document -/
def activeReadDoc (snap : List Nat) (st : Active) (block off : Nat) : Option (List Nat) :=
  (activeBlocksOffset snap st.docBlocks block).map fun o => extractDoc (st.file o) off

/-! ## the position map -/

theorem mapGet_append_of_found (m : List (ID × Nat)) (e : ID × Nat) (id : ID)
    (h : (m.find? fun x => x.1 = id).isSome) : mapGet (m ++ [e]) id = mapGet m id := by
  unfold mapGet
  rw [List.find?_append]
  cases hf : m.find? (fun x => decide (x.1 = id)) with
  | none => rw [hf] at h; cases h
  | some x => rfl

theorem setMultiple_keeps (m es : List (ID × Nat)) (id : ID) (h : (m.find? fun x => x.1 = id).isSome) :
    mapGet (setMultiple m es) id = mapGet m id ∧ ((setMultiple m es).find? fun x => x.1 = id).isSome := by
  induction es generalizing m with
  | nil => exact ⟨rfl, h⟩
  | cons e rest ih =>
    unfold setMultiple
    split
    · exact ih m h
    · have h' : ((m ++ [e]).find? fun x => x.1 = id).isSome := by
        rw [List.find?_append]
        cases hf : m.find? (fun x => decide (x.1 = id)) with
        | none => rw [hf] at h; cases h
        | some x => rfl
      obtain ⟨a, b⟩ := ih (m ++ [e]) h'
      exact ⟨a.trans (mapGet_append_of_found m e id h), b⟩

/-- a new ID gets the position of its first entry in the bulk -/
theorem setMultiple_new (m es : List (ID × Nat)) (id : ID) (p : Nat)
    (hnew : (m.find? fun x => x.1 = id) = none) (pre post : List (ID × Nat)) (hes : es = pre ++ (id, p) :: post)
    (hpre : ∀ x, x ∈ pre → x.1 ≠ id) :
    mapGet (setMultiple m es) id = p ∧ ((setMultiple m es).find? fun x => x.1 = id).isSome := by
  subst hes
  induction pre generalizing m with
  | nil =>
    simp only [List.nil_append]
    unfold setMultiple
    rw [hnew]
    simp only [Option.isSome_none, Bool.false_eq_true, if_false]
    have hfound : ((m ++ [(id, p)]).find? fun x => x.1 = id).isSome := by
      rw [List.find?_append, hnew]; simp
    have hget : mapGet (m ++ [(id, p)]) id = p := by
      unfold mapGet
      rw [List.find?_append, hnew]; simp
    obtain ⟨a, b⟩ := setMultiple_keeps (m ++ [(id, p)]) post id hfound
    exact ⟨a.trans hget, b⟩
  | cons e t ih =>
    have hne : e.1 ≠ id := hpre e (by simp)
    simp only [List.cons_append]
    unfold setMultiple
    split
    · exact ih m hnew (fun x hx => hpre x (by simp [hx]))
    · apply ih (m ++ [e]) _ (fun x hx => hpre x (by simp [hx]))
      rw [List.find?_append, hnew]
      simp [hne]

/-! ## later bulks never disturb what is there -/

/-- `st'` extends `st`: offsets appended, stored positions kept, blocks already written unchanged -/
structure Ext (st st' : Active) : Prop where
  blocks : ∃ more, st'.docBlocks = st.docBlocks ++ more
  pos : ∀ id, (st.positions.find? fun x => x.1 = id).isSome →
    mapGet st'.positions id = mapGet st.positions id ∧ (st'.positions.find? fun x => x.1 = id).isSome
  file : ∀ o, o ∈ st.docBlocks → st'.file o = st.file o

theorem Ext.refl (st : Active) : Ext st st := ⟨⟨[], by simp⟩, fun _ h => ⟨rfl, h⟩, fun _ _ => rfl⟩

theorem Ext.trans {a b c : Active} (h1 : Ext a b) (h2 : Ext b c) : Ext a c := by
  obtain ⟨m1, e1⟩ := h1.blocks
  obtain ⟨m2, e2⟩ := h2.blocks
  refine ⟨⟨m1 ++ m2, by rw [e2, e1, List.append_assoc]⟩, fun id h => ?_, fun o ho => ?_⟩
  · obtain ⟨x, y⟩ := h1.pos id h
    obtain ⟨x', y'⟩ := h2.pos id y
    exact ⟨x'.trans x, y'⟩
  · rw [h2.file o (by rw [e1]; exact List.mem_append_left _ ho), h1.file o ho]

/-- appending a bulk at a fresh file offset extends the state -/
theorem Ext.append (bits : Nat) (st : Active) (off : Nat) (payload : List Nat) (entries : List (ID × Nat))
    (hfresh : off ∉ st.docBlocks) : Ext st (st.append bits off payload entries) := by
  refine ⟨⟨[off], rfl⟩, fun id h => setMultiple_keeps _ _ id h, fun o ho => ?_⟩
  have : o ≠ off := fun h => hfresh (h ▸ ho)
  simp [Active.append, this]

/-- **no lookup runs past the block table**: for every provider copy that is a prefix of the live table and every
block number below the live length, `GetBlocksOffsets` answers the live entry -/
theorem activeBlocksOffset_prefix (live : List Nat) (s num : Nat) (h : num < live.length) :
    activeBlocksOffset (live.take s) live num = some live[num] := by
  unfold activeBlocksOffset
  by_cases hs : num ≥ (live.take s).length
  · rw [if_pos hs]; exact List.getElem?_eq_getElem h
  · rw [if_neg hs]
    have hlt : num < (live.take s).length := Nat.lt_of_not_le hs
    rw [List.getElem?_eq_getElem hlt, List.getElem_take]

/-- the same lookup with the copy only (the code before commit 9571283) fails for a block appended after the copy -/
theorem activeBlocksOffset_old_witness : (([10, 20] : List Nat).take 1)[1]? = none := by decide

/-- **a document ingested into an active fraction is fetched verbatim, whenever the provider was created.**
The bulk laid the document down at `pre.length` of its block (`len32le ++ bytes`), the ID was new; then for every
later state and every provider copy of the block table taken at any moment, the position map answers the packed
position and reading through `GetBlocksOffsets` yields exactly the ingested bytes. -/
theorem active_fetch_verbatim (bits : Nat) (st : Active) (off : Nat) (pre d post : List Nat)
    (entries epre epost : List (ID × Nat)) (id : ID)
    (hnew : (st.positions.find? fun x => x.1 = id) = none)
    (hent : entries = epre ++ (id, pre.length) :: epost) (hfirst : ∀ x, x ∈ epre → x.1 ≠ id)
    (hlen : d.length < 4294967296) (hoff : pre.length < 2 ^ bits) (hblk : st.docBlocks.length < 4294967296)
    (hfit : st.docBlocks.length * 2 ^ bits + pre.length + 1 < 18446744073709551615)
    (st' : Active) (hext : Ext (st.append bits off (pre ++ encDoc d ++ post) entries) st') (s : Nat) :
    mapGet st'.positions id = packDocPos bits st.docBlocks.length pre.length ∧
    mapGet st'.positions id ≠ notFound ∧
    activeReadDoc (st'.docBlocks.take s) st' (unpackDocPos bits (mapGet st'.positions id)).1
      (unpackDocPos bits (mapGet st'.positions id)).2 = some d := by
  have hset := setMultiple_new st.positions
    (entries.map fun e => (e.1, packDocPos bits st.docBlocks.length e.2)) id
    (packDocPos bits st.docBlocks.length pre.length) hnew
    (epre.map fun e => (e.1, packDocPos bits st.docBlocks.length e.2))
    (epost.map fun e => (e.1, packDocPos bits st.docBlocks.length e.2))
    (by rw [hent]; simp)
    (by
      intro x hx
      rcases List.mem_map.mp hx with ⟨y, hy, rfl⟩
      exact hfirst y hy)
  obtain ⟨hp1, hp2⟩ := hext.pos id hset.2
  have hpos : mapGet st'.positions id = packDocPos bits st.docBlocks.length pre.length := hp1.trans hset.1
  refine ⟨hpos, ?_, ?_⟩
  · rw [hpos]; exact pack_ne_notFound bits _ _ hfit
  · rw [hpos, unpack_pack bits _ _ hoff hblk (by omega)]
    dsimp only
    obtain ⟨more, hmore⟩ := hext.blocks
    have hlive : st'.docBlocks = st.docBlocks ++ [off] ++ more := by rw [hmore]; rfl
    have hk : st.docBlocks.length < st'.docBlocks.length := by rw [hlive]; simp
    unfold activeReadDoc
    rw [activeBlocksOffset_prefix st'.docBlocks s _ hk, Option.map_some]
    have hget : st'.docBlocks[st.docBlocks.length] = off := by
      simp [hlive]
    rw [hget]
    have hfile : st'.file off = pre ++ encDoc d ++ post := by
      rw [hext.file off (by simp [Active.append])]
      simp [Active.append]
    rw [hfile, extractDoc_enc pre d post hlen]


/-- the active fraction as the `Frac` of `fetchDocs` (Model/FetchDocs.lean): positions looked up live, documents read
through `GetBlocksOffsets` with the provider's copy `take s` of the block table -/
def Active.toFrac (st : Active) (s name : Nat) (contains : Nat → Bool) (intersects : Nat → Nat → Bool) :
    Frac (List Nat) :=
  ⟨name, contains, intersects, activeGetDocPos st.positions,
    fun b o => (activeReadDoc (st.docBlocks.take s) st b o).getD []⟩

/-- what `c04_fetch_eq_spec`'s Spec says for such a fraction and an ID ingested as in `active_fetch_verbatim`: the
ingested bytes -/
theorem active_toFrac_doc (bits : Nat) (st : Active) (off : Nat) (pre d post : List Nat)
    (entries epre epost : List (ID × Nat)) (id : ID)
    (hnew : (st.positions.find? fun x => x.1 = id) = none)
    (hent : entries = epre ++ (id, pre.length) :: epost) (hfirst : ∀ x, x ∈ epre → x.1 ≠ id)
    (hlen : d.length < 4294967296) (hoff : pre.length < 2 ^ bits) (hblk : st.docBlocks.length < 4294967296)
    (hfit : st.docBlocks.length * 2 ^ bits + pre.length + 1 < 18446744073709551615)
    (st' : Active) (hext : Ext (st.append bits off (pre ++ encDoc d ++ post) entries) st') (s name : Nat)
    (contains : Nat → Bool) (intersects : Nat → Nat → Bool) :
    posDoc bits (st'.toFrac s name contains intersects).readDoc (mapGet st'.positions id) = some d := by
  obtain ⟨_, h2, h3⟩ := active_fetch_verbatim bits st off pre d post entries epre epost id hnew hent hfirst hlen hoff
    hblk hfit st' hext s
  unfold posDoc
  rw [if_neg h2]
  simp only [Active.toFrac, h3, Option.getD_some]

/-! ## the docs-block cache (`disk.DocsReader.ReadDocsFunc`): key `uint32(blockOffset)` -/

/-- a block read through the per-fraction cache: a filled entry answers for every offset with the same low 32 bits -/
def cachedRead (cache : Nat → Option (List Nat)) (file : Nat → List Nat) (off : Nat) : List Nat :=
  match cache (off % 4294967296) with
  | some p => p
  | none => file off

/-- every filled entry was loaded from some block offset of this docs file -/
def CacheFilledFrom (cache : Nat → Option (List Nat)) (file : Nat → List Nat) (offsets : List Nat) : Prop :=
  ∀ k p, cache k = some p → ∃ o, o ∈ offsets ∧ o % 4294967296 = k ∧ p = file o

/-- **exactly when the key is sound**: if no two block offsets of the file agree modulo 2^32 - in particular when
the docs file is smaller than 4 GiB - a cached read returns the block that is on disk at that offset -/
theorem cachedRead_sound (cache : Nat → Option (List Nat)) (file : Nat → List Nat) (offsets : List Nat)
    (hfill : CacheFilledFrom cache file offsets)
    (hinj : ∀ a b, a ∈ offsets → b ∈ offsets → a % 4294967296 = b % 4294967296 → a = b)
    (off : Nat) (hoff : off ∈ offsets) : cachedRead cache file off = file off := by
  unfold cachedRead
  cases hc : cache (off % 4294967296) with
  | none => rfl
  | some p =>
    obtain ⟨o, ho, hk, hp⟩ := hfill _ p hc
    have : o = off := hinj o off ho hoff hk
    subst this; exact hp

theorem offsets_below_4GiB_injective (offsets : List Nat) (h : ∀ o, o ∈ offsets → o < 4294967296) :
    ∀ a b, a ∈ offsets → b ∈ offsets → a % 4294967296 = b % 4294967296 → a = b := by
  intro a b ha hb hab
  rw [Nat.mod_eq_of_lt (h a ha), Nat.mod_eq_of_lt (h b hb)] at hab
  exact hab

/-- and it is not sound beyond: blocks at offsets 0 and 4 GiB share a key, the second read returns the first block -/
theorem cachedRead_collision_witness :
    cachedRead (fun k => if k = 0 then some [1] else none) (fun o => if o = 0 then [1] else [2]) 4294967296 = [1] := by
  decide

end SV.Fetch
