namespace SV.Chunking

/-- storeapi.docsStream.calcChunkSize; `none` = integer divide by zero (process dies) -/
def calcChunkSize (maxFetch : Nat) (lens : List Nat) (prev : Nat) : Option Nat :=
  let batch := lens.sum
  if batch = 0 then some prev
  else
    let avg := batch / lens.length
    if avg = 0 then none else some (maxFetch / avg)

/-- many not-found entries and one tiny document -/
theorem calc_div_zero : calcChunkSize 4194304 [2, 0, 0] 1000 = none := by decide
/-- one document larger than MaxFetchSizeBytes: next chunk has size 0 -/
theorem calc_zero : calcChunkSize 4194304 [5242880] 1000 = some 0 := by decide

def calcFixed (maxFetch : Nat) (lens : List Nat) (prev : Nat) : Nat :=
  let batch := lens.sum
  if batch = 0 then prev else max 1 (maxFetch / max 1 (batch / lens.length))

theorem calcFixed_pos (m : Nat) (lens : List Nat) (prev : Nat) (hp : 1 ≤ prev) : 1 ≤ calcFixed m lens prev := by
  unfold calcFixed; simp only; split <;> omega

/-- docsStream.batchLoader: fetch chunk after chunk, chunk size recomputed from the previous batch -/
def batchLoader {I D : Type} (fetch : List I → List D) (nextSize : List D → Nat → Nat) :
    (fuel : Nat) → List I → Nat → List D
  | 0, _, _ => []
  | _ + 1, [], _ => []
  | fuel + 1, ids, size =>
    let docs := fetch (ids.take size)
    docs ++ batchLoader fetch nextSize fuel (ids.drop size) (nextSize docs size)

/-- chunking is invisible when the per-ID result does not depend on the other IDs of the request
    (that is C04's fetch theorem) and every chunk size is at least one -/
theorem chunking_transparent {I D : Type} (fetch : List I → List D) (nextSize : List D → Nat → Nat)
    (hadd : ∀ a b, fetch (a ++ b) = fetch a ++ fetch b) (hnil : fetch [] = [])
    (hcalc : ∀ d s, 1 ≤ nextSize d s) (fuel : Nat) (ids : List I) (size : Nat)
    (hs : 1 ≤ size) (hf : ids.length ≤ fuel) :
    batchLoader fetch nextSize fuel ids size = fetch ids := by
  induction fuel generalizing ids size with
  | zero =>
    have : ids = [] := List.eq_nil_of_length_eq_zero (by omega)
    subst this; simp [batchLoader, hnil]
  | succ fuel ih =>
    cases ids with
    | nil => simp [batchLoader, hnil]
    | cons i rest =>
      simp only [batchLoader]
      rw [ih _ _ (hcalc _ _)]
      · rw [← hadd, List.take_append_drop]
      · simp only [List.length_drop, List.length_cons] at *
        omega

end SV.Chunking
