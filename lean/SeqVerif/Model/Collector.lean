/-!
# Model of `frac/meta_data_collector.go` and `frac/active_docs_positions.go` (C17)

Statement-by-statement model of `metaDataCollector` (`Init`, `AppendMeta`, `extractTokens`, `Filter` with its
rebuilt token offsets, `restoreLIDsOrder`, `GroupLIDsByToken`) and of `DocsPositions.SetMultiple`.

* `seq.ID` is a pair `(MID, RID)` of naturals; a byte string is a list of naturals.
* `seq.DocPos` is kept unpacked as `(blockIndex, offset)`; `packDocPos` gives the number `PackDocPos` returns
  (`blockIndex <<< 30 | offset) + 1`) for `offset ≤ maxDocOffset` - above that the Go code panics
  ("block offset too big"), which is outside the model (recorded as an assumption: a bulk is < 1 GiB).
* `tokensMap` is the index of a token in `TokensValues` (`List.idxOf`): the Go map and the slice are updated
  together and cleared together, so the map is exactly that function.
* `AppendMeta` for a nested meta (`Size == 0`) reads `Positions[len-1]`; Go panics when the first meta of a bulk is
  nested, the model returns `(0,0)` there (`bulkPanics` tells the driver; assumption recorded).
Core-only.
-/
namespace SV.Collector

abbrev ID := Nat × Nat
abbrev Bytes := List Nat
abbrev DocPos := Nat × Nat

def maxU64 : Nat := 18446744073709551615
def docOffsetBits : Nat := 30

/-- `seq.PackDocPos` (for offsets that do not panic) -/
def packDocPos (p : DocPos) : Nat := p.1 * 2 ^ docOffsetBits + p.2 + 1

structure MetaToken where
  key : Bytes
  value : Bytes
deriving DecidableEq, Repr

/-- the bytes `extractTokens` builds: key ':' value -/
def MetaToken.bytes (t : MetaToken) : Bytes := t.key ++ 58 :: t.value

structure Meta where
  id : ID
  size : Nat
  tokens : List MetaToken
  /-- identity of the document payload that travels next to the meta in the docs block (opaque) -/
  doc : Nat := 0
deriving DecidableEq, Repr

structure Collector where
  nextDocOffset : Nat
  blockIndex : Nat
  maxMID : Nat
  minMID : Nat
  docsCounter : Nat
  sizeCounter : Nat
  tokensValues : List Bytes
  fieldsLengths : List Nat
  ids : List ID
  tokensInDocs : List Nat
  tokensIndex : List Nat
  positions : List DocPos
deriving DecidableEq, Repr

/-- `metaDataCollector.Init(blockIndex)` -/
def init (blockIndex : Nat) : Collector :=
  { nextDocOffset := 0, blockIndex := blockIndex, maxMID := 0, minMID := maxU64, docsCounter := 0, sizeCounter := 0,
    tokensValues := [], fieldsLengths := [], ids := [], tokensInDocs := [], tokensIndex := [], positions := [] }

/-- one iteration of the loop of `extractTokens` -/
def extractToken (c : Collector) (t : MetaToken) : Collector :=
  let b := t.bytes
  let i := c.tokensValues.idxOf b
  if i < c.tokensValues.length then
    { c with tokensIndex := c.tokensIndex ++ [i] }
  else
    { c with tokensValues := c.tokensValues ++ [b], fieldsLengths := c.fieldsLengths ++ [t.key.length],
             tokensIndex := c.tokensIndex ++ [c.tokensValues.length] }

def extractTokens (c : Collector) (ts : List MetaToken) : Collector := ts.foldl extractToken c

/-- the position `AppendMeta` gives to a meta: a nested meta (`Size == 0`) points to the previous position -/
def posOf (c : Collector) (m : Meta) : DocPos :=
  if m.size = 0 then c.positions.getLastD (0, 0) else (c.blockIndex, c.nextDocOffset)

/-- `metaDataCollector.AppendMeta` up to (excluding) its final `extractTokens` call -/
def appendMetaPre (c : Collector) (m : Meta) : Collector :=
  { c with nextDocOffset := if m.size = 0 then c.nextDocOffset else c.nextDocOffset + m.size + 4,
           minMID := if m.id.1 < c.minMID then m.id.1 else c.minMID,
           maxMID := if m.id.1 > c.maxMID then m.id.1 else c.maxMID,
           ids := c.ids ++ [m.id], tokensInDocs := c.tokensInDocs ++ [m.tokens.length],
           positions := c.positions ++ [posOf c m],
           docsCounter := c.docsCounter + 1, sizeCounter := c.sizeCounter + m.size }

/-- `metaDataCollector.AppendMeta` -/
def appendMeta (c : Collector) (m : Meta) : Collector := extractTokens (appendMetaPre c m) m.tokens

/-- the parsing loop of `appendWorker`: `Init(blockIndex)` then `AppendMeta` for every meta of the bulk -/
def collect (blockIndex : Nat) (ms : List Meta) : Collector := ms.foldl appendMeta (init blockIndex)

/-- Go panics (`Positions[-1]`) when the first meta of a bulk has `Size == 0` -/
def bulkPanics (ms : List Meta) : Bool :=
  match ms with
  | m :: _ => m.size == 0
  | [] => false

/-! ## DocsPositions -/

/-- `DocsPositions.positions` as an association list (newest first); `List.lookup` is the map read -/
abbrev DocsPositions := List (ID × DocPos)

/-- `DocsPositions.SetMultiple`: returns the new map and the `appended` slice -/
def setMultiple : DocsPositions → List ID → List DocPos → DocsPositions × List ID
  | dp, id :: ids, p :: ps =>
    match dp.lookup id with
    | none => let r := setMultiple ((id, p) :: dp) ids ps; (r.1, id :: r.2)
    | some q => if q = p then let r := setMultiple dp ids ps; (r.1, id :: r.2) else setMultiple dp ids ps
  | dp, _, _ => (dp, [])

/-! ## Filter -/

/-- the "build offsets" loop of `Filter`: `tokensOffsets[i]` = number of tokens before document `i` -/
def tokensOffsets : List Nat → Nat → List Nat
  | [], _ => []
  | v :: vs, off => off :: tokensOffsets vs (off + v)

/-- `getIndexesOfIntercept(a, b)`: positions of `a` whose value is in `b` -/
def indexesOfIntercept (a b : List ID) : List Nat := (List.range a.length).filter fun i => decide (a[i]! ∈ b)

/-- `metaDataCollector.Filter(appended)` -/
def filter (c : Collector) (appended : List ID) : Collector :=
  let offs := tokensOffsets c.tokensInDocs 0
  let idx := indexesOfIntercept c.ids appended
  { c with
    maxMID := idx.foldl (fun m i => if (c.ids[i]!).1 > m then (c.ids[i]!).1 else m) 0
    minMID := idx.foldl (fun m i => if (c.ids[i]!).1 < m then (c.ids[i]!).1 else m) maxU64
    docsCounter := appended.length
    ids := idx.map (c.ids[·]!)
    positions := idx.map (c.positions[·]!)
    tokensInDocs := idx.map (c.tokensInDocs[·]!)
    tokensIndex := idx.flatMap fun i => (c.tokensIndex.drop offs[i]!).take c.tokensInDocs[i]! }

/-! ## GroupLIDsByToken -/

/-- `restoreLIDsOrder`: the LID of document `i` repeated once per token of that document -/
def restoreLIDsOrder (tokensInDocs lids : List Nat) : List Nat :=
  (List.zipWith (fun n lid => List.replicate n lid) tokensInDocs lids).flatten

/-- the last loop of `GroupLIDsByToken`: `lidsGroups[j] = append(lidsGroups[j], lids[i])` -/
def groupLoop (groups : List (List Nat)) (pairs : List (Nat × Nat)) : List (List Nat) :=
  pairs.foldl (fun g p => g.modify p.1 (· ++ [p.2])) groups

/-- `metaDataCollector.GroupLIDsByToken(lids)`: one (empty) group per entry of `TokensValues`, filled in
`tokensIndex` order -/
def groupLIDsByToken (c : Collector) (lids : List Nat) : List (List Nat) :=
  groupLoop (List.replicate c.tokensValues.length []) (c.tokensIndex.zip (restoreLIDsOrder c.tokensInDocs lids))

/-! ## Views used by the theorems -/

/-- cut `xs` into consecutive pieces of the given lengths -/
def splitBy {α} : List Nat → List α → List (List α)
  | [], _ => []
  | n :: ns, xs => xs.take n :: splitBy ns (xs.drop n)

/-- per-document view of the collector: `(id, position, token indexes of that document)` -/
def view (c : Collector) : List (ID × DocPos × List Nat) :=
  List.zip c.ids (List.zip c.positions (splitBy c.tokensInDocs c.tokensIndex))

/-- the same with token indexes resolved through `TokensValues` -/
def rview (c : Collector) : List (ID × DocPos × List Bytes) :=
  (view c).map fun d => (d.1, d.2.1, d.2.2.map fun j => c.tokensValues.getD j [])

/-- the slices are aligned: one position and one token count per id, and the counts add up to the index length -/
def WF (c : Collector) : Prop :=
  c.positions.length = c.ids.length ∧ c.tokensInDocs.length = c.ids.length ∧ c.tokensInDocs.sum = c.tokensIndex.length

/-- what a bulk means (specification side): per meta its id, the position of its document inside block `b`
(`[4-byte length][doc]` framing; a nested meta shares the position of the meta before it) and its token bytes -/
def docsFrom (b : Nat) : List Meta → Nat → DocPos → List (ID × DocPos × List Bytes)
  | [], _, _ => []
  | m :: ms, off, last =>
    (m.id, (if m.size = 0 then last else (b, off)), m.tokens.map MetaToken.bytes) ::
      docsFrom b ms (if m.size = 0 then off else off + m.size + 4) (if m.size = 0 then last else (b, off))

def docsOf (b : Nat) (ms : List Meta) : List (ID × DocPos × List Bytes) := docsFrom b ms 0 (0, 0)

end SV.Collector
