import SeqVerif.Model.SearchDocs
import SeqVerif.Model.MergeLemmas
/-!
Lemmas about `calcEnsured` and the `searchLoop` invariant (helper lemmas for C05).
-/
namespace SV.Merge

/-- the fraction invariant the early-termination rule relies on: `From ≤ mid ≤ To` for the fraction's documents -/
def FracInv (f : Frac) : Prop := ∀ d, d ∈ f.docs → f.from_ ≤ midOf d ∧ midOf d ≤ f.to_

/-- what `List.Sort(order)` establishes (any order of ties) -/
def FracsSorted (desc : Bool) (fs : List Frac) : Prop :=
  fs.Pairwise (fun a b => if desc then b.to_ ≤ a.to_ else a.from_ ≤ b.from_)

def docsOf (fs : List Frac) : List Nat := fs.flatMap (·.docs)

theorem mem_docsOf (fs : List Frac) (d : Nat) : d ∈ docsOf fs ↔ ∃ f, f ∈ fs ∧ d ∈ f.docs := by
  simp [docsOf, List.mem_flatMap]

theorem sortedBy_getElem (desc : Bool) (ids : List Nat) (hs : SortedBy desc ids) (i j : Nat) (hij : i < j)
    (hj : j < ids.length) : lessFn desc (ids[i]'(by omega)) ids[j] = true :=
  List.pairwise_iff_getElem.mp hs i j (by omega) hj hij

theorem lessFn_mid_le (desc : Bool) {a b : Nat} (h : lessFn desc a b = true) :
    if desc then midOf b ≤ midOf a else midOf a ≤ midOf b := by
  unfold lessFn at h
  cases desc <;> simp at h ⊢ <;> exact midOf_mono (by omega)

theorem lessFn_of_mid (desc : Bool) {a b : Nat}
    (h : if desc then midOf b < midOf a else midOf a < midOf b) : lessFn desc a b = true := by
  unfold lessFn
  cases desc <;> simp at h ⊢
  · apply Nat.lt_of_not_le; intro hle; have := midOf_mono hle; omega
  · apply Nat.lt_of_not_le; intro hle; have := midOf_mono hle; omega

theorem getD_of_lt (l : List Nat) (i : Nat) (h : i < l.length) : l.getD i 0 = l[i] := by
  simp [List.getD_eq_getElem?_getD, h]

theorem calcEnsured_le (desc : Bool) (ids : List Nat) (rest : List Frac) : calcEnsured desc ids rest ≤ ids.length := by
  unfold calcEnsured
  split
  · exact Nat.le_refl _
  · split
    · exact (searchGo_bounds _ 0 ids.length (Nat.zero_le _)).2
    · exact (searchGo_bounds _ 0 ids.length (Nat.zero_le _)).2

/-- **ensured_sound.**  The IDs counted by `calcEnsuredIDsCount` precede (in the requested order, strictly) every
document of every remaining fraction - given sorted IDs, the remaining fractions sorted as `List.Sort` leaves them
and `From ≤ mid ≤ To` for their documents. -/
theorem ensured_sound (desc : Bool) (ids : List Nat) (rest : List Frac) (hs : SortedBy desc ids)
    (hr : FracsSorted desc rest) (hinv : ∀ f, f ∈ rest → FracInv f) :
    ∀ a, a ∈ ids.take (calcEnsured desc ids rest) → ∀ d, d ∈ docsOf rest → lessFn desc a d = true := by
  intro a ha d hd
  cases rest with
  | nil => simp [docsOf] at hd
  | cons f fs =>
    obtain ⟨g, hg, hdg⟩ := (mem_docsOf _ d).mp hd
    have hr' := List.pairwise_cons.mp hr
    have hgf : if desc then g.to_ ≤ f.to_ else f.from_ ≤ g.from_ := by
      rcases List.mem_cons.mp hg with h | h
      · subst h; split <;> exact Nat.le_refl _
      · exact hr'.1 g h
    have hdi := hinv g hg d hdg
    obtain ⟨k, hk, hak⟩ := List.mem_iff_getElem.mp ha
    have hklen : k < (ids.take (calcEnsured desc ids (f :: fs))).length := hk
    rw [List.length_take] at hklen
    have hk1 : k < calcEnsured desc ids (f :: fs) := by omega
    have hk2 : k < ids.length := by omega
    have hak' : a = ids[k] := by rw [← hak, List.getElem_take]
    cases desc with
    | true =>
      simp only [calcEnsured, if_true] at hk1
      have hm : Mono (fun i => decide (midOf (ids.getD i 0) ≤ f.to_)) 0 ids.length := by
        intro x y _ hxy hy hpx
        simp only [decide_eq_true_eq] at hpx ⊢
        rcases Nat.eq_or_lt_of_le hxy with h | h
        · subst h; exact hpx
        · have := lessFn_mid_le true (sortedBy_getElem true ids hs x y h hy)
          simp only [if_true] at this
          rw [getD_of_lt _ _ hy]
          rw [getD_of_lt _ _ (by omega)] at hpx
          omega
      have hspec := (searchGo_spec _ 0 ids.length hm 0 ids.length (Nat.le_refl _) (Nat.zero_le _) (Nat.le_refl _)
        (fun k _ hk => absurd hk (Nat.not_lt_zero _)) (fun k hk1 hk2 => absurd hk2 (by omega))).1 k (Nat.zero_le _) hk1
      simp only [decide_eq_false_iff_not, getD_of_lt _ _ hk2] at hspec
      apply lessFn_of_mid
      simp only [if_true] at hgf ⊢
      rw [hak']
      omega
    | false =>
      simp only [calcEnsured, Bool.false_eq_true, if_false] at hk1
      have hm : Mono (fun i => decide (midOf (ids.getD i 0) ≥ f.from_)) 0 ids.length := by
        intro x y _ hxy hy hpx
        simp only [decide_eq_true_eq] at hpx ⊢
        rcases Nat.eq_or_lt_of_le hxy with h | h
        · subst h; exact hpx
        · have := lessFn_mid_le false (sortedBy_getElem false ids hs x y h hy)
          simp only [Bool.false_eq_true, if_false] at this
          rw [getD_of_lt _ _ hy]
          rw [getD_of_lt _ _ (by omega)] at hpx
          omega
      have hspec := (searchGo_spec _ 0 ids.length hm 0 ids.length (Nat.le_refl _) (Nat.zero_le _) (Nat.le_refl _)
        (fun k _ hk => absurd hk (Nat.not_lt_zero _)) (fun k hk1 hk2 => absurd hk2 (by omega))).1 k (Nat.zero_le _) hk1
      simp only [decide_eq_false_iff_not, getD_of_lt _ _ hk2] at hspec
      apply lessFn_of_mid
      simp only [Bool.false_eq_true, if_false] at hgf ⊢
      rw [hak']
      omega

theorem fracsSorted_drop (desc : Bool) (n : Nat) (fs : List Frac) (h : FracsSorted desc fs) :
    FracsSorted desc (fs.drop n) :=
  List.Pairwise.sublist (List.drop_sublist n fs) h

theorem docsOf_take_drop (n : Nat) (fs : List Frac) : docsOf (fs.take n) ++ docsOf (fs.drop n) = docsOf fs := by
  simp only [docsOf, ← List.flatMap_append, List.take_append_drop]

theorem allIds_fracSearch (c : Cfg) (total : QPR) (fs : List Frac) (m : Nat) :
    allIds total (fs.map (fracSearch c · m)) =
      total.ids ++ ((fs.map (·.docs)).map (fun d => (sd c.desc d).take m)).flatten := by
  simp [allIds, List.flatMap_def, fracSearch, Function.comp_def]

theorem docsOf_eq_flatten (fs : List Frac) : docsOf fs = (fs.map (·.docs)).flatten := by
  simp [docsOf, List.flatMap_def]

/-- The loop invariant of `SearchDocs` carried to the end: if the accumulated IDs are the first `L` distinct IDs of
the documents `P` seen so far, and a prefix `A` of them (long enough for the current limit) precedes everything
still to come, the loop ends with the first `L` distinct IDs of everything. -/
theorem searchLoop_ids (c : Cfg) (n L : Nat) (total : QPR) (rest : List Frac) (limit : Nat) (P : List Nat)
    (hT : total.ids = (sd c.desc P).take L)
    (A B : List Nat) (hAB : total.ids = A ++ B)
    (hA : ∀ a, a ∈ A → ∀ d, d ∈ docsOf rest → lessFn c.desc a d = true)
    (hlim : L ≤ A.length + limit)
    (hr : FracsSorted c.desc rest) (hinv : ∀ f, f ∈ rest → FracInv f) :
    (searchLoop c n L total rest limit).ids = (sd c.desc (P ++ docsOf rest)).take L := by
  induction hlen : rest.length using Nat.strongRecOn generalizing total rest limit P A B with
  | _ k ih =>
    unfold searchLoop
    split
    · rename_i hstop
      rcases hstop with hnil | hlim0
      · subst hnil; simp [docsOf, hT]
      · -- early termination: limit = 0, so |A| ≥ L and the accumulated list is final
        have hl0 : limit = 0 := by
          simp only [not_or, Nat.not_lt, Nat.le_zero_eq] at hlim0
          exact hlim0.2
        have hlen : total.ids.length ≤ L := by rw [hT]; simp [List.length_take]; omega
        have hAlen : A.length ≤ total.ids.length := by rw [hAB]; simp
        have hBnil : B = [] := by
          have : (A ++ B).length = A.length + B.length := List.length_append
          rw [← hAB] at this
          have : B.length = 0 := by omega
          exact List.eq_nil_of_length_eq_zero this
        subst hBnil
        simp only [List.append_nil] at hAB
        rw [← take_sd_take_append, ← hT, hAB]
        have hAs : SortedBy c.desc A := by
          rw [← hAB, hT]; exact sortedBy_take c.desc L _ (sd_sorted c.desc P)
        rw [sd_append, sd_of_sorted c.desc A hAs]
        have := orMerge_prefix c.desc A [] (sd c.desc (docsOf rest))
          (fun a ha y hy => hA a ha y ((mem_sd c.desc y _).mp hy))
        simp only [List.append_nil, orMerge_nil_left] at this
        rw [this, List.take_append]
        have : L - A.length = 0 := by omega
        rw [this]
        have hAL : A.length = L := by omega
        simp [← hAL]
    · rename_i hgo
      -- one iteration
      have hne : rest ≠ [] := fun h => hgo (Or.inl h)
      have hpos : 0 < rest.length := List.length_pos_iff.mpr hne
      -- IDs after the merge
      have hids : (mergeQPRs c.desc total ((rest.take (n + 1)).map (fracSearch c · limit)) L c.hi).ids
          = (sd c.desc (P ++ docsOf (rest.take (n + 1)))).take L := by
        rw [mergeQPRs_ids, allIds_fracSearch, hAB]
        have hAsorted : SortedBy c.desc (A ++ B) := by
          rw [← hAB, hT]; exact sortedBy_take c.desc L _ (sd_sorted c.desc P)
        rw [merge_step_cut c.desc L limit A B _ hAsorted ?_ hlim]
        · rw [← hAB, hT, take_sd_take_append, docsOf_eq_flatten]
        · intro a ha y hy
          apply hA a ha y
          rw [← docsOf_take_drop (n + 1) rest, ← docsOf_eq_flatten] at *
          exact List.mem_append_left _ hy
      have hsorted' : SortedBy c.desc
          (mergeQPRs c.desc total ((rest.take (n + 1)).map (fracSearch c · limit)) L c.hi).ids := by
        rw [hids]; exact sortedBy_take c.desc L _ (sd_sorted c.desc _)
      have hr' := fracsSorted_drop c.desc (n + 1) rest hr
      have hinv' : ∀ f, f ∈ rest.drop (n + 1) → FracInv f := fun f hf => hinv f (List.mem_of_mem_drop hf)
      have hsound := ensured_sound c.desc _ (rest.drop (n + 1)) hsorted' hr' hinv'
      have hle := calcEnsured_le c.desc
        (mergeQPRs c.desc total ((rest.take (n + 1)).map (fracSearch c · limit)) L c.hi).ids (rest.drop (n + 1))
      have := ih (rest.drop (n + 1)).length (by simp only [List.length_drop]; omega)
        (mergeQPRs c.desc total ((rest.take (n + 1)).map (fracSearch c · limit)) L c.hi)
        (rest.drop (n + 1))
        (L - calcEnsured c.desc
          (mergeQPRs c.desc total ((rest.take (n + 1)).map (fracSearch c · limit)) L c.hi).ids (rest.drop (n + 1)))
        (P ++ docsOf (rest.take (n + 1))) hids
        (List.take (calcEnsured c.desc
          (mergeQPRs c.desc total ((rest.take (n + 1)).map (fracSearch c · limit)) L c.hi).ids (rest.drop (n + 1)))
          (mergeQPRs c.desc total ((rest.take (n + 1)).map (fracSearch c · limit)) L c.hi).ids)
        (List.drop (calcEnsured c.desc
          (mergeQPRs c.desc total ((rest.take (n + 1)).map (fracSearch c · limit)) L c.hi).ids (rest.drop (n + 1)))
          (mergeQPRs c.desc total ((rest.take (n + 1)).map (fracSearch c · limit)) L c.hi).ids)
        (List.take_append_drop _ _).symm hsound
        (by rw [List.length_take]; omega) hr' hinv' rfl
      rw [this, List.append_assoc, docsOf_take_drop]

/-! ## `List.Sort` / `prepareFracs` -/

theorem mem_insertFrac (desc : Bool) (a v : Frac) (l : List Frac) : v ∈ insertFrac desc a l ↔ v = a ∨ v ∈ l := by
  induction l with
  | nil => simp [insertFrac]
  | cons b bs ih =>
    unfold insertFrac
    split
    · simp only [List.mem_cons, ih]; grind
    · simp only [List.mem_cons]

theorem mem_sortFracs (desc : Bool) (v : Frac) (l : List Frac) : v ∈ sortFracs desc l ↔ v ∈ l := by
  induction l with
  | nil => simp [sortFracs]
  | cons a as ih => simp only [sortFracs, mem_insertFrac, ih, List.mem_cons]

theorem length_insertFrac (desc : Bool) (a : Frac) (l : List Frac) : (insertFrac desc a l).length = l.length + 1 := by
  induction l with
  | nil => simp [insertFrac]
  | cons b bs ih => unfold insertFrac; split <;> simp [ih]

theorem length_sortFracs (desc : Bool) (l : List Frac) : (sortFracs desc l).length = l.length := by
  induction l with
  | nil => simp [sortFracs]
  | cons a as ih => simp [sortFracs, length_insertFrac, ih]

theorem insertFrac_sorted (desc : Bool) (a : Frac) (l : List Frac) (hl : FracsSorted desc l) :
    FracsSorted desc (insertFrac desc a l) := by
  induction l with
  | nil => simp [insertFrac, FracsSorted]
  | cons b bs ih =>
    have hl' := List.pairwise_cons.mp hl
    unfold insertFrac
    split
    · rename_i hlt
      refine List.pairwise_cons.mpr ⟨?_, ih hl'.2⟩
      intro v hv
      rcases (mem_insertFrac desc a v bs).mp hv with h | h
      · subst h
        unfold fracBefore at hlt
        cases desc <;> simp at hlt ⊢ <;> omega
      · exact hl'.1 v h
    · rename_i hlt
      refine List.pairwise_cons.mpr ⟨?_, hl⟩
      intro v hv
      rcases List.mem_cons.mp hv with h | h
      · subst h
        unfold fracBefore at hlt
        cases desc <;> simp at hlt ⊢ <;> omega
      · have hbv := hl'.1 v h
        unfold fracBefore at hlt
        cases desc <;> simp at hlt hbv ⊢ <;> omega

/-- `List.Sort` establishes the order the early-termination rule needs -/
theorem sortFracs_sorted (desc : Bool) (l : List Frac) : FracsSorted desc (sortFracs desc l) := by
  induction l with
  | nil => simp [sortFracs, FracsSorted]
  | cons a as ih => exact insertFrac_sorted desc a _ ih

/-- a fraction that holds a matching document in the request range is not filtered out -/
theorem isIntersecting_of_doc (f : Frac) (from_ to_ d : Nat) (hinv : FracInv f) (hd : d ∈ f.docs)
    (hrange : from_ ≤ midOf d ∧ midOf d ≤ to_) (hdt : f.docsTotal ≠ 0) : isIntersecting f from_ to_ = true := by
  have := hinv d hd
  unfold isIntersecting
  simp only [hdt, if_false]
  split
  · rename_i h; omega
  · rfl

/-- `SearchDocs` as a whole (filter, sort, chunked loop): the IDs are the first `L` distinct IDs of all documents -/
theorem searchDocs_ids (c : Cfg) (fs : List Frac) (from_ to_ L : Nat)
    (hinv : ∀ f, f ∈ fs → FracInv f)
    (hvis : ∀ f, f ∈ fs → f.docs ≠ [] → isIntersecting f from_ to_ = true)
    (hmax : c.maxHits = 0 ∨ (filterInRange fs from_ to_).length ≤ c.maxHits) :
    ∃ q, searchDocs c fs from_ to_ L = some q ∧ q.ids = (sd c.desc (docsOf fs)).take L := by
  have hprep : prepareFracs c fs from_ to_ = some (sortFracs c.desc (filterInRange fs from_ to_)) := by
    unfold prepareFracs
    split
    · rename_i h; omega
    · rfl
  have hmem : ∀ v, v ∈ docsOf (sortFracs c.desc (filterInRange fs from_ to_)) ↔ v ∈ docsOf fs := by
    intro v
    simp only [mem_docsOf, mem_sortFracs, filterInRange, List.mem_filter]
    constructor
    · rintro ⟨f, ⟨hf, _⟩, hv⟩; exact ⟨f, hf, hv⟩
    · rintro ⟨f, hf, hv⟩
      exact ⟨f, ⟨hf, hvis f hf (List.ne_nil_of_mem hv)⟩, hv⟩
  have hinv' : ∀ f, f ∈ sortFracs c.desc (filterInRange fs from_ to_) → FracInv f := by
    intro f hf
    rw [mem_sortFracs, filterInRange, List.mem_filter] at hf
    exact hinv f hf.1
  unfold searchDocs
  rw [hprep]
  simp only
  split
  · rename_i hz
    refine ⟨emptyQPR, rfl, ?_⟩
    have hlen : (sortFracs c.desc (filterInRange fs from_ to_)).length = 0 := by
      split at hz
      · exact hz
      · rename_i hp; omega
    have hnil := List.eq_nil_of_length_eq_zero hlen
    have : sd c.desc (docsOf fs) = sd c.desc [] :=
      sd_congr c.desc _ _ (fun v => by rw [← hmem v, hnil]; simp [docsOf])
    rw [this]; simp [emptyQPR, sd, sortIds, removeRepetitions]
  · rename_i n hn
    refine ⟨_, rfl, ?_⟩
    have := searchLoop_ids c n L emptyQPR (sortFracs c.desc (filterInRange fs from_ to_)) L []
      (by simp [emptyQPR, sd, sortIds, removeRepetitions]) [] [] (by simp [emptyQPR]) (by simp) (by simp)
      (sortFracs_sorted c.desc _) hinv'
    rw [this, List.nil_append, sd_congr c.desc _ _ hmem]

/-! ## `paginateIDs` -/

theorem paginate_eq (ids : List Nat) (offset size : Nat) :
    (paginate ids offset size).1 = (ids.drop offset).take size ∧
      (paginate ids offset size).2 = ((ids.drop offset).take size).length := by
  unfold paginate
  by_cases h : ids.length > offset
  · simp only [h, if_true]
    split
    · rename_i h2; simp only [List.length_drop] at h2; simp [List.length_take, List.length_drop]; omega
    · rename_i h2
      simp only [List.length_drop] at h2
      have : List.take size (List.drop offset ids) = List.drop offset ids := by
        apply List.take_of_length_le; simp [List.length_drop]; omega
      simp [this]
  · simp only [h, if_false]
    have : List.drop offset ids = [] := by apply List.drop_eq_nil_of_le; omega
    simp [this]

/-- what the user sees for `(offset, size)`: the system computes the first `offset+size` IDs, then paginates -/
def page (full : List Nat) (offset size : Nat) : List Nat := (paginate (full.take (offset + size)) offset size).1

/-- consecutive pages: the next offset is the previous offset plus the previous size -/
def walkPages (full : List Nat) : Nat → List Nat → List Nat
  | _, [] => []
  | offset, s :: ss => page full offset s ++ walkPages full (offset + s) ss

theorem page_eq (full : List Nat) (offset size : Nat) : page full offset size = (full.drop offset).take size := by
  unfold page
  rw [(paginate_eq _ offset size).1, List.drop_take, List.take_take]
  congr 1
  omega

theorem walkPages_eq (full : List Nat) (offset : Nat) (sizes : List Nat) :
    walkPages full offset sizes = (full.drop offset).take sizes.sum := by
  induction sizes generalizing offset with
  | nil => simp [walkPages]
  | cons s ss ih =>
    simp only [walkPages, page_eq, ih, List.sum_cons]
    rw [List.take_add, List.drop_drop]

theorem mergeQPRs_ids_sorted (desc : Bool) (dst : QPR) (qs : List QPR) (limit hi : Nat) :
    SortedBy desc (mergeQPRs desc dst qs limit hi).ids := by
  rw [mergeQPRs_ids]; exact sortedBy_take desc _ _ (sd_sorted desc _)

/-- the proxy: one answer per shard, each cut to `offset+size` by the store, merged and paginated = that window of
the duplicate-free ordered union of all shards' documents -/
theorem proxyMerge_ids (desc : Bool) (stores : List (List Nat)) (answers : List QPR) (offset size hi : Nat)
    (h : answers.map (·.ids) = stores.map (fun d => (sd desc d).take (offset + size))) :
    (proxyMerge desc answers offset size hi).ids = ((sd desc stores.flatten).drop offset).take size := by
  simp only [proxyMerge]
  rw [(paginate_eq _ offset size).1, mergeQPRs_ids]
  have : allIds emptyQPR answers = (answers.map (·.ids)).flatten := by
    simp [allIds, emptyQPR, List.flatMap_def]
  rw [this, h, take_sd_flatten_cut desc _ _ (Nat.le_refl _), List.drop_take, List.take_take]
  congr 1
  omega

end SV.Merge
