import SeqVerif.Model.ParserGrammar
/-!
# The parser skeletons over an abstract token alphabet (C12, level A)

Alphabet `{ ( ) and or not | * atom fields bad }`.  An `atom n fid form` stands for one field filter on field number `fid`, whose
main mapping type is `m fid` (`m` = `indexType(mapping, ·)`), written as `f:v` (`plain`), `f:[a, b]` (`range`) or `f:in(v, w)` (`inList`).
`dispatch` is the `switch t` of `parseFulltextSearchFilter` (parser/seqql_filter.go) and of `parseLiteral`
(parser/token_parser.go): keyword / path / text are handled, every other type falls into `default:` which is
`panic(...)` in the code as written (`dp = true`) and `return error` in the repaired code (`dp = false`).
-/
namespace SV.Parser

/-- seq.TokenizerType (seq/tokenizer.go) -/
inductive FType | noop | keyword | text | object | tags | path | nested | exists
deriving DecidableEq, Repr

inductive Form | plain | range | inList
deriving DecidableEq, Repr

inductive Tok
  | lp | rp | and | or | not | pipe | star
  | atom (n : Nat) (fid : Nat) (form : Form)
  | flds   -- `fields x`
  | bad    -- a symbol that starts nothing, e.g. `$`
deriving DecidableEq, Repr

def Tok.kind : Tok → K
  | .lp => .lp | .rp => .rp | .and => .and | .or => .or | .not => .not | .pipe => .pipe | .star => .star
  | _ => .other

/-- the `switch t { case Keyword, Path: ... case Text: ... default: ... }` -/
def dispatch (dp : Bool) : FType → PRes Unit
  | .keyword => .ok ()
  | .path => .ok ()
  | .text => .ok ()
  | _ => if dp then .panic else .err

/-- one field filter = the field-type decision, then a leaf; consumes exactly the atom token -/
def atomWith (fld : FType → Form → PRes Unit) (m : Nat → FType) : List Tok → PRes (Ast Nat × List Tok)
  | .atom n fid form :: r => (fld (m fid) form).bind fun _ => .ok (.leaf n, r)
  | _ => .err

/-- `parseSeqQLFieldFilter`: unindexed field -> error; range filters do not look at the type; `in` and plain values
go through `parseFulltextSearchFilter` -/
def fieldSeqQL (dp : Bool) (ft : FType) (form : Form) : PRes Unit :=
  if ft = .noop then .err
  else match form with
    | .range => .ok ()
    | _ => dispatch dp ft

/-- legacy `parseSubexpr` field part: unindexed -> error; `parseLiteral`: range first, then the type switch.
(`f:in(v, w)` is not legacy syntax: after the literal `in` the expression loop rejects `(`.) -/
def fieldLegacy (dp : Bool) (ft : FType) (form : Form) : PRes Unit :=
  if ft = .noop then .err
  else match form with
    | .range => .ok ()
    | .plain => dispatch dp ft
    | .inList => (dispatch dp ft).bind fun _ => .err

def atomSeqQL (dp : Bool) (m : Nat → FType) := atomWith (fieldSeqQL dp) m
def atomLegacy (dp : Bool) (m : Nat → FType) := atomWith (fieldLegacy dp) m

/-- `parseFieldList` after `fields x`: further bare words (also `and`, `or`, `not`, `*`, `fields x`) are more names -/
def fieldListA : List Tok → PRes (List Tok)
  | [] => .ok []
  | .pipe :: r => .ok (.pipe :: r)
  | .and :: r => fieldListA r
  | .or :: r => fieldListA r
  | .not :: r => fieldListA r
  | .star :: r => fieldListA r
  | .flds :: r => fieldListA r
  | _ => .err

/-- `parsePipes` with its `fieldFilters` counter; fuel = number of tokens -/
def pipesA : Nat → Nat → List Tok → PRes Unit
  | _, _, [] => .ok ()
  | 0, _, _ => .oof
  | f+1, cnt, .pipe :: .flds :: r =>
    (fieldListA r).bind fun r' => if cnt + 1 > 1 then .err else pipesA f (cnt + 1) r'
  | _, _, _ => .err

def tokSeqQL (dp : Bool) (mx : Option Nat) (m : Nat → FType) : Skel Tok Nat :=
  { kind := Tok.kind, atom := atomSeqQL dp m, star := 1000000, pipes := fun toks => pipesA toks.length 0 toks, maxNest := mx }

def tokLegacy (dp : Bool) (mx : Option Nat) (m : Nat → FType) : Skel Tok Nat :=
  { kind := Tok.kind, atom := atomLegacy dp m, star := 0, pipes := fun _ => .err, maxNest := mx }

theorem dispatch_ne_oof (dp : Bool) (ft : FType) : dispatch dp ft ≠ .oof := by
  cases ft <;> cases dp <;> simp [dispatch]

theorem atomWith_ok {fld : FType → Form → PRes Unit} {m : Nat → FType} {toks : List Tok} {a : Ast Nat} {r : List Tok}
    (h : atomWith fld m toks = .ok (a, r)) :
    ∃ n ft form, toks = .atom n ft form :: r ∧ a = .leaf n ∧ fld (m ft) form = .ok () := by
  cases toks with
  | nil => simp [atomWith] at h
  | cons t tl =>
    cases t <;> simp only [atomWith] at h <;> try (exact absurd h (by simp))
    rename_i n ft form
    cases hf : fld (m ft) form with
    | ok u =>
      rw [hf] at h
      simp only [PRes.bind_ok, PRes.ok.injEq, Prod.mk.injEq] at h
      exact ⟨n, ft, form, by rw [h.2], h.1.symm, by cases u; exact hf⟩
    | err => rw [hf] at h; simp at h
    | panic => rw [hf] at h; simp at h
    | oof => rw [hf] at h; simp at h

theorem atomWith_good (S : Skel Tok Nat) (fld : FType → Form → PRes Unit) (m : Nat → FType) (hS : S.atom = atomWith fld m)
    (hf : ∀ ft form, fld ft form ≠ .oof) : S.Good := by
  refine ⟨?_, ?_, ?_⟩
  · intro toks a r h
    rw [hS] at h
    obtain ⟨n, ft, form, rfl, _, _⟩ := atomWith_ok h
    simp
  · intro toks a r h
    rw [hS] at h
    obtain ⟨n, ft, form, _, rfl, _⟩ := atomWith_ok h
    trivial
  · intro toks
    rw [hS]
    cases toks with
    | nil => simp [atomWith]
    | cons t tl =>
      cases t <;> simp only [atomWith] <;> try simp
      rename_i n ft form
      cases hd : fld (m ft) form <;> simp
      exact hf _ _ hd

theorem fieldSeqQL_ne_oof (dp : Bool) (ft : FType) (form : Form) : fieldSeqQL dp ft form ≠ .oof := by
  cases ft <;> cases form <;> cases dp <;> simp [fieldSeqQL, dispatch]

theorem fieldLegacy_ne_oof (dp : Bool) (ft : FType) (form : Form) : fieldLegacy dp ft form ≠ .oof := by
  cases ft <;> cases form <;> cases dp <;> simp [fieldLegacy, dispatch]

theorem tokSeqQL_good (dp : Bool) (mx : Option Nat) (m : Nat → FType) : (tokSeqQL dp mx m).Good :=
  atomWith_good _ _ m rfl (fieldSeqQL_ne_oof dp)

theorem tokLegacy_good (dp : Bool) (mx : Option Nat) (m : Nat → FType) : (tokLegacy dp mx m).Good :=
  atomWith_good _ _ m rfl (fieldLegacy_ne_oof dp)

/-! ## rendering a tree back to tokens -/

def wrap (b : Bool) (ts : List Tok) : List Tok := if b then .lp :: ts ++ [.rp] else ts

/-- minimal parentheses: `render lvl e` is `e` written so that it can stand at precedence level `lvl`
(0 = operand of nothing / left of `or`, 1 = right of `or` / left of `and`, 2 = right of `and` / under `not`) -/
def render (ft : Nat) : Nat → Ast Nat → List Tok
  | _, .leaf n => [.atom n ft .plain]
  | _, .not c => .not :: render ft 2 c
  | lvl, .bin .or l r => wrap (decide (lvl > 0)) (render ft 0 l ++ .or :: render ft 1 r)
  | lvl, .bin .and l r => wrap (decide (lvl > 1)) (render ft 1 l ++ .and :: render ft 2 r)
  | _, .bin .nand _ _ => [.bad]

/-- parentheses around every operator node and every operand of `not` -/
def renderFull (ft : Nat) : Ast Nat → List Tok
  | .leaf n => [.atom n ft .plain]
  | .not c => .not :: .lp :: renderFull ft c ++ [.rp]
  | .bin .or l r => .lp :: (renderFull ft l ++ .or :: renderFull ft r) ++ [.rp]
  | .bin .and l r => .lp :: (renderFull ft l ++ .and :: renderFull ft r) ++ [.rp]
  | .bin .nand _ _ => [.bad]

/-- field types whose filters the type switch accepts -/
def FType.searchable : FType → Bool
  | .keyword | .path | .text => true
  | _ => false

theorem G.lift {τ α : Type} {S : Skel τ α} {sep : τ → Prop} {top : Bool} {k : Nat} {ts : List τ} {e : Ast α} :
    ∀ {lvl : Nat}, G S sep lvl top k ts e → ∀ {lvl' : Nat}, lvl' ≤ lvl → G S sep lvl' top k ts e
  | 2, h, 2, _ => h
  | 2, h, 1, _ => .up1 h
  | 2, h, 0, _ => .up0 (.up1 h)
  | 1, h, 1, _ => h
  | 1, h, 0, _ => .up0 h
  | 0, h, 0, _ => h
  | (_+3), h, _, _ => by cases h

theorem atom_G_seqql (dp : Bool) (mx : Option Nat) (m : Nat → FType) (ft : Nat) (hft : (m ft).searchable = true) (top : Bool) (n : Nat) :
    G (tokSeqQL dp mx m) (fun _ => True) 2 top 1 [.atom n ft .plain] (.leaf n) := by
  refine G.atom (Nat.le_refl _) (by simp [tokSeqQL, Tok.kind]) (by simp [tokSeqQL, Tok.kind]) (by simp [tokSeqQL, Tok.kind]) trivial ?_
  intro rest _
  cases hm : m ft <;> rw [hm] at hft <;> simp [FType.searchable] at hft <;> simp [tokSeqQL, atomSeqQL, atomWith, fieldSeqQL, dispatch, hm]

theorem atom_G_legacy (dp : Bool) (mx : Option Nat) (m : Nat → FType) (ft : Nat) (hft : (m ft).searchable = true) (top : Bool) (n : Nat) :
    G (tokLegacy dp mx m).legacy (fun _ => True) 2 top 1 [.atom n ft .plain] (.leaf n) := by
  refine G.atom (Nat.le_refl _) (by simp [tokLegacy, Skel.legacy, Tok.kind]) (by simp [tokLegacy, Skel.legacy, Tok.kind])
    (by simp [tokLegacy, Skel.legacy, Tok.kind]) trivial ?_
  intro rest _
  cases hm : m ft <;> rw [hm] at hft <;> simp [FType.searchable] at hft <;> simp [tokLegacy, Skel.legacy, atomLegacy, atomWith, fieldLegacy, dispatch, hm]

/-- both renderings are sentences of the reference grammar denoting the tree they were made from, with nesting at most
twice the height of the tree; stated for any skeleton over `Tok` that classifies the five structural tokens as `Tok.kind` -/
theorem render_G {S : Skel Tok Nat} (hk : ∀ t, t = Tok.lp ∨ t = Tok.rp ∨ t = Tok.and ∨ t = Tok.or ∨ t = Tok.not → S.kind t = t.kind)
    (ft : Nat) (hat : ∀ top n, G S (fun _ => True) 2 top 1 [.atom n ft .plain] (.leaf n))
    (e : Ast Nat) (h : e.NoNand) :
    ∀ (lvl : Nat) (top : Bool), lvl ≤ 2 → G S (fun _ => True) lvl top (2 * e.height) (render ft lvl e) e := by
  induction e with
  | leaf n => intro lvl top hl; exact ((hat top n).mono (by simp [Ast.height])).lift hl
  | not c ih =>
    intro lvl top hl
    exact (G.not (by simp only [Ast.height]; omega) (by rw [hk _ (by simp)]; rfl) (ih h 2 top (Nat.le_refl _))).lift hl
  | bin op l r ihl ihr =>
    obtain ⟨hop, hl, hr⟩ := h
    intro lvl top hlvl
    have hL : 2 * l.height ≤ 2 * max l.height r.height := by omega
    have hR : 2 * r.height ≤ 2 * max l.height r.height := by omega
    cases op with
    | nand => exact absurd rfl hop
    | or =>
      simp only [render, wrap]
      by_cases h0 : lvl > 0
      · simp only [h0, decide_true, if_true]
        have : G S (fun _ => True) 0 false (2 * max l.height r.height) (render ft 0 l ++ Tok.or :: render ft 1 r) (.bin .or l r) :=
          G.or ((ihl hl 0 false (by omega)).mono hL) (by rw [hk _ (by simp)]; rfl) trivial ((ihr hr 1 false (by omega)).mono hR)
        exact (G.paren (by simp only [Ast.height]; omega) (by rw [hk _ (by simp)]; rfl) (by rw [hk _ (by simp)]; rfl) trivial this).lift hlvl
      · have : lvl = 0 := by omega
        subst this
        simp only [h0, decide_false]
        exact G.or ((ihl hl 0 top (by omega)).mono (by simp only [Ast.height]; omega)) (by rw [hk _ (by simp)]; rfl) trivial
          ((ihr hr 1 top (by omega)).mono (by simp only [Ast.height]; omega))
    | and =>
      simp only [render, wrap]
      by_cases h1 : lvl > 1
      · simp only [h1, decide_true, if_true]
        have : G S (fun _ => True) 0 false (2 * max l.height r.height) (render ft 1 l ++ Tok.and :: render ft 2 r) (.bin .and l r) :=
          .up0 (G.and ((ihl hl 1 false (by omega)).mono hL) (by rw [hk _ (by simp)]; rfl) trivial ((ihr hr 2 false (by omega)).mono hR))
        exact (G.paren (by simp only [Ast.height]; omega) (by rw [hk _ (by simp)]; rfl) (by rw [hk _ (by simp)]; rfl) trivial this).lift hlvl
      · simp only [h1, decide_false]
        have : G S (fun _ => True) 1 top (2 * (Ast.bin Op.and l r).height) (render ft 1 l ++ Tok.and :: render ft 2 r) (.bin .and l r) :=
          G.and ((ihl hl 1 top (by omega)).mono (by simp only [Ast.height]; omega)) (by rw [hk _ (by simp)]; rfl) trivial
            ((ihr hr 2 top (by omega)).mono (by simp only [Ast.height]; omega))
        exact this.lift (by omega)

theorem renderFull_G {S : Skel Tok Nat} (hk : ∀ t, t = Tok.lp ∨ t = Tok.rp ∨ t = Tok.and ∨ t = Tok.or ∨ t = Tok.not → S.kind t = t.kind)
    (ft : Nat) (hat : ∀ top n, G S (fun _ => True) 2 top 1 [.atom n ft .plain] (.leaf n))
    (e : Ast Nat) (h : e.NoNand) : ∀ (top : Bool), G S (fun _ => True) 2 top (2 * e.height) (renderFull ft e) e := by
  induction e with
  | leaf n => intro top; exact (hat top n).mono (by simp [Ast.height])
  | not c ih =>
    intro top
    exact G.not (k' := 2 * c.height + 1) (by simp only [Ast.height]; omega) (by rw [hk _ (by simp)]; rfl)
      (G.paren (Nat.le_refl _) (by rw [hk _ (by simp)]; rfl) (by rw [hk _ (by simp)]; rfl) trivial ((ih h false).lift (Nat.zero_le _)))
  | bin op l r ihl ihr =>
    obtain ⟨hop, hl, hr⟩ := h
    intro top
    have hL : 2 * l.height ≤ 2 * max l.height r.height := by omega
    have hR : 2 * r.height ≤ 2 * max l.height r.height := by omega
    cases op with
    | nand => exact absurd rfl hop
    | or =>
      exact G.paren (k' := 2 * max l.height r.height) (by simp only [Ast.height]; omega) (by rw [hk _ (by simp)]; rfl) (by rw [hk _ (by simp)]; rfl) trivial
        (G.or (((ihl hl false).mono hL).lift (Nat.zero_le _)) (by rw [hk _ (by simp)]; rfl) trivial (((ihr hr false).mono hR).lift (by omega)))
    | and =>
      exact G.paren (k' := 2 * max l.height r.height) (by simp only [Ast.height]; omega) (by rw [hk _ (by simp)]; rfl) (by rw [hk _ (by simp)]; rfl) trivial
        (.up0 (G.and (((ihl hl false).mono hL).lift (by omega)) (by rw [hk _ (by simp)]; rfl) trivial ((ihr hr false).mono hR)))

/-! ## the abstract pipe tail never panics and has enough fuel -/

theorem fieldListA_len : ∀ (r r' : List Tok), fieldListA r = .ok r' → r'.length ≤ r.length := by
  intro r
  induction r with
  | nil => intro r' h; simp [fieldListA] at h; subst h; simp
  | cons t tl ih =>
    intro r' h
    cases t <;> simp only [fieldListA] at h
    all_goals first
      | (have := ih r' h; simp only [List.length_cons]; omega)
      | (simp only [PRes.ok.injEq] at h; subst h; simp; done)
      | (simp at h; done)

theorem fieldListA_ne (r : List Tok) : fieldListA r ≠ .panic ∧ fieldListA r ≠ .oof := by
  induction r with
  | nil => simp [fieldListA]
  | cons t tl ih => cases t <;> simp [fieldListA, ih]

theorem pipesA_ne_panic : ∀ (f cnt : Nat) (toks : List Tok), pipesA f cnt toks ≠ .panic := by
  intro f
  induction f with
  | zero => intro cnt toks; cases toks <;> simp [pipesA]
  | succ f ih =>
    intro cnt toks
    match toks with
    | [] => simp [pipesA]
    | [t] => cases t <;> simp [pipesA]
    | t :: t' :: r =>
      cases t <;> cases t' <;> simp only [pipesA] <;> try simp
      refine PRes.bind_ne_panic (fieldListA_ne r).1 ?_
      intro b
      split
      · simp
      · exact ih _ _

theorem pipesA_ne_oof : ∀ (f cnt : Nat) (toks : List Tok), toks.length ≤ f → pipesA f cnt toks ≠ .oof := by
  intro f
  induction f with
  | zero => intro cnt toks h; cases toks <;> simp_all [pipesA]
  | succ f ih =>
    intro cnt toks h
    match toks with
    | [] => simp [pipesA]
    | [t] => cases t <;> simp [pipesA]
    | t :: t' :: r =>
      cases t <;> cases t' <;> simp only [pipesA] <;> try simp
      cases hr : fieldListA r with
      | ok r' =>
        simp only [PRes.bind_ok]
        split
        · simp
        · have := fieldListA_len r r' hr
          simp only [List.length_cons] at h
          exact ih _ _ (by omega)
      | err => simp
      | panic => exact absurd hr (fieldListA_ne r).1
      | oof => exact absurd hr (fieldListA_ne r).2

end SV.Parser
