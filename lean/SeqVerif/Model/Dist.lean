import SeqVerif.Model.Bitmask
/-!
# seq.MIDsDistribution (seq/mids_distribution.go)

Times are `Int` nanoseconds since the Unix epoch (Go's `time.Time` is exact over the whole range reachable from
`time.UnixMilli(int64)`), durations are `Int` nanoseconds (`time.Duration`, int64), MIDs are `Nat` (uint64 ms).

* `MID.Time()` = `time.UnixMilli(int64(mid))`: the uint64 is *re-interpreted* as int64 (`toInt64`), so MIDs
  `≥ 2^63` become times before 1970 - modelled, not assumed away.
* `Time.Sub` saturates at `±2^63` ns (`tsub`).
* Duration `/` truncates towards zero (`Int.tdiv`); division by a zero bucket panics (`new?`).
-/
namespace SV.Dist
open SV.Bitmask

def two64 : Int := 18446744073709551616

/-- `int64(x)` for a `uint64` x -/
def toInt64 (m : Nat) : Int :=
  if m % 18446744073709551616 < 9223372036854775808 then ((m % 18446744073709551616 : Nat) : Int)
  else ((m % 18446744073709551616 : Nat) : Int) - 18446744073709551616

/-- `uint64(x)` for an `int64` x (and, composed with `toInt64`, the int64 wrap of any integer) -/
def toUint64 (x : Int) : Nat := (x % 18446744073709551616).toNat

/-- `MID.Time()` in ns: `time.UnixMilli(int64(mid))` -/
def midTime (m : Nat) : Int := toInt64 m * 1000000

def maxDur : Int := 9223372036854775807
def minDur : Int := -9223372036854775808

/-- `t.Sub(u)`: saturating difference -/
def tsub (t u : Int) : Int :=
  if t - u > 9223372036854775807 then 9223372036854775807
  else if t - u < -9223372036854775808 then -9223372036854775808 else t - u

structure Dist where
  dfrom : Int
  dto : Int
  bucket : Int
  mask : Bitmask
deriving Repr, DecidableEq

/-- `size()`: `n := d.to.Sub(d.from)/d.bucket + 1; n += 2` -/
def sizeOf (f t b : Int) : Int := Int.tdiv (tsub t f) b + 1 + 2

/-- `NewMIDsDistribution(from, to, bucket)` -/
def new (f t b : Int) : Dist := ⟨f, t, b, Bitmask.new (sizeOf f t b)⟩

/-- with the panics: zero bucket (integer divide by zero), negative length in `make` -/
def new? (f t b : Int) : Option Dist :=
  if b = 0 then none else (Bitmask.new? (sizeOf f t b)).map fun m => ⟨f, t, b, m⟩

/-- `midToIndex(mid)` -/
def midToIndex (d : Dist) (m : Nat) : Int :=
  let t := midTime m
  if t < d.dfrom then 0
  else if t > d.dto then d.mask.size - 1
  else Int.tdiv (tsub t d.dfrom) d.bucket + 1

/-- `Add(mid)`: `d.bitmask.Set(d.midToIndex(mid), true)` -/
def add (d : Dist) (m : Nat) : Dist :=
  { d with mask := ⟨d.mask.size, Bitmask.set d.mask.bin (midToIndex d m).toNat true⟩ }

def add? (d : Dist) (m : Nat) : Option Dist :=
  if d.bucket = 0 then none  -- the division in midToIndex may panic; never reached for a constructed distribution
  else if midToIndex d m < 0 then none
  else if (midToIndex d m).toNat / 8 < d.mask.bin.length then some (add d m) else none

/-- `IsIntersecting(from, to)` (since fix c7b3453: a range whose ends are not ordered as times - they lie on
different sides of `2^63` - is never pruned) -/
def isIntersecting (d : Dist) (qf qt : Nat) : Bool :=
  if d.bucket = 0 then true
  else if midTime qf > midTime qt then true
  else Bitmask.hasBitsIn d.mask.bin (midToIndex d qf).toNat (midToIndex d qt).toNat

def isIntersecting? (d : Dist) (qf qt : Nat) : Option Bool :=
  if d.bucket = 0 then some true
  else if midTime qf > midTime qt then some true
  else if midToIndex d qf < 0 ∨ midToIndex d qt < 0 then none
  else Bitmask.hasBitsIn? d.mask.bin (midToIndex d qf).toNat (midToIndex d qt).toNat

/-- `IsIntersecting` as it was before fix c7b3453 (kept for the historical counterexample) -/
def isIntersectingOld (d : Dist) (qf qt : Nat) : Bool :=
  if d.bucket = 0 then true
  else Bitmask.hasBitsIn d.mask.bin (midToIndex d qf).toNat (midToIndex d qt).toNat

/-- `GetDist()` as bucket indices (the start of bucket `i` is `from + bucket*(i-1)`) -/
def setBits (d : Dist) : List Nat :=
  (List.range d.mask.size.toNat).filter fun i => Bitmask.get d.mask.bin i

/-! ## JSON image (`midsDistributionJSON`) -/

structure DistJSON where
  jfrom : Nat
  jto : Nat
  jbucket : Nat
  bitmask : List Nat
deriving Repr, DecidableEq

/-- `MarshalJSON`: `none` = the literal `null` (undefined distribution).
`uint64(d.bucket.Seconds())` is modelled as the truncated quotient (exact below 2^22 s, see props/C14.json) -/
def marshal (d : Dist) : Option DistJSON :=
  if d.bucket = 0 then none
  else some ⟨toUint64 (d.dfrom / 1000000), toUint64 (d.dto / 1000000), toUint64 (Int.tdiv d.bucket 1000000000), d.mask.bin⟩

/-- the fields `UnmarshalJSON` sets, the outer `Option` is a panic (`LoadBitmask` on a short slice / negative size) -/
def unmarshal? (j : DistJSON) : Option Dist :=
  let f := toInt64 j.jfrom * 1000000
  let t := toInt64 j.jto * 1000000
  let b := toInt64 (toUint64 (1000000000 * toInt64 j.jbucket))
  if b = 0 then some ⟨f, t, b, ⟨0, []⟩⟩
  else (Bitmask.load? (sizeOf f t b) j.bitmask).map fun m => ⟨f, t, b, m⟩

/-! ## well-formed distributions and their lemmas -/

structure WF (d : Dist) : Prop where
  bucket_pos : 0 < d.bucket
  ordered : d.dfrom ≤ d.dto
  size_eq : d.mask.size = sizeOf d.dfrom d.dto d.bucket
  len_eq : d.mask.bin.length = nbytes d.mask.size
  bytes : Bitmask.WF d.mask.bin

theorem tsub_mono {t t' u : Int} (h : t ≤ t') : tsub t u ≤ tsub t' u := by
  unfold tsub; split <;> split <;> (try split) <;> (try split) <;> omega

theorem tsub_nonneg {t u : Int} (h : u ≤ t) : 0 ≤ tsub t u := by
  unfold tsub; split <;> (try split) <;> omega

theorem tdiv_mono {a b c : Int} (ha : 0 ≤ a) (hab : a ≤ b) (hc : 0 < c) : Int.tdiv a c ≤ Int.tdiv b c := by
  rw [Int.tdiv_eq_ediv_of_nonneg ha, Int.tdiv_eq_ediv_of_nonneg (by omega)]
  exact Int.ediv_le_ediv hc hab

theorem size_ge_three {d : Dist} (h : WF d) : 3 ≤ d.mask.size := by
  rw [h.size_eq]; unfold sizeOf
  have := Int.tdiv_nonneg (tsub_nonneg h.ordered) (Int.le_of_lt h.bucket_pos)
  omega

/-- the index is a valid bit position -/
theorem midToIndex_range {d : Dist} (h : WF d) (m : Nat) : 0 ≤ midToIndex d m ∧ midToIndex d m ≤ d.mask.size - 1 := by
  have h3 := size_ge_three h
  unfold midToIndex
  simp only
  split
  · omega
  · split
    · omega
    · rename_i h1 h2
      have hn := Int.tdiv_nonneg (tsub_nonneg (t := midTime m) (u := d.dfrom) (by omega)) (Int.le_of_lt h.bucket_pos)
      have hm := tdiv_mono (tsub_nonneg (t := midTime m) (u := d.dfrom) (by omega))
        (tsub_mono (u := d.dfrom) (show midTime m ≤ d.dto by omega)) h.bucket_pos
      rw [h.size_eq]; unfold sizeOf
      omega

/-- **midToIndex is monotone** in the time of the MID (its int64 reading) -/
theorem midToIndex_mono {d : Dist} (h : WF d) {a b : Nat} (hab : toInt64 a ≤ toInt64 b) :
    midToIndex d a ≤ midToIndex d b := by
  have hr := midToIndex_range h b
  have hra := midToIndex_range h a
  have ht : midTime a ≤ midTime b := by unfold midTime; omega
  unfold midToIndex at hr hra ⊢
  simp only at hr hra ⊢
  by_cases c1 : midTime a < d.dfrom
  · simp only [c1, if_true]; exact hr.1
  · simp only [c1, if_false] at hra ⊢
    have c1b : ¬ midTime b < d.dfrom := by omega
    simp only [c1b, if_false] at hr ⊢
    by_cases c2 : midTime b > d.dto
    · simp only [c2, if_true]
      exact hra.2
    · simp only [c2, if_false]
      have c2a : ¬ midTime a > d.dto := by omega
      simp only [c2a, if_false]
      have := tdiv_mono (tsub_nonneg (t := midTime a) (u := d.dfrom) (by omega))
        (tsub_mono (u := d.dfrom) ht) h.bucket_pos
      omega

theorem nbytes_gt {size i : Int} (h0 : 0 ≤ i) (h1 : i ≤ size - 1) : i.toNat / 8 < nbytes size := by
  unfold nbytes
  rw [Int.tdiv_eq_ediv_of_nonneg (by omega)]
  omega

theorem index_in_slice {d : Dist} (h : WF d) (m : Nat) : (midToIndex d m).toNat / 8 < d.mask.bin.length := by
  rw [h.len_eq]
  exact nbytes_gt (midToIndex_range h m).1 (midToIndex_range h m).2

theorem wf_new {f t b : Int} (hb : 0 < b) (hft : f ≤ t) : WF (new f t b) where
  bucket_pos := hb
  ordered := hft
  size_eq := rfl
  len_eq := by simp [new, Bitmask.new]
  bytes := Bitmask.wf_replicate _

theorem new?_eq_some {f t b : Int} (hb : 0 < b) (hft : f ≤ t) : new? f t b = some (new f t b) := by
  unfold new? Bitmask.new?
  have h3 := size_ge_three (wf_new hb hft)
  simp only [new, Bitmask.new] at h3
  have : ¬ (b = 0) := by omega
  have h2 : ¬ (Int.tdiv (sizeOf f t b + 7) 8 < 0) := by
    rw [Int.tdiv_eq_ediv_of_nonneg (by omega)]; omega
  simp [this, h2, new]

theorem midToIndex_add (d : Dist) (m x : Nat) : midToIndex (add d m) x = midToIndex d x := rfl

theorem wf_add {d : Dist} (h : WF d) (m : Nat) : WF (add d m) where
  bucket_pos := h.bucket_pos
  ordered := h.ordered
  size_eq := h.size_eq
  len_eq := by simp only [add]; rw [Bitmask.length_set]; exact h.len_eq
  bytes := Bitmask.wf_set_true h.bytes _

theorem add?_eq_some {d : Dist} (h : WF d) (m : Nat) : add? d m = some (add d m) := by
  unfold add?
  have h1 : ¬ (d.bucket = 0) := by have := h.bucket_pos; omega
  have h2 : ¬ (midToIndex d m < 0) := by have := (midToIndex_range h m).1; omega
  simp [h1, h2, index_in_slice h m]

/-- after `Add(m)` the bit of `m` is set and no bit is cleared -/
theorem bit_add {d : Dist} (h : WF d) (m : Nat) (q : Nat) :
    Bitmask.bit (add d m).mask.bin q = (decide (q = (midToIndex d m).toNat) || Bitmask.bit d.mask.bin q) := by
  simp only [add]
  exact Bitmask.bit_set_true _ _ _ (index_in_slice h m)

/-- `ms.foldl add d`: bits of added MIDs are set -/
theorem bit_foldl_add {d : Dist} (h : WF d) (ms : List Nat) :
    WF (ms.foldl add d) ∧
    (∀ x, midToIndex (ms.foldl add d) x = midToIndex d x) ∧
    (∀ q, Bitmask.bit d.mask.bin q = true → Bitmask.bit (ms.foldl add d).mask.bin q = true) ∧
    (∀ m, m ∈ ms → Bitmask.bit (ms.foldl add d).mask.bin (midToIndex d m).toNat = true) := by
  induction ms generalizing d with
  | nil => exact ⟨h, fun _ => rfl, fun _ hq => hq, fun m hm => by simp at hm⟩
  | cons a ms ih =>
    have ih' := ih (wf_add h a)
    simp only [List.foldl_cons]
    refine ⟨ih'.1, fun x => by rw [ih'.2.1 x, midToIndex_add], ?_, ?_⟩
    · intro q hq
      apply ih'.2.2.1
      rw [bit_add h]; simp [hq]
    · intro m hm
      rcases List.mem_cons.1 hm with rfl | hm
      · apply ih'.2.2.1
        rw [bit_add h]; simp
      · have := ih'.2.2.2 m hm
        rw [midToIndex_add] at this
        exact this

theorem isIntersecting?_eq_some {d : Dist} (h : WF d) (qf qt : Nat) :
    isIntersecting? d qf qt = some (isIntersecting d qf qt) := by
  unfold isIntersecting? isIntersecting
  have h1 : ¬ (d.bucket = 0) := by have := h.bucket_pos; omega
  have h2 := (midToIndex_range h qf).1
  have h3 := (midToIndex_range h qt).1
  have h4 : ¬ (midToIndex d qf < 0 ∨ midToIndex d qt < 0) := by omega
  simp only [h1, h4, if_false]
  split
  · rfl
  · exact Bitmask.hasBitsIn?_eq_some _ _ _ (index_in_slice h qf) (index_in_slice h qt)

/-- soundness core: a set bit of a MID between the query ends (in int64 reading) makes `IsIntersecting` true -/
theorem isIntersecting_of_bit {d : Dist} (h : WF d) {qf qt m : Nat}
    (h1 : toInt64 qf ≤ toInt64 m) (h2 : toInt64 m ≤ toInt64 qt)
    (hb : Bitmask.bit d.mask.bin (midToIndex d m).toNat = true) : isIntersecting d qf qt = true := by
  unfold isIntersecting
  have hne : ¬ (d.bucket = 0) := by have := h.bucket_pos; omega
  simp only [hne, if_false]
  split
  · rfl
  · have m1 := midToIndex_mono h h1
    have m2 := midToIndex_mono h h2
    have r1 := (midToIndex_range h qf).1
    have r2 := (midToIndex_range h m).1
    rw [Bitmask.hasBitsIn_iff h.bytes _ _ (by omega)]
    exact ⟨(midToIndex d m).toNat, by omega, by omega, hb⟩

/-- exactness: `IsIntersecting` on time-ordered ends is true only if some set bit lies between their indices -/
theorem bit_of_isIntersecting {d : Dist} (h : WF d) {qf qt : Nat} (hq : toInt64 qf ≤ toInt64 qt)
    (hi : isIntersecting d qf qt = true) :
    ∃ i, (midToIndex d qf).toNat ≤ i ∧ i ≤ (midToIndex d qt).toNat ∧ Bitmask.bit d.mask.bin i = true := by
  unfold isIntersecting at hi
  have hne : ¬ (d.bucket = 0) := by have := h.bucket_pos; omega
  have hord : ¬ (midTime qf > midTime qt) := by unfold midTime; omega
  simp only [hne, hord, if_false] at hi
  have m1 := midToIndex_mono h hq
  exact (Bitmask.hasBitsIn_iff h.bytes _ _ (by omega)).1 hi

/-! ## JSON round trip -/

theorem toInt64_toUint64 {x : Int} (h1 : -9223372036854775808 ≤ x) (h2 : x ≤ 9223372036854775807) :
    toInt64 (toUint64 x) = x := by
  unfold toInt64 toUint64; split <;> omega

theorem toInt64_of_lt {m : Nat} (h : m < 9223372036854775808) : toInt64 m = m := by
  unfold toInt64; split <;> omega

theorem toInt64_of_ge {m : Nat} (h1 : 9223372036854775808 ≤ m) (h2 : m < 18446744073709551616) :
    toInt64 m = (m : Int) - 18446744073709551616 := by
  unfold toInt64; split <;> omega

/-- what the persisted form can represent: ends on whole milliseconds inside the int64-ms range, bucket a whole
number of seconds -/
structure Representable (d : Dist) : Prop where
  from_ms : d.dfrom % 1000000 = 0
  to_ms : d.dto % 1000000 = 0
  from_lo : -9223372036854775808 ≤ d.dfrom / 1000000
  from_hi : d.dfrom / 1000000 ≤ 9223372036854775807
  to_lo : -9223372036854775808 ≤ d.dto / 1000000
  to_hi : d.dto / 1000000 ≤ 9223372036854775807
  bucket_s : d.bucket % 1000000000 = 0
  bucket_hi : d.bucket ≤ 9223372036854775807

theorem json_roundtrip {d : Dist} (h : WF d) (hr : Representable d) :
    (marshal d).bind unmarshal? = some d := by
  have hb := h.bucket_pos
  have hne : ¬ (d.bucket = 0) := by omega
  unfold marshal
  simp only [hne, if_false, Option.bind_some]
  unfold unmarshal?
  have e1 : toInt64 (toUint64 (d.dfrom / 1000000)) * 1000000 = d.dfrom := by
    rw [toInt64_toUint64 hr.from_lo hr.from_hi]; have := hr.from_ms; omega
  have e2 : toInt64 (toUint64 (d.dto / 1000000)) * 1000000 = d.dto := by
    rw [toInt64_toUint64 hr.to_lo hr.to_hi]; have := hr.to_ms; omega
  have q : Int.tdiv d.bucket 1000000000 = d.bucket / 1000000000 := Int.tdiv_eq_ediv_of_nonneg (by omega)
  have e3 : toInt64 (toUint64 (1000000000 * toInt64 (toUint64 (Int.tdiv d.bucket 1000000000)))) = d.bucket := by
    rw [q]
    have hs := hr.bucket_s
    have hh := hr.bucket_hi
    have inner : toInt64 (toUint64 (d.bucket / 1000000000)) = d.bucket / 1000000000 :=
      toInt64_toUint64 (by omega) (by omega)
    rw [inner, toInt64_toUint64 (by omega) (by omega)]
    omega
  simp only [e1, e2, e3, hne, if_false]
  unfold Bitmask.load?
  have h3 := size_ge_three h
  rw [← h.size_eq]
  have c1 : ¬ (Int.tdiv (d.mask.size + 7) 8 < 0) := by
    rw [Int.tdiv_eq_ediv_of_nonneg (by omega)]; omega
  have c2 : ¬ (d.mask.bin.length < nbytes d.mask.size) := by rw [h.len_eq]; omega
  simp only [c1, c2, if_false, Option.map_some]
  rw [← h.len_eq, List.take_length]

theorem foldl_add_fields (d : Dist) (ms : List Nat) :
    (ms.foldl add d).dfrom = d.dfrom ∧ (ms.foldl add d).dto = d.dto ∧ (ms.foldl add d).bucket = d.bucket := by
  induction ms generalizing d with
  | nil => exact ⟨rfl, rfl, rfl⟩
  | cons a ms ih => simp only [List.foldl_cons]; exact ih (add d a)

theorem representable_foldl_add {d : Dist} (h : Representable d) (ms : List Nat) : Representable (ms.foldl add d) := by
  have f := foldl_add_fields d ms
  constructor
  · rw [f.1]; exact h.from_ms
  · rw [f.2.1]; exact h.to_ms
  · rw [f.1]; exact h.from_lo
  · rw [f.1]; exact h.from_hi
  · rw [f.2.1]; exact h.to_lo
  · rw [f.2.1]; exact h.to_hi
  · rw [f.2.2]; exact h.bucket_s
  · rw [f.2.2]; exact h.bucket_hi

/-- a set bit of `ms.foldl add d` was set in `d` or is the bucket of an added MID (no spurious bits) -/
theorem bit_foldl_add_inv {d : Dist} (h : WF d) (ms : List Nat) (q : Nat)
    (hq : Bitmask.bit (ms.foldl add d).mask.bin q = true) :
    Bitmask.bit d.mask.bin q = true ∨ ∃ m, m ∈ ms ∧ q = (midToIndex d m).toNat := by
  induction ms generalizing d with
  | nil => exact Or.inl hq
  | cons a ms ih =>
    simp only [List.foldl_cons] at hq
    rcases ih (wf_add h a) hq with h1 | ⟨m, hm, hqm⟩
    · rw [bit_add h] at h1
      simp only [Bool.or_eq_true, decide_eq_true_eq] at h1
      rcases h1 with h1 | h1
      · exact Or.inr ⟨a, List.mem_cons_self, h1⟩
      · exact Or.inl h1
    · exact Or.inr ⟨m, List.mem_cons_of_mem _ hm, by rw [hqm, midToIndex_add]⟩

/-! ## the int64 reading of MIDs -/

/-- both ends of a MID range lie on the same side of `2^63`, i.e. `MID.Time()` keeps their order -/
def SameSide (qf qt : Nat) : Prop := qt < 9223372036854775808 ∨ 9223372036854775808 ≤ qf

instance (qf qt : Nat) : Decidable (SameSide qf qt) := by unfold SameSide; infer_instance

theorem toInt64_mono_of_sameSide {a b : Nat} (hab : a ≤ b) (hb : b < 18446744073709551616) (hs : SameSide a b) :
    toInt64 a ≤ toInt64 b := by
  unfold SameSide at hs
  unfold toInt64
  split <;> split <;> omega

theorem sameSide_left {qf m qt : Nat} (_h1 : qf ≤ m) (h2 : m ≤ qt) (hs : SameSide qf qt) : SameSide qf m := by
  unfold SameSide at *; omega

theorem sameSide_right {qf m qt : Nat} (h1 : qf ≤ m) (_h2 : m ≤ qt) (hs : SameSide qf qt) : SameSide m qt := by
  unfold SameSide at *; omega

theorem sameSide_self (m : Nat) : SameSide m m := by unfold SameSide; omega

theorem sameSide_of_ordered {qf qt : Nat} (h : qf ≤ qt) (hqt : qt < 18446744073709551616)
    (ho : ¬ (midTime qf > midTime qt)) : SameSide qf qt := by
  unfold SameSide
  unfold midTime toInt64 at ho
  split at ho <;> split at ho <;> omega

/-- **soundness in uint64 terms** (the comparison the rest of the store uses): a set bit of a MID `m` with
`qf ≤ m ≤ qt` makes `IsIntersecting qf qt` true - also when the range crosses `2^63` -/
theorem isIntersecting_of_bit_u {d : Dist} (h : WF d) {qf qt m : Nat} (h1 : qf ≤ m) (h2 : m ≤ qt)
    (hqt : qt < 18446744073709551616)
    (hb : Bitmask.bit d.mask.bin (midToIndex d m).toNat = true) : isIntersecting d qf qt = true := by
  by_cases ho : midTime qf > midTime qt
  · unfold isIntersecting
    have hne : ¬ (d.bucket = 0) := by have := h.bucket_pos; omega
    simp only [hne, ho, if_true, if_false]
  · have hs := sameSide_of_ordered (Nat.le_trans h1 h2) hqt ho
    exact isIntersecting_of_bit h
      (toInt64_mono_of_sameSide h1 (by omega) (sameSide_left h1 h2 hs))
      (toInt64_mono_of_sameSide h2 hqt (sameSide_right h1 h2 hs)) hb

end SV.Dist
