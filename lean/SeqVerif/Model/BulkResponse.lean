import SeqVerif.Model.Bulk
/-!
# `writeBulkResponse` (proxyapi/http_bulk.go): the body of a successful answer

`{"took":<ms>,"errors":false,"items":[` then, for `i := 0; i < total; i++`, a comma when `i != 0` and the constant
`{"create":{"status":201}}`, then `]}`.
-/
namespace SV.Bulk

/-- `{"create":{"status":201}}` -/
def itemCreated : Bytes :=
  [123, 34, 99, 114, 101, 97, 116, 101, 34, 58, 123, 34, 115, 116, 97, 116, 117, 115, 34, 58, 50, 48, 49, 125, 125]

/-- `{"took":` -/
def respHead : Bytes := [123, 34, 116, 111, 111, 107, 34, 58]
/-- `,"errors":false,"items":[` -/
def respMid : Bytes :=
  [44, 34, 101, 114, 114, 111, 114, 115, 34, 58, 102, 97, 108, 115, 101, 44, 34, 105, 116, 101, 109, 115, 34, 58, 91]
/-- `]}` -/
def respTail : Bytes := [93, 125]

/-- the loop `for i := 0; i < total; i++ { if i != 0 { "," }; itemCreated }` after `n` iterations -/
def writeItems : Nat → Bytes
  | 0 => []
  | n + 1 => writeItems n ++ (if n ≠ 0 then [44] else []) ++ itemCreated

/-- `strconv.AppendInt(took.Milliseconds(), 10)` for a non-negative duration -/
def decimal (n : Nat) : Bytes := (Nat.repr n).toList.map Char.toNat

/-- `writeBulkResponse(w, took, total)` -/
def bulkResponse (tookMs total : Nat) : Bytes :=
  respHead ++ decimal tookMs ++ respMid ++ writeItems total ++ respTail

/-- `n` items separated by commas, written from the front -/
def joinItems : Nat → Bytes
  | 0 => []
  | 1 => itemCreated
  | n + 2 => itemCreated ++ 44 :: joinItems (n + 1)

theorem joinItems_succ (n : Nat) : joinItems (n + 1) = itemCreated ++ (if n = 0 then [] else 44 :: joinItems n) := by
  cases n with
  | zero => simp [joinItems]
  | succ n => simp [joinItems]

theorem joinItems_snoc (n : Nat) : joinItems (n + 2) = joinItems (n + 1) ++ 44 :: itemCreated := by
  induction n with
  | zero => simp [joinItems]
  | succ n ih =>
    calc joinItems (n + 3) = itemCreated ++ 44 :: joinItems (n + 2) := rfl
      _ = itemCreated ++ 44 :: (joinItems (n + 1) ++ 44 :: itemCreated) := by rw [ih]
      _ = (itemCreated ++ 44 :: joinItems (n + 1)) ++ 44 :: itemCreated := by simp
      _ = joinItems (n + 2) ++ 44 :: itemCreated := rfl

theorem writeItems_succ_eq (n : Nat) : writeItems (n + 1) = joinItems (n + 1) := by
  induction n with
  | zero => simp [writeItems, joinItems]
  | succ n ih =>
    rw [writeItems, ih, joinItems_snoc]
    simp

theorem writeItems_eq (n : Nat) : writeItems n = joinItems n := by
  cases n with
  | zero => rfl
  | succ n => exact writeItems_succ_eq n

/-! ## reading the items back (what a client does with the answer) -/

def stripItem (b : Bytes) : Option Bytes :=
  if itemCreated.isPrefixOf b then some (b.drop itemCreated.length) else none

/-- after an item: `]}` ends the list, `,` must be followed by another item -/
def parseTail : Nat → Bytes → Option Nat
  | _, [93, 125] => some 0
  | f + 1, 44 :: rest =>
    match stripItem rest with
    | some r => (parseTail f r).map (· + 1)
    | none => none
  | _, _ => none

/-- the number of `{"create":{"status":201}}` items of a well-formed `items` array body (`none` when malformed,
e.g. a trailing comma) -/
def parseItemList (b : Bytes) : Option Nat :=
  if b = [93, 125] then some 0
  else match stripItem b with
    | some r => (parseTail b.length r).map (· + 1)
    | none => none

theorem stripItem_item (r : Bytes) : stripItem (itemCreated ++ r) = some r := by
  have : itemCreated.isPrefixOf (itemCreated ++ r) = true := by
    rw [List.isPrefixOf_iff_prefix]; exact List.prefix_append _ _
  simp [stripItem, this]

theorem parseTail_join : ∀ (n f : Nat), n ≤ f →
    parseTail f ((if n = 0 then [] else 44 :: joinItems n) ++ respTail) = some n := by
  intro n
  induction n with
  | zero => intro f _; cases f <;> simp [parseTail, respTail]
  | succ n ih =>
    intro f hf
    cases f with
    | zero => omega
    | succ f =>
      simp only [Nat.succ_ne_zero, if_false, List.cons_append, parseTail]
      rw [joinItems_succ, List.append_assoc, stripItem_item]
      simp [ih f (by omega)]

theorem le_length_joinItems (n : Nat) : n ≤ (joinItems n).length := by
  induction n with
  | zero => simp
  | succ n ih =>
    rw [joinItems_succ]
    by_cases h : n = 0
    · simp [h, itemCreated]
    · simp only [h, if_false, List.length_append, List.length_cons]; simp [itemCreated]; omega

/-- **the answer lists exactly `total` created items**: the items array written by the loop reads back as
`total` items -/
theorem parseItemList_response (total : Nat) : parseItemList (writeItems total ++ respTail) = some total := by
  rw [writeItems_eq]
  cases total with
  | zero => simp [parseItemList, joinItems, respTail]
  | succ n =>
    have hne : joinItems (n + 1) ++ respTail ≠ [93, 125] := by
      rw [joinItems_succ]; simp [itemCreated]
    have hfuel : n ≤ (itemCreated ++ ((if n = 0 then [] else 44 :: joinItems n) ++ respTail)).length := by
      have := le_length_joinItems n
      by_cases h : n = 0
      · simp [h]
      · simp only [h, if_false, List.length_append, List.length_cons]; omega
    unfold parseItemList
    rw [if_neg hne, joinItems_succ, List.append_assoc, stripItem_item]
    show (parseTail _ _).map (· + 1) = some (n + 1)
    rw [parseTail_join n _ hfuel]
    rfl

end SV.Bulk
