import SeqVerif.Model.ProxyFrac
import SeqVerif.Model.ActiveConc
import SeqVerif.Extracted.C07
/-!
The four places where the C07 models follow the source through extracted facts (re-read on every run): does
`proxyFrac.Append` give the WaitGroup back when the write failed, in which direction `addLIDsToTokens` walks the
tokens, does `GetBlocksOffsets` re-read `DocBlocks`.  Theorems are proved for every configuration; the driver and
the `c07_cur_*` corollaries use this one.
-/
namespace SV.C07
open SV.Extracted.C07

def fixedQueueLoop : String := "for i := len(tlids) - 1; i >= 0; i--"

/-- `fx` of `SV.ProxyFrac.step` -/
def fx : Bool := decide (appendErrorPath = ["indexWg.Done"])

/-- configuration of `SV.ActiveConc.step` -/
def cfg : SV.ActiveConc.Cfg := ⟨decide (queueLoop = fixedQueueLoop), fetchBlocksRefresh, tokenListAppendLocked⟩

end SV.C07
