import SeqVerif.Model.C03Ids
import SeqVerif.Base.Search
/-!
# C03 - documents: doc blocks, the sorted-docs rewriting of sealing, and fetch

* `encDoc` / `extractDoc`: a doc block payload is a sequence of `uint32 length + bytes`; `extractDocsFromBlockFunc`
  reads one document at a byte offset (disk/docs_reader.go);
* `DW`, `writeDoc`, `flushBlock`, `flushDW` = `docBlocksWriter.WriteDoc / flushBlock / Flush` (frac/active_sealer.go):
  `Positions[id] = PackDocPos(curBlockIndex, len(docs))`, a block is closed when its payload exceeds `minBlockSize`,
  `BlockOffsets` collects the file offset of every closed block (`clen i p` = compressed length of the i-th block with payload `p`, an oracle);
* `sortDocsGo` = `writeDocBlocksInOrder`: documents re-read from the active docs file in sorted ID order, equal
  neighbours written once;
* `readAt` = the read path shared by both forms: `DocPos.Unpack`, `GetBlocksOffsets(block)`, `ReadDocs(offset, ..)`;
* `groupDocsOffsets` + `indexFetch` = `seq.GroupDocsOffsets` + `processor.IndexFetch`;
* `findOne` = one round of `sealedFetchIndex.findLIDs` (search range reset to 1), `sealedDocPos` = `GetDocPos`.
-/
namespace SV.C03

abbrev DocB := List Nat

def le32 (n : Nat) : List Nat := [n % 256, n / 256 % 256, n / 65536 % 256, n / 16777216 % 256]

/-- `binary.LittleEndian.Uint32(block[offset:])` -/
def unle32 (bs : List Nat) : Nat := bs.getD 0 0 + 256 * bs.getD 1 0 + 65536 * bs.getD 2 0 + 16777216 * bs.getD 3 0

def encDoc (d : DocB) : List Nat := le32 d.length ++ d

/-- `extractDocsFromBlockFunc` for one offset -/
def extractDoc (block : List Nat) (off : Nat) : DocB := ((block.drop off).drop 4).take (unle32 (block.drop off))

structure DW where
  curBlockIndex : Nat
  currentBlockOffset : Nat
  docs : List Nat
  blockOffsets : List Nat
  positions : List (ID × Nat)            -- the map, newest entry first
  file : List (Nat × List Nat)           -- (offset, payload) of every written block
deriving Repr, DecidableEq

def DW.init : DW := ⟨0, 0, [], [], [], []⟩

def flushBlock (clen : Nat → List Nat → Nat) (w : DW) : DW :=
  { w with docs := [], blockOffsets := w.blockOffsets ++ [w.currentBlockOffset], curBlockIndex := w.curBlockIndex + 1,
           currentBlockOffset := w.currentBlockOffset + clen w.curBlockIndex w.docs, file := w.file ++ [(w.currentBlockOffset, w.docs)] }

/-- `WriteDoc`; `none` = the panic of `PackDocPos` (offset beyond 2^30-1) -/
def writeDoc (clen : Nat → List Nat → Nat) (minBlockSize : Nat) (w : DW) (id : ID) (doc : DocB) : Option DW :=
  match packDocPos w.curBlockIndex w.docs.length with
  | none => none
  | some pos =>
    let w1 : DW := { w with positions := (id, pos) :: w.positions, docs := w.docs ++ encDoc doc }
    some (if w1.docs.length > minBlockSize then flushBlock clen w1 else w1)

/-- `getDocBlocksWriter`: `if blockSize <= 0 { blockSize = consts.MB * 4 }` -/
def docBlockSizeOf (blockSize : Nat) : Nat := if blockSize = 0 then 4194304 else blockSize

/-- `Flush` -/
def flushDW (clen : Nat → List Nat → Nat) (w : DW) : DW := if w.docs.length > 0 then flushBlock clen w else w

/-- `writeDocBlocksInOrder` (`oldRead` = position look-up + `ReadDocsFunc` on the active docs file; `none` = a panic) -/
def sortDocsGo (clen : Nat → List Nat → Nat) (minBlockSize : Nat) (oldRead : ID → Option DocB) : List ID → ID → DW → Option DW
  | [], _, w => some w
  | id :: rest, prev, w =>
    if id = prev then sortDocsGo clen minBlockSize oldRead rest prev w else
    match oldRead id with
    | none => none
    | some doc =>
      match writeDoc clen minBlockSize w id doc with
      | none => none
      | some w' => sortDocsGo clen minBlockSize oldRead rest id w'

/-- `writeSortedDocs`: ids without the system slot, then `Flush` -/
def writeSortedDocs (clen : Nat → List Nat → Nat) (minBlockSize : Nat) (oldRead : ID → Option DocB) (sortedIDs : List ID) : Option DW :=
  (sortDocsGo clen (docBlockSizeOf minBlockSize) oldRead sortedIDs.tail (0, 0) DW.init).map (flushDW clen)

def lookupPos (positions : List (ID × Nat)) (id : ID) : Option Nat := (positions.find? (fun p => p.1 == id)).map (·.2)

def lookupFile (file : List (Nat × List Nat)) (off : Nat) : Option (List Nat) := (file.find? (fun p => p.1 == off)).map (·.2)

/-- the read path of both forms for one found position -/
def readAt (offsets : List Nat) (file : List (Nat × List Nat)) (pos : Nat) : Option DocB :=
  match offsets[(unpackDocPos pos).1]? with
  | none => none
  | some bo => (lookupFile file bo).map (extractDoc · (unpackDocPos pos).2)

/-! ## GroupDocsOffsets + IndexFetch -/

def docPosNotFound : Nat := 18446744073709551615

/-- `blocks[b]`, `offsets[b]`, `index[b]` of `GroupDocsOffsets` kept together: (block, [(position in the request, doc offset)]) -/
abbrev Groups := List (Nat × List (Nat × Nat))

/-- `b, ok := uniq[block]; if !ok { new group }; index[b] = append(index[b], i); offsets[b] = append(offsets[b], offset)` -/
def addTo : Groups → Nat → Nat × Nat → Groups
  | [], b, x => [(b, [x])]
  | (b', xs) :: rest, b, x => if b' = b then (b', xs ++ [x]) :: rest else (b', xs) :: addTo rest b x

def groupGo : List Nat → Nat → Groups → Groups
  | [], _, g => g
  | p :: ps, i, g =>
    groupGo ps (i + 1) (if p = docPosNotFound then g else addTo g (unpackDocPos p).1 (i, (unpackDocPos p).2))

/-- `seq.GroupDocsOffsets` -/
def groupDocsOffsets (docsPos : List Nat) : Groups := groupGo docsPos 0 []

/-- the loop of `IndexFetch`: per group `ReadDocs(GetBlocksOffsets(block), offsets)` and `res[dst] = docs[src]`;
outer `none` = an error / panic (missing block), inner `none` = the slot stays nil -/
def fetchGroups (offsets : List Nat) (file : List (Nat × List Nat)) : Groups → List (Option DocB) → Option (List (Option DocB))
  | [], res => some res
  | (b, xs) :: rest, res =>
    match offsets[b]? with
    | none => none
    | some bo =>
      match lookupFile file bo with
      | none => none
      | some payload => fetchGroups offsets file rest (xs.foldl (fun r x => r.set x.1 (some (extractDoc payload x.2))) res)

/-- `processor.IndexFetch` given the positions `GetDocPos` returned -/
def indexFetch (offsets : List Nat) (file : List (Nat × List Nat)) (docsPos : List Nat) : Option (List (Option DocB)) :=
  fetchGroups offsets file (groupDocsOffsets docsPos) (List.replicate docsPos.length none)

/-! ## the fetch path of both forms for one ID -/

/-- one round of `sealedFetchIndex.findLIDs` with the search range reset (`left = 1`): 0 = not found -/
def findOne (per : Nat) (t : IDsTable) (blocks : List IDBlockDisk) (id : ID) : Nat :=
  let right := t.idsTotal - 1
  let lid := SV.binSearchInRange 1 right (fun l => (lessOrEqual per t blocks l id).getD false)
  if lid ≤ right ∧ getMID per blocks lid = some id.1 ∧ getRID per blocks lid = some id.2 then lid else 0

/-- `sealedFetchIndex.GetDocPos` for one ID (`getDocPosByLIDs`: LID 0 -> DocPosNotFound) -/
def sealedDocPos (per : Nat) (t : IDsTable) (blocks : List IDBlockDisk) (id : ID) : Nat :=
  let lid := findOne per t blocks id
  if lid = 0 then docPosNotFound else (getPos per blocks lid).getD docPosNotFound

/-- `activeFetchIndex.GetDocPos` for one ID (`DocsPositions.GetSync`) -/
def activeDocPos (positions : List (ID × Nat)) (id : ID) : Nat := (lookupPos positions id).getD docPosNotFound

/-- `IndexFetch` for a single ID: nil for `DocPosNotFound`, else the document at the position -/
def fetchAt (offsets : List Nat) (file : List (Nat × List Nat)) (pos : Nat) : Option DocB :=
  if pos = docPosNotFound then none else readAt offsets file pos

end SV.C03
