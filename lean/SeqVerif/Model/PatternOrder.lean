import SeqVerif.Model.Pattern
/-!
# `bcmp` (bytes.Compare) is a total order; `cut` is monotone (C13 helper lemmas)
-/
namespace SV.Pattern

def bLe (a b : Bytes) : Prop := bcmp a b ≠ .gt
def bLt (a b : Bytes) : Prop := bcmp a b = .lt

instance (a b : Bytes) : Decidable (bLt a b) := by unfold bLt; infer_instance
instance (a b : Bytes) : Decidable (bLe a b) := by unfold bLe; infer_instance

theorem bcmp_refl (a : Bytes) : bcmp a a = .eq := by
  induction a with
  | nil => rfl
  | cons x xs ih => simp [bcmp, ih]

theorem bcmp_eq_iff (a b : Bytes) : bcmp a b = .eq ↔ a = b := by
  induction a generalizing b with
  | nil => cases b <;> simp [bcmp]
  | cons x xs ih =>
    cases b with
    | nil => simp [bcmp]
    | cons y ys =>
      simp only [bcmp]
      split
      · simp; omega
      · split
        · simp; omega
        · rw [ih]; simp; omega

theorem bcmp_swap (a b : Bytes) : bcmp b a = (bcmp a b).swap := by
  induction a generalizing b with
  | nil => cases b <;> simp [bcmp, Ordering.swap]
  | cons x xs ih =>
    cases b with
    | nil => simp [bcmp, Ordering.swap]
    | cons y ys =>
      simp only [bcmp]
      by_cases h1 : x < y
      · have : ¬ y < x := by omega
        simp [h1, this, Ordering.swap]
      · by_cases h2 : y < x
        · simp [h1, h2, Ordering.swap]
        · simp [h1, h2, ih]

theorem bcmp_gt_iff (a b : Bytes) : bcmp a b = .gt ↔ bcmp b a = .lt := by
  rw [bcmp_swap a b]; cases bcmp a b <;> simp [Ordering.swap]

theorem bLt_trans {a b c : Bytes} (h1 : bLt a b) (h2 : bLt b c) : bLt a c := by
  unfold bLt at *
  induction a generalizing b c with
  | nil =>
    cases c with
    | nil => cases b <;> simp [bcmp] at h1 h2
    | cons z zs => simp [bcmp]
  | cons x xs ih =>
    cases b with
    | nil => simp [bcmp] at h1
    | cons y ys =>
      cases c with
      | nil => simp [bcmp] at h2
      | cons z zs =>
        simp only [bcmp] at h1 h2 ⊢
        by_cases hxy : x < y
        · by_cases hyz : y < z
          · have : x < z := by omega
            simp [this]
          · by_cases hzy : z < y
            · simp [hyz, hzy] at h2
            · have : x < z := by omega
              simp [this]
        · by_cases hyx : y < x
          · simp [hxy, hyx] at h1
          · simp only [hxy, hyx, if_false] at h1
            have hxy' : x = y := by omega
            subst hxy'
            by_cases hyz : x < z
            · simp [hyz]
            · by_cases hzy : z < x
              · simp [hyz, hzy] at h2
              · simp only [hyz, hzy, if_false] at h2 ⊢
                exact ih h1 h2

theorem bLe_of_bLt {a b : Bytes} (h : bLt a b) : bLe a b := by unfold bLe bLt at *; rw [h]; simp

theorem bLe_refl (a : Bytes) : bLe a a := by unfold bLe; rw [bcmp_refl]; simp

theorem bLe_iff (a b : Bytes) : bLe a b ↔ bLt a b ∨ a = b := by
  unfold bLe bLt
  rw [← bcmp_eq_iff]
  cases bcmp a b <;> simp

theorem not_bLe_iff (a b : Bytes) : ¬ bLe a b ↔ bLt b a := by
  unfold bLe bLt
  rw [← bcmp_gt_iff]; simp

theorem bLt_irrefl (a : Bytes) : ¬ bLt a a := by unfold bLt; rw [bcmp_refl]; simp

theorem bLe_trans {a b c : Bytes} (h1 : bLe a b) (h2 : bLe b c) : bLe a c := by
  rw [bLe_iff] at *
  rcases h1 with h1 | rfl
  · rcases h2 with h2 | rfl
    · exact Or.inl (bLt_trans h1 h2)
    · exact Or.inl h1
  · exact h2

theorem bLt_of_bLt_of_bLe {a b c : Bytes} (h1 : bLt a b) (h2 : bLe b c) : bLt a c := by
  rw [bLe_iff] at h2
  rcases h2 with h2 | rfl
  · exact bLt_trans h1 h2
  · exact h1

theorem bLt_of_bLe_of_bLt {a b c : Bytes} (h1 : bLe a b) (h2 : bLt b c) : bLt a c := by
  rw [bLe_iff] at h1
  rcases h1 with h1 | rfl
  · exact bLt_trans h1 h2
  · exact h2

theorem bLt_asymm {a b : Bytes} (h : bLt a b) : ¬ bLt b a := fun h' => bLt_irrefl a (bLt_trans h h')

theorem bLe_antisymm {a b : Bytes} (h1 : bLe a b) (h2 : bLe b a) : a = b := by
  rw [bLe_iff] at h1 h2
  rcases h1 with h1 | h1
  · rcases h2 with h2 | h2
    · exact absurd h2 (bLt_asymm h1)
    · exact h2.symm
  · exact h1

theorem bLe_total (a b : Bytes) : bLe a b ∨ bLe b a := by
  by_cases h : bLe a b
  · exact Or.inl h
  · exact Or.inr (bLe_of_bLt ((not_bLe_iff a b).mp h))

/-- `cut` is monotone: `a ≤ b → a[:l] ≤ b[:l]` -/
theorem cut_mono {a b : Bytes} (l : Nat) (h : bLe a b) : bLe (cut a l) (cut b l) := by
  unfold bLe cut at *
  induction l generalizing a b with
  | zero => simp [bcmp]
  | succ l ih =>
    cases a with
    | nil => cases b <;> simp [bcmp]
    | cons x xs =>
      cases b with
      | nil => simp [bcmp] at h
      | cons y ys =>
        simp only [List.take_succ_cons, bcmp] at h ⊢
        by_cases h1 : x < y
        · simp [h1]
        · by_cases h2 : y < x
          · simp [h1, h2] at h
          · simp only [h1, h2, if_false] at h ⊢
            exact ih h

/-- a token has `pre` as prefix iff its cut equals `pre` -/
theorem cut_eq_iff_prefix (v pre : Bytes) : cut v pre.length = pre ↔ ∃ w, v = pre ++ w := by
  unfold cut
  constructor
  · intro h; exact ⟨v.drop pre.length, by conv => lhs; rw [← List.take_append_drop pre.length v, h]⟩
  · rintro ⟨w, rfl⟩; simp

end SV.Pattern
