/-!
# C01 - hand-over of a token's queued LIDs (`frac/active_lids.go`)

`getQueuedLIDs` gives the queued LIDs to the merge (`GetLIDs` sorts and merges them after the queue lock has been
released) and leaves the token with an empty queue; `PutLIDsInQueue` appends.  Go slices alias their backing array,
so what "an empty queue" is matters: `nil` (a later append allocates) or `queue[:0]` (a later append writes into the
array the merge is still reading).  The model keeps the array the merge reads (`backing`, of which it reads the first
`takenLen` cells) and says whether the token's queue still shares it.  Core-only.
-/
namespace SV.LidQ

inductive Queue where
  | own (xs : List Nat)        -- a backing array of its own (or nil)
  | shared (len : Nat)         -- `backing[:len]`: the array handed to the merge
deriving DecidableEq, Repr

structure St where
  backing : List Nat           -- the array behind the slice the merge received (its full capacity)
  takenLen : Nat               -- the merge reads backing[:takenLen]
  queue : Queue
deriving DecidableEq, Repr

/-- what the merge sees -/
def view (s : St) : List Nat := s.backing.take s.takenLen

/-- `lids := tl.queue; tl.queue = nil` (byValue) or `tl.queue = tl.queue[:0]` -/
def take (q : List Nat) (cap : Nat) (byValue : Bool) : St :=
  ⟨q ++ List.replicate (cap - q.length) 0, q.length, if byValue then .own [] else .shared 0⟩

/-- `tl.queue = append(tl.queue, lids...)` -/
def put (s : St) (xs : List Nat) : St :=
  match s.queue with
  | .own ys => { s with queue := .own (ys ++ xs) }
  | .shared len =>
    if len + xs.length ≤ s.backing.length then
      { s with backing := s.backing.take len ++ xs ++ s.backing.drop (len + xs.length), queue := .shared (len + xs.length) }
    else { s with queue := .own (s.backing.take len ++ xs) }

def puts (s : St) (batches : List (List Nat)) : St := batches.foldl put s

theorem put_own (s : St) (ys xs : List Nat) (h : s.queue = .own ys) :
    (put s xs).backing = s.backing ∧ (put s xs).takenLen = s.takenLen ∧ (put s xs).queue = .own (ys ++ xs) := by
  simp [put, h]

/-- after a by-value hand-over no later `PutLIDsInQueue` changes what the merge reads -/
theorem puts_own (batches : List (List Nat)) (s : St) (ys : List Nat) (h : s.queue = .own ys) :
    view (puts s batches) = view s := by
  induction batches generalizing s ys with
  | nil => rfl
  | cons b bs ih =>
    obtain ⟨h1, h2, h3⟩ := put_own s ys b h
    have := ih (put s b) _ h3
    simp only [puts, List.foldl_cons] at this ⊢
    rw [this, view, view, h1, h2]

end SV.LidQ
