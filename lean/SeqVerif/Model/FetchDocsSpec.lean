import SeqVerif.Model.FetchDocs
/-!
# C04 - `FetchDocs` equals the per-ID lookup (proof of the refinement used by `c04_fetch_eq_spec`)
-/
namespace SV.Fetch

variable {D : Type}

/-- what fraction `f` holds under `id`, `P f` being the fraction's position function -/
def holds (bits : Nat) (P : Frac D → ID → Nat) (f : Frac D) (id : ID) : Option D :=
  posDoc bits f.readDoc (P f id)

/-- is fraction `f` admissible for the request entry `s` (no hint, or the hint names it) -/
def hintOK (s : IDS) (f : Frac D) : Bool :=
  match s.hint with
  | none => true
  | some h => h = f.name

/-- **Spec of one entry**: the document of the last fraction (in list order) that is admissible by the hint and
holds the ID; `none` when no admissible fraction holds it. -/
def specDoc (bits : Nat) (P : Frac D → ID → Nat) : List (Frac D) → IDS → Option D
  | [], _ => none
  | f :: rest, s => (specDoc bits P rest s).or (if hintOK s f then holds bits P f s.id else none)

/-- a fraction behaves like its position function, and its range filters never hide a document it holds -/
structure FracWF (bits : Nat) (P : Frac D → ID → Nat) (f : Frac D) : Prop where
  pos : ∀ ids, f.getDocPos ids = some (ids.map (P f))
  contains : ∀ id, P f id ≠ notFound → f.contains id.mid = true
  intersects : ∀ id lo hi, P f id ≠ notFound → lo ≤ id.mid → id.mid ≤ hi → f.intersects lo hi = true

theorem holds_none_of_not_contains (bits : Nat) (P : Frac D → ID → Nat) (f : Frac D) (h : FracWF bits P f) (id : ID)
    (hc : f.contains id.mid = false) : holds bits P f id = none := by
  unfold holds posDoc
  by_cases hp : P f id = notFound
  · simp [hp]
  · have := h.contains id hp; rw [hc] at this; cases this

theorem Frac.fetch_spec (bits : Nat) (P : Frac D → ID → Nat) (f : Frac D) (h : FracWF bits P f) (ids : List ID) :
    f.fetch bits ids = some (ids.map (holds bits P f)) := by
  unfold Frac.fetch
  rw [h.pos, Option.map_some, indexFetch_spec, List.map_map]
  rfl

/-! ## last write wins -/

def lastVal : List (Nat × D) → Nat → Option D
  | [], _ => none
  | p :: t, k => (lastVal t k).or (if p.1 = k then some p.2 else none)

theorem lastVal_append (a b : List (Nat × D)) (k : Nat) :
    lastVal (a ++ b) k = (lastVal b k).or (lastVal a k) := by
  induction a with
  | nil => simp [lastVal]
  | cons p t ih => simp only [List.cons_append, lastVal, ih, Option.or_assoc]

theorem lastVal_none (l : List (Nat × D)) (k : Nat) (h : ∀ x, x ∈ l → x.1 ≠ k) : lastVal l k = none := by
  induction l with
  | nil => rfl
  | cons p t ih =>
    simp only [lastVal, ih (fun x hx => h x (by simp [hx])), if_neg (h p (by simp))]
    rfl

theorem setAll_lastVal (l : List (Nat × D)) (res : List (Option D)) (k : Nat) :
    (setAll l res)[k]? = (res[k]?).map (fun r => (lastVal l k).or r) := by
  induction l generalizing res with
  | nil => simp [setAll, lastVal]
  | cons p t ih =>
    have : setAll (p :: t) res = setAll t (res.set p.1 (some p.2)) := rfl
    rw [this, ih, List.getElem?_set]
    by_cases hpk : p.1 = k
    · subst hpk
      by_cases hk : p.1 < res.length
      · simp [hk, lastVal]
      · simp [hk]
    · simp only [if_neg hpk, lastVal]
      cases res[k]? <;> simp

theorem arrange_getElem? (n : Nat) (l : List (Nat × D)) (k : Nat) (hk : k < n) :
    (setAll l (List.replicate n none))[k]? = some (lastVal l k) := by
  rw [setAll_lastVal, List.getElem?_replicate, if_pos hk]
  simp

/-- the entries one fraction contributes -/
def groupEntries (rp : ID → Nat) (doc : ID → Option D) (l : List ID) : List (Nat × D) :=
  l.filterMap fun id => (doc id).map fun d => (rp id, d)

theorem zip_entries (rp : ID → Nat) (doc : ID → Option D) (l : List ID) :
    ((l.zip (l.map doc)).filterMap fun p => p.2.map fun d => (rp p.1, d)) = groupEntries rp doc l := by
  induction l with
  | nil => rfl
  | cons x t ih =>
    simp only [List.map_cons, List.zip_cons_cons, groupEntries, List.filterMap_cons] at *
    rw [ih]

theorem lastVal_group (rp : ID → Nat) (doc : ID → Option D) (l : List ID) (a : ID)
    (hinj : ∀ x, x ∈ l → rp x = rp a → x = a) :
    lastVal (groupEntries rp doc l) (rp a) = if a ∈ l then doc a else none := by
  induction l with
  | nil => rfl
  | cons x t ih =>
    have ih' := ih (fun y hy => hinj y (by simp [hy]))
    unfold groupEntries at *
    rw [List.filterMap_cons]
    by_cases hxa : x = a
    · subst hxa
      cases hd : doc x with
      | none =>
        simp only [Option.map_none]
        rw [ih']
        by_cases hm : x ∈ t <;> simp [hm, hd]
      | some d =>
        simp only [Option.map_some, lastVal, ih']
        by_cases hm : x ∈ t <;> simp [hm, hd]
    · have hrp : rp x ≠ rp a := fun h => hxa (hinj x (by simp) h)
      have hmem : (a ∈ x :: t) ↔ a ∈ t := by
        simp only [List.mem_cons]
        constructor
        · rintro (h | h)
          · exact absurd h.symm hxa
          · exact h
        · exact Or.inr
      cases hd : doc x with
      | none => simp only [Option.map_none, ih', hmem]
      | some d => simp only [Option.map_some, lastVal, ih', if_neg hrp, Option.or_none, hmem]

/-! ## the grouping loop -/

/-- all entries of the grouped fetch, fraction after fraction -/
def allEntries (bits : Nat) (P : Frac D → ID → Nat) (rp : ID → Nat) (gs : List (Frac D × List ID)) : List (Nat × D) :=
  gs.flatMap fun g => groupEntries rp (holds bits P g.1) g.2

theorem groupLoop_cons (f : Frac D) (rest : List (Frac D)) (cur : List IDS) :
    groupLoop (f :: rest) cur =
      if (takeFor f cur).isEmpty then groupLoop rest (keepAfter f cur)
      else (f, takeFor f cur) :: groupLoop rest (keepAfter f cur) := by
  rw [groupLoop]

theorem allEntries_loop_cons (bits : Nat) (P : Frac D → ID → Nat) (rp : ID → Nat) (f : Frac D) (rest : List (Frac D))
    (cur : List IDS) (k : Nat) :
    lastVal (allEntries bits P rp (groupLoop (f :: rest) cur)) k =
      (lastVal (allEntries bits P rp (groupLoop rest (keepAfter f cur))) k).or
        (lastVal (groupEntries rp (holds bits P f) (takeFor f cur)) k) := by
  rw [groupLoop_cons]
  by_cases he : (takeFor f cur).isEmpty = true
  · rw [if_pos he]
    have : takeFor f cur = [] := List.isEmpty_iff.mp he
    rw [this]
    simp [groupEntries, lastVal]
  · rw [if_neg he]
    simp only [allEntries, List.flatMap_cons]
    rw [lastVal_append]

theorem mem_takeFor (f : Frac D) (cur : List IDS) (id : ID) :
    id ∈ takeFor f cur ↔ ∃ s, s ∈ cur ∧ s.id = id ∧ hintOK s f = true ∧ f.contains s.id.mid = true := by
  unfold takeFor hintOK
  rw [List.mem_filterMap]
  constructor
  · rintro ⟨s, hs, h⟩
    refine ⟨s, hs, ?_⟩
    cases hh : s.hint with
    | none =>
      simp only [hh] at h
      by_cases hc : f.contains s.id.mid = true
      · simp only [hc, if_true, Option.some.injEq] at h; exact ⟨h, by simp, hc⟩
      · simp [hc] at h
    | some n =>
      simp only [hh] at h
      by_cases hn : n = f.name
      · by_cases hc : f.contains s.id.mid = true
        · simp only [hn, hc, if_true, Option.some.injEq] at h; exact ⟨h, by simp [hn], hc⟩
        · simp [hn, hc] at h
      · simp [hn] at h
  · rintro ⟨s, hs, hid, hh, hc⟩
    subst hid
    refine ⟨s, hs, ?_⟩
    cases hs' : s.hint with
    | none => simp [hc]
    | some n =>
      simp only [hs'] at hh
      have : n = f.name := by simpa using hh
      simp [this, hc]

theorem mem_keepAfter (f : Frac D) (cur : List IDS) (s : IDS) :
    s ∈ keepAfter f cur ↔ s ∈ cur ∧ (s.hint = none ∨ ∃ h, s.hint = some h ∧ h ≠ f.name) := by
  unfold keepAfter
  rw [List.mem_filter]
  cases hh : s.hint with
  | none => simp
  | some n => simp

theorem specDoc_none_of_hint (bits : Nat) (P : Frac D → ID → Nat) (fs : List (Frac D)) (s : IDS)
    (h : ∀ f, f ∈ fs → hintOK s f = false) : specDoc bits P fs s = none := by
  induction fs with
  | nil => rfl
  | cons f t ih =>
    simp only [specDoc, ih (fun x hx => h x (by simp [hx])), h f (by simp)]
    rfl

/-- once the entry is gone from the list no later group mentions its ID -/
theorem loop_dead (bits : Nat) (P : Frac D → ID → Nat) (rp : ID → Nat) (s : IDS) (fs : List (Frac D)) :
    ∀ cur : List IDS, (∀ x, x ∈ cur → rp x.id = rp s.id → x.id = s.id) → (∀ x, x ∈ cur → x.id ≠ s.id) →
      lastVal (allEntries bits P rp (groupLoop fs cur)) (rp s.id) = none := by
  induction fs with
  | nil => intro _ _ _; rfl
  | cons f rest ih =>
    intro cur hinj hdead
    rw [allEntries_loop_cons]
    have hsub : ∀ x, x ∈ keepAfter f cur → x ∈ cur := fun x hx => ((mem_keepAfter f cur x).mp hx).1
    rw [ih (keepAfter f cur) (fun x hx => hinj x (hsub x hx)) (fun x hx => hdead x (hsub x hx))]
    rw [lastVal_none]
    · rfl
    · intro e he
      unfold groupEntries at he
      rcases List.mem_filterMap.mp he with ⟨id, hid, hmap⟩
      rcases (mem_takeFor f cur id).mp hid with ⟨x, hx, hxid, _, _⟩
      cases hdoc : holds bits P f id with
      | none => rw [hdoc] at hmap; cases hmap
      | some d =>
        rw [hdoc] at hmap
        simp only [Option.map_some, Option.some.injEq] at hmap
        subst hmap
        intro hk
        apply hdead x hx
        apply hinj x hx
        rw [hxid]; exact hk

/-- **the loop delivers, at the position of entry `s`, exactly `specDoc`** -/
theorem loop_alive (bits : Nat) (P : Frac D → ID → Nat) (rp : ID → Nat) (s : IDS) (fs : List (Frac D))
    (hwf : ∀ f, f ∈ fs → FracWF bits P f) (hnames : (fs.map (·.name)).Nodup) :
    ∀ cur : List IDS, (∀ x, x ∈ cur → rp x.id = rp s.id → x.id = s.id) → (∀ x, x ∈ cur → x.id = s.id → x = s) →
      s ∈ cur → lastVal (allEntries bits P rp (groupLoop fs cur)) (rp s.id) = specDoc bits P fs s := by
  induction fs with
  | nil => intro _ _ _ _; rfl
  | cons f rest ih =>
    intro cur hinj huniq hs
    have hsub : ∀ x, x ∈ keepAfter f cur → x ∈ cur := fun x hx => ((mem_keepAfter f cur x).mp hx).1
    simp only [List.map_cons, List.nodup_cons] at hnames
    rw [allEntries_loop_cons, specDoc]
    -- this fraction's contribution
    have hthis : lastVal (groupEntries rp (holds bits P f) (takeFor f cur)) (rp s.id) =
        (if hintOK s f then holds bits P f s.id else none) := by
      rw [lastVal_group]
      · by_cases hh : hintOK s f = true
        · by_cases hc : f.contains s.id.mid = true
          · have : s.id ∈ takeFor f cur := (mem_takeFor f cur s.id).mpr ⟨s, hs, rfl, hh, hc⟩
            simp [this, hh]
          · have hc' : f.contains s.id.mid = false := by simpa using hc
            have : s.id ∉ takeFor f cur := by
              intro hm
              rcases (mem_takeFor f cur s.id).mp hm with ⟨x, hx, hxid, _, hxc⟩
              rw [hxid] at hxc; exact hc hxc
            simp [this, hh, holds_none_of_not_contains bits P f (hwf f (by simp)) s.id hc']
        · have : s.id ∉ takeFor f cur := by
            intro hm
            rcases (mem_takeFor f cur s.id).mp hm with ⟨x, hx, hxid, hxh, _⟩
            have := huniq x hx hxid
            subst this; exact hh hxh
          simp [this, hh]
      · intro id hid hrp
        rcases (mem_takeFor f cur id).mp hid with ⟨x, hx, hxid, _, _⟩
        rw [← hxid] at hrp ⊢
        exact hinj x hx hrp
    rw [hthis]
    -- the later fractions
    by_cases hkeep : s ∈ keepAfter f cur
    · rw [ih (fun x hx => hwf x (by simp [hx])) hnames.2 (keepAfter f cur) (fun x hx => hinj x (hsub x hx))
        (fun x hx => huniq x (hsub x hx)) hkeep]
    · have hhint : s.hint = some f.name := by
        cases hh : s.hint with
        | none => exact absurd ((mem_keepAfter f cur s).mpr ⟨hs, Or.inl hh⟩) hkeep
        | some n =>
          by_cases hn : n = f.name
          · rw [hn]
          · exact absurd ((mem_keepAfter f cur s).mpr ⟨hs, Or.inr ⟨n, hh, hn⟩⟩) hkeep
      rw [loop_dead bits P rp s rest (keepAfter f cur) (fun x hx => hinj x (hsub x hx))]
      · rw [specDoc_none_of_hint]
        intro g hg
        unfold hintOK
        rw [hhint]
        simp only [decide_eq_false_iff_not]
        intro hname
        exact hnames.1 (List.mem_map.mpr ⟨g, hg, hname.symm⟩)
      · intro x hx hxid
        have := huniq x (hsub x hx) hxid
        subst this; exact hkeep hx

/-- fractions dropped by `FilterInRange` hold nothing for the entry -/
theorem specDoc_filter (bits : Nat) (P : Frac D → ID → Nat) (p : Frac D → Bool) (fs : List (Frac D)) (s : IDS)
    (h : ∀ f, f ∈ fs → p f = false → holds bits P f s.id = none) :
    specDoc bits P (fs.filter p) s = specDoc bits P fs s := by
  induction fs with
  | nil => rfl
  | cons f t ih =>
    have ih' := ih (fun x hx => h x (by simp [hx]))
    by_cases hp : p f = true
    · rw [List.filter_cons_of_pos hp, specDoc, specDoc, ih']
    · have hp' : p f = false := by simpa using hp
      rw [List.filter_cons_of_neg hp, specDoc, ih', h f (by simp) hp']
      simp

/-! ## sorting -/

theorem head_rel_all {α : Type} {R : α → α → Prop} (hr : ∀ a, R a a) (l : List α) (h : l.Pairwise R) (a : α)
    (ha : l.head? = some a) : ∀ x, x ∈ l → R a x := by
  cases l with
  | nil => cases ha
  | cons y t =>
    simp only [List.head?_cons, Option.some.injEq] at ha
    subst ha
    intro x hx
    rcases List.mem_cons.mp hx with rfl | hm
    · exact hr _
    · exact (List.pairwise_cons.mp h).1 x hm

theorem ID.le_total (a b : ID) : (a.le b || b.le a) = true := by
  cases h : a.le b with
  | true => rfl
  | false => rw [ID.not_le_iff_lt] at h; simp [ID.le_of_lt h]

theorem ID.le_mid {a b : ID} (h : a.le b = true) : a.mid ≤ b.mid := by
  rw [ID.le_iff] at h; omega

theorem sortIDs_spec (ids : List IDS) (hne : ids ≠ []) :
    ∃ s lo hi, sortIDs ids = some (s, lo, hi) ∧ s.Perm ids ∧ ∀ x, x ∈ ids → lo ≤ x.id.mid ∧ x.id.mid ≤ hi := by
  have hasc : (sortAsc ids).Pairwise (fun a b => a.id.le b.id = true) :=
    List.pairwise_mergeSort (le := fun x y => x.id.le y.id) (fun a b c h1 h2 => ID.le_trans h1 h2)
      (fun a b => ID.le_total a.id b.id) ids
  have hdesc : (sortDesc ids).Pairwise (fun a b => b.id.le a.id = true) :=
    List.pairwise_mergeSort (le := fun x y => y.id.le x.id) (fun a b c h1 h2 => ID.le_trans h2 h1)
      (fun a b => ID.le_total b.id a.id) ids
  have pasc : (sortAsc ids).Perm ids := List.mergeSort_perm ids _
  have pdesc : (sortDesc ids).Perm ids := List.mergeSort_perm ids _
  unfold sortIDs
  cases hh : ids.head? with
  | none => cases ids with
    | nil => exact absurd rfl hne
    | cons a t => cases hh
  | some a =>
    cases hl : ids.getLast? with
    | none => cases ids with
      | nil => exact absurd rfl hne
      | cons a t => simp at hl
    | some b =>
      dsimp only
      split
      · -- ascending
        have hne' : sortAsc ids ≠ [] := fun h => hne (by have := pasc; rw [h] at this; exact this.symm.eq_nil)
        cases hx : (sortAsc ids).head? with
        | none => cases hs : sortAsc ids with
          | nil => exact absurd hs hne'
          | cons _ _ => rw [hs] at hx; cases hx
        | some x =>
          cases hy : (sortAsc ids).getLast? with
          | none => cases hs : sortAsc ids with
            | nil => exact absurd hs hne'
            | cons _ _ => rw [hs] at hy; simp at hy
          | some y =>
            refine ⟨_, _, _, rfl, pasc, fun z hz => ?_⟩
            have hz' : z ∈ sortAsc ids := (pasc.mem_iff).mpr hz
            have h1 := head_rel_all (fun a => ID.le_refl a.id) _ hasc x hx z hz'
            have hrev : (sortAsc ids).reverse.Pairwise (fun a b => b.id.le a.id = true) :=
              List.pairwise_reverse.mpr hasc
            have h2 := head_rel_all (fun a => ID.le_refl a.id) _ hrev y (by rw [List.head?_reverse]; exact hy) z
              (List.mem_reverse.mpr hz')
            exact ⟨ID.le_mid h1, ID.le_mid h2⟩
      · have hne' : sortDesc ids ≠ [] := fun h => hne (by have := pdesc; rw [h] at this; exact this.symm.eq_nil)
        cases hx : (sortDesc ids).head? with
        | none => cases hs : sortDesc ids with
          | nil => exact absurd hs hne'
          | cons _ _ => rw [hs] at hx; cases hx
        | some x =>
          cases hy : (sortDesc ids).getLast? with
          | none => cases hs : sortDesc ids with
            | nil => exact absurd hs hne'
            | cons _ _ => rw [hs] at hy; simp at hy
          | some y =>
            refine ⟨_, _, _, rfl, pdesc, fun z hz => ?_⟩
            have hz' : z ∈ sortDesc ids := (pdesc.mem_iff).mpr hz
            have h1 := head_rel_all (fun a => ID.le_refl a.id) _ hdesc x hx z hz'
            have hrev : (sortDesc ids).reverse.Pairwise (fun a b => a.id.le b.id = true) :=
              List.pairwise_reverse.mpr hdesc
            have h2 := head_rel_all (fun a => ID.le_refl a.id) _ hrev y (by rw [List.head?_reverse]; exact hy) z
              (List.mem_reverse.mpr hz')
            exact ⟨ID.le_mid h2, ID.le_mid h1⟩

/-! ## the position map -/

theorem reversPos_getElem (ids : List ID) (hnd : ids.Nodup) (i : Nat) (hi : i < ids.length) :
    reversPos ids ids[i] = i := by
  unfold reversPos
  have hmem : ids[i] ∈ ids.reverse := List.mem_reverse.mpr (List.getElem_mem hi)
  have hj : ids.reverse.idxOf ids[i] < ids.reverse.length := List.idxOf_lt_length_iff.mpr hmem
  have hget : ids.reverse[ids.reverse.idxOf ids[i]] = ids[i] := List.getElem_idxOf hj
  rw [List.getElem_reverse] at hget
  have hlen : ids.reverse.length = ids.length := List.length_reverse
  have hinj := (List.pairwise_iff_getElem.mp hnd)
  by_cases heq : ids.length - 1 - ids.reverse.idxOf ids[i] = i
  · exact heq
  · exfalso
    rcases Nat.lt_or_gt_of_ne heq with hlt | hgt
    · exact hinj _ _ (by omega) hi hlt hget
    · exact hinj _ _ hi (by omega) hgt hget.symm

theorem fetchGroups_spec (bits : Nat) (P : Frac D → ID → Nat) (gs : List (Frac D × List ID))
    (hwf : ∀ g, g ∈ gs → FracWF bits P g.1) :
    fetchGroups bits gs = some (gs.map fun g => (g.2, g.2.map (holds bits P g.1))) := by
  induction gs with
  | nil => rfl
  | cons g t ih =>
    obtain ⟨f, l⟩ := g
    unfold fetchGroups
    rw [Frac.fetch_spec bits P f (hwf (f, l) (by simp)) l, ih (fun x hx => hwf x (by simp [hx]))]
    rfl

theorem groupLoop_fracs (fs : List (Frac D)) : ∀ (cur : List IDS) (g : Frac D × List ID), g ∈ groupLoop fs cur → g.1 ∈ fs := by
  induction fs with
  | nil => intro _ g hg; cases hg
  | cons f t ih =>
    intro cur g hg
    unfold groupLoop at hg
    split at hg
    · exact List.mem_cons_of_mem _ (ih _ g hg)
    · rcases List.mem_cons.mp hg with rfl | hm
      · simp
      · exact List.mem_cons_of_mem _ (ih _ g hm)

/-- **`FetchDocs` returns, position by position, `specDoc`; no error, no crash** -/
theorem fetchDocs_spec (bits : Nat) (P : Frac D → ID → Nat) (fracs : List (Frac D)) (ids : List IDS)
    (hwf : ∀ f, f ∈ fracs → FracWF bits P f) (hnames : (fracs.map (·.name)).Nodup)
    (hne : ids ≠ []) (hnd : (ids.map (·.id)).Nodup) :
    fetchDocs bits fracs ids = .ok (ids.map (specDoc bits P fracs)) := by
  obtain ⟨sorted, lo, hi, hsort, hperm, hrange⟩ := sortIDs_spec ids hne
  unfold fetchDocs groupIDsByFraction
  rw [hsort, Option.map_some]
  dsimp only
  have hsubF : ∀ f, f ∈ fracs.filter (fun f => f.intersects lo hi) → f ∈ fracs := fun f hf => (List.mem_filter.mp hf).1
  rw [fetchGroups_spec bits P _ (fun g hg => hwf g.1 (hsubF _ (groupLoop_fracs _ _ g hg)))]
  dsimp only
  congr 1
  apply List.ext_getElem?
  intro k
  unfold arrange
  by_cases hk : k < ids.length
  · rw [arrange_getElem? _ _ _ hk, List.getElem?_map, List.getElem?_eq_getElem hk, Option.map_some]
    congr 1
    -- the entries are the grouped entries
    have hent : (List.flatMap (fun g : List ID × List (Option D) =>
          (g.1.zip g.2).filterMap fun p => p.2.map fun d => (reversPos (ids.map (·.id)) p.1, d))
        ((groupLoop (fracs.filter fun f => f.intersects lo hi) sorted).map fun g => (g.2, g.2.map (holds bits P g.1)))) =
        allEntries bits P (reversPos (ids.map (·.id))) (groupLoop (fracs.filter fun f => f.intersects lo hi) sorted) := by
      unfold allEntries
      rw [List.flatMap_map]
      congr 1
      funext g
      exact zip_entries _ _ _
    rw [hent]
    have hkey : reversPos (ids.map (·.id)) ids[k].id = k := by
      have := reversPos_getElem (ids.map (·.id)) hnd k (by simpa using hk)
      simpa using this
    have hinjAll : ∀ x, x ∈ ids → reversPos (ids.map (·.id)) x.id = reversPos (ids.map (·.id)) ids[k].id → x.id = ids[k].id := by
      intro x hx hrp
      rcases List.getElem_of_mem hx with ⟨j, hj, rfl⟩
      have hj' := reversPos_getElem (ids.map (·.id)) hnd j (by simpa using hj)
      simp only [List.getElem_map] at hj'
      rw [hj', hkey] at hrp
      subst hrp; rfl
    have huniqAll : ∀ x, x ∈ ids → x.id = ids[k].id → x = ids[k] := by
      intro x hx hid
      rcases List.getElem_of_mem hx with ⟨j, hj, rfl⟩
      have hinj := List.pairwise_iff_getElem.mp hnd
      by_cases hjk : j = k
      · subst hjk; rfl
      · exfalso
        rcases Nat.lt_or_gt_of_ne hjk with hlt | hgt
        · exact hinj j k (by simpa using hj) (by simpa using hk) hlt (by simpa using hid)
        · exact hinj k j (by simpa using hk) (by simpa using hj) hgt (by simpa using hid.symm)
    have hmemS : ∀ x, x ∈ sorted → x ∈ ids := fun x hx => (hperm.mem_iff).mp hx
    have hfiltNames : ((fracs.filter fun f => f.intersects lo hi).map (·.name)).Nodup :=
      (List.filter_sublist.map _).nodup hnames
    have := loop_alive bits P (reversPos (ids.map (·.id))) ids[k] (fracs.filter fun f => f.intersects lo hi)
      (fun f hf => hwf f (hsubF f hf)) hfiltNames sorted
      (fun x hx => hinjAll x (hmemS x hx)) (fun x hx => huniqAll x (hmemS x hx))
      ((hperm.mem_iff).mpr (List.getElem_mem hk))
    rw [hkey] at this
    rw [this]
    apply specDoc_filter
    intro f hf hp
    unfold holds posDoc
    by_cases hpos : P f ids[k].id = notFound
    · simp [hpos]
    · have hr := hrange ids[k] (List.getElem_mem hk)
      have := (hwf f hf).intersects ids[k].id lo hi hpos hr.1 hr.2
      rw [hp] at this; cases this
  · have h1 : (ids.map (specDoc bits P fracs))[k]? = none := by simp; omega
    rw [h1]
    apply List.getElem?_eq_none
    rw [setAll_length]; simp; omega

end SV.Fetch
