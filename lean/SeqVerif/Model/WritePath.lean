import SeqVerif.Model.WPBytes
/-!
# C01 - the write path of an active fraction, its crash points and its recovery

Executable model of
* `disk.DocBlocksReader.ReadDocBlock` / `ReadDocBlockPayload`  (`readDocBlock`, `readBlockAt`)
* the loop of `frac.Active.Replay`                              (`replayGo`, `replay`)
* `frac.ActiveWriter.Write` + `frac.Active.Append`              (`append`)
* `frac.NewActive` (writer offsets := file sizes) + `Replay`    (`restart false`)
* the proposed repair: after the replay cut both files back to the replayed end and continue writing
  there                                                        (`restart true`)
* crashes inside a bulk (`crashDisk`): fsynced data is durable, an interrupted `WriteAt` leaves a prefix.

A history is a list of `Ev`; the store state between events is that of a running process.
File offsets are unbounded naturals (files of 2^64 bytes are out of scope).  Core-only.
-/
namespace SV.WPath

/-- result of `ReadDocBlock` on the bytes between the read offset and the end of the file -/
inductive Rd where
  | eof                          -- header not complete: `getDocBlockLen` returns io.EOF, size 0
  | partialBlk                   -- header complete, block not: "last meta block is partially written"
  | panic                        -- `make([]byte, l)` with an impossible length
  | full (blk rest : Bytes)
deriving DecidableEq, Repr

def readDocBlock (bytes : Bytes) : Rd :=
  if bytes.length < headerLen then .eof
  else
    let l := (getLen bytes + headerLen) % two64      -- DocBlock.FullLen (uint64)
    if maxAlloc < l then .panic
    else if bytes.length < l then .partialBlk        -- ReadAt returned n < l with io.EOF
    else .full (bytes.take l) (bytes.drop l)

/-- what the index worker receives for one block -/
structure Entry where
  blk : Bytes   -- the meta block (after `SetExt2`)
  pos : Nat         -- `indexTask.Pos`, appended to `Active.DocBlocks`
deriving DecidableEq, Repr

structure Replayed where
  entries : List Entry
  docsPos : Nat
  metaPos : Nat
  panicked : Bool
deriving DecidableEq, Repr

/-- the loop of `Active.Replay` on the meta file bytes from `metaPos` on -/
def replayGo : Nat → Bytes → Nat → Nat → Replayed
  | 0, _, dp, mp => ⟨[], dp, mp, false⟩
  | fuel + 1, bytes, dp, mp =>
    match readDocBlock bytes with
    | .eof => ⟨[], dp, mp, false⟩
    | .partialBlk => ⟨[], dp, mp, false⟩
    | .panic => ⟨[], dp, mp, true⟩
    | .full blk rest =>
      if blk.length < headerLen then ⟨[], dp, mp, true⟩      -- GetExt1 / SetExt2 index out of range (FullLen wrapped)
      else
        let r := replayGo fuel rest (dp + getExt1 blk) (mp + blk.length)
        { r with entries := ⟨setExt2 blk dp, dp⟩ :: r.entries }

/-- every accepted block has at least 33 bytes, so `length + 1` iterations always reach the end -/
def replay (mfile : Bytes) : Replayed := replayGo (mfile.length + 1) mfile 0 0

/-- store state of a running process: the two files, the writer offsets, the blocks given to the indexer -/
structure St where
  docs : Bytes
  mfile : Bytes
  offD : Nat
  offM : Nat
  idx : List Entry
  panicked : Bool      -- start-up failed (panic in the replay); the store is down
deriving DecidableEq, Repr

def init : St := ⟨[], [], 0, 0, [], false⟩

/-- `ActiveWriter.Write`: `SetExt1(len(docs))`, `SetExt2(offset)` -/
def stampMeta (m : Bytes) (docsLen off : Nat) : Bytes := setExt2 (setExt1 m docsLen) off

/-- a complete, acknowledged `Active.Append` -/
def append (st : St) (d m : Bytes) : St :=
  let m' := stampMeta m d.length st.offD
  { st with
    docs := writeAt st.docs st.offD d
    mfile := writeAt st.mfile st.offM m'
    offD := st.offD + d.length
    offM := st.offM + m'.length
    idx := st.idx ++ [⟨m', st.offD⟩] }

/-- two bulks whose file writes interleave as docs(a) docs(b) meta(b) meta(a): what `ActiveWriter.mu` excludes
(the FileWriters alone would allow it: each reserves its own offsets).  Both are acknowledged; the indexer is
handed each meta block right after its write. -/
def appendInterleaved (st : St) (da ma db mb : Bytes) : St :=
  let ma' := stampMeta ma da.length st.offD
  let mb' := stampMeta mb db.length (st.offD + da.length)
  { st with
    docs := writeAt (writeAt st.docs st.offD da) (st.offD + da.length) db
    mfile := writeAt (writeAt st.mfile st.offM mb') (st.offM + mb'.length) ma'
    offD := st.offD + da.length + db.length
    offM := st.offM + mb'.length + ma'.length
    idx := st.idx ++ [⟨mb', st.offD + da.length⟩, ⟨ma', st.offD⟩] }

/-- where the process dies inside `ActiveWriter.Write` -/
inductive CrashPt where
  | docsTorn (k : Nat)    -- before the docs fsync returned: the first `k` bytes of the docs block are on disk
  | metaTorn (k : Nat)    -- docs block durable; the first `k` bytes of the meta block are on disk
deriving DecidableEq, Repr

/-- the two files after the crash -/
def crashDisk (st : St) (d m : Bytes) : CrashPt → Bytes × Bytes
  | .docsTorn k => (writeAt st.docs st.offD (d.take k), st.mfile)
  | .metaTorn k => (writeAt st.docs st.offD d, writeAt st.mfile st.offM ((stampMeta m d.length st.offD).take k))

/-- start-up of an active fraction: `NewActive` + `Replay`; `fix = true` is the repaired start-up -/
def restart (fix : Bool) (docs mfile : Bytes) : St :=
  let r := replay mfile
  if r.panicked then ⟨docs, mfile, docs.length, mfile.length, [], true⟩
  else if fix then
    let docs' := docs.take r.docsPos
    let mfile' := mfile.take r.metaPos
    ⟨docs', mfile', docs'.length, mfile'.length, r.entries, false⟩
  else ⟨docs, mfile, docs.length, mfile.length, r.entries, false⟩

inductive Ev where
  | bulk (d m : Blk)                       -- acknowledged bulk
  | tornBulk (d m : Blk) (pt : CrashPt)    -- crash inside this bulk (never acknowledged), then restart
  | restart                                -- process killed between bulks, then restart
deriving DecidableEq, Repr

def step (fix : Bool) (st : St) : Ev → St
  | .bulk d m => if st.panicked then st else append st (enc d) (enc m)
  | .tornBulk d m pt =>
    if st.panicked then st
    else restart fix (crashDisk st (enc d) (enc m) pt).1 (crashDisk st (enc d) (enc m) pt).2
  | .restart => restart fix st.docs st.mfile

def run (fix : Bool) (st : St) (h : List Ev) : St := h.foldl (step fix) st

/-- `ReadDocBlockPayload` at a `DocBlocks` offset (decompression is opaque): the whole block or an error -/
def readBlockAt (f : Bytes) (off : Nat) : Option Bytes :=
  match readDocBlock (f.drop off) with
  | .full blk _ => some blk
  | _ => none

/-- the bulk `(d, m)` is served: the indexer holds its meta block (ext fields aside) at an offset where the
docs file holds exactly its docs block -/
def present (st : St) (d m : Blk) : Bool :=
  st.idx.any fun e =>
    decide (stampMeta e.blk 0 0 = stampMeta (enc m) 0 0) && decide (readBlockAt st.docs e.pos = some (enc d))

/-- bulks acknowledged in a history -/
def ackedOf : List Ev → List (Blk × Blk)
  | [] => []
  | .bulk d m :: h => (d, m) :: ackedOf h
  | _ :: h => ackedOf h

/-- bulks both of whose blocks reached the disk completely (acknowledged, or crashed after the meta write) -/
def completeOf : List Ev → List (Blk × Blk)
  | [] => []
  | .bulk d m :: h => (d, m) :: completeOf h
  | .tornBulk d m (.metaTorn k) :: h => if (enc m).length ≤ k then (d, m) :: completeOf h else completeOf h
  | _ :: h => completeOf h

/-- the crash leaves bytes of an incomplete bulk behind -/
def dirty (m : Blk) : CrashPt → Bool
  | .docsTorn k => k ≠ 0
  | .metaTorn k => k < (enc m).length

def onlyRestarts : List Ev → Bool
  | [] => true
  | .restart :: h => onlyRestarts h
  | _ :: _ => false

/-- histories in which no ingestion follows a crash that left an orphan docs block or a torn tail -/
def Safe : List Ev → Bool
  | [] => true
  | .bulk _ _ :: h => Safe h
  | .restart :: h => Safe h
  | .tornBulk _ m pt :: h => if dirty m pt then onlyRestarts h else Safe h

def Ev.WF : Ev → Prop
  | .bulk d m => d.WF ∧ m.WF
  | .tornBulk d m _ => d.WF ∧ m.WF
  | .restart => True

end SV.WPath
