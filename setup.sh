#!/bin/bash
# Builds the framework from files on disk only (offline): Lean project (all registered property modules and
# drivers), extractors and harness binaries.  Checks rebuild what changed on every run; this only warms caches.
set -u -o pipefail
cd "$(dirname "$0")"
export GOFLAGS=-mod=mod GOPROXY=off
unset GOTOOLCHAIN GOSUMDB
mkdir -p bin evidence replays lean/SeqVerif/Extracted
rc=0
IDS=$(jq -r '.checks[].property_id' MANIFEST.json)   # only the properties claimed in the manifest
for id in $IDS; do
  low=$(echo "$id" | tr A-Z a-z)
  if [ -d extract/cmd/$low ]; then
    (cd extract && go build -o ../bin/x-$low ./cmd/$low && ../bin/x-$low -repo "${VERIF_REPO:-/repo}" -out ../lean/SeqVerif/Extracted/$id.lean) || rc=1
  fi
done
cp "${VERIF_REPO:-/repo}/go.sum" harness/go.sum
for id in $IDS; do
  low=$(echo "$id" | tr A-Z a-z)
  (cd lean && flock .build.lock lake build SeqVerif.Props.$id drv_$low 2>&1 | tail -3) || rc=1
  if [ -d harness/cmd/$low ]; then
    (cd harness && go build -tags verif -o ../bin/vh-$low ./cmd/$low) || rc=1
  fi
done
exit $rc
