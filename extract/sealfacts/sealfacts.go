// Package sealfacts extracts the facts shared by C08 and C15: ordered file operations of sealing / release,
// error-propagation facts of the block generators and of every `if err != nil` site on the sealing path, the loader's
// decision conditions, file suffixes.
package sealfacts

import (
	"fmt"
	"go/ast"
	"go/token"
	"strings"

	"verifextract/lib"
)

// errSite describes one `if ... err != nil { ... }` statement.
type errSite struct {
	cond       string
	propagates bool // the body ends in a return whose last result is not the literal nil (or in a panic / Fatal)
	line       int
}

func isErrNotNil(e ast.Expr) bool {
	found := false
	ast.Inspect(e, func(n ast.Node) bool {
		if b, ok := n.(*ast.BinaryExpr); ok && b.Op == token.NEQ {
			if id, ok := b.Y.(*ast.Ident); ok && id.Name == "nil" {
				if x, ok := b.X.(*ast.Ident); ok && strings.Contains(strings.ToLower(x.Name), "err") {
					found = true
				}
			}
		}
		return true
	})
	return found
}

func ErrSites(f *lib.File, body ast.Node, skipFuncLits bool) []errSite {
	var res []errSite
	ast.Inspect(body, func(n ast.Node) bool {
		if _, ok := n.(*ast.FuncLit); ok && skipFuncLits {
			return false
		}
		x, ok := n.(*ast.IfStmt)
		if !ok || !isErrNotNil(x.Cond) {
			return true
		}
		s := errSite{cond: f.Render(x.Cond), line: f.Line(x)}
		if x.Init != nil {
			s.cond = f.Render(x.Init) + "; " + s.cond
		}
		if len(x.Body.List) > 0 {
			switch last := x.Body.List[len(x.Body.List)-1].(type) {
			case *ast.ReturnStmt:
				if len(last.Results) > 0 {
					r := last.Results[len(last.Results)-1]
					if id, ok := r.(*ast.Ident); !ok || id.Name != "nil" {
						s.propagates = true
					}
				}
			case *ast.ExprStmt:
				c := f.Render(last.X)
				if strings.HasPrefix(c, "panic(") || strings.HasPrefix(c, "logger.Fatal(") || strings.HasPrefix(c, "logger.Panic(") {
					s.propagates = true
				}
			}
		}
		res = append(res, s)
		return true
	})
	return res
}

func AllProp(ss []errSite) bool {
	for _, s := range ss {
		if !s.propagates {
			return false
		}
	}
	return true
}

func KeepCalls(f *lib.File, body ast.Node, keep ...string) []string {
	return lib.Filter(f.Calls(body), func(c string) bool {
		for _, k := range keep {
			if c == k || (strings.HasPrefix(k, ".") && strings.HasSuffix(c, k)) {
				return true
			}
		}
		return false
	})
}

// guarded lists, in source order, "<rendered if condition> => <call>" for calls directly inside an if body, or "=> call" otherwise
func GuardedCalls(f *lib.File, body *ast.BlockStmt, keep ...string) []string {
	var res []string
	for _, st := range body.List {
		guard := ""
		var n ast.Node = st
		if x, ok := st.(*ast.IfStmt); ok && x.Else == nil {
			guard = f.Render(x.Cond)
			n = x.Body
		}
		for _, c := range KeepCalls(f, n, keep...) {
			res = append(res, guard+" => "+c)
		}
	}
	return res
}

// outputFlow lists the w.writeSeeker.Seek / Write calls of a function body in statement order.  A call gets a `!` when
// its error is checked at once: either `if _, err = call; err != nil { return ..err }` or an assignment `.., err := call`
// directly followed by `if err != nil { return ..err }`.
func outputFlow(f *lib.File, body *ast.BlockStmt) []string {
	var res []string
	callIn := func(n ast.Node) string {
		name := ""
		ast.Inspect(n, func(x ast.Node) bool {
			if c, ok := x.(*ast.CallExpr); ok {
				switch f.Render(c.Fun) {
				case "w.writeSeeker.Seek":
					name = "Seek"
				case "w.writeSeeker.Write":
					name = "Write"
				}
			}
			return true
		})
		return name
	}
	returnsErr := func(x *ast.IfStmt) bool {
		ss := ErrSites(f, x, true)
		return len(ss) == 1 && ss[0].propagates && strings.HasSuffix(ss[0].cond, "err != nil")
	}
	for i, st := range body.List {
		switch x := st.(type) {
		case *ast.IfStmt:
			if x.Init != nil {
				if c := callIn(x.Init); c != "" {
					if returnsErr(x) {
						c += "!"
					}
					res = append(res, c)
				}
			}
		case *ast.AssignStmt:
			if c := callIn(x); c != "" {
				if i+1 < len(body.List) {
					if nx, ok := body.List[i+1].(*ast.IfStmt); ok && nx.Init == nil && f.Render(nx.Cond) == "err != nil" && returnsErr(nx) {
						c += "!"
					}
				}
				res = append(res, c)
			}
		default:
			if c := callIn(st); c != "" {
				res = append(res, c)
			}
		}
	}
	return res
}

// tmpOpens lists every call that opens a file whose name mentions the given suffix constant: the callee and, for
// os.OpenFile, its flags.
func tmpOpens(f *lib.File, body ast.Node, suffixConst string) []string {
	var res []string
	ast.Inspect(body, func(n ast.Node) bool {
		c, ok := n.(*ast.CallExpr)
		if !ok || len(c.Args) == 0 || !strings.Contains(f.Render(c.Args[0]), suffixConst) {
			return true
		}
		switch fn := f.Render(c.Fun); fn {
		case "os.Create", "os.Open":
			res = append(res, fn)
		case "os.OpenFile":
			if len(c.Args) >= 2 {
				res = append(res, fn+" "+f.Render(c.Args[1]))
			}
		}
		return true
	})
	return res
}

// Sources lists the files read by Emit.
var Sources = []string{"consts/consts.go", "frac/active_sealer.go", "frac/disk_blocks_producer.go", "frac/disk_blocks_writer.go", "disk/blocks_writer.go", "disk/block_former.go", "bytespool/writer.go", "fracmanager/proxy_frac.go", "frac/active.go", "fracmanager/loader.go", "frac/sealed.go"}

// Emit writes the shared facts.
func Emit(r lib.Repo, e *lib.Emitter) {
	// ---------------------------------------------------------------- suffixes
	for _, c := range []struct{ lean, goName string }{
		{"sufDocs", "DocsFileSuffix"}, {"sufDocsDel", "DocsDelFileSuffix"}, {"sufSdocs", "SdocsFileSuffix"},
		{"sufSdocsTmp", "SdocsTmpFileSuffix"}, {"sufSdocsDel", "SdocsDelFileSuffix"}, {"sufIndex", "IndexFileSuffix"},
		{"sufIndexTmp", "IndexTmpFileSuffix"}, {"sufIndexDel", "IndexDelFileSuffix"}, {"sufMeta", "MetaFileSuffix"},
	} {
		if v, err := r.ConstString("consts", c.goName); err != nil {
			e.Missing(c.lean, err)
		} else {
			e.Str(c.lean, v, "consts."+c.goName)
		}
	}

	// ---------------------------------------------------------------- frac/active_sealer.go
	if f, err := r.Load("frac/active_sealer.go"); err != nil {
		e.Missing("active_sealer.go", err)
	} else {
		if fd := f.Func("", "Seal"); fd == nil {
			e.Missing("sealCalls", "frac.Seal not found")
		} else {
			e.Strs("sealCalls", KeepCalls(f, fd.Body, "os.Create", "indexFile.Seek", "writeSealedFraction", "syncRename", "util.MustSyncPath", "os.Remove", "os.Rename"),
				"frac.Seal: file operations and sub-steps in source order")
			var args []string
			ast.Inspect(fd.Body, func(n ast.Node) bool {
				if c, ok := n.(*ast.CallExpr); ok {
					switch f.Render(c.Fun) {
					case "os.Create", "syncRename":
						args = append(args, f.Render(c.Fun)+" "+f.Render(c.Args[len(c.Args)-1]))
					}
				}
				return true
			})
			e.Strs("sealNames", args, "frac.Seal: the file names created / renamed to")
			e.Strs("indexTmpOpen", tmpOpens(f, fd.Body, "IndexTmpFileSuffix"), "frac.Seal: how the temporary index file is opened (os.Create = create or truncate)")
			ss := ErrSites(f, fd.Body, true)
			e.Bool("sealPropagates", AllProp(ss) && len(ss) > 0, fmt.Sprintf("frac.Seal: all %d `err != nil` sites return the error", len(ss)))
			// the error of writeSealedFraction is checked before syncRename is reached
			checked := false
			for i, st := range fd.Body.List {
				if a, ok := st.(*ast.AssignStmt); ok && strings.Contains(f.Render(a), "writeSealedFraction(") && i+1 < len(fd.Body.List) {
					if x, ok := fd.Body.List[i+1].(*ast.IfStmt); ok && f.Render(x.Cond) == "err != nil" && AllProp(ErrSites(f, x, true)) {
						checked = true
					}
				}
			}
			e.Bool("sealChecksWriteError", checked, "frac.Seal: `preloaded, err := writeSealedFraction(..)` is directly followed by `if err != nil { return nil, err }`")
		}
		if fd := f.Func("", "syncRename"); fd == nil {
			e.Missing("syncRenameCalls", "syncRename not found")
		} else {
			e.Strs("syncRenameCalls", KeepCalls(f, fd.Body, "f.Sync", "os.Rename", "f.Close", "os.OpenFile", "os.Remove"), "syncRename: operations in source order")
			ss := ErrSites(f, fd.Body, true)
			e.Bool("syncRenamePropagates", AllProp(ss) && len(ss) > 0, fmt.Sprintf("syncRename: all %d `err != nil` sites return the error", len(ss)))
		}
		if fd := f.Func("", "writeSortedDocs"); fd == nil {
			e.Missing("writeSortedDocsCalls", "writeSortedDocs not found")
		} else {
			e.Strs("writeSortedDocsCalls", KeepCalls(f, fd.Body, "os.Create", "writeDocsInOrder", "syncRename", "os.Rename", "os.Remove"), "writeSortedDocs: operations in source order")
			var args []string
			ast.Inspect(fd.Body, func(n ast.Node) bool {
				if c, ok := n.(*ast.CallExpr); ok {
					switch f.Render(c.Fun) {
					case "os.Create", "syncRename":
						args = append(args, f.Render(c.Fun)+" "+f.Render(c.Args[len(c.Args)-1]))
					}
				}
				return true
			})
			e.Strs("writeSortedDocsNames", args, "writeSortedDocs: the file names created / renamed to")
			e.Strs("sdocsTmpOpen", tmpOpens(f, fd.Body, "SdocsTmpFileSuffix"), "writeSortedDocs: how the temporary sorted-docs file is opened (os.Create = create or truncate)")
			// the success return: what is handed to writeSealedFraction must not alias the pooled docBlocksWriter
			var ret []string
			if n := len(fd.Body.List); n > 0 {
				if r, ok := fd.Body.List[n-1].(*ast.ReturnStmt); ok {
					for _, x := range r.Results {
						ret = append(ret, f.Render(x))
					}
				}
			}
			e.Strs("writeSortedDocsReturn", ret, "writeSortedDocs: results of the final return statement")
			ss := ErrSites(f, fd.Body, true)
			e.Bool("writeSortedDocsPropagates", AllProp(ss) && len(ss) > 0, fmt.Sprintf("writeSortedDocs: all %d `err != nil` sites return the error", len(ss)))
		}
		if fd := f.Func("", "writeSealedFraction"); fd == nil {
			e.Missing("writeSealedCalls", "writeSealedFraction not found")
		} else {
			e.Strs("writeSealedCalls", KeepCalls(f, fd.Body, "writeSortedDocs", "writer.writeInfoBlock", "writer.writeTokensBlocks", "writer.writeTokenTableBlocks",
				"writer.writePositionsBlock", "writer.writeIDsBlocks", "writer.writeLIDsBlocks", "writer.WriteRegistryBlock"),
				"writeSealedFraction: sorted docs and index sections in source order")
			guard := ""
			ast.Inspect(fd.Body, func(n ast.Node) bool {
				if x, ok := n.(*ast.IfStmt); ok && strings.Contains(f.Render(x.Body), "writeSortedDocs(") && guard == "" {
					guard = f.Render(x.Cond)
				}
				return true
			})
			e.Str("writeSortedDocsGuard", guard, "writeSealedFraction: condition under which writeSortedDocs runs")
			ss := ErrSites(f, fd.Body, true)
			e.Bool("writeSealedPropagates", AllProp(ss) && len(ss) >= 8, fmt.Sprintf("writeSealedFraction: all %d `err != nil` sites return an error", len(ss)))
		}
		ok, n := true, 0
		for _, fn := range [][2]string{{"", "writeDocsInOrder"}, {"", "writeDocBlocksInOrder"}, {"docBlocksWriter", "WriteDoc"}, {"docBlocksWriter", "flushBlock"},
			{"docBlocksWriter", "compressWriteBlock"}, {"docBlocksWriter", "Flush"}} {
			fd := f.Func(fn[0], fn[1])
			if fd == nil {
				e.Missing("sdocsWriterPropagates", fn[1]+" not found")
				ok = false
				continue
			}
			ss := ErrSites(f, fd.Body, false)
			n += len(ss)
			ok = ok && AllProp(ss)
		}
		if fd := f.Func("docBlocksWriter", "flushBlock"); fd != nil {
			// where the offset of a block comes from, and what advances it
			var facts []string
			ast.Inspect(fd.Body, func(n ast.Node) bool {
				if a, ok := n.(*ast.AssignStmt); ok && len(a.Lhs) == 1 {
					switch l := f.Render(a.Lhs[0]); l {
					case "w.BlockOffsets", "w.currentBlockOffset":
						facts = append(facts, l+" "+a.Tok.String()+" "+f.Render(a.Rhs[0]))
					}
				}
				return true
			})
			e.Strs("flushBlockOffsets", facts, "docBlocksWriter.flushBlock: how block offsets are recorded and advanced")
		} else {
			e.Missing("flushBlockOffsets", "flushBlock not found")
		}
		e.Bool("sdocsWriterPropagates", ok && n > 0, fmt.Sprintf("writeDocsInOrder .. docBlocksWriter.Flush: all %d `err != nil` sites return the error", n))
	}

	// ---------------------------------------------------------------- generators
	if f, err := r.Load("frac/disk_blocks_producer.go"); err != nil {
		e.Missing("disk_blocks_producer.go", err)
	} else {
		for _, g := range []struct{ lean, fn string }{
			{"tokensGenPropagates", "getTokensBlocksGenerator"}, {"tokenTableGenPropagates", "getTokenTableBlocksGenerator"},
			{"idsGenPropagates", "getIDsBlocksGenerator"}, {"lidsGenPropagates", "getLIDsBlockGenerator"},
		} {
			fd := f.Func("DiskBlocksProducer", g.fn)
			if fd == nil {
				e.Missing(g.lean, g.fn+" not found")
				continue
			}
			var push []errSite
			for _, s := range ErrSites(f, fd.Body, false) {
				if strings.Contains(s.cond, "push(") {
					push = append(push, s)
				}
			}
			if len(push) == 0 {
				e.Missing(g.lean, g.fn+": no `if err := push(..); err != nil` site")
				continue
			}
			var where []string
			for _, s := range push {
				where = append(where, fmt.Sprintf("line %d: %v", s.line, s.propagates))
			}
			e.Bool(g.lean, AllProp(push), fmt.Sprintf("%s: every `if err := push(..); err != nil` returns the error (%s)", g.fn, strings.Join(where, ", ")))
		}
	}

	// ---------------------------------------------------------------- section writers and block writer
	type grp struct {
		lean, file string
		recv       string
		fns        []string
	}
	for _, g := range []grp{
		{"sectionWritersPropagate", "frac/disk_blocks_writer.go", "DiskBlocksWriter", []string{"writeInfoBlock", "writePositionsBlock", "writeIDsBlocks", "writeTokensBlocks", "writeTokenTableBlocks", "writeLIDsBlocks"}},
		{"blocksWriterPropagates", "disk/blocks_writer.go", "BlocksWriter", []string{"WriteBlock", "WriteBlocksRegistry"}},
		{"blockFormerPropagates", "disk/block_former.go", "BlockFormer", []string{"FlushForced"}},
		{"bufWriterPropagates", "bytespool/writer.go", "Writer", []string{"Write", "Flush", "writeCheckShort"}},
	} {
		f, err := r.Load(g.file)
		if err != nil {
			e.Missing(g.lean, err)
			continue
		}
		ok, n := true, 0
		for _, fn := range g.fns {
			fd := f.Func(g.recv, fn)
			if fd == nil {
				e.Missing(g.lean, fn+" not found")
				ok = false
				continue
			}
			ss := ErrSites(f, fd.Body, false)
			n += len(ss)
			ok = ok && AllProp(ss)
		}
		e.Bool(g.lean, ok && n > 0, fmt.Sprintf("%s %v: all %d `err != nil` sites return the error", g.file, g.fns, n))
	}
	if f, err := r.Load("disk/blocks_writer.go"); err == nil {
		if fd := f.Func("BlocksWriter", "WriteBlock"); fd != nil {
			e.Strs("writeBlockCalls", KeepCalls(f, fd.Body, "w.writeSeeker.Seek", "w.writeSeeker.Write"), "BlocksWriter.WriteBlock: calls on the output")
		} else {
			e.Missing("writeBlockCalls", "WriteBlock not found")
		}
		for _, x := range [][2]string{{"writeBlockFlow", "WriteBlock"}, {"writeRegistryFlow", "WriteBlocksRegistry"}} {
			if fd := f.Func("BlocksWriter", x[1]); fd != nil {
				e.Strs(x[0], outputFlow(f, fd.Body), "BlocksWriter."+x[1]+": calls on the output in statement order; `!` = the error of that very call is returned before anything else happens")
			} else {
				e.Missing(x[0], x[1]+" not found")
			}
		}
		if fd := f.Func("BlocksWriter", "WriteBlocksRegistry"); fd != nil {
			e.Strs("writeRegistryCalls", KeepCalls(f, fd.Body, "w.writeSeeker.Seek", "w.writeSeeker.Write"), "BlocksWriter.WriteBlocksRegistry: calls on the output")
		} else {
			e.Missing("writeRegistryCalls", "WriteBlocksRegistry not found")
		}
	}

	// ---------------------------------------------------------------- proxyFrac.Seal and Active.Release
	if f, err := r.Load("fracmanager/proxy_frac.go"); err != nil {
		e.Missing("proxy_frac.go", err)
	} else if fd := f.Func("proxyFrac", "Seal"); fd == nil {
		e.Missing("proxySealCalls", "proxyFrac.Seal not found")
	} else {
		e.Strs("proxySealCalls", KeepCalls(f, fd.Body, "frac.Seal", "f.fp.NewSealedPreloaded", "active.Release", "active.Suicide"), "proxyFrac.Seal: order of sealing, publishing and release")
		checked := false
		for i, st := range fd.Body.List {
			if a, ok := st.(*ast.AssignStmt); ok && strings.Contains(f.Render(a), "frac.Seal(") && i+1 < len(fd.Body.List) {
				if x, ok := fd.Body.List[i+1].(*ast.IfStmt); ok && f.Render(x.Cond) == "err != nil" && AllProp(ErrSites(f, x, true)) {
					checked = true
				}
			}
		}
		e.Bool("proxySealChecksError", checked, "proxyFrac.Seal: `preloaded, err := frac.Seal(..)` is directly followed by `if err != nil { return nil, err }`")
	}
	if f, err := r.Load("frac/active.go"); err != nil {
		e.Missing("active.go", err)
	} else {
		if fd := f.Func("Active", "Release"); fd == nil {
			e.Missing("releaseCalls", "Active.Release not found")
		} else {
			e.Strs("releaseCalls", GuardedCalls(f, fd.Body, "f.removeMetaFile", "f.removeDocsFiles", "os.Remove", "os.Rename"), "Active.Release: guarded removals in source order")
		}
		for _, x := range [][2]string{{"removeMetaFileCalls", "removeMetaFile"}, {"removeDocsFilesCalls", "removeDocsFiles"}} {
			if fd := f.Func("Active", x[1]); fd == nil {
				e.Missing(x[0], x[1]+" not found")
			} else {
				var ops []string
				ast.Inspect(fd.Body, func(n ast.Node) bool {
					if c, ok := n.(*ast.CallExpr); ok && (f.Render(c.Fun) == "os.Remove" || f.Render(c.Fun) == "os.Rename") {
						ops = append(ops, f.Render(c))
					}
					return true
				})
				e.Strs(x[0], ops, "Active."+x[1]+": removals")
			}
		}
		if fd := f.Func("", "NewActive"); fd != nil {
			var ops []string
			ast.Inspect(fd.Body, func(n ast.Node) bool {
				if c, ok := n.(*ast.CallExpr); ok && f.Render(c.Fun) == "mustOpenFile" {
					ops = append(ops, f.Render(c.Args[0]))
				}
				return true
			})
			e.Strs("newActiveFiles", ops, "NewActive: files opened (docsFile, metaFile)")
		} else {
			e.Missing("newActiveFiles", "NewActive not found")
		}
	}

	// ---------------------------------------------------------------- loader
	if f, err := r.Load("fracmanager/loader.go"); err != nil {
		e.Missing("loader.go", err)
	} else {
		if fd := f.Func("loader", "makeInfos"); fd == nil {
			e.Missing("makeInfosSkip", "makeInfos not found")
		} else {
			var skip, cases []string
			ast.Inspect(fd.Body, func(n ast.Node) bool {
				switch x := n.(type) {
				case *ast.IfStmt:
					for _, s := range x.Body.List {
						if b, ok := s.(*ast.BranchStmt); ok && b.Tok == token.CONTINUE {
							skip = append(skip, f.Render(x.Cond))
						}
					}
				case *ast.CaseClause:
					if len(x.List) == 0 {
						cases = append(cases, "default => "+f.Render(x.Body[0]))
					} else if len(x.Body) == 1 {
						cases = append(cases, f.Render(x.List[0])+" => "+f.Render(x.Body[0]))
					} else {
						cases = append(cases, f.Render(x.List[0])+" => ?")
					}
				}
				return true
			})
			e.Strs("makeInfosSkip", skip, "makeInfos: files skipped (continue)")
			for i, c := range cases {
				if strings.HasPrefix(c, "default => logger.Fatal(") {
					cases[i] = "default => logger.Fatal"
				}
			}
			e.Strs("makeInfosCases", cases, "makeInfos: switch suffix")
		}
		if fd := f.Func("loader", "filterInfos"); fd == nil {
			e.Missing("filterInfosRules", "filterInfos not found")
		} else {
			var rules []string
			ast.Inspect(fd.Body, func(n ast.Node) bool {
				rs, ok := n.(*ast.RangeStmt)
				if !ok {
					return true
				}
				for _, st := range rs.Body.List {
					switch x := st.(type) {
					case *ast.IfStmt:
						c := f.Render(x.Cond)
						if c == "info == nil" {
							continue
						}
						act := "?"
						body := f.Render(x.Body)
						switch {
						case strings.Contains(body, "removeFractionFiles(info.base)") && strings.Contains(body, "continue"):
							act = "removeFractionFiles; continue"
						case strings.Contains(body, "infoList = append(infoList, info)") && strings.Contains(body, "continue"):
							act = "keep; continue"
						case strings.Contains(body, "continue") && !strings.Contains(body, "append("):
							act = "continue"
						}
						rules = append(rules, c+" => "+act)
					case *ast.ExprStmt:
						if strings.HasPrefix(f.Render(x.X), "logger.Fatal(") {
							rules = append(rules, "otherwise => logger.Fatal")
						}
						if f.Render(x.X) == "removeFractionFiles(info.base)" { // last statement of the loop body
							rules = append(rules, "otherwise => removeFractionFiles; continue")
						}
					}
				}
				return false
			})
			e.Strs("filterInfosRules", rules, "filterInfos: rules in source order")
			if len(rules) > 0 {
				last := rules[len(rules)-1]
				switch {
				case last == "otherwise => logger.Fatal":
					e.Bool("orphanFatal", true, "filterInfos: a fraction with .docs/.sdocs but neither .meta nor .index ends in logger.Fatal")
				case strings.HasSuffix(last, "=> removeFractionFiles; continue") && len(rules) == 4:
					e.Bool("orphanFatal", false, "filterInfos: a fraction with .docs/.sdocs but neither .meta nor .index is removed (removeFractionFiles; continue)")
				default:
					e.Missing("orphanFatal", "last rule of filterInfos not recognised: "+last)
				}
			} else {
				e.Missing("orphanFatal", "no rules found in filterInfos")
			}
		}
		if fd := f.Func("loader", "load"); fd == nil {
			e.Missing("loadBranches", "load not found")
		} else {
			var br []string
			var walk func(x *ast.IfStmt, pre string)
			describe := func(b *ast.BlockStmt) string {
				var acts []string
				for _, st := range b.List {
					s := f.Render(st)
					switch {
					case strings.HasPrefix(s, "if info.hasMeta { removeFile("):
						acts = append(acts, "if hasMeta removeFile(meta)")
					case strings.HasPrefix(s, "if info.hasDocs { removeFile("):
						acts = append(acts, "if hasDocs removeFile(docs)")
					case strings.Contains(s, "l.loadSealedFrac("):
						acts = append(acts, "loadSealedFrac")
					case strings.Contains(s, "l.fracProvider.NewActive("):
						acts = append(acts, "NewActive")
					case strings.HasPrefix(s, "fracs = append("), strings.HasPrefix(s, "actives = append("):
					case strings.HasPrefix(s, "if "):
					default:
						acts = append(acts, "?"+s)
					}
				}
				return strings.Join(acts, "; ")
			}
			walk = func(x *ast.IfStmt, pre string) {
				c := f.Render(x.Cond)
				br = append(br, pre+c+" => "+describe(x.Body))
				for _, st := range x.Body.List {
					if y, ok := st.(*ast.IfStmt); ok && !strings.HasPrefix(f.Render(y.Cond), "info.hasMeta") && !strings.HasPrefix(f.Render(y.Cond), "info.hasDocs") {
						walk(y, pre+c+" && ")
					}
				}
				switch el := x.Else.(type) {
				case *ast.BlockStmt:
					inner := false
					for _, st := range el.List {
						if y, ok := st.(*ast.IfStmt); ok {
							walk(y, pre+"!("+c+") && ")
							inner = true
						}
					}
					if !inner {
						br = append(br, pre+"!("+c+") => "+describe(el))
					}
				case *ast.IfStmt:
					walk(el, pre+"!("+c+") && ")
				}
			}
			ast.Inspect(fd.Body, func(n ast.Node) bool {
				if rs, ok := n.(*ast.RangeStmt); ok && f.Render(rs.X) == "infosList" {
					for _, st := range rs.Body.List {
						if x, ok := st.(*ast.IfStmt); ok && strings.Contains(f.Render(x.Cond), "info.has") {
							walk(x, "")
						}
					}
					return false
				}
				return true
			})
			e.Strs("loadBranches", br, "loader.load: per-fraction branches")
		}
		if fd := f.Func("", "removeFractionFiles"); fd == nil {
			e.Missing("removeFractionFilesOrder", "removeFractionFiles not found")
		} else {
			var ops []string
			ast.Inspect(fd.Body, func(n ast.Node) bool {
				if c, ok := n.(*ast.CallExpr); ok && f.Render(c.Fun) == "removeFile" {
					ops = append(ops, f.Render(c.Args[0]))
				}
				return true
			})
			e.Strs("removeFractionFilesOrder", ops, "removeFractionFiles: removals in source order")
		}
	}
	if f, err := r.Load("frac/sealed.go"); err != nil {
		e.Missing("sealed.go", err)
	} else if fd := f.Func("Sealed", "openDocs"); fd == nil {
		e.Missing("openDocsOrder", "openDocs not found")
	} else {
		var ops []string
		ast.Inspect(fd.Body, func(n ast.Node) bool {
			if c, ok := n.(*ast.CallExpr); ok && f.Render(c.Fun) == "os.Open" {
				ops = append(ops, f.Render(c.Args[0]))
			}
			return true
		})
		e.Strs("openDocsOrder", ops, "Sealed.openDocs: files tried in order")
	}
}
