// Mechanical Go -> Lean translation of the inverser (frac/inverser.go, frac/active_index.go:inverseLIDs): the LID
// translation readers of an active fraction go through (see extract/xlate).
package main

import "verifextract/xlate"

func main() {
	xlate.Main("C07",
		xlate.Spec{Pkg: "frac", Recv: "inverser", Name: "Inverse"},
		xlate.Spec{Pkg: "frac", Recv: "inverser", Name: "Len"},
		xlate.Spec{Pkg: "frac", Recv: "inverser", Name: "Revert"},
		xlate.Spec{Pkg: "frac", Name: "inverseLIDs"},
		// the table-filling loop of newInverser (the table itself comes from an unsafe cast of a pooled buffer)
		xlate.Spec{Pkg: "frac", Name: "newInverser", As: "fill", Stmts: []string{"for i, v := range values"}},
	)
}
