// Mechanical Go -> Lean translation of the time-bin arithmetic C06's models rely on (see extract/xlate).
package main

import "verifextract/xlate"

func main() {
	xlate.Main("C06",
		xlate.Spec{Pkg: "frac/processor", Name: "iterateEvalTree", As: "histBucket",
			Stmts: []string{"bucket := mid", "bucket -= bucket %"}},
		xlate.Spec{Pkg: "frac/processor", Name: "provideExtractTimeFunc", As: "extractBin",
			Stmts: []string{"return mid - (mid %"}},
	)
}
