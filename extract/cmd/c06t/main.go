// Mechanical Go -> Lean translation of the time-bin arithmetic C06's models rely on (see extract/xlate).
package main

import "verifextract/xlate"

func main() {
	xlate.Main("C06",
		xlate.Spec{Pkg: "frac/processor", Name: "iterateEvalTree", As: "histBucket",
			Stmts: []string{"bucket := mid", "bucket -= bucket %"}},
		xlate.Spec{Pkg: "frac/processor", Name: "provideExtractTimeFunc", As: "extractBin",
			Stmts: []string{"return mid - (mid %"}},
		// which arm of `switch resp.Code` in searchShard is taken (0 = none: the response is data)
		xlate.Spec{Pkg: "proxy/search", Recv: "Ingestor", Name: "searchShard", As: "shardCodeArm", Stmts: []string{"switch resp.Code"}},
	)
}
