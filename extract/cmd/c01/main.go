// Extracted facts for C01 (disk/doc_block.go, frac/active_writer.go, frac/file_writer.go, frac/active.go).
package main

import (
	"go/ast"
	"go/token"
	"sort"
	"strings"

	"verifextract/lib"
)

type ev struct {
	pos token.Pos
	s   string
}

func ordered(evs []ev) []string {
	sort.SliceStable(evs, func(i, j int) bool { return evs[i].pos < evs[j].pos })
	out := make([]string, len(evs))
	for i, e := range evs {
		out[i] = e.s
	}
	return out
}

// returnsOf lists the return statements of a body in source order, each with the conditions it sits under
// ("if" conditions incl. their init statement, select / switch cases), e.g. "case <-ctx.Done() -> return ctx.Err()"
func returnsOf(f *lib.File, body ast.Node) []string {
	var evs []ev
	var walk func(n ast.Node, guard string)
	add := func(g, x string) string {
		if g == "" {
			return x
		}
		return g + " / " + x
	}
	walk = func(n ast.Node, guard string) {
		ast.Inspect(n, func(x ast.Node) bool {
			switch st := x.(type) {
			case *ast.FuncLit:
				return false
			case *ast.IfStmt:
				c := f.Render(st.Cond)
				if st.Init != nil {
					c = f.Render(st.Init) + "; " + c
				}
				walk(st.Body, add(guard, c))
				if st.Else != nil {
					walk(st.Else, add(guard, "!("+c+")"))
				}
				return false
			case *ast.CommClause:
				c := "default"
				if st.Comm != nil {
					c = "case " + f.Render(st.Comm)
				}
				for _, b := range st.Body {
					walk(b, add(guard, c))
				}
				return false
			case *ast.ReturnStmt:
				r := f.Render(st)
				if i := strings.Index(r, "fmt.Errorf("); i >= 0 {
					r = r[:i] + "fmt.Errorf(..)"
				}
				g := guard
				if g != "" {
					g += " -> "
				}
				evs = append(evs, ev{st.Pos(), g + r})
			}
			return true
		})
	}
	walk(body, "")
	return ordered(evs)
}

// callsTo renders every call whose callee ends with one of the suffixes, in source order
func callsTo(f *lib.File, body ast.Node, suffixes ...string) []string {
	var evs []ev
	ast.Inspect(body, func(x ast.Node) bool {
		if c, ok := x.(*ast.CallExpr); ok {
			fn := f.Render(c.Fun)
			for _, s := range suffixes {
				if strings.HasSuffix(fn, s) {
					evs = append(evs, ev{c.Pos(), f.Render(c)})
				}
			}
		}
		return true
	})
	return ordered(evs)
}

func main() {
	lib.Main("C01", func(r lib.Repo, e *lib.Emitter) {
		// ---- the hand-over of a token's queued LIDs to the merge
		if f, err := r.Load("frac/active_lids.go"); err != nil {
			e.Missing("active_lids.go", err)
		} else if fd := f.Func("TokenLIDs", "getQueuedLIDs"); fd == nil {
			e.Missing("getQueuedLIDsStmts", "TokenLIDs.getQueuedLIDs not found")
		} else {
			var evs []ev
			ast.Inspect(fd.Body, func(n ast.Node) bool {
				switch x := n.(type) {
				case *ast.AssignStmt:
					evs = append(evs, ev{x.Pos(), f.Render(x)})
				case *ast.ReturnStmt:
					evs = append(evs, ev{x.Pos(), f.Render(x)})
				}
				return true
			})
			e.Strs("getQueuedLIDsStmts", ordered(evs), "TokenLIDs.getQueuedLIDs: assignments and returns in source order")
			if pd := f.Func("TokenLIDs", "PutLIDsInQueue"); pd != nil {
				e.Strs("putLIDsStmts", callsTo(f, pd.Body, "append"), "TokenLIDs.PutLIDsInQueue: how the queue grows")
			} else {
				e.Missing("putLIDsStmts", "TokenLIDs.PutLIDsInQueue not found")
			}
		}
		// ---- the store's Bulk handler chain
		if f, err := r.Load("storeapi/grpc_bulk.go"); err != nil {
			e.Missing("grpc_bulk.go", err)
		} else {
			if fd := f.Func("GrpcV1", "Bulk"); fd == nil {
				e.Missing("grpcBulkReturns", "GrpcV1.Bulk not found")
			} else {
				e.Strs("grpcBulkReturns", returnsOf(f, fd.Body), "GrpcV1.Bulk: every return with the conditions it sits under")
				e.Strs("grpcBulkCalls", callsTo(f, fd.Body, ".doBulk"), "GrpcV1.Bulk: the call of doBulk")
			}
			if fd := f.Func("GrpcV1", "doBulk"); fd == nil {
				e.Missing("doBulkReturns", "GrpcV1.doBulk not found")
			} else {
				e.Strs("doBulkReturns", returnsOf(f, fd.Body), "GrpcV1.doBulk: every return with the conditions it sits under")
				e.Strs("doBulkCalls", callsTo(f, fd.Body, ".fracManager.Append"), "GrpcV1.doBulk: what is handed to FracManager.Append")
			}
		}
		if f, err := r.Load("fracmanager/fracmanager.go"); err != nil {
			e.Missing("fracmanager.go", err)
		} else if fd := f.Func("FracManager", "Append"); fd == nil {
			e.Missing("fmAppendReturns", "FracManager.Append not found")
		} else {
			e.Strs("fmAppendReturns", returnsOf(f, fd.Body), "FracManager.Append: the ways out of the retry loop")
		}
		if f, err := r.Load("fracmanager/proxy_frac.go"); err != nil {
			e.Missing("proxy_frac.go", err)
		} else if fd := f.Func("proxyFrac", "Append"); fd == nil {
			e.Missing("proxyAppendCalls", "proxyFrac.Append not found")
		} else {
			e.Strs("proxyAppendCalls", callsTo(f, fd.Body, "active.Append"), "proxyFrac.Append: what is handed to Active.Append")
			e.Strs("proxyAppendReturns", returnsOf(f, fd.Body), "proxyFrac.Append: every return with the conditions it sits under")
		}

		// ---- header layout of a DocBlock
		for _, c := range [][2]string{
			{"offsetDocBlockCodec", "offCodec"}, {"offsetDocBlockLength", "offLen"}, {"offsetDocBlockRawLength", "offRaw"},
			{"offsetDocBlockExt1", "offExt1"}, {"offsetDocBlockExt2", "offExt2"}, {"DocBlockHeaderLen", "headerLen"},
		} {
			if v, err := r.ConstInt("disk", c[0]); err != nil {
				e.Missing(c[1], err)
			} else {
				e.Nat(c[1], uint64(v), "disk."+c[0])
			}
		}
		if f, err := r.Load("disk/doc_block.go"); err != nil {
			e.Missing("doc_block.go", err)
		} else {
			// every accessor reads/writes 8 little-endian bytes at its offset: "<method> <Uint64|PutUint64> <offset const>"
			var acc []string
			for _, m := range []string{"Len", "SetLen", "RawLen", "SetRawLen", "GetExt1", "SetExt1", "GetExt2", "SetExt2"} {
				fd := f.Func("DocBlock", m)
				if fd == nil {
					e.Missing("accessors", m+" not found")
					continue
				}
				ast.Inspect(fd.Body, func(n ast.Node) bool {
					if c, ok := n.(*ast.CallExpr); ok {
						fn := f.Render(c.Fun)
						if strings.HasPrefix(fn, "binary.LittleEndian.") && len(c.Args) >= 1 {
							acc = append(acc, m+" "+strings.TrimPrefix(fn, "binary.LittleEndian.")+" "+f.Render(c.Args[0]))
						}
					}
					return true
				})
			}
			e.Strs("accessors", acc, "disk.DocBlock field accessors: method, codec function, slice expression")
			if fd := f.Func("DocBlock", "FullLen"); fd != nil && len(fd.Body.List) == 1 {
				e.Str("fullLen", f.Render(fd.Body.List[0]), "disk.DocBlock.FullLen")
			} else {
				e.Missing("fullLen", "unexpected shape")
			}
		}

		// ---- ActiveWriter.Write: docs write, early return on error, stamps, meta write
		if f, err := r.Load("frac/active_writer.go"); err != nil {
			e.Missing("active_writer.go", err)
		} else if fd := f.Func("ActiveWriter", "Write"); fd == nil {
			e.Missing("activeWriterWriteOps", "ActiveWriter.Write not found")
		} else {
			var evs []ev
			ast.Inspect(fd.Body, func(n ast.Node) bool {
				switch x := n.(type) {
				case *ast.CallExpr:
					fn := f.Render(x.Fun)
					switch {
					case fn == "a.docs.Write" || fn == "a.meta.Write":
						evs = append(evs, ev{x.Pos(), fn + " " + f.Render(x.Args[0])})
					case strings.HasSuffix(fn, ".SetExt1") || strings.HasSuffix(fn, ".SetExt2"):
						evs = append(evs, ev{x.Pos(), fn + " " + f.Render(x.Args[0])})
					case fn == "a.mu.Lock":
						evs = append(evs, ev{x.Pos(), fn})
					}
				case *ast.DeferStmt:
					if fn := f.Render(x.Call.Fun); strings.HasPrefix(fn, "a.mu.") {
						evs = append(evs, ev{x.Pos(), "defer " + fn})
						return false
					}
				case *ast.IfStmt:
					if f.Render(x.Cond) == "err != nil" && len(x.Body.List) == 1 {
						if _, ok := x.Body.List[0].(*ast.ReturnStmt); ok {
							evs = append(evs, ev{x.Pos(), "if err != nil " + f.Render(x.Body.List[0])})
						}
					}
				}
				return true
			})
			e.Strs("activeWriterWriteOps", ordered(evs), "ActiveWriter.Write: lock, file writes, header stamps and error returns in source order")
		}

		// ---- FileWriter.Write / syncLoop
		if f, err := r.Load("frac/file_writer.go"); err != nil {
			e.Missing("file_writer.go", err)
		} else {
			if fd := f.Func("FileWriter", "Write"); fd == nil {
				e.Missing("fileWriterWriteOps", "FileWriter.Write not found")
			} else {
				var evs []ev
				ast.Inspect(fd.Body, func(n ast.Node) bool {
					switch x := n.(type) {
					case *ast.CallExpr:
						fn := f.Render(x.Fun)
						if fn == "fs.ws.WriteAt" || fn == "fs.offset.Add" {
							evs = append(evs, ev{x.Pos(), f.Render(x)})
						}
					case *ast.UnaryExpr:
						if x.Op == token.ARROW {
							evs = append(evs, ev{x.Pos(), f.Render(x)})
						}
					case *ast.IfStmt:
						c := f.Render(x.Cond)
						if c == "fs.skipSync" || c == "err != nil" {
							for _, s := range x.Body.List {
								if _, ok := s.(*ast.ReturnStmt); ok {
									evs = append(evs, ev{x.Pos(), "if " + c + " " + f.Render(s)})
								}
							}
						}
					case *ast.ReturnStmt:
						evs = append(evs, ev{x.Pos() + 1, f.Render(x)})
					}
					return true
				})
				// the returns inside the ifs were recorded twice (once by the if, once as a return): drop the bare duplicates
				var ops []string
				for _, s := range ordered(evs) {
					if len(ops) > 0 && strings.HasSuffix(ops[len(ops)-1], " "+s) {
						continue
					}
					ops = append(ops, s)
				}
				e.Strs("fileWriterWriteOps", ops, "FileWriter.Write: offset reservation, WriteAt, fsync wait and returns in source order")
			}
			if fd := f.Func("FileWriter", "syncLoop"); fd == nil {
				e.Missing("syncLoopCalls", "syncLoop not found")
			} else {
				e.Strs("syncLoopCalls", lib.Filter(f.Calls(fd.Body), func(s string) bool { return strings.HasPrefix(s, "fs.ws.") }), "file operations of FileWriter.syncLoop")
			}
		}

		// ---- NewActive (writer offsets), Append (write before index), Replay
		if f, err := r.Load("frac/active.go"); err != nil {
			e.Missing("active.go", err)
		} else {
			if fd := f.Func("", "NewActive"); fd == nil {
				e.Missing("newActiveWriterArgs", "NewActive not found")
			} else {
				var args []string
				ast.Inspect(fd.Body, func(n ast.Node) bool {
					if c, ok := n.(*ast.CallExpr); ok && f.Render(c.Fun) == "NewActiveWriter" {
						for _, a := range c.Args {
							args = append(args, f.Render(a))
						}
					}
					return true
				})
				e.Strs("newActiveWriterArgs", args, "arguments of NewActiveWriter in NewActive (files, initial offsets, skipFsync)")
			}
			if fd := f.Func("Active", "Append"); fd == nil {
				e.Missing("appendCalls", "Active.Append not found")
			} else {
				e.Strs("appendCalls", lib.Filter(f.Calls(fd.Body), func(s string) bool {
					return s == "f.writer.Write" || s == "f.indexer.Index"
				}), "Active.Append: write to disk, then hand the metas to the indexer")
			}
			if fd := f.Func("Active", "Replay"); fd == nil {
				e.Missing("replayOps", "Active.Replay not found")
			} else {
				var evs []ev
				truncates := false
				ast.Inspect(fd.Body, func(n ast.Node) bool {
					switch x := n.(type) {
					case *ast.CallExpr:
						fn := f.Render(x.Fun)
						switch {
						case fn == "f.metaReader.ReadDocBlock", fn == "f.indexer.Index", fn == "wg.Wait":
							evs = append(evs, ev{x.Pos(), fn})
						case strings.HasSuffix(fn, ".GetExt1"), strings.HasSuffix(fn, ".SetExt2"):
							evs = append(evs, ev{x.Pos(), f.Render(x)})
						case strings.Contains(strings.ToLower(fn), "truncate"):
							truncates = true
							evs = append(evs, ev{x.Pos(), f.Render(x)})
						}
					case *ast.AssignStmt:
						if x.Tok == token.ADD_ASSIGN {
							evs = append(evs, ev{x.Pos(), f.Render(x)})
						}
					}
					return true
				})
				e.Strs("replayOps", ordered(evs), "Active.Replay: reads, header accesses, position updates, indexing, truncation - source order")
				e.Bool("replayTruncates", truncates, "Active.Replay cuts the files back to the replayed end")
			}
			// the helper the repaired Replay calls: which files are truncated, and is the writer moved
			if fd := f.Func("Active", "truncateTail"); fd != nil {
				e.Strs("truncateTailCalls", lib.Filter(f.Calls(fd.Body), func(s string) bool {
					return strings.HasSuffix(s, ".Truncate") || s == "NewActiveWriter" || strings.HasSuffix(s, ".Sync")
				}), "file operations of Active.truncateTail")
			} else {
				e.Strs("truncateTailCalls", nil, "Active.truncateTail does not exist")
			}
		}
	}, "disk/doc_block.go", "frac/active_writer.go", "frac/file_writer.go", "frac/active.go", "storeapi/grpc_bulk.go", "fracmanager/fracmanager.go", "fracmanager/proxy_frac.go", "frac/active_lids.go")
}
