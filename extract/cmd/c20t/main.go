// Mechanical Go -> Lean translation of the mode decisions of the fields pipe: the store's docFieldsFilter and the
// parser's `fields [except]` keywords (see extract/xlate).
package main

import "verifextract/xlate"

func main() {
	or := []string{"FetchRequest_FieldsFilter.GetFields", "strings.EqualFold"}
	ff := func(as, stmt string) xlate.Spec {
		return xlate.Spec{Pkg: "storeapi", Recv: "docFieldsFilter", Name: "filterFields", As: as, Stmts: []string{stmt}, Oracles: or}
	}
	pp := func(as, stmt string) xlate.Spec {
		return xlate.Spec{Pkg: "parser", Name: "parsePipeFields", As: as, Stmts: []string{stmt}}
	}
	xlate.Main("C20",
		ff("verbatimCond", "if len(dp.filter.GetFields())"),
		ff("blockListCond", "if !dp.filter.AllowList"),
		pp("missingFieldsKw", `if !lex.IsKeyword("fields")`),
		pp("exceptKw", `if lex.IsKeyword("except")`),
	)
}
