// Mechanical Go -> Lean translation of the ID order / equality and the histogram correction C17's model of
// removeRepetitionsAdvanced relies on (see extract/xlate).
package main

import "verifextract/xlate"

func main() {
	xlate.Main("C17",
		xlate.Spec{Pkg: "seq", Name: "Less"},
		xlate.Spec{Pkg: "seq", Name: "LessOrEqual"},
		xlate.Spec{Pkg: "seq", Recv: "ID", Name: "Equal"},
		xlate.Spec{Pkg: "seq", Name: "removeHistogramRepetition", As: "bucketOf",
			Stmts: []string{"bucket := repetition.ID.MID", "bucket -= bucket % histInterval"}},
	)
}
