// Extracted facts for C08 (see package sealfacts).
package main

import (
	"verifextract/lib"
	"verifextract/sealfacts"
)

func main() {
	lib.Main("C08", sealfacts.Emit, sealfacts.Sources...)
}
