// Extracted facts for C11 (tokenizer/*.go, proxy/bulk/{indexer,ingestor}.go, parser term builders).
package main

import (
	"go/ast"
	"go/token"
	"strings"

	"verifextract/lib"
)

func ifConds(f *lib.File, n ast.Node) []string {
	type pc struct {
		pos token.Pos
		s   string
	}
	var res []pc
	ast.Inspect(n, func(x ast.Node) bool {
		if v, ok := x.(*ast.IfStmt); ok {
			res = append(res, pc{v.Pos(), f.Render(v.Cond)})
		}
		return true
	})
	out := make([]string, len(res))
	for i, r := range res {
		out[i] = r.s
	}
	return out
}

func main() {
	lib.Main("C11", func(r lib.Repo, e *lib.Emitter) {
		if v, err := r.ConstInt("tokenizer", "defaultSeparator"); err != nil {
			e.Missing("pathSeparator", err)
		} else {
			e.Nat("pathSeparator", uint64(v), "tokenizer.defaultSeparator")
		}
		if v, err := r.ConstInt("consts", "MaxTextFieldValueLength"); err != nil {
			e.Missing("maxTextFieldValueLength", err)
		} else {
			e.Nat("maxTextFieldValueLength", uint64(v), "consts.MaxTextFieldValueLength")
		}
		if f, err := r.Load("tokenizer/tokenizer.go"); err != nil {
			e.Missing("isTextTokenConds", err)
		} else {
			if fd := f.Func("", "initIsTextToken"); fd == nil {
				e.Missing("isTextTokenConds", "initIsTextToken not found")
			} else {
				e.Strs("isTextTokenConds", ifConds(f, fd.Body), "initIsTextToken: which bytes are token bytes")
			}
			if fd := f.Func("", "initUpperToLowerMap"); fd == nil {
				e.Missing("toLowerMapConds", "initUpperToLowerMap not found")
			} else {
				e.Strs("toLowerMapConds", ifConds(f, fd.Body), "initUpperToLowerMap: which bytes are shifted by 'a'-'A'")
			}
			if fd := f.Func("", "toLowerTryInplace"); fd == nil {
				e.Missing("toLowerInplaceConds", "toLowerTryInplace not found")
			} else {
				e.Strs("toLowerInplaceConds", ifConds(f, fd.Body), "toLowerTryInplace: conditions")
				e.Strs("toLowerInplaceCalls", lib.Filter(f.Calls(fd.Body), func(s string) bool {
					return strings.HasPrefix(s, "utf8.") || strings.HasPrefix(s, "unicode.") || strings.HasPrefix(s, "bytes.")
				}), "toLowerTryInplace: library calls in order")
			}
			if fd := f.Func("", "toLowerIfCaseInsensitive"); fd == nil {
				e.Missing("toLowerIfConds", "toLowerIfCaseInsensitive not found")
			} else {
				e.Strs("toLowerIfConds", ifConds(f, fd.Body), "toLowerIfCaseInsensitive: conditions")
				// does the case-sensitive branch replace invalid UTF-8 (bytes.Map with the identity) unless utf8.Valid(x)?
				norm := false
				for _, st := range fd.Body.List {
					is, ok := st.(*ast.IfStmt)
					if !ok || f.Render(is.Cond) != "isCaseSensitive" {
						continue
					}
					body := f.Render(is.Body)
					norm = strings.Contains(body, "if utf8.Valid(x) { return x }") && strings.Contains(body, "return bytes.Map(func(r rune) rune { return r }, x)")
				}
				e.Bool("csNormalizesInvalid", norm, "toLowerIfCaseInsensitive: the case-sensitive branch is `if utf8.Valid(x) { return x }; return bytes.Map(identity, x)`")
			}
		}
		if f, err := r.Load("tokenizer/text_tokenizer.go"); err != nil {
			e.Missing("textTokenizerConds", err)
		} else if fd := f.Func("TextTokenizer", "Tokenize"); fd == nil {
			e.Missing("textTokenizerConds", "TextTokenizer.Tokenize not found")
		} else {
			e.Strs("textTokenizerConds", ifConds(f, fd.Body), "TextTokenizer.Tokenize: conditions in source order")
		}
		if f, err := r.Load("tokenizer/keyword_tokenizer.go"); err != nil {
			e.Missing("keywordTokenizerConds", err)
		} else if fd := f.Func("KeywordTokenizer", "Tokenize"); fd == nil {
			e.Missing("keywordTokenizerConds", "KeywordTokenizer.Tokenize not found")
		} else {
			e.Strs("keywordTokenizerConds", ifConds(f, fd.Body), "KeywordTokenizer.Tokenize: conditions in source order")
		}
		if f, err := r.Load("tokenizer/path_tokenizer.go"); err != nil {
			e.Missing("pathTokenizerConds", err)
		} else if fd := f.Func("PathTokenizer", "Tokenize"); fd == nil {
			e.Missing("pathTokenizerConds", "PathTokenizer.Tokenize not found")
		} else {
			e.Strs("pathTokenizerConds", ifConds(f, fd.Body), "PathTokenizer.Tokenize: conditions in source order")
		}
		// a quoted token is never a keyword: the first statement of lexer.IsKeyword / IsKeywords / IsKeywordSet
		if f, err := r.Load("parser/seqql.go"); err != nil {
			e.Missing("isKeywordGuards", err)
		} else {
			var guards []string
			for _, fn := range []string{"IsKeyword", "IsKeywords", "IsKeywordSet"} {
				fd := f.Func("lexer", fn)
				if fd == nil || len(fd.Body.List) == 0 {
					guards = append(guards, fn+": not found")
					continue
				}
				guards = append(guards, fn+": "+f.Render(fd.Body.List[0]))
			}
			e.Strs("isKeywordGuards", guards, "lexer.IsKeyword / IsKeywords / IsKeywordSet: the first statement")
		}
		// query side: the word predicates
		if f, err := r.Load("parser/seqql_filter.go"); err != nil {
			e.Missing("seqqlTextConds", err)
		} else if fd := f.Func("", "parseSeqQLText"); fd == nil {
			e.Missing("seqqlTextConds", "parseSeqQLText not found")
		} else {
			e.Strs("seqqlTextConds", ifConds(f, fd.Body), "parseSeqQLText: conditions in source order")
		}
		if f, err := r.Load("parser/token_parser.go"); err != nil {
			e.Missing("legacyIsIndexedConds", err)
		} else if fd := f.Func("tokenParser", "parseLiteral"); fd == nil {
			e.Missing("legacyIsIndexedConds", "parseLiteral not found")
		} else {
			var cs []string
			ast.Inspect(fd.Body, func(n ast.Node) bool {
				if fl, ok := n.(*ast.FuncLit); ok {
					cs = append(cs, ifConds(f, fl.Body)...)
				}
				return true
			})
			e.Strs("legacyIsIndexedConds", cs, "parseLiteral: conditions of the text builder's isIndexed")
		}
		// multi-type fields: which entry of the `types` list becomes Main, what goes into All
		if f, err := r.Load("seq/mapping.go"); err != nil {
			e.Missing("mainTypeRule", err)
		} else if fd := f.Func("", "convertMappingWithMultipleTypes"); fd == nil {
			e.Missing("mainTypeRule", "convertMappingWithMultipleTypes not found")
		} else {
			var rule []string
			var walk func(n ast.Node, conds []string)
			walk = func(n ast.Node, conds []string) {
				switch v := n.(type) {
				case *ast.IfStmt:
					c := f.Render(v.Cond)
					walk(v.Body, append(append([]string(nil), conds...), c))
					if v.Else != nil {
						walk(v.Else, append(append([]string(nil), conds...), "!("+c+")"))
					}
					return
				case *ast.AssignStmt:
					lhs := f.Render(v.Lhs[0])
					if strings.HasPrefix(lhs, "mappingTypes.") || strings.HasPrefix(lhs, "finalMapping[") {
						rule = append(rule, strings.Join(conds, " && ")+" => "+f.Render(v))
					}
				case *ast.BlockStmt:
					for _, st := range v.List {
						walk(st, conds)
					}
					return
				case *ast.RangeStmt:
					walk(v.Body, conds)
					return
				case *ast.ForStmt:
					walk(v.Body, conds)
					return
				}
			}
			walk(fd.Body, nil)
			e.Strs("mainTypeRule", rule, "convertMappingWithMultipleTypes: guarded assignments to mappingTypes / finalMapping, in source order")
			var appends []string
			ast.Inspect(fd.Body, func(n ast.Node) bool {
				if a, ok := n.(*ast.AssignStmt); ok && f.Render(a.Lhs[0]) == "types" {
					appends = append(appends, f.Render(a))
				}
				return true
			})
			e.Strs("allTypesRule", appends, "convertMappingWithMultipleTypes: how the All list is built")
		}
		// proxy -> store clients: every store list (hot, hot-read, write, read) is dialed by the same appendClients with the same
		// option list, which contains the interceptor that forwards request metadata (the `use-seq-ql` header) to the store
		if f, err := r.Load("proxyapi/ingestor.go"); err != nil {
			e.Missing("storeDialCalls", err)
		} else {
			var calls, opts []string
			if fd := f.Func("", "clientsFromConfig"); fd == nil {
				e.Missing("storeDialCalls", "clientsFromConfig not found")
			} else {
				ast.Inspect(fd.Body, func(n ast.Node) bool {
					if c, ok := n.(*ast.CallExpr); ok && f.Render(c.Fun) == "appendClients" {
						calls = append(calls, f.Render(c))
					}
					return true
				})
				e.Strs("storeDialCalls", calls, "clientsFromConfig: the appendClients calls")
			}
			if fd := f.Func("", "appendClients"); fd == nil {
				e.Missing("storeDialOptions", "appendClients not found")
			} else {
				ast.Inspect(fd.Body, func(n ast.Node) bool {
					if c, ok := n.(*ast.CallExpr); ok && (f.Render(c.Fun) == "grpc.DialContext" || f.Render(c.Fun) == "grpc.NewClient") {
						for _, a := range c.Args {
							if ac, ok := a.(*ast.CallExpr); ok && strings.HasPrefix(f.Render(ac.Fun), "grpc.With") {
								x := f.Render(ac.Fun)
								if x == "grpc.WithUnaryInterceptor" || x == "grpc.WithChainUnaryInterceptor" {
									x = f.Render(ac)
								}
								opts = append(opts, x)
							} else if f.Render(a) != "ctx" && f.Render(a) != "replica" {
								opts = append(opts, "arg:"+f.Render(a))
							}
						}
					}
					return true
				})
				e.Strs("storeDialOptions", opts, "appendClients: the dial options of the store connection")
			}
		}
		// which tokenizers the ingestor registers, and the order of index()
		if f, err := r.Load("proxy/bulk/ingestor.go"); err != nil {
			e.Missing("registeredTokenizers", err)
		} else if fd := f.Func("", "NewIngestor"); fd == nil {
			e.Missing("registeredTokenizers", "NewIngestor not found")
		} else {
			var ks []string
			ast.Inspect(fd.Body, func(n ast.Node) bool {
				if kv, ok := n.(*ast.KeyValueExpr); ok && strings.HasPrefix(f.Render(kv.Key), "seq.TokenizerType") {
					ks = append(ks, strings.TrimPrefix(f.Render(kv.Key), "seq.")+"="+f.Render(kv.Value))
				}
				return true
			})
			e.Strs("registeredTokenizers", ks, "NewIngestor: tokenizer per mapping type")
		}
		if f, err := r.Load("proxy/bulk/indexer.go"); err != nil {
			e.Missing("indexConds", err)
		} else if fd := f.Func("indexer", "index"); fd == nil {
			e.Missing("indexConds", "indexer.index not found")
		} else {
			e.Strs("indexConds", ifConds(f, fd.Body), "indexer.index: conditions in source order")
			// the Tokenize call inside the loop over tokenTypes.All: its arguments (the size limit must be the loop variable's)
			var calls, loops []string
			ast.Inspect(fd.Body, func(n ast.Node) bool {
				switch v := n.(type) {
				case *ast.RangeStmt:
					loops = append(loops, f.Render(v.Key)+", "+f.Render(v.Value)+" := range "+f.Render(v.X))
				case *ast.CallExpr:
					if sel, ok := v.Fun.(*ast.SelectorExpr); ok && sel.Sel.Name == "Tokenize" {
						var args []string
						for _, a := range v.Args {
							args = append(args, f.Render(a))
						}
						calls = append(calls, "Tokenize("+strings.Join(args, ", ")+")")
					}
				}
				return true
			})
			e.Strs("indexLoops", loops, "indexer.index: range loops")
			e.Strs("indexTokenizeCalls", calls, "indexer.index: arguments of the Tokenize call")
		}
	}, "tokenizer/tokenizer.go", "tokenizer/text_tokenizer.go", "tokenizer/keyword_tokenizer.go", "tokenizer/path_tokenizer.go",
		"parser/seqql_filter.go", "parser/token_parser.go", "proxy/bulk/ingestor.go", "proxy/bulk/indexer.go", "consts/consts.go")
}
