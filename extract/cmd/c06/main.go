// Extracted facts for C06 (seq/qpr.go, frac/processor/aggregator.go, eval_tree.go, search.go, consts/consts.go).
package main

import (
	"fmt"
	"go/ast"
	"strings"

	"verifextract/lib"
)

// ifConds lists the rendered conditions of the top-level `if` statements of a function body, in source order.
func ifConds(f *lib.File, body *ast.BlockStmt) []string {
	var res []string
	for _, s := range body.List {
		if x, ok := s.(*ast.IfStmt); ok {
			res = append(res, f.Render(x.Cond))
		}
	}
	return res
}

// assignsTo lists the rendered right-hand sides of assignments (=, :=, +=, -=) whose single left side renders as lhs.
func assignsTo(f *lib.File, n ast.Node, lhs string) []string {
	var res []string
	ast.Inspect(n, func(m ast.Node) bool {
		if a, ok := m.(*ast.AssignStmt); ok && len(a.Lhs) == 1 && len(a.Rhs) == 1 && f.Render(a.Lhs[0]) == lhs {
			res = append(res, a.Tok.String()+" "+f.Render(a.Rhs[0]))
		}
		return true
	})
	return res
}

func main() {
	lib.Main("C06", func(r lib.Repo, e *lib.Emitter) {
		if v, err := r.ConstInt("seq", "maxHistogramSamples"); err != nil {
			e.Missing("maxHistogramSamples", err)
		} else {
			e.Nat("maxHistogramSamples", uint64(v), "seq.maxHistogramSamples")
		}
		if v, err := r.ConstInt("consts", "DummyMID"); err != nil {
			e.Missing("dummyMID", err)
		} else {
			e.Nat("dummyMID", uint64(v), "consts.DummyMID")
		}
		qpr, err := r.Load("seq/qpr.go")
		if err != nil {
			e.Missing("qpr.go", err)
			return
		}
		if fd := qpr.Func("SamplesContainer", "Quantile"); fd == nil {
			e.Missing("quantileConds", "SamplesContainer.Quantile not found")
		} else {
			conds := ifConds(qpr, fd.Body)
			e.Strs("quantileConds", conds, "top-level if conditions of SamplesContainer.Quantile, source order (each returns)")
			fixedOrder := []string{"quantile < 0 || quantile > 1", "h.Total == 0", "quantile == 1", "quantile == 0", "len(h.Samples) == 0"}
			e.Bool("quantileFixed", strings.Join(conds, "|") == strings.Join(fixedOrder, "|"), "Quantile has the repaired order (NaN on Total == 0, then the 0/1 shortcuts, then NaN on no samples)")
			e.Strs("quantileIndex", assignsTo(qpr, fd.Body, "index"), "index computation of SamplesContainer.Quantile")
		}
		if fd := qpr.Func("SamplesContainer", "Merge"); fd == nil {
			e.Missing("mergeConds", "SamplesContainer.Merge not found")
		} else {
			e.Strs("mergeConds", ifConds(qpr, fd.Body), "top-level if conditions of SamplesContainer.Merge")
			var ops []string
			for _, l := range []string{"h.NotExists", "h.Min", "h.Max", "h.Sum", "h.Total"} {
				for _, rhs := range assignsTo(qpr, fd.Body, l) {
					ops = append(ops, l+" "+rhs)
				}
			}
			e.Strs("mergeAssigns", ops, "field updates of SamplesContainer.Merge")
		}
		if fd := qpr.Func("SamplesContainer", "InsertNTimes"); fd == nil {
			e.Missing("insertNTimesAssigns", "InsertNTimes not found")
		} else {
			var ops []string
			for _, l := range []string{"h.Min", "h.Max", "h.Sum", "h.Total"} {
				for _, rhs := range assignsTo(qpr, fd.Body, l) {
					ops = append(ops, l+" "+rhs)
				}
			}
			e.Strs("insertNTimesAssigns", ops, "field updates of SamplesContainer.InsertNTimes")
		}
		if fd := qpr.Func("SamplesContainer", "InsertSample"); fd == nil {
			e.Missing("insertSampleConds", "InsertSample not found")
		} else {
			e.Strs("insertSampleConds", ifConds(qpr, fd.Body), "condition under which InsertSample appends")
		}
		if fd := qpr.Func("", "NewSamplesContainers"); fd == nil {
			e.Missing("newContainerInit", "NewSamplesContainers not found")
		} else {
			var kv []string
			ast.Inspect(fd.Body, func(n ast.Node) bool {
				if x, ok := n.(*ast.KeyValueExpr); ok {
					kv = append(kv, qpr.Render(x.Key)+": "+qpr.Render(x.Value))
				}
				return true
			})
			e.Strs("newContainerInit", kv, "initial Min/Max of NewSamplesContainers")
		}
		if fd := qpr.Func("AggregatableSamples", "getAggBucket"); fd == nil {
			e.Missing("nanConds", "getAggBucket not found")
		} else {
			var conds []string
			for _, c := range ifConds(qpr, fd.Body) {
				if strings.Contains(c, "Total") {
					conds = append(conds, c)
				}
			}
			e.Strs("nanConds", conds, "getAggBucket: condition under which the value becomes NaN")
		}
		if fd := qpr.Func("AggregatableSamples", "Aggregate"); fd == nil {
			e.Missing("skipConds", "Aggregate not found")
		} else {
			var conds []string
			ast.Inspect(fd.Body, func(n ast.Node) bool {
				if x, ok := n.(*ast.IfStmt); ok {
					conds = append(conds, qpr.Render(x.Cond))
				}
				return true
			})
			e.Strs("skipConds", conds, "Aggregate: condition under which a bin is skipped")
		}
		if fd := qpr.Func("", "MergeQPRs"); fd == nil {
			e.Missing("histMergeAssigns", "MergeQPRs not found")
		} else {
			e.Strs("histMergeAssigns", assignsTo(qpr, fd.Body, "dst.Histogram[time]"), "MergeQPRs: histogram accumulation")
		}
		et, err := r.Load("frac/processor/eval_tree.go")
		if err != nil {
			e.Missing("eval_tree.go", err)
		} else if fd := et.Func("", "evalAgg"); fd == nil {
			e.Missing("collectSamplesExpr", "evalAgg not found")
		} else {
			e.Strs("collectSamplesExpr", assignsTo(et, fd.Body, "collectSamples"), "evalAgg: when samples are collected")
		}
		if et != nil {
			if fd := et.Func("", "haveNotMinMaxQuantiles"); fd == nil {
				e.Missing("innerQuantileConds", "haveNotMinMaxQuantiles not found")
			} else {
				var conds []string
				ast.Inspect(fd.Body, func(n ast.Node) bool {
					if x, ok := n.(*ast.IfStmt); ok {
						conds = append(conds, et.Render(x.Cond))
					}
					return true
				})
				e.Strs("innerQuantileConds", conds, "haveNotMinMaxQuantiles: condition that makes a quantile an inner one")
			}
		}
		// positional labels: the aggregation labels the i-th leaf of its OR tree with tids[i]
		// (WrapWithSource / ValueBySource), so GetLIDsFromTIDs has to return exactly one node per tid, in order,
		// for every window - also when the token has no LIDs in it.
		perTid := func(rel, recv string) (bool, []string, error) {
			f, err := r.Load(rel)
			if err != nil {
				return false, nil, err
			}
			fd := f.Func(recv, "GetLIDsFromTIDs")
			if fd == nil {
				return false, nil, fmt.Errorf("%s.GetLIDsFromTIDs not found", recv)
			}
			ok := false
			var shape []string
			jumps := 0
			ast.Inspect(fd.Body, func(n ast.Node) bool {
				switch x := n.(type) {
				case *ast.BranchStmt:
					jumps++
					shape = append(shape, x.Tok.String())
				case *ast.RangeStmt:
					if f.Render(x.X) != "tids" {
						return true
					}
					for _, st := range x.Body.List { // direct children of the loop body only
						if a, isA := st.(*ast.AssignStmt); isA && len(a.Lhs) == 1 {
							l, rhs := f.Render(a.Lhs[0]), f.Render(a.Rhs[0])
							if l == "nodes" && strings.HasPrefix(rhs, "append(nodes, ") || l == "nodes[i]" {
								ok = true
								shape = append(shape, "per-tid "+l+" "+a.Tok.String())
							}
						}
					}
				}
				return true
			})
			return ok && jumps == 0, shape, nil
		}
		for _, t := range []struct{ name, rel, recv string }{
			{"activeLeafPerTid", "frac/active_index.go", "activeTokenIndex"},
			{"sealedLeafPerTid", "frac/sealed_index.go", "sealedTokenIndex"},
		} {
			if ok, shape, err := perTid(t.rel, t.recv); err != nil {
				e.Missing(t.name, err)
			} else {
				e.Bool(t.name, ok, t.recv+".GetLIDsFromTIDs appends / assigns exactly one node per tid, unconditionally (no continue / break): "+strings.Join(shape, "; "))
			}
		}
		if f, err := r.Load("node/sourced_node_wrapper.go"); err != nil {
			e.Missing("wrapWithSource", err)
		} else if fd := f.Func("", "WrapWithSource"); fd == nil {
			e.Missing("wrapWithSource", "WrapWithSource not found")
		} else {
			e.Strs("wrapWithSource", assignsTo(f, fd.Body, "sourced[i]"), "WrapWithSource: the source of a leaf is its position")
		}
		// unit conversions of the hops (store -> proxy -> client)
		exprsIn := func(rel, recv, fn string, pick func(f *lib.File, n ast.Node) (string, bool)) ([]string, error) {
			f, err := r.Load(rel)
			if err != nil {
				return nil, err
			}
			fd := f.Func(recv, fn)
			if fd == nil {
				return nil, fmt.Errorf("%s not found in %s", fn, rel)
			}
			var res []string
			ast.Inspect(fd.Body, func(n ast.Node) bool {
				if s, ok := pick(f, n); ok {
					res = append(res, s)
				}
				return true
			})
			return res, nil
		}
		retExpr := func(f *lib.File, n ast.Node) (string, bool) {
			if x, ok := n.(*ast.ReturnStmt); ok && len(x.Results) == 1 {
				return f.Render(x.Results[0]), true
			}
			return "", false
		}
		kvOf := func(key string) func(f *lib.File, n ast.Node) (string, bool) {
			return func(f *lib.File, n ast.Node) (string, bool) {
				if x, ok := n.(*ast.KeyValueExpr); ok && f.Render(x.Key) == key {
					return f.Render(x.Value), true
				}
				return "", false
			}
		}
		for _, t := range []struct {
			name, rel, recv, fn, what string
			pick                      func(f *lib.File, n ast.Node) (string, bool)
		}{
			{"midTimeExpr", "seq/seq.go", "MID", "Time", "MID.Time()", retExpr},
			{"storeBinTs", "storeapi/grpc_search.go", "", "buildSearchResponse", "buildSearchResponse: Ts of a time-series bin", kvOf("Ts")},
			{"proxyBinMid", "proxy/search/ingestor.go", "", "responseToQPR", "responseToQPR: MID of a time-series bin", func(f *lib.File, n ast.Node) (string, bool) {
				if x, ok := n.(*ast.KeyValueExpr); ok && f.Render(x.Key) == "MID" && strings.Contains(f.Render(x.Value), "bin.") {
					return f.Render(x.Value), true
				}
				return "", false
			}},
			{"apiBucketTs", "proxyapi/grpc_v1.go", "", "makeProtoAggregation", "makeProtoAggregation: guard and Ts of a bucket", func(f *lib.File, n ast.Node) (string, bool) {
				switch x := n.(type) {
				case *ast.IfStmt:
					return f.Render(x.Cond), true
				case *ast.AssignStmt:
					if len(x.Lhs) == 1 && f.Render(x.Lhs[0]) == "bucket.Ts" {
						return f.Render(x.Rhs[0]), true
					}
				}
				return "", false
			}},
			{"apiHistTs", "proxyapi/grpc_v1.go", "", "makeProtoHistogram", "makeProtoHistogram: Ts of a bucket", func(f *lib.File, n ast.Node) (string, bool) {
				if x, ok := n.(*ast.AssignStmt); ok && len(x.Lhs) == 1 && f.Render(x.Lhs[0]) == "bucket.Ts" {
					return f.Render(x.Rhs[0]), true
				}
				return "", false
			}},
		} {
			if v, err := exprsIn(t.rel, t.recv, t.fn, t.pick); err != nil {
				e.Missing(t.name, err)
			} else {
				e.Strs(t.name, v, t.what)
			}
		}
		{
			a, err1 := exprsIn("seq/seq.go", "", "MIDToTime", retExpr)
			b, err2 := exprsIn("seq/seq.go", "", "MIDToDuration", retExpr)
			if err1 != nil || err2 != nil {
				e.Missing("midToTimeExpr", fmt.Sprint(err1, err2))
			} else {
				e.Strs("midToTimeExpr", append(a, b...), "seq.MIDToTime / MIDToDuration")
			}
		}
		// searchShard: the arms of `switch resp.Code` (each must return an error) and all declared SearchErrorCode values
		if f, err := r.Load("proxy/search/ingestor.go"); err != nil {
			e.Missing("shardCodeArms", err)
		} else if fd := f.Func("Ingestor", "searchShard"); fd == nil {
			e.Missing("shardCodeArms", "searchShard not found")
		} else {
			var arms []string
			allErr := true
			ast.Inspect(fd.Body, func(n ast.Node) bool {
				sw, ok := n.(*ast.SwitchStmt)
				if !ok || sw.Tag == nil || f.Render(sw.Tag) != "resp.Code" {
					return true
				}
				for _, st := range sw.Body.List {
					cc := st.(*ast.CaseClause)
					returnsErr := false
					for _, b := range cc.Body {
						if ret, ok := b.(*ast.ReturnStmt); ok && len(ret.Results) == 3 && f.Render(ret.Results[0]) == "nil" && f.Render(ret.Results[2]) != "nil" {
							returnsErr = true
						}
					}
					for _, l := range cc.List {
						arms = append(arms, f.Render(l))
					}
					if cc.List == nil || !returnsErr {
						allErr = false
					}
				}
				return true
			})
			e.Strs("shardCodeArms", arms, "searchShard: case labels of `switch resp.Code`")
			e.Bool("shardCodeArmsReturnErr", allErr && len(arms) > 0, "every arm returns (nil, source, error); there is no default arm")
		}
		if f, err := r.Load("pkg/storeapi/store_api.pb.go"); err != nil {
			e.Missing("searchErrorCodes", err)
		} else {
			var names []string
			for _, d := range f.AST.Decls {
				gd, ok := d.(*ast.GenDecl)
				if !ok {
					continue
				}
				for _, sp := range gd.Specs {
					if vs, ok := sp.(*ast.ValueSpec); ok && vs.Type != nil && f.Render(vs.Type) == "SearchErrorCode" {
						for _, n := range vs.Names {
							names = append(names, n.Name)
						}
					}
				}
			}
			e.Strs("searchErrorCodes", names, "all declared values of storeapi.SearchErrorCode")
		}
		// parseNum is exactly strconv.ParseFloat(str, 64) with NaN / Inf / error rejected
		if ag, err := r.Load("frac/processor/aggregator.go"); err != nil {
			e.Missing("parseNumCalls", err)
		} else {
			if fd := ag.Func("", "parseNum"); fd == nil {
				e.Missing("parseNumCalls", "parseNum not found")
			} else {
				var calls, conds []string
				ast.Inspect(fd.Body, func(n ast.Node) bool {
					switch x := n.(type) {
					case *ast.CallExpr:
						if c := ag.Render(x); strings.HasPrefix(c, "strconv.") {
							calls = append(calls, c)
						}
					case *ast.IfStmt:
						conds = append(conds, ag.Render(x.Cond))
					}
					return true
				})
				e.Strs("parseNumCalls", calls, "parseNum: every strconv call")
				e.Strs("parseNumErrConds", conds, "parseNum: conditions under which it returns an error")
			}
		}
		// aggregationArgsFromProto: SkipWithoutTimestamp is decided PER aggregation, inside the loop over the aggregations
		if f, err := r.Load("proxyapi/grpc_complex_search.go"); err != nil {
			e.Missing("skipPerAggregation", err)
		} else if fd := f.Func("", "aggregationArgsFromProto"); fd == nil {
			e.Missing("skipPerAggregation", "aggregationArgsFromProto not found")
		} else {
			var exprs []string
			inLoop := false
			ast.Inspect(fd.Body, func(n ast.Node) bool {
				if rs, ok := n.(*ast.RangeStmt); ok && f.Render(rs.X) == "aggs" && rs.Value != nil && f.Render(rs.Value) == "agg" {
					ast.Inspect(rs.Body, func(m ast.Node) bool {
						if kv, ok := m.(*ast.KeyValueExpr); ok && f.Render(kv.Key) == "SkipWithoutTimestamp" {
							exprs = append(exprs, f.Render(kv.Value))
							inLoop = true
						}
						return true
					})
				}
				return true
			})
			e.Strs("skipPerAggregation", exprs, "aggregationArgsFromProto: value of SkipWithoutTimestamp inside `for i, agg := range aggs`")
			_ = inLoop
		}
		// JSON rendering of the public API: every strconv.FormatFloat of the marshaler uses bitSize 64 and the
		// shortest round-trip form (precision -1)
		if f, err := r.Load("pkg/seqproxyapi/v1/marshaler.go"); err != nil {
			e.Missing("jsonFormatFloatArgs", err)
		} else {
			var args []string
			ast.Inspect(f.AST, func(n ast.Node) bool {
				if c, ok := n.(*ast.CallExpr); ok && f.Render(c.Fun) == "strconv.FormatFloat" && len(c.Args) == 4 {
					args = append(args, f.Render(c.Args[1])+","+f.Render(c.Args[2])+","+f.Render(c.Args[3]))
				}
				return true
			})
			e.Strs("jsonFormatFloatArgs", args, "pkg/seqproxyapi/v1/marshaler.go: (fmt, prec, bitSize) of every strconv.FormatFloat")
		}
		se, err := r.Load("frac/processor/search.go")
		if err != nil {
			e.Missing("search.go", err)
		} else if fd := se.Func("", "iterateEvalTree"); fd == nil {
			e.Missing("histBucketAssigns", "iterateEvalTree not found")
		} else {
			e.Strs("histBucketAssigns", assignsTo(se, fd.Body, "bucket"), "iterateEvalTree: histogram bucket of a MID")
			e.Strs("histCountAssigns", func() []string {
				var res []string
				ast.Inspect(fd.Body, func(n ast.Node) bool {
					if x, ok := n.(*ast.IncDecStmt); ok && strings.HasPrefix(se.Render(x.X), "histogram[") {
						res = append(res, se.Render(x.X)+x.Tok.String())
					}
					return true
				})
				return res
			}(), "iterateEvalTree: histogram counting statement")
		}
		ag, err := r.Load("frac/processor/aggregator.go")
		if err != nil {
			e.Missing("aggregator.go", err)
		} else if fd := ag.Func("TwoSourceAggregator", "Next"); fd == nil {
			e.Missing("groupNotExistsIncr", "TwoSourceAggregator.Next not found")
		} else {
			var incs []string
			ast.Inspect(fd.Body, func(n ast.Node) bool {
				if x, ok := n.(*ast.IncDecStmt); ok && strings.HasPrefix(ag.Render(x.X), "n.groupByNotExists[") {
					incs = append(incs, ag.Render(x.X)+x.Tok.String())
				}
				return true
			})
			e.Strs("groupNotExistsIncr", incs, "TwoSourceAggregator.Next: tally of documents of a group without the field")
			e.Bool("groupNotExistsPerBin", len(incs) == 1 && incs[0] == "n.groupByNotExists[AggBin[uint32]{MID: n.extractMID(seq.LID(lid)), Source: groupBySource}]++",
				"the tally is keyed by the document's time bin (repaired) rather than by the source alone")
		}
		// ValueBySource: the token cache is looked up and stored under the same key (the source)
		if ag != nil {
			if fd := ag.Func("SourcedNodeIterator", "ValueBySource"); fd == nil {
				e.Missing("tokenCacheKeys", "ValueBySource not found")
			} else {
				var keys []string
				ast.Inspect(fd.Body, func(n ast.Node) bool {
					if x, ok := n.(*ast.IndexExpr); ok && ag.Render(x.X) == "s.tokensCache" {
						keys = append(keys, ag.Render(x.Index))
					}
					return true
				})
				e.Strs("tokenCacheKeys", keys, "ValueBySource: index expressions of s.tokensCache (lookup, store), source order")
			}
		}
		if ag == nil {
		} else if fd := ag.Func("", "provideExtractTimeFunc"); fd == nil {
			e.Missing("extractTimeRule", "provideExtractTimeFunc not found")
		} else {
			var rule []string
			ast.Inspect(fd.Body, func(n ast.Node) bool {
				switch x := n.(type) {
				case *ast.IfStmt:
					rule = append(rule, "if "+ag.Render(x.Cond))
				case *ast.ReturnStmt:
					if len(x.Results) == 1 {
						if s := ag.Render(x.Results[0]); !strings.HasPrefix(s, "ExtractMIDFunc(") {
							rule = append(rule, "return "+s)
						}
					}
				}
				return true
			})
			e.Strs("extractTimeRule", rule, "provideExtractTimeFunc: guard and the returned bin expressions")
		}
	}, "consts/consts.go", "seq/qpr.go", "frac/processor/eval_tree.go", "frac/processor/search.go", "frac/processor/aggregator.go", "frac/active_index.go", "frac/sealed_index.go", "node/sourced_node_wrapper.go", "seq/seq.go", "storeapi/grpc_search.go", "proxy/search/ingestor.go", "proxyapi/grpc_v1.go", "pkg/storeapi/store_api.pb.go", "proxyapi/grpc_complex_search.go", "pkg/seqproxyapi/v1/marshaler.go")
}
