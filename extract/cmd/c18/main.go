// Extracted facts for C18 (cache/cache.go, cache/cleaner.go): the ratios behind the model's `/ 20`, the guards of
// Rotate / Cleanup / markStale / Cache.Cleanup, the order of the critical-section operations of save / recover /
// Release / getOrCreate, and the shape of ReleaseBuckets.
package main

import (
	"go/ast"
	"go/token"
	"strings"

	"verifextract/lib"
)

func constLiteral(f *lib.File, name string) (string, bool) {
	for _, d := range f.AST.Decls {
		gd, ok := d.(*ast.GenDecl)
		if !ok || gd.Tok != token.CONST {
			continue
		}
		for _, sp := range gd.Specs {
			vs := sp.(*ast.ValueSpec)
			for i, n := range vs.Names {
				if n.Name == name && i < len(vs.Values) {
					return f.Render(vs.Values[i]), true
				}
			}
		}
	}
	return "", false
}

// conds lists, in source order, the rendered conditions of the if / for statements under n.
func conds(f *lib.File, n ast.Node) []string {
	var res []string
	ast.Inspect(n, func(x ast.Node) bool {
		switch s := x.(type) {
		case *ast.IfStmt:
			res = append(res, "if "+f.Render(s.Cond))
		case *ast.ForStmt:
			if s.Cond != nil {
				res = append(res, "for "+f.Render(s.Cond))
			}
		}
		return true
	})
	return res
}

// events lists, in source order, calls (rendered callee) and assignments (rendered statement) under n.
func events(f *lib.File, n ast.Node, keep func(string) bool) []string {
	type ev struct {
		pos token.Pos
		s   string
	}
	var evs []ev
	ast.Inspect(n, func(x ast.Node) bool {
		switch s := x.(type) {
		case *ast.CallExpr:
			evs = append(evs, ev{s.Pos(), "call " + f.Render(s.Fun)})
		case *ast.AssignStmt:
			evs = append(evs, ev{s.Pos(), f.Render(s)})
		case *ast.DeferStmt:
			evs = append(evs, ev{s.Pos(), "defer"})
		}
		return true
	})
	for i := 1; i < len(evs); i++ {
		for j := i; j > 0 && evs[j].pos < evs[j-1].pos; j-- {
			evs[j], evs[j-1] = evs[j-1], evs[j]
		}
	}
	var res []string
	for _, e := range evs {
		if keep == nil || keep(e.s) {
			res = append(res, e.s)
		}
	}
	return res
}

func main() {
	lib.Main("C18", func(r lib.Repo, e *lib.Emitter) {
		cl, err := r.Load("cache/cleaner.go")
		if err != nil {
			e.Missing("cleaner.go", err)
			return
		}
		ca, err := r.Load("cache/cache.go")
		if err != nil {
			e.Missing("cache.go", err)
			return
		}
		for _, c := range []string{"maxGenerationRatio", "minSizeToCleanRatio"} {
			if v, ok := constLiteral(cl, c); ok {
				e.Str(c, v, "cache/cleaner.go const "+c)
			} else {
				e.Missing(c, "constant not found")
			}
		}
		fn := func(f *lib.File, recv, name, def string, emit func(fd *ast.FuncDecl)) {
			if fd := f.Func(recv, name); fd == nil || fd.Body == nil {
				e.Missing(def, recv+"."+name+" not found")
			} else {
				emit(fd)
			}
		}
		fn(cl, "", "NewCleaner", "newCleanerMaxGenSize", func(fd *ast.FuncDecl) {
			var v string
			ast.Inspect(fd.Body, func(x ast.Node) bool {
				if kv, ok := x.(*ast.KeyValueExpr); ok && cl.Render(kv.Key) == "maxGenSize" {
					v = cl.Render(kv.Value)
				}
				return true
			})
			e.Str("newCleanerMaxGenSize", v, "NewCleaner: value of the maxGenSize field")
		})
		fn(cl, "Cleaner", "Rotate", "rotateConds", func(fd *ast.FuncDecl) {
			e.Strs("rotateConds", conds(cl, fd.Body), "Cleaner.Rotate: guards")
		})
		fn(cl, "Cleaner", "Cleanup", "cleanupConds", func(fd *ast.FuncDecl) {
			e.Strs("cleanupConds", conds(cl, fd.Body)[:min(2, len(conds(cl, fd.Body)))], "Cleaner.Cleanup: the two early-return guards")
			e.Strs("cleanupEvents", events(cl, fd.Body, func(s string) bool {
				return strings.HasPrefix(s, "minSize :=") || strings.HasPrefix(s, "sizeToClean :=") || strings.HasPrefix(s, "buckets :=") ||
					s == "call c.markStale" || s == "call b.Cleanup" || strings.HasPrefix(s, "totalSize :=")
			}), "Cleaner.Cleanup: size computation, bucket snapshot, markStale, bucket visits in source order")
		})
		fn(cl, "Cleaner", "markStale", "markStaleConds", func(fd *ast.FuncDecl) {
			e.Strs("markStaleConds", conds(cl, fd.Body), "Cleaner.markStale: loop condition and the last-generation guard")
			e.Strs("markStaleEvents", events(cl, fd.Body, func(s string) bool {
				return strings.Contains(s, "c.generations") || strings.Contains(s, "stale") || strings.HasPrefix(s, "bytes") || s == "call c.rotate"
			}), "Cleaner.markStale: pops, stale marks, byte count, rotate")
		})
		fn(cl, "Cleaner", "rotate", "rotateEvents", func(fd *ast.FuncDecl) {
			e.Strs("rotateEvents", events(cl, fd.Body, func(s string) bool { return !strings.Contains(s, "metrics") }), "Cleaner.rotate")
		})
		fn(cl, "Cleaner", "AddBucket", "addBucketEvents", func(fd *ast.FuncDecl) {
			evs := events(cl, fd.Body, func(s string) bool { return !strings.Contains(s, "metrics") })
			e.Strs("addBucketEvents", evs, "Cleaner.AddBucket")
			lock, unlock, set, app := -1, -1, -1, -1
			for i, x := range evs {
				switch {
				case x == "call c.mu.Lock":
					lock = i
				case x == "call c.mu.Unlock":
					unlock = i
				case x == "call b.SetGeneration":
					set = i
				case strings.HasPrefix(x, "c.buckets = append("):
					app = i
				}
			}
			e.Bool("addBucketAtomic", lock >= 0 && lock < set && set < unlock && lock < app && app < unlock && strings.Contains(cl.Render(fd.Body), "b.SetGeneration(c.lastGen)"),
				"Cleaner.AddBucket: b.SetGeneration(c.lastGen) and the append to c.buckets are both between c.mu.Lock and c.mu.Unlock")
		})
		fn(cl, "Cleaner", "CleanEmptyGenerations", "cleanEmptyConds", func(fd *ast.FuncDecl) {
			e.Strs("cleanEmptyConds", conds(cl, fd.Body), "Cleaner.CleanEmptyGenerations: loop bound and keep condition")
		})
		fn(cl, "Cleaner", "ReleaseBuckets", "releaseBucketsSwapsWithLast", func(fd *ast.FuncDecl) {
			swap, keepsLive := false, false
			ast.Inspect(fd.Body, func(x ast.Node) bool {
				if a, ok := x.(*ast.AssignStmt); ok && len(a.Lhs) == 1 && len(a.Rhs) == 1 {
					l, rr := cl.Render(a.Lhs[0]), cl.Render(a.Rhs[0])
					if strings.HasPrefix(l, "c.buckets[") && strings.HasPrefix(rr, "c.buckets[") {
						swap = true
					}
					if strings.HasPrefix(l, "c.buckets[") && !strings.Contains(rr, "[") {
						keepsLive = true
					}
				}
				return true
			})
			e.Bool("releaseBucketsSwapsWithLast", swap, "Cleaner.ReleaseBuckets copies c.buckets[j] over c.buckets[i] (the swap-with-last loop)")
			e.Bool("releaseBucketsCompacts", keepsLive, "Cleaner.ReleaseBuckets writes the ranged-over bucket itself back (stable compaction)")
			e.Strs("releaseBucketsConds", conds(cl, fd.Body), "Cleaner.ReleaseBuckets: conditions")
		})
		fn(ca, "Cache", "Cleanup", "cacheCleanupConds", func(fd *ast.FuncDecl) {
			e.Strs("cacheCleanupEvents", events(ca, fd.Body, func(s string) bool {
				return s == "call delete" || strings.HasPrefix(s, "e.deleted") || strings.HasPrefix(s, "totalFreed")
			}), "Cache.Cleanup: what happens to an entry of a stale generation")
			var cs []string
			for _, c := range conds(ca, fd.Body) {
				if strings.Contains(c, "stale") {
					cs = append(cs, c)
				}
			}
			e.Strs("cacheCleanupConds", cs, "Cache.Cleanup: the condition under which an entry is kept")
		})
		fn(ca, "Cache", "save", "saveEvents", func(fd *ast.FuncDecl) {
			e.Strs("saveEvents", events(ca, fd.Body, func(s string) bool { return !strings.Contains(s, "metrics") && !strings.HasPrefix(s, "call uint64") }), "Cache.save")
			e.Strs("saveConds", conds(ca, fd.Body), "Cache.save")
		})
		fn(ca, "Cache", "recover", "recoverEvents", func(fd *ast.FuncDecl) {
			e.Strs("recoverEvents", events(ca, fd.Body, nil), "Cache.recover")
			e.Strs("recoverConds", conds(ca, fd.Body), "Cache.recover: the entry is removed only when it is still the caller's")
		})
		fn(ca, "Cache", "Release", "releaseEvents", func(fd *ast.FuncDecl) {
			e.Strs("releaseEvents", events(ca, fd.Body, func(s string) bool { return !strings.Contains(s, "metrics") }), "Cache.Release")
		})
		fn(ca, "entry", "updateGeneration", "updateGenerationEvents", func(fd *ast.FuncDecl) {
			e.Strs("updateGenerationEvents", append(conds(ca, fd.Body), events(ca, fd.Body, nil)...), "entry.updateGeneration")
		})
		fn(ca, "Cache", "getOrCreate", "getOrCreateEvents", func(fd *ast.FuncDecl) {
			e.Strs("getOrCreateEvents", events(ca, fd.Body, func(s string) bool {
				return !strings.Contains(s, "metrics") && !strings.Contains(s, "TryLock")
			}), "Cache.getOrCreate")
			e.Strs("getOrCreateConds", conds(ca, fd.Body), "Cache.getOrCreate")
		})
		for _, c := range []string{"recreateThreshold", "excessiveSizeFactor"} {
			if v, err := r.ConstInt("cache", c); err != nil {
				e.Missing(c, err)
			} else {
				e.Nat(c, uint64(v), "cache/cache.go const "+c)
			}
		}
		fn(ca, "Cache", "recreatePayload", "recreateConds", func(fd *ast.FuncDecl) {
			e.Strs("recreateConds", conds(ca, fd.Body), "Cache.recreatePayload: every condition in the function (the two early returns and nothing else)")
			var body []string
			loops := 0
			ast.Inspect(fd.Body, func(x ast.Node) bool {
				if rs, ok := x.(*ast.RangeStmt); ok {
					loops++
					body = append(body, "range "+ca.Render(rs.X))
					for _, st := range rs.Body.List {
						body = append(body, ca.Render(st))
					}
				}
				return true
			})
			e.Strs("recreateCopyLoop", body, "Cache.recreatePayload: the copy loop (what is ranged over, then its body statements)")
			e.Strs("recreateEvents", events(ca, fd.Body, func(s string) bool {
				return strings.HasPrefix(s, "c.payload =") || strings.HasPrefix(s, "c.maxPayloadSize =") || strings.HasPrefix(s, "newPayload")
			}), "Cache.recreatePayload: assignments")
		})
		fn(ca, "Cache", "Cleanup", "cacheCleanupMaxEvents", func(fd *ast.FuncDecl) {
			var cs []string
			for _, c := range conds(ca, fd.Body) {
				if strings.Contains(c, "maxPayloadSize") {
					cs = append(cs, c)
				}
			}
			cs = append(cs, events(ca, fd.Body, func(s string) bool {
				return strings.HasPrefix(s, "c.maxPayloadSize =") || s == "call c.recreatePayload" || s == "call delete"
			})...)
			e.Strs("cacheCleanupMaxEvents", cs, "Cache.Cleanup: maxPayloadSize update, eviction, then recreatePayload")
		})
		for _, g := range []string{"Get", "GetWithError"} {
			g := g
			fn(ca, "Cache", g, "events"+g, func(fd *ast.FuncDecl) {
				e.Strs("events"+g, events(ca, fd.Body, func(s string) bool {
					return !strings.Contains(s, "time.") && !strings.Contains(s, "Seconds") && !strings.HasPrefix(s, "t :=") && !strings.HasPrefix(s, "latency")
				}), "Cache."+g)
			})
		}
	}, "cache/cache.go", "cache/cleaner.go")
}
