// Extracted facts for C18 (cache/cache.go, cache/cleaner.go): the ratios behind the model's `/ 20`, the guards of
// Rotate / Cleanup / markStale / Cache.Cleanup, the order of the critical-section operations of save / recover /
// Release / getOrCreate, and the shape of ReleaseBuckets.
package main

import (
	"go/ast"
	"go/token"
	"sort"
	"strings"

	"verifextract/lib"
)

func constLiteral(f *lib.File, name string) (string, bool) {
	for _, d := range f.AST.Decls {
		gd, ok := d.(*ast.GenDecl)
		if !ok || gd.Tok != token.CONST {
			continue
		}
		for _, sp := range gd.Specs {
			vs := sp.(*ast.ValueSpec)
			for i, n := range vs.Names {
				if n.Name == name && i < len(vs.Values) {
					return f.Render(vs.Values[i]), true
				}
			}
		}
	}
	return "", false
}

// conds lists, in source order, the rendered conditions of the if / for statements under n.
func conds(f *lib.File, n ast.Node) []string {
	var res []string
	ast.Inspect(n, func(x ast.Node) bool {
		switch s := x.(type) {
		case *ast.IfStmt:
			res = append(res, "if "+f.Render(s.Cond))
		case *ast.ForStmt:
			if s.Cond != nil {
				res = append(res, "for "+f.Render(s.Cond))
			}
		}
		return true
	})
	return res
}

// events lists, in source order, calls (rendered callee) and assignments (rendered statement) under n.
func events(f *lib.File, n ast.Node, keep func(string) bool) []string {
	type ev struct {
		pos token.Pos
		s   string
	}
	var evs []ev
	ast.Inspect(n, func(x ast.Node) bool {
		switch s := x.(type) {
		case *ast.CallExpr:
			evs = append(evs, ev{s.Pos(), "call " + f.Render(s.Fun)})
		case *ast.AssignStmt:
			evs = append(evs, ev{s.Pos(), f.Render(s)})
		case *ast.DeferStmt:
			evs = append(evs, ev{s.Pos(), "defer"})
		}
		return true
	})
	for i := 1; i < len(evs); i++ {
		for j := i; j > 0 && evs[j].pos < evs[j-1].pos; j-- {
			evs[j], evs[j-1] = evs[j-1], evs[j]
		}
	}
	var res []string
	for _, e := range evs {
		if keep == nil || keep(e.s) {
			res = append(res, e.s)
		}
	}
	return res
}

func main() {
	lib.Main("C18", func(r lib.Repo, e *lib.Emitter) {
		cl, err := r.Load("cache/cleaner.go")
		if err != nil {
			e.Missing("cleaner.go", err)
			return
		}
		ca, err := r.Load("cache/cache.go")
		if err != nil {
			e.Missing("cache.go", err)
			return
		}
		for _, c := range []string{"maxGenerationRatio", "minSizeToCleanRatio"} {
			if v, ok := constLiteral(cl, c); ok {
				e.Str(c, v, "cache/cleaner.go const "+c)
			} else {
				e.Missing(c, "constant not found")
			}
		}
		fn := func(f *lib.File, recv, name, def string, emit func(fd *ast.FuncDecl)) {
			if fd := f.Func(recv, name); fd == nil || fd.Body == nil {
				e.Missing(def, recv+"."+name+" not found")
			} else {
				emit(fd)
			}
		}
		fn(cl, "", "NewCleaner", "newCleanerMaxGenSize", func(fd *ast.FuncDecl) {
			var v string
			ast.Inspect(fd.Body, func(x ast.Node) bool {
				if kv, ok := x.(*ast.KeyValueExpr); ok && cl.Render(kv.Key) == "maxGenSize" {
					v = cl.Render(kv.Value)
				}
				return true
			})
			e.Str("newCleanerMaxGenSize", v, "NewCleaner: value of the maxGenSize field")
		})
		fn(cl, "Cleaner", "Rotate", "rotateConds", func(fd *ast.FuncDecl) {
			e.Strs("rotateConds", conds(cl, fd.Body), "Cleaner.Rotate: guards")
		})
		fn(cl, "Cleaner", "Cleanup", "cleanupConds", func(fd *ast.FuncDecl) {
			e.Strs("cleanupConds", conds(cl, fd.Body)[:min(2, len(conds(cl, fd.Body)))], "Cleaner.Cleanup: the two early-return guards")
			e.Strs("cleanupEvents", events(cl, fd.Body, func(s string) bool {
				return strings.HasPrefix(s, "minSize :=") || strings.HasPrefix(s, "sizeToClean :=") || strings.HasPrefix(s, "buckets :=") ||
					s == "call c.markStale" || s == "call b.Cleanup" || strings.HasPrefix(s, "totalSize :=")
			}), "Cleaner.Cleanup: size computation, bucket snapshot, markStale, bucket visits in source order")
		})
		fn(cl, "Cleaner", "markStale", "markStaleConds", func(fd *ast.FuncDecl) {
			e.Strs("markStaleConds", conds(cl, fd.Body), "Cleaner.markStale: loop condition and the last-generation guard")
			e.Strs("markStaleEvents", events(cl, fd.Body, func(s string) bool {
				return strings.Contains(s, "c.generations") || strings.Contains(s, "stale") || strings.HasPrefix(s, "bytes") || s == "call c.rotate"
			}), "Cleaner.markStale: pops, stale marks, byte count, rotate")
		})
		fn(cl, "Cleaner", "rotate", "rotateEvents", func(fd *ast.FuncDecl) {
			e.Strs("rotateEvents", events(cl, fd.Body, func(s string) bool { return !strings.Contains(s, "metrics") }), "Cleaner.rotate")
		})
		fn(cl, "Cleaner", "AddBucket", "addBucketEvents", func(fd *ast.FuncDecl) {
			evs := events(cl, fd.Body, func(s string) bool { return !strings.Contains(s, "metrics") })
			e.Strs("addBucketEvents", evs, "Cleaner.AddBucket")
			lock, unlock, set, app := -1, -1, -1, -1
			for i, x := range evs {
				switch {
				case x == "call c.mu.Lock":
					lock = i
				case x == "call c.mu.Unlock":
					unlock = i
				case x == "call b.SetGeneration":
					set = i
				case strings.HasPrefix(x, "c.buckets = append("):
					app = i
				}
			}
			e.Bool("addBucketAtomic", lock >= 0 && lock < set && set < unlock && lock < app && app < unlock && strings.Contains(cl.Render(fd.Body), "b.SetGeneration(c.lastGen)"),
				"Cleaner.AddBucket: b.SetGeneration(c.lastGen) and the append to c.buckets are both between c.mu.Lock and c.mu.Unlock")
		})
		fn(cl, "Cleaner", "CleanEmptyGenerations", "cleanEmptyConds", func(fd *ast.FuncDecl) {
			e.Strs("cleanEmptyConds", conds(cl, fd.Body), "Cleaner.CleanEmptyGenerations: loop bound and keep condition")
		})
		fn(cl, "Cleaner", "ReleaseBuckets", "releaseBucketsSwapsWithLast", func(fd *ast.FuncDecl) {
			swap, keepsLive := false, false
			ast.Inspect(fd.Body, func(x ast.Node) bool {
				if a, ok := x.(*ast.AssignStmt); ok && len(a.Lhs) == 1 && len(a.Rhs) == 1 {
					l, rr := cl.Render(a.Lhs[0]), cl.Render(a.Rhs[0])
					if strings.HasPrefix(l, "c.buckets[") && strings.HasPrefix(rr, "c.buckets[") {
						swap = true
					}
					if strings.HasPrefix(l, "c.buckets[") && !strings.Contains(rr, "[") {
						keepsLive = true
					}
				}
				return true
			})
			e.Bool("releaseBucketsSwapsWithLast", swap, "Cleaner.ReleaseBuckets copies c.buckets[j] over c.buckets[i] (the swap-with-last loop)")
			e.Bool("releaseBucketsCompacts", keepsLive, "Cleaner.ReleaseBuckets writes the ranged-over bucket itself back (stable compaction)")
			e.Strs("releaseBucketsConds", conds(cl, fd.Body), "Cleaner.ReleaseBuckets: conditions")
		})
		fn(ca, "Cache", "Cleanup", "cacheCleanupConds", func(fd *ast.FuncDecl) {
			e.Strs("cacheCleanupEvents", events(ca, fd.Body, func(s string) bool {
				return s == "call delete" || strings.HasPrefix(s, "e.deleted") || strings.HasPrefix(s, "totalFreed")
			}), "Cache.Cleanup: what happens to an entry of a stale generation")
			var cs []string
			for _, c := range conds(ca, fd.Body) {
				if strings.Contains(c, "stale") {
					cs = append(cs, c)
				}
			}
			e.Strs("cacheCleanupConds", cs, "Cache.Cleanup: the condition under which an entry is kept")
		})
		fn(ca, "Cache", "save", "saveEvents", func(fd *ast.FuncDecl) {
			e.Strs("saveEvents", events(ca, fd.Body, func(s string) bool { return !strings.Contains(s, "metrics") && !strings.HasPrefix(s, "call uint64") }), "Cache.save")
			e.Strs("saveConds", conds(ca, fd.Body), "Cache.save")
		})
		fn(ca, "Cache", "recover", "recoverEvents", func(fd *ast.FuncDecl) {
			e.Strs("recoverEvents", events(ca, fd.Body, nil), "Cache.recover")
			e.Strs("recoverConds", conds(ca, fd.Body), "Cache.recover: the entry is removed only when it is still the caller's")
		})
		fn(ca, "Cache", "Release", "releaseEvents", func(fd *ast.FuncDecl) {
			e.Strs("releaseEvents", events(ca, fd.Body, func(s string) bool { return !strings.Contains(s, "metrics") }), "Cache.Release")
		})
		fn(ca, "entry", "updateGeneration", "updateGenerationEvents", func(fd *ast.FuncDecl) {
			e.Strs("updateGenerationEvents", append(conds(ca, fd.Body), events(ca, fd.Body, nil)...), "entry.updateGeneration")
		})
		fn(ca, "Cache", "getOrCreate", "getOrCreateEvents", func(fd *ast.FuncDecl) {
			e.Strs("getOrCreateEvents", events(ca, fd.Body, func(s string) bool {
				return !strings.Contains(s, "metrics") && !strings.Contains(s, "TryLock")
			}), "Cache.getOrCreate")
			e.Strs("getOrCreateConds", conds(ca, fd.Body), "Cache.getOrCreate")
		})
		for _, c := range []string{"recreateThreshold", "excessiveSizeFactor"} {
			if v, err := r.ConstInt("cache", c); err != nil {
				e.Missing(c, err)
			} else {
				e.Nat(c, uint64(v), "cache/cache.go const "+c)
			}
		}
		fn(ca, "Cache", "recreatePayload", "recreateConds", func(fd *ast.FuncDecl) {
			e.Strs("recreateConds", conds(ca, fd.Body), "Cache.recreatePayload: every condition in the function (the two early returns and nothing else)")
			var body []string
			loops := 0
			ast.Inspect(fd.Body, func(x ast.Node) bool {
				if rs, ok := x.(*ast.RangeStmt); ok {
					loops++
					body = append(body, "range "+ca.Render(rs.X))
					for _, st := range rs.Body.List {
						body = append(body, ca.Render(st))
					}
				}
				return true
			})
			e.Strs("recreateCopyLoop", body, "Cache.recreatePayload: the copy loop (what is ranged over, then its body statements)")
			e.Strs("recreateEvents", events(ca, fd.Body, func(s string) bool {
				return strings.HasPrefix(s, "c.payload =") || strings.HasPrefix(s, "c.maxPayloadSize =") || strings.HasPrefix(s, "newPayload")
			}), "Cache.recreatePayload: assignments")
		})
		fn(ca, "Cache", "Cleanup", "cacheCleanupMaxEvents", func(fd *ast.FuncDecl) {
			var cs []string
			for _, c := range conds(ca, fd.Body) {
				if strings.Contains(c, "maxPayloadSize") {
					cs = append(cs, c)
				}
			}
			cs = append(cs, events(ca, fd.Body, func(s string) bool {
				return strings.HasPrefix(s, "c.maxPayloadSize =") || s == "call c.recreatePayload" || s == "call delete"
			})...)
			e.Strs("cacheCleanupMaxEvents", cs, "Cache.Cleanup: maxPayloadSize update, eviction, then recreatePayload")
		})
		for _, g := range []string{"Get", "GetWithError"} {
			g := g
			fn(ca, "Cache", g, "events"+g, func(fd *ast.FuncDecl) {
				e.Strs("events"+g, events(ca, fd.Body, func(s string) bool {
					return !strings.Contains(s, "time.") && !strings.Contains(s, "Seconds") && !strings.HasPrefix(s, "t :=") && !strings.HasPrefix(s, "latency")
				}), "Cache."+g)
			})
		}
		// ---- one layer up: the maintenance tick (fracmanager/cache_maintainer.go) and frac.IndexCache.Release
		if cm, err := r.Load("fracmanager/cache_maintainer.go"); err != nil {
			e.Missing("cache_maintainer.go", err)
		} else {
			fn(cm, "CacheMaintainer", "RunCleanLoop", "tickStatements", func(fd *ast.FuncDecl) {
				// the function literal passed to util.RunEvery is the tick
				var tick *ast.FuncLit
				ast.Inspect(fd.Body, func(x ast.Node) bool {
					if c, ok := x.(*ast.CallExpr); ok && strings.HasSuffix(cm.Render(c.Fun), "RunEvery") {
						for _, a := range c.Args {
							if fl, ok := a.(*ast.FuncLit); ok {
								tick = fl
							}
						}
					}
					return true
				})
				if tick == nil {
					e.Missing("tickStatements", "no func literal passed to RunEvery")
					return
				}
				var top, gc []string
				for _, st := range tick.Body.List {
					if is, ok := st.(*ast.IfStmt); ok {
						top = append(top, "if "+cm.Render(is.Cond))
						for _, c := range cm.Calls(is.Body) {
							if strings.HasPrefix(c, "cm.") {
								gc = append(gc, c)
							}
						}
						if is.Else != nil {
							top = append(top, "else")
						}
						continue
					}
					top = append(top, cm.Render(st))
				}
				e.Strs("tickStatements", top, "RunCleanLoop: the top-level statements of the tick body (conditions rendered as `if ...`)")
				e.Strs("tickGcCalls", gc, "RunCleanLoop: maintainer calls inside the tick's conditional statements")
			})
			loopCalls := func(recv, name, def string) {
				fn(cm, recv, name, def, func(fd *ast.FuncDecl) {
					var res []string
					ast.Inspect(fd.Body, func(x ast.Node) bool {
						switch v := x.(type) {
						case *ast.RangeStmt:
							res = append(res, "range "+cm.Render(v.X))
						case *ast.IfStmt:
							if v.Init == nil { // a guard that is not the `if x := call(); x > 0` reporting form
								res = append(res, "if "+cm.Render(v.Cond))
							}
						case *ast.CallExpr:
							if c := cm.Render(v.Fun); strings.HasPrefix(c, "cleaner.") && c != "cleaner.SizeLimit" {
								res = append(res, c)
							}
						}
						return true
					})
					e.Strs(def, res, recv+"."+name+": loops, guards and cleaner calls in source order")
				})
			}
			loopCalls("CacheMaintainer", "rotate", "maintainerRotateCalls")
			loopCalls("CacheMaintainer", "garbageCollection", "maintainerGcCalls")
			fn(cm, "CacheMaintainer", "cleanup", "maintainerCleanupCalls", func(fd *ast.FuncDecl) {
				// the Cleanup call is the condition of the logging `if`; what matters is that it is reached for every cleaner
				var res []string
				for _, st := range fd.Body.List {
					if rs, ok := st.(*ast.RangeStmt); ok {
						res = append(res, "range "+cm.Render(rs.X))
						for _, inner := range rs.Body.List {
							if is, ok := inner.(*ast.IfStmt); ok {
								for _, c := range cm.Calls(is.Cond) {
									if strings.HasPrefix(c, "cleaner.") {
										res = append(res, c)
									}
								}
								break
							}
							if _, ok := inner.(*ast.AssignStmt); !ok {
								res = append(res, "stmt "+cm.Render(inner))
							}
						}
					} else {
						res = append(res, "stmt "+cm.Render(st))
					}
				}
				e.Strs("maintainerCleanupCalls", res, "CacheMaintainer.cleanup: the loop and the cleaner call reached in every iteration")
			})
		}
		if ic, err := r.Load("frac/sealed_index_cache.go"); err != nil {
			e.Missing("sealed_index_cache.go", err)
		} else {
			var fields []string
			for _, d := range ic.AST.Decls {
				gd, ok := d.(*ast.GenDecl)
				if !ok {
					continue
				}
				for _, sp := range gd.Specs {
					ts, ok := sp.(*ast.TypeSpec)
					if !ok || ts.Name.Name != "IndexCache" {
						continue
					}
					if st, ok := ts.Type.(*ast.StructType); ok {
						for _, f := range st.Fields.List {
							if strings.Contains(ic.Render(f.Type), "cache.Cache[") {
								for _, n := range f.Names {
									fields = append(fields, n.Name)
								}
							}
						}
					}
				}
			}
			sort.Strings(fields)
			e.Strs("indexCacheFields", fields, "frac.IndexCache: fields of type *cache.Cache[...], sorted")
			fn(ic, "IndexCache", "Release", "indexCacheReleased", func(fd *ast.FuncDecl) {
				var rel []string
				for _, c := range ic.Calls(fd.Body) {
					if strings.HasPrefix(c, "s.") && strings.HasSuffix(c, ".Release") {
						rel = append(rel, strings.TrimSuffix(strings.TrimPrefix(c, "s."), ".Release"))
					}
				}
				sort.Strings(rel)
				e.Strs("indexCacheReleased", rel, "IndexCache.Release: fields whose Release is called, sorted")
				e.Strs("indexCacheReleaseConds", conds(ic, fd.Body), "IndexCache.Release: conditions (none expected: every call is unconditional)")
			})
		}
		// ---- support code: the loader of the doc-block cache, and the split of the configured cache size
		if dr, err := r.Load("disk/doc_blocks_reader.go"); err != nil {
			e.Missing("doc_blocks_reader.go", err)
		} else {
			fn(dr, "DocBlocksReader", "ReadDocBlockPayload", "loaderReturns", func(fd *ast.FuncDecl) {
				var rets, defs []string
				payloadCalls := 0
				ast.Inspect(fd.Body, func(x ast.Node) bool {
					switch v := x.(type) {
					case *ast.ReturnStmt:
						rets = append(rets, dr.Render(v))
					case *ast.AssignStmt:
						if len(v.Lhs) > 0 && dr.Render(v.Lhs[0]) == "dst" {
							defs = append(defs, dr.Render(v))
						}
					case *ast.CallExpr:
						if strings.HasSuffix(dr.Render(v.Fun), ".Payload") {
							payloadCalls++
						}
					}
					return true
				})
				e.Strs("loaderReturns", rets, "DocBlocksReader.ReadDocBlockPayload: every return statement")
				e.Strs("loaderDst", defs, "DocBlocksReader.ReadDocBlockPayload: where the returned buffer comes from")
				e.Nat("loaderPayloadCalls", uint64(payloadCalls), "DocBlocksReader.ReadDocBlockPayload: direct uses of the pooled block's Payload()")
			})
		}
		if db, err := r.Load("disk/doc_block.go"); err != nil {
			e.Missing("doc_block.go", err)
		} else {
			fn(db, "DocBlock", "DecompressTo", "decompressToNoCodec", func(fd *ast.FuncDecl) {
				var res []string
				ast.Inspect(fd.Body, func(x ast.Node) bool {
					if is, ok := x.(*ast.IfStmt); ok && strings.Contains(db.Render(is.Cond), "CodecNo") {
						res = append(res, "if "+db.Render(is.Cond))
						for _, st := range is.Body.List {
							res = append(res, db.Render(st))
						}
					}
					return true
				})
				e.Strs("decompressToNoCodec", res, "DocBlock.DecompressTo: the uncompressed case copies the payload into dst")
			})
		}
		// the sealed-index loaders: an empty / unreadable block is a FAILURE inside the cache's loader call
		if si, err := r.Load("frac/sealed_ids.go"); err != nil {
			e.Missing("sealed_ids.go", err)
		} else {
			var guarded []string
			for _, name := range []string{"loadMIDBlock", "loadParamsBlock", "loadRIDBlock"} {
				fd := si.Func("IDsLoader", name)
				if fd == nil || fd.Body == nil {
					e.Missing("idsLoadersFailOnEmpty", name+" not found")
					continue
				}
				// an `if ... len(data) == 0 ...` whose body panics, before the value is returned / unpacked
				ast.Inspect(fd.Body, func(x ast.Node) bool {
					is, ok := x.(*ast.IfStmt)
					if !ok || !strings.Contains(si.Render(is.Cond), "len(data) == 0") {
						return true
					}
					for _, c := range si.Calls(is.Body) {
						if strings.HasSuffix(c, "Panic") || c == "panic" {
							guarded = append(guarded, name+": if "+si.Render(is.Cond))
						}
					}
					return true
				})
			}
			e.Strs("idsLoadersFailOnEmpty", guarded, "IDsLoader.load*Block: loaders that panic (inside the cache's loader call) when the block is empty / unreadable")
			var gets []string
			for _, name := range []string{"GetMIDsBlock", "GetRIDsBlock", "GetParamsBlock"} {
				if fd := si.Func("IDsLoader", name); fd != nil {
					for _, c := range si.Calls(fd.Body) {
						if strings.HasPrefix(c, "il.cache.") || strings.HasPrefix(c, "il.load") {
							gets = append(gets, name+": "+c)
						}
					}
				}
			}
			e.Strs("idsLoaderCalls", gets, "IDsLoader.Get*Block: the cache call and the loader run inside it")
		}
		if tl, err := r.Load("frac/token/table_loader.go"); err != nil {
			e.Missing("table_loader.go", err)
		} else {
			fn(tl, "TableLoader", "load", "tableLoaderStrings", func(fd *ast.FuncDecl) {
				var strs []string
				ast.Inspect(fd.Body, func(x ast.Node) bool {
					if a, ok := x.(*ast.AssignStmt); ok && len(a.Lhs) == 1 {
						l := tl.Render(a.Lhs[0])
						if l == "fieldName" || l == "field.MinVal" || l == "e.MaxVal" || l == "minVal" {
							strs = append(strs, tl.Render(a))
						}
					}
					return true
				})
				e.Strs("tableLoaderStrings", strs, "TableLoader.load: where the strings stored in the cached table come from (copies of the read buffer)")
			})
			fn(tl, "TableLoader", "readBlock", "tableLoaderReadBlock", func(fd *ast.FuncDecl) {
				e.Strs("tableLoaderReadBlock", events(tl, fd.Body, func(s string) bool { return strings.Contains(s, "buf") || strings.Contains(s, "ReadIndexBlock") }), "TableLoader.readBlock: the read buffer is reused for every block")
			})
		}
		if cf, err := r.Load("fracmanager/config.go"); err != nil {
			e.Missing("config.go", err)
		} else {
			fn(cf, "", "FillConfigWithDefault", "sortCacheDefault", func(fd *ast.FuncDecl) {
				var res []string
				ast.Inspect(fd.Body, func(x ast.Node) bool {
					is, ok := x.(*ast.IfStmt)
					if !ok || cf.Render(is.Cond) != "config.SortCacheSize == 0" {
						return true
					}
					ast.Inspect(is, func(y ast.Node) bool {
						switch v := y.(type) {
						case *ast.IfStmt:
							res = append(res, "if "+cf.Render(v.Cond))
						case *ast.AssignStmt:
							res = append(res, cf.Render(v))
						case *ast.ValueSpec:
							res = append(res, "const "+cf.Render(v))
						case *ast.CallExpr:
							if strings.HasSuffix(cf.Render(v.Fun), "Fatal") {
								res = append(res, "Fatal")
							}
						}
						return true
					})
					return false
				})
				// constants / helper values declared before the statement
				var pre []string
				for _, st := range fd.Body.List {
					switch v := st.(type) {
					case *ast.DeclStmt:
						if gd, ok := v.Decl.(*ast.GenDecl); ok {
							for _, sp := range gd.Specs {
								if t := cf.Render(sp); strings.Contains(t, "SdocsCacheSize") {
									pre = append(pre, "const "+t)
								}
							}
						}
					case *ast.AssignStmt:
						if t := cf.Render(v); strings.Contains(t, "SortCacheSize") && !strings.HasPrefix(t, "config.") {
							pre = append(pre, t)
						}
					}
				}
				res = append(pre, res...)
				e.Strs("sortCacheDefault", res, "FillConfigWithDefault: the whole SortCacheSize statement (constants, conditions, assignments, Fatal)")
				asIs := []string{"if config.SortCacheSize == 0", "const SdocsCacheSizeMultiplier = 8", "const SdocsCacheSizeMaxRatio = 0.8", "config.SortCacheSize = config.FracSize * SdocsCacheSizeMultiplier", "if config.SortCacheSize > config.CacheSize", "config.SortCacheSize = uint64(float64(config.CacheSize) * 0.8)", "if config.SortCacheSize > config.CacheSize", "Fatal"}
				capped := []string{"const SdocsCacheSizeMultiplier = 8", "const SdocsCacheSizeMaxRatio = 0.8", "maxSortCacheSize := uint64(float64(config.CacheSize) * SdocsCacheSizeMaxRatio)", "if config.SortCacheSize == 0", "config.SortCacheSize = min(config.FracSize*SdocsCacheSizeMultiplier, maxSortCacheSize)", "if config.SortCacheSize > maxSortCacheSize", "Fatal"}
				switch strings.Join(res, "|") {
				case strings.Join(asIs, "|"):
					e.Bool("sortCacheCapped", false, "the sort cache is capped by the whole CacheSize (default: 80% only when 8 fractions exceed the cache)")
				case strings.Join(capped, "|"):
					e.Bool("sortCacheCapped", true, "default and explicit sort cache size are capped at SdocsCacheSizeMaxRatio = 0.8 of CacheSize")
				default:
					e.Missing("sortCacheShape", "FillConfigWithDefault's SortCacheSize statement has neither of the two known shapes")
					e.Bool("sortCacheCapped", false, "UNKNOWN SHAPE (see above): the drivers fall back to the uncapped rule, c18_x_budget fails")
				}
			})
		}
		if cm, err := r.Load("fracmanager/cache_maintainer.go"); err == nil {
			fn(cm, "", "cleanerConfig", "layerWeights", func(fd *ast.FuncDecl) {
				var ws []string
				ast.Inspect(fd.Body, func(x ast.Node) bool {
					if cl, ok := x.(*ast.CompositeLit); ok && cl.Type == nil {
						item := ""
						for _, el := range cl.Elts {
							if kv, ok := el.(*ast.KeyValueExpr); ok {
								k := cm.Render(kv.Key)
								if k == "weight" || k == "sizeLimit" {
									item += k + "=" + cm.Render(kv.Value)
								}
							}
						}
						if item != "" {
							ws = append(ws, item)
						}
					}
					return true
				})
				e.Strs("layerWeights", ws, "cleanerConfig: weight / fixed size of every cleaner, in order")
			})
			fn(cm, "", "createCleaners", "createCleanersArith", func(fd *ast.FuncDecl) {
				e.Strs("createCleanersArith", events(cm, fd.Body, func(s string) bool {
					return strings.HasPrefix(s, "s :=") || strings.HasPrefix(s, "s -=") || strings.HasPrefix(s, "sizeLimit =") || strings.HasPrefix(s, "totalWeights +=")
				}), "createCleaners: the arithmetic of the split")
			})
		}
	}, "cache/cache.go", "cache/cleaner.go", "fracmanager/cache_maintainer.go", "frac/sealed_index_cache.go", "disk/doc_blocks_reader.go", "disk/doc_block.go", "fracmanager/config.go", "frac/sealed_ids.go", "frac/token/table_loader.go")
}
