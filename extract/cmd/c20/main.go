// Extracted facts for C20 (storeapi/grpc_fetch.go, proxy/search/ingestor.go).
package main

import (
	"go/ast"
	"strings"

	"verifextract/lib"
)

func renderBody(f *lib.File, b *ast.BlockStmt) string {
	var ss []string
	for _, s := range b.List {
		ss = append(ss, f.Render(s))
	}
	return strings.Join(ss, "; ")
}

func main() {
	lib.Main("C20", func(r lib.Repo, e *lib.Emitter) {
		f, err := r.Load("storeapi/grpc_fetch.go")
		if err != nil {
			e.Missing("grpc_fetch.go", err)
			return
		}
		// ---- filterFields: every `if` with its condition and (short) body, every `for` with its range and body
		if fd := f.Func("docFieldsFilter", "filterFields"); fd == nil {
			e.Missing("filterFieldsSteps", "filterFields not found")
		} else {
			var steps []string
			var walk func(list []ast.Stmt, depth int)
			walk = func(list []ast.Stmt, depth int) {
				for _, s := range list {
					switch x := s.(type) {
					case *ast.IfStmt:
						body := renderBody(f, x.Body)
						if strings.Contains(body, "for ") || len(body) > 160 { // a compound branch: open it
							steps = append(steps, "if "+f.Render(x.Cond)+" {")
							walk(x.Body.List, depth+1)
							steps = append(steps, "}")
							continue
						}
						var keep []string
						for _, b := range x.Body.List {
							if t := f.Render(b); !strings.HasPrefix(t, "logger.") {
								keep = append(keep, t)
							}
						}
						steps = append(steps, "if "+f.Render(x.Cond)+" { "+strings.Join(keep, "; ")+" }")
					case *ast.RangeStmt:
						steps = append(steps, "for "+f.Render(x.Value)+" := range "+f.Render(x.X)+" { "+renderBody(f, x.Body)+" }")
					case *ast.AssignStmt:
						steps = append(steps, f.Render(x))
					case *ast.ReturnStmt:
						steps = append(steps, f.Render(x))
					case *ast.DeclStmt:
						if gd, ok := x.Decl.(*ast.GenDecl); ok {
							for _, sp := range gd.Specs {
								steps = append(steps, gd.Tok.String()+" "+f.Render(sp))
							}
						}
					}
				}
			}
			walk(fd.Body.List, 0)
			e.Strs("filterFieldsSteps", steps, "docFieldsFilter.filterFields: statements in source order (logging dropped)")
		}
		// ---- doFetch: the per-document pipeline inside the loop over ids
		if fd := f.Func("GrpcV1", "doFetch"); fd == nil {
			e.Missing("doFetchLoopCalls", "doFetch not found")
		} else {
			var calls []string
			ast.Inspect(fd.Body, func(n ast.Node) bool {
				if rs, ok := n.(*ast.RangeStmt); ok && f.Render(rs.X) == "ids" {
					calls = lib.Filter(f.Calls(rs.Body), func(s string) bool {
						switch s {
						case "docsStream.Next", "dp.FilterDocFields", "disk.PackDocBlock", "block.SetExt1", "block.SetExt2", "stream.Send":
							return true
						}
						return false
					})
					return false
				}
				return true
			})
			// the pooled filter: every acquire / release site of doFetch, in source order
			var pool []string
			ast.Inspect(fd.Body, func(n ast.Node) bool {
				switch x := n.(type) {
				case *ast.DeferStmt:
					if t := f.Render(x); strings.Contains(t, "DocFieldsFilter(") {
						pool = append(pool, t)
					}
					return false
				case *ast.AssignStmt:
					if t := f.Render(x); strings.Contains(t, "DocFieldsFilter(") {
						pool = append(pool, t)
					}
					return false
				case *ast.ExprStmt:
					if t := f.Render(x); strings.Contains(t, "DocFieldsFilter(") {
						pool = append(pool, t)
					}
					return false
				case *ast.GoStmt:
					if t := f.Render(x); strings.Contains(t, "DocFieldsFilter(") {
						pool = append(pool, t)
					}
				}
				return true
			})
			e.Strs("doFetchFilterPool", pool, "GrpcV1.doFetch: every statement that acquires or releases the pooled docFieldsFilter, in source order")
			e.Strs("doFetchLoopCalls", calls, "GrpcV1.doFetch: per requested id - next document, field filter, pack, ids, send")
		}
		// ---- the pooled filter keeps no state between fetches: acquire overwrites, release clears
		for _, fn := range []struct{ name, lean string }{{"acquireDocFieldsFilter", "acquireFilterStmts"}, {"releaseDocFieldsFilter", "releaseFilterStmts"}} {
			fd := f.Func("", fn.name)
			if fd == nil {
				e.Missing(fn.lean, fn.name+" not found")
				continue
			}
			var stmts []string
			for _, st := range fd.Body.List {
				if is, ok := st.(*ast.IfStmt); ok {
					stmts = append(stmts, "if "+f.Render(is.Cond)+" { "+renderBody(f, is.Body)+" }")
				} else {
					stmts = append(stmts, f.Render(st))
				}
			}
			e.Strs(fn.lean, stmts, "storeapi."+fn.name+": statements")
		}
		// ---- tryParseFieldsFilter
		g, err := r.Load("proxy/search/ingestor.go")
		if err != nil {
			e.Missing("ingestor.go", err)
			return
		}
		if fd := g.Func("", "tryParseFieldsFilter"); fd == nil {
			e.Missing("parseFilterSteps", "tryParseFieldsFilter not found")
		} else {
			var steps []string
			ast.Inspect(fd.Body, func(n ast.Node) bool {
				switch x := n.(type) {
				case *ast.AssignStmt:
					steps = append(steps, g.Render(x))
				case *ast.RangeStmt:
					steps = append(steps, "for "+g.Render(x.Value)+" := range "+g.Render(x.X))
				case *ast.IfStmt:
					var keep []string
					for _, b := range x.Body.List {
						if t := g.Render(b); !strings.HasPrefix(t, "logger.") {
							keep = append(keep, t)
						}
					}
					steps = append(steps, "if "+g.Render(x.Cond)+" { "+strings.Join(keep, "; ")+" }")
					return false
				case *ast.ReturnStmt:
					steps = append(steps, g.Render(x))
				}
				return true
			})
			e.Strs("parseFilterSteps", steps, "search.tryParseFieldsFilter: statements in source order (logging dropped)")
		}
		// ---- the proxy hands the request's field names over unchanged (Fetch handler, and the request to the store)
		if h, err := r.Load("proxyapi/grpc_fetch.go"); err != nil {
			e.Missing("proxyapi/grpc_fetch.go", err)
		} else if fd := h.Func("grpcV1", "Fetch"); fd == nil {
			e.Missing("proxyFetchFilterArg", "proxyapi Fetch not found")
		} else {
			var lits []string
			ast.Inspect(fd.Body, func(n ast.Node) bool {
				if kv, ok := n.(*ast.KeyValueExpr); ok && h.Render(kv.Key) == "FieldsFilter" {
					lits = append(lits, h.Render(kv.Value))
				}
				return true
			})
			e.Strs("proxyFetchFilterArg", lits, "proxyapi.grpcV1.Fetch: the FieldsFilter handed to search.Ingestor.Documents")
		}
		if fd := g.Func("Ingestor", "makeFetchReq"); fd == nil {
			e.Missing("makeFetchReqFilter", "makeFetchReq not found")
		} else {
			var lits []string
			ast.Inspect(fd.Body, func(n ast.Node) bool {
				if kv, ok := n.(*ast.KeyValueExpr); ok && g.Render(kv.Key) == "FieldsFilter" {
					lits = append(lits, g.Render(kv.Value))
				}
				return true
			})
			e.Strs("makeFetchReqFilter", lits, "search.Ingestor.makeFetchReq: the FieldsFilter of the request sent to a store")
		}
		// ---- every fetch request the proxy sends to a store is built by makeFetchReq (which carries the filter)
		{
			var builders, fetchArgs []string
			for _, d := range g.AST.Decls {
				fd, ok := d.(*ast.FuncDecl)
				if !ok || fd.Body == nil {
					continue
				}
				ast.Inspect(fd.Body, func(n ast.Node) bool {
					switch x := n.(type) {
					case *ast.CompositeLit:
						if t := g.Render(x.Type); t == "storeapi.FetchRequest" {
							builders = append(builders, fd.Name.Name)
						}
					case *ast.CallExpr:
						if sel, ok := x.Fun.(*ast.SelectorExpr); ok && sel.Sel.Name == "Fetch" && len(x.Args) >= 2 && strings.Contains(g.Render(sel.X), "client") {
							fetchArgs = append(fetchArgs, fd.Name.Name+": "+g.Render(x.Args[1]))
						}
					}
					return true
				})
			}
			e.Strs("storeFetchReqBuilders", builders, "proxy/search/ingestor.go: functions that construct a storeapi.FetchRequest")
			e.Strs("storeFetchCallArgs", fetchArgs, "proxy/search/ingestor.go: the request argument of every store client Fetch call")
		}
		// ---- the proxy re-parses the whole query with a nil mapping (every field is a keyword field) and a parse error
		// means "no filter": the keyword literal parser must therefore accept whatever the store-side parse accepted
		if h, err := r.Load("parser/seqql_filter.go"); err != nil {
			e.Missing("seqql_filter.go", err)
		} else if fd := h.Func("", "parseSeqQLKeyword"); fd == nil {
			e.Missing("keywordLiteralErrors", "parseSeqQLKeyword not found")
		} else {
			errs := []string{}
			ast.Inspect(fd.Body, func(n ast.Node) bool {
				if rs, ok := n.(*ast.ReturnStmt); ok && len(rs.Results) == 2 {
					if t := h.Render(rs.Results[1]); t != "nil" {
						errs = append(errs, h.Render(rs))
					}
				}
				return true
			})
			e.Strs("keywordLiteralErrors", errs, "parser.parseSeqQLKeyword: return statements that carry an error")
		}
		// ---- the query text reaches the stores and the fetch-stage parse unchanged
		if h, err := r.Load("proxy/search/search_request.go"); err != nil {
			e.Missing("search_request.go", err)
		} else if fd := h.Func("SearchRequest", "GetAPISearchRequest"); fd == nil {
			e.Missing("apiSearchRequestQuery", "GetAPISearchRequest not found")
		} else {
			pre := []string{}
			var q []string
			for _, st := range fd.Body.List {
				if _, ok := st.(*ast.ReturnStmt); !ok {
					pre = append(pre, h.Render(st))
				}
			}
			ast.Inspect(fd.Body, func(n ast.Node) bool {
				if kv, ok := n.(*ast.KeyValueExpr); ok && h.Render(kv.Key) == "Query" {
					q = append(q, h.Render(kv.Value))
				}
				return true
			})
			e.Strs("apiSearchRequestPre", pre, "search.SearchRequest.GetAPISearchRequest: statements before the return (none: the request is not rewritten)")
			e.Strs("apiSearchRequestQuery", q, "search.SearchRequest.GetAPISearchRequest: the Query field of the store request")
		}
		// ---- keyword recognition of the pipe parser: case-insensitive, never a quoted token
		if h, err := r.Load("parser/seqql_pipes.go"); err != nil {
			e.Missing("seqql_pipes.go", err)
		} else {
			for _, fn := range []struct{ name, lean string }{{"parsePipes", "parsePipesConds"}, {"parsePipeFields", "parsePipeFieldsConds"}, {"parseFieldList", "parseFieldListConds"}} {
				fd := h.Func("", fn.name)
				if fd == nil {
					e.Missing(fn.lean, fn.name+" not found")
					continue
				}
				var conds []string
				ast.Inspect(fd.Body, func(n ast.Node) bool {
					switch x := n.(type) {
					case *ast.IfStmt:
						conds = append(conds, "if "+h.Render(x.Cond))
					case *ast.ForStmt:
						if x.Cond != nil {
							conds = append(conds, "for "+h.Render(x.Cond))
						}
					case *ast.CaseClause:
						for _, c := range x.List {
							conds = append(conds, "case "+h.Render(c))
						}
					case *ast.AssignStmt:
						if t := h.Render(x); strings.Contains(t, "lex.Token") || strings.HasPrefix(t, "except") {
							conds = append(conds, t)
						}
					}
					return true
				})
				e.Strs(fn.lean, conds, "parser."+fn.name+": conditions (and assignments reading the token) in source order")
			}
		}
		if h, err := r.Load("parser/seqql.go"); err != nil {
			e.Missing("seqql.go", err)
		} else {
			for _, fn := range []struct{ name, lean string }{{"IsKeyword", "isKeywordStmts"}, {"IsKeywords", "isKeywordsStmts"}} {
				fd := h.Func("lexer", fn.name)
				if fd == nil {
					e.Missing(fn.lean, fn.name+" not found")
					continue
				}
				var stmts []string
				for _, st := range fd.Body.List {
					stmts = append(stmts, h.Render(st))
				}
				e.Strs(fn.lean, stmts, "parser.lexer."+fn.name+": statements")
			}
		}
	}, "storeapi/grpc_fetch.go", "proxy/search/ingestor.go", "parser/seqql_pipes.go", "parser/seqql.go", "parser/seqql_filter.go", "proxyapi/grpc_fetch.go", "proxy/search/search_request.go")
}
