// Mechanical Go -> Lean translation of the integer functions C16's models rely on (see extract/xlate).
package main

import "verifextract/xlate"

func main() {
	xlate.Main("C16", xlate.Spec{Pkg: "proxy/search", Recv: "Ingestor", Name: "paginateIDs"})
}
