// Mechanical Go -> Lean translation of the integer functions C05's models rely on (see extract/xlate).
package main

import "verifextract/xlate"

func main() {
	xlate.Main("C05",
		xlate.Spec{Pkg: "proxy/search", Recv: "Ingestor", Name: "paginateIDs"},
		// fractions are an interface: Info() stays uninterpreted; IDs and Info values are opaque, read through accessors
		xlate.Spec{Pkg: "fracmanager", Name: "calcEnsuredIDsCount", Oracles: []string{"Fraction.Info"}},
		// the loop of Searcher.SearchDocs: its condition and the limit for the next round
		xlate.Spec{Pkg: "fracmanager", Recv: "Searcher", Name: "SearchDocs", As: "searchLoopCond", Stmts: []string{"for len(remainingFracs) > 0"}},
		xlate.Spec{Pkg: "fracmanager", Recv: "Searcher", Name: "SearchDocs", As: "nextLimit", Stmts: []string{"params.Limit = origLimit -"}},
	)
}
