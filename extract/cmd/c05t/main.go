// Mechanical Go -> Lean translation of the integer functions C05's models rely on (see extract/xlate).
package main

import "verifextract/xlate"

func main() {
	xlate.Main("C05",
		xlate.Spec{Pkg: "proxy/search", Recv: "Ingestor", Name: "paginateIDs"},
		// fractions are an interface: Info() stays uninterpreted; IDs and Info values are opaque, read through accessors
		xlate.Spec{Pkg: "fracmanager", Name: "calcEnsuredIDsCount", Oracles: []string{"Fraction.Info"}},
	)
}
