// Mechanical Go -> Lean translation of the integer functions C05's models rely on (see extract/xlate).
package main

import "verifextract/xlate"

func main() {
	xlate.Main("C05", xlate.Spec{Pkg: "proxy/search", Recv: "Ingestor", Name: "paginateIDs"})
}
