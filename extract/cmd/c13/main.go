// Extracted facts for C13: the statement skeletons (conditions, assignments, returns, in source order) of the
// functions the Lean model follows statement by statement.  A change to any of them re-states an obligation
// in Props/C13.lean.
package main

import (
	"go/ast"
	"go/token"
	"sort"

	"verifextract/lib"
)

// skeleton renders, in source order, every if/for condition, range clause, assignment, expression statement, inc/dec and return
// under fd (closures included).
func skeleton(f *lib.File, fd *ast.FuncDecl) []string {
	type ps struct {
		pos token.Pos
		s   string
	}
	var res []ps
	ast.Inspect(fd.Body, func(n ast.Node) bool {
		switch x := n.(type) {
		case *ast.IfStmt:
			s := "if "
			if x.Init != nil {
				s += f.Render(x.Init) + "; "
			}
			res = append(res, ps{x.Pos(), s + f.Render(x.Cond)})
		case *ast.ForStmt:
			s := "for "
			if x.Init != nil {
				s += f.Render(x.Init)
			}
			s += "; "
			if x.Cond != nil {
				s += f.Render(x.Cond)
			}
			s += "; "
			if x.Post != nil {
				s += f.Render(x.Post)
			}
			res = append(res, ps{x.Pos(), s})
		case *ast.RangeStmt:
			s := "range "
			if x.Key != nil {
				s += f.Render(x.Key)
			}
			if x.Value != nil {
				s += ", " + f.Render(x.Value)
			}
			res = append(res, ps{x.Pos(), s + " := " + f.Render(x.X)})
		case *ast.AssignStmt:
			res = append(res, ps{x.Pos() + 1, f.Render(x)})
		case *ast.ExprStmt:
			res = append(res, ps{x.Pos() + 1, f.Render(x)})
		case *ast.IncDecStmt:
			res = append(res, ps{x.Pos() + 1, f.Render(x)})
		case *ast.ReturnStmt:
			res = append(res, ps{x.Pos(), f.Render(x)})
		case *ast.CaseClause:
			res = append(res, ps{x.Pos(), "case " + f.Render(&ast.CompositeLit{Elts: x.List})})
		}
		return true
	})
	sort.SliceStable(res, func(i, j int) bool { return res[i].pos < res[j].pos })
	out := make([]string, len(res))
	for i, r := range res {
		out[i] = r.s
	}
	return out
}

func main() {
	lib.Main("C13", func(r lib.Repo, e *lib.Emitter) {
		type fn struct{ recv, name, def string }
		files := []struct {
			path string
			fns  []fn
		}{
			{"pattern/substring.go", []fn{
				{"substring", "calcPrefFunc", "calcPrefFunc"},
				{"", "findSubstring", "findSubstring"},
				{"", "findSequence", "findSequence"},
				{"", "newSubstringPattern", "newSubstringPattern"},
			}},
			{"pattern/pattern.go", []fn{
				{"", "newLiteralSearch", "newLiteralSearch"},
				{"literalSearch", "Narrow", "literalNarrow"},
				{"literalSearch", "check", "literalCheck"},
				{"", "newWildcardSearch", "newWildcardSearch"},
				{"", "cut", "patternCut"},
				{"wildcardSearch", "Narrow", "wildcardNarrow"},
				{"wildcardSearch", "checkPrefix", "checkPrefix"},
				{"wildcardSearch", "checkSuffix", "checkSuffix"},
				{"wildcardSearch", "checkMiddle", "checkMiddle"},
				{"wildcardSearch", "check", "wildcardCheck"},
				{"rangeTextSearch", "check", "rangeTextCheck"},
				{"", "NewRangeNumberSearch", "newRangeNumberSearch"},
				{"rangeNumberSearch", "check", "rangeNumberCheck"},
				{"", "newSearcher", "newSearcher"},
				{"", "Search", "search"},
			}},
			{"frac/token/table.go", []fn{
				{"", "cut", "tableCut"},
				{"Table", "SelectEntries", "selectEntries"},
			}},
			{"frac/token/provider.go", []fn{
				{"Provider", "FirstTID", "providerFirstTID"},
				{"Provider", "LastTID", "providerLastTID"},
				{"Provider", "Ordered", "providerOrdered"},
				{"Provider", "findBlock", "providerFindBlock"},
				{"Provider", "GetToken", "providerGetToken"},
			}},
			{"frac/token/block_loader.go", []fn{
				{"Block", "GetValByTID", "blockGetValByTID"},
				{"Block", "unpack", "blockUnpack"},
			}},
			{"frac/token/table_loader.go", []fn{
				{"TableLoader", "load", "tableLoaderLoad"},
				{"TableLoader", "readBlock", "tableLoaderReadBlock"},
			}},
			{"frac/token/table_entry.go", []fn{
				{"TableEntry", "getLastTID", "entryGetLastTID"},
				{"TableEntry", "checkTIDInBlock", "entryCheckTIDInBlock"},
				{"TableEntry", "getIndexInTokensBlock", "entryGetIndexInTokensBlock"},
			}},
			{"frac/active_token_list.go", []fn{
				{"activeTokenProvider", "GetToken", "activeGetToken"},
				{"activeTokenProvider", "FirstTID", "activeFirstTID"},
				{"activeTokenProvider", "LastTID", "activeLastTID"},
				{"activeTokenProvider", "Ordered", "activeOrdered"},
				{"activeTokenProvider", "inverseTIDs", "activeInverseTIDs"},
				{"TokenList", "FindPattern", "activeFindPattern"},
			}},
			{"util/util.go", []fn{{"", "BinSearchInRange", "binSearchInRange"}}},
			{"frac/disk_blocks_writer.go", []fn{{"DiskBlocksWriter", "writeTokenTableBlocks", "writeTokenTableBlocks"}}},
			{"frac/disk_blocks_producer.go", []fn{{"DiskBlocksProducer", "getTIDsSortedByToken", "getTIDsSortedByToken"}}},
			{"frac/disk_blocks.go", []fn{{"DiskTokensBlock", "createTokenTableEntry", "createTokenTableEntry"}, {"DiskTokenTableBlock", "pack", "tokenTableBlockPack"}}},
			{"parser/token_literal.go", []fn{{"", "GetHint", "getHint"}}},
			{"parser/token_range.go", []fn{{"", "parseRangeTerm", "seqqlParseRangeTerm"}, {"", "parseSeqQLTokenRange", "seqqlParseTokenRange"}}},
			{"parser/token_parser.go", []fn{{"tokenParser", "parseRangeTerm", "legacyParseRangeTerm"}}},
			{"frac/sealed_index.go", []fn{{"sealedTokenIndex", "GetTIDsByTokenExpr", "sealedGetTIDs"}}},
		}
		for _, fl := range files {
			f, err := r.Load(fl.path)
			if err != nil {
				for _, x := range fl.fns {
					e.Missing(x.def, err)
				}
				continue
			}
			for _, x := range fl.fns {
				fd := f.Func(x.recv, x.name)
				if fd == nil || fd.Body == nil {
					e.Missing(x.def, "function "+x.name+" not found in "+fl.path)
					continue
				}
				e.Strs(x.def, skeleton(f, fd), fl.path+": statement skeleton of "+x.name)
			}
		}
	}, "pattern/substring.go", "pattern/pattern.go", "frac/token/table.go", "frac/token/provider.go", "frac/token/block_loader.go", "frac/token/table_loader.go", "frac/token/table_entry.go", "frac/active_token_list.go", "util/util.go", "frac/disk_blocks_writer.go", "frac/disk_blocks_producer.go", "frac/disk_blocks.go", "parser/token_literal.go", "parser/token_range.go", "parser/token_parser.go", "frac/sealed_index.go")
}
