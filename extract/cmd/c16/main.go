// Extracted facts for C16 (proxy/search/ingestor.go, merged_docs_iterator.go, pkg/storeapi/store_api.pb.go).
package main

import (
	"fmt"
	"go/ast"
	"go/token"
	"sort"
	"strings"

	"verifextract/lib"
)

func main() {
	lib.Main("C16", func(r lib.Repo, e *lib.Emitter) {
		// ---- the store's refusal codes (generated protobuf enum)
		if pb, err := r.Load("pkg/storeapi/store_api.pb.go"); err != nil {
			e.Missing("storeErrorCodes", err)
		} else {
			var names []string
			for _, d := range pb.AST.Decls {
				gd, ok := d.(*ast.GenDecl)
				if !ok || gd.Tok != token.CONST {
					continue
				}
				for _, sp := range gd.Specs {
					vs := sp.(*ast.ValueSpec)
					if id, ok := vs.Type.(*ast.Ident); ok && id.Name == "SearchErrorCode" {
						for i, n := range vs.Names {
							if i < len(vs.Values) && pb.Render(vs.Values[i]) != "0" {
								names = append(names, n.Name)
							}
						}
					}
				}
			}
			sort.Strings(names)
			e.Strs("storeErrorCodes", names, "non-zero values of storeapi.SearchErrorCode, sorted")
		}

		f, err := r.Load("proxy/search/ingestor.go")
		if err != nil {
			e.Missing("ingestor.go", err)
			return
		}
		// ---- searchShard: which response codes / error messages end the replica loop with a return
		if fd := f.Func("Ingestor", "searchShard"); fd == nil {
			e.Missing("shardSwitchCodes", "searchShard not found")
		} else {
			var codes, msgs, order []string
			ast.Inspect(fd.Body, func(n ast.Node) bool {
				switch x := n.(type) {
				case *ast.SwitchStmt:
					if x.Tag != nil && f.Render(x.Tag) == "resp.Code" {
						for _, c := range x.Body.List {
							cc := c.(*ast.CaseClause)
							ret := false
							for _, s := range cc.Body {
								if _, ok := s.(*ast.ReturnStmt); ok {
									ret = true
								}
							}
							for _, v := range cc.List {
								if ret {
									codes = append(codes, strings.TrimPrefix(f.Render(v), "storeapi."))
								}
							}
						}
					}
				case *ast.IfStmt:
					c := f.Render(x.Cond)
					if strings.HasPrefix(c, "errMessage ==") {
						for _, s := range x.Body.List {
							if _, ok := s.(*ast.ReturnStmt); ok {
								msgs = append(msgs, c)
							}
						}
					}
				case *ast.AssignStmt:
					if len(x.Lhs) == 1 && f.Render(x.Lhs[0]) == "idx" {
						order = append(order, f.Render(x.Rhs[0]))
					}
				}
				return true
			})
			sort.Strings(codes)
			e.Strs("shardSwitchCodes", codes, "searchShard: response codes whose case returns (ends the replica loop), sorted")
			e.Strs("shardErrMessageReturns", msgs, "searchShard: error-message comparisons whose branch returns")
			e.Strs("shardReplicaOrders", order, "searchShard: the two ways idx is filled (ShuffleReplicas / not)")
		}
		// ---- the source of a shard answer is the source of the host that was asked
		{
			var fromHost, hostIdx []string
			if fd := f.Func("Ingestor", "searchShard"); fd != nil {
				ast.Inspect(fd.Body, func(n ast.Node) bool {
					if as, ok := n.(*ast.AssignStmt); ok {
						r := f.Render(as)
						if strings.Contains(r, "searchHost(") || strings.HasPrefix(r, "host :=") || strings.HasPrefix(r, "host, ") {
							hostIdx = append(hostIdx, r)
						}
					}
					return true
				})
			}
			if fd := f.Func("Ingestor", "searchHost"); fd != nil {
				ast.Inspect(fd.Body, func(n ast.Node) bool {
					if r, ok := n.(*ast.ReturnStmt); ok && len(r.Results) > 0 && f.Render(r.Results[0]) == "data" {
						fromHost = append(fromHost, f.Render(r))
					}
					return true
				})
			}
			e.Strs("shardHostAndSource", hostIdx, "searchShard: how the host of an iteration is chosen and where resp/source come from")
			e.Strs("searchHostReturns", fromHost, "searchHost: its successful return (the source belongs to the host it queried)")
		}
		// ---- searchStores: which errors end the receive loop at once
		if fd := f.Func("Ingestor", "searchStores"); fd == nil {
			e.Missing("storesFailFast", "searchStores not found")
		} else {
			var ff []string
			partial := false
			ast.Inspect(fd.Body, func(n ast.Node) bool {
				if rs, ok := n.(*ast.RangeStmt); ok && f.Render(rs.X) == "respChan" {
					ast.Inspect(rs.Body, func(m ast.Node) bool {
						if x, ok := m.(*ast.IfStmt); ok {
							c := f.Render(x.Cond)
							if strings.HasPrefix(c, "errors.Is(err,") {
								for _, s := range x.Body.List {
									if r, ok := s.(*ast.ReturnStmt); ok && len(r.Results) == 2 && f.Render(r.Results[0]) == "nil" {
										ff = append(ff, c)
									}
								}
							}
						}
						return true
					})
				}
				if x, ok := n.(*ast.IfStmt); ok && f.Render(x.Cond) == "len(qprs) != 0" {
					for _, s := range x.Body.List {
						if r, ok := s.(*ast.ReturnStmt); ok && len(r.Results) == 2 && f.Render(r.Results[0]) == "qprs" &&
							strings.Contains(f.Render(r.Results[1]), "consts.ErrPartialResponse") {
							partial = true
						}
					}
				}
				return true
			})
			e.Strs("storesFailFast", ff, "searchStores: conditions in the respChan loop that return (nil, err) at once")
			e.Bool("storesPartialWhenData", partial, "searchStores: `if len(qprs) != 0 { return qprs, ...ErrPartialResponse... }` guards the collected errors")
		}
		// ---- Search: the error switch
		if fd := f.Func("Ingestor", "Search"); fd == nil {
			e.Missing("searchErrCases", "Search not found")
		} else {
			var cases []string
			ast.Inspect(fd.Body, func(n ast.Node) bool {
				if sw, ok := n.(*ast.SwitchStmt); ok && sw.Tag == nil {
					for _, c := range sw.Body.List {
						cc := c.(*ast.CaseClause)
						if len(cc.List) == 0 {
							cases = append(cases, "default")
						}
						for _, v := range cc.List {
							cases = append(cases, f.Render(v))
						}
					}
					return false
				}
				return true
			})
			e.Strs("searchErrCases", cases, "Search: cases of the switch over the hot tier's error, source order")
		}
		// ---- lessFuncPosBased: hints cleared before the lookups; positions keyed without hint
		if fd := f.Func("", "lessFuncPosBased"); fd == nil {
			e.Missing("lessClearsHints", "lessFuncPosBased not found")
		} else {
			cleared, keyed := false, false
			ast.Inspect(fd.Body, func(n ast.Node) bool {
				switch x := n.(type) {
				case *ast.FuncLit:
					if len(x.Body.List) > 0 {
						if as, ok := x.Body.List[0].(*ast.AssignStmt); ok && f.Render(as) == `a.Hint, b.Hint = "", ""` {
							cleared = true
						}
					}
				case *ast.AssignStmt:
					if len(x.Lhs) == 1 && f.Render(x.Lhs[0]) == "positions[seq.IDSource{ID: id.ID, Source: id.Source}]" {
						keyed = true
					}
				}
				return true
			})
			e.Bool("lessClearsHints", cleared, "lessFuncPosBased: the closure starts with `a.Hint, b.Hint = \"\", \"\"`")
			e.Bool("positionsKeyedWithoutHint", keyed, "lessFuncPosBased: positions[IDSource{ID, Source}] = i")
		}
		// ---- mergedStreamIterator.Next: fast-forward condition and the not-found condition
		if m, err := r.Load("proxy/search/merged_docs_iterator.go"); err != nil {
			e.Missing("ffCond", err)
		} else if fd := m.Func("mergedStreamIterator", "Next"); fd == nil {
			e.Missing("ffCond", "mergedStreamIterator.Next not found")
		} else {
			var loops, nf []string
			ast.Inspect(fd.Body, func(n ast.Node) bool {
				switch x := n.(type) {
				case *ast.ForStmt:
					if x.Cond != nil {
						loops = append(loops, m.Render(x.Cond)+" ; "+m.Render(x.Post))
					}
				case *ast.IfStmt:
					for _, s := range x.Body.List {
						if r, ok := s.(*ast.ReturnStmt); ok && len(r.Results) == 2 && strings.HasPrefix(m.Render(r.Results[0]), "NewStreamingDoc(currentID, nil)") {
							nf = append(nf, m.Render(x.Cond))
						}
					}
				}
				return true
			})
			e.Strs("ffCond", loops, "mergedStreamIterator.Next: fast-forward loop (condition ; post)")
			e.Strs("notFoundCond", nf, "mergedStreamIterator.Next: condition under which an empty document is returned for the current ID")
		}
		// ---- proxyapi: store-reported errors fail the request; order of the classification in doSearch
		if a, err := r.Load("proxyapi/grpc_v1.go"); err != nil {
			e.Missing("apiStoreErrorsCond", err)
		} else {
			if fd := a.Func("", "processSearchErrors"); fd == nil {
				e.Missing("apiStoreErrorsCond", "processSearchErrors not found")
			} else {
				var conds []string
				for _, st := range fd.Body.List {
					if x, ok := st.(*ast.IfStmt); ok {
						for _, s := range x.Body.List {
							if r, ok := s.(*ast.ReturnStmt); ok && len(r.Results) == 1 && strings.HasPrefix(a.Render(r.Results[0]), "status.Error(codes.Internal") {
								conds = append(conds, a.Render(x.Cond))
							}
						}
					}
				}
				e.Strs("apiStoreErrorsCond", conds, "processSearchErrors: top-level conditions that return codes.Internal")
			}
			if fd := a.Func("grpcV1", "doSearch"); fd == nil {
				e.Missing("doSearchOrder", "doSearch not found")
			} else {
				type ev struct {
					pos token.Pos
					s   string
				}
				var evs []ev
				ast.Inspect(fd.Body, func(n ast.Node) bool {
					switch x := n.(type) {
					case *ast.CallExpr:
						f := a.Render(x.Fun)
						if f == "parseProxyError" || f == "processSearchErrors" || strings.HasSuffix(f, "searchIngestor.Search") {
							evs = append(evs, ev{x.Pos(), f})
						}
					case *ast.IfStmt:
						if c := a.Render(x.Cond); c == "errors.Is(err, consts.ErrPartialResponse)" {
							evs = append(evs, ev{x.Pos(), c})
						}
					}
					return true
				})
				sort.Slice(evs, func(i, j int) bool { return evs[i].pos < evs[j].pos })
				var ss []string
				for _, v := range evs {
					ss = append(ss, v.s)
				}
				e.Strs("doSearchOrder", ss, "doSearch: the search call and the error classification steps, source order")
			}
		}
		// ---- how the handlers pair ids and documents; does Export report a partial result
		if a, err := r.Load("proxyapi/grpc_v1.go"); err == nil {
			if fd := a.Func("", "makeProtoDocs"); fd == nil {
				e.Missing("protoDocsPairing", "makeProtoDocs not found")
			} else {
				var st []string
				ast.Inspect(fd.Body, func(n ast.Node) bool {
					if as, ok := n.(*ast.AssignStmt); ok {
						r := a.Render(as)
						if strings.HasPrefix(r, "doc.Id =") || strings.HasPrefix(r, "doc.Data =") || strings.Contains(r, "docs.Next()") {
							st = append(st, r)
						}
					}
					if rs, ok := n.(*ast.RangeStmt); ok {
						st = append(st, "range "+a.Render(rs.X))
					}
					return true
				})
				e.Strs("protoDocsPairing", st, "makeProtoDocs: loop and assignments (pairing by position)")
				// the loop must produce one Document per ID: no break / continue / return inside it, no append
				var exits []string
				ast.Inspect(fd.Body, func(n ast.Node) bool {
					if rs, ok := n.(*ast.RangeStmt); ok {
						ast.Inspect(rs.Body, func(m ast.Node) bool {
							switch x := m.(type) {
							case *ast.BranchStmt:
								exits = append(exits, x.Tok.String())
							case *ast.ReturnStmt:
								exits = append(exits, "return")
							case *ast.CallExpr:
								if a.Render(x.Fun) == "append" {
									exits = append(exits, "append")
								}
							}
							return true
						})
					}
					return true
				})
				e.Strs("protoDocsLoopExits", exits, "makeProtoDocs: break / continue / return / append inside the loop over qpr.IDs (none: one slot per ID)")
			}
		}
		idFromDoc := func(rel, recv, fn, name string) {
			f2, err := r.Load(rel)
			if err != nil {
				e.Missing(name, err)
				return
			}
			fd := f2.Func(recv, fn)
			if fd == nil {
				e.Missing(name, fn+" not found")
				return
			}
			var ids []string
			ast.Inspect(fd.Body, func(n ast.Node) bool {
				if kv, ok := n.(*ast.KeyValueExpr); ok && f2.Render(kv.Key) == "Id" {
					ids = append(ids, f2.Render(kv.Value))
				}
				return true
			})
			e.Strs(name, ids, fn+": where the Id of a sent document comes from")
		}
		idFromDoc("proxyapi/grpc_export.go", "grpcV1", "Export", "exportDocID")
		idFromDoc("proxyapi/grpc_fetch.go", "grpcV1", "Fetch", "fetchDocID")
		if x, err := r.Load("proxyapi/grpc_export.go"); err != nil {
			e.Missing("exportReportsPartial", err)
		} else if fd := x.Func("grpcV1", "Export"); fd == nil {
			e.Missing("exportReportsPartial", "Export not found")
		} else {
			// after the send loop: an `if` on sResp.err whose body returns a status error
			seenLoop, reports := false, false
			for _, st := range fd.Body.List {
				switch s := st.(type) {
				case *ast.ForStmt:
					seenLoop = true
				case *ast.IfStmt:
					if seenLoop && strings.Contains(x.Render(s.Cond), "sResp.err") {
						for _, b := range s.Body.List {
							if r, ok := b.(*ast.ReturnStmt); ok && len(r.Results) == 1 && strings.HasPrefix(x.Render(r.Results[0]), "status.Error") {
								reports = true
							}
						}
					}
				}
			}
			e.Bool("exportReportsPartial", reports, "Export: after the send loop a partial result (sResp.err != nil) ends the stream with a status error")
		}
		// ---- Export: the context handed to doSearch (the lazily read document stream lives under it) is the export context
		if x, err := r.Load("proxyapi/grpc_export.go"); err != nil {
			e.Missing("exportSearchCtx", err)
		} else if fd := x.Func("grpcV1", "Export"); fd == nil {
			e.Missing("exportSearchCtx", "Export not found")
		} else {
			var facts []string
			ast.Inspect(fd.Body, func(n ast.Node) bool {
				if as, ok := n.(*ast.AssignStmt); ok && len(as.Rhs) == 1 {
					if call, ok := as.Rhs[0].(*ast.CallExpr); ok && strings.HasPrefix(x.Render(call.Fun), "context.") {
						facts = append(facts, x.Render(as))
					}
				}
				if call, ok := n.(*ast.CallExpr); ok && x.Render(call.Fun) == "g.doSearch" && len(call.Args) > 0 {
					facts = append(facts, "g.doSearch("+x.Render(call.Args[0])+", ...)")
				}
				return true
			})
			e.Strs("exportSearchCtx", facts, "Export: every context it derives and the context it hands to doSearch, source order")
		}
		// ---- GetAPISearchRequest: Size and Offset reach the stores unchanged
		if x, err := r.Load("proxy/search/search_request.go"); err != nil {
			e.Missing("storeRequestFields", err)
		} else if fd := x.Func("SearchRequest", "GetAPISearchRequest"); fd == nil {
			e.Missing("storeRequestFields", "GetAPISearchRequest not found")
		} else {
			facts := []string{fmt.Sprintf("statements=%d", len(fd.Body.List))}
			ast.Inspect(fd.Body, func(n ast.Node) bool {
				if kv, ok := n.(*ast.KeyValueExpr); ok {
					if k := x.Render(kv.Key); k == "Size" || k == "Offset" || k == "Order" {
						facts = append(facts, k+": "+x.Render(kv.Value))
					}
				}
				return true
			})
			e.Strs("storeRequestFields", facts, "GetAPISearchRequest: number of statements (a single return) and the Size / Offset / Order fields of the store request")
		}
		// ---- the recover interceptors: the deferred recover must be a closure that assigns the NAMED result `err`
		if g, err := r.Load("network/grpcutil/interceptors.go"); err != nil {
			e.Missing("recoverDefers", err)
		} else {
			var shapes []string
			for _, fn := range []string{"RecoverUnaryInterceptor", "RecoverStreamInterceptor"} {
				fd := g.Func("", fn)
				if fd == nil {
					shapes = append(shapes, fn+":missing")
					continue
				}
				shape := fn + ":no-defer"
				ast.Inspect(fd.Body, func(n ast.Node) bool {
					lit, ok := n.(*ast.FuncLit) // the interceptor itself
					if !ok || lit.Type.Results == nil {
						return true
					}
					named := false
					for _, res := range lit.Type.Results.List {
						for _, nm := range res.Names {
							if nm.Name == "err" {
								named = true
							}
						}
					}
					for _, st := range lit.Body.List {
						d, ok := st.(*ast.DeferStmt)
						if !ok {
							continue
						}
						if cl, ok := d.Call.Fun.(*ast.FuncLit); ok && len(d.Call.Args) == 0 {
							assigns, recovers := false, false
							ast.Inspect(cl.Body, func(m ast.Node) bool {
								switch x := m.(type) {
								case *ast.AssignStmt:
									if len(x.Lhs) == 1 && g.Render(x.Lhs[0]) == "err" && x.Tok == token.ASSIGN && strings.HasPrefix(g.Render(x.Rhs[0]), "status.Error(codes.Internal") {
										assigns = true
									}
								case *ast.CallExpr:
									if g.Render(x.Fun) == "recover" {
										recovers = true
									}
								}
								return true
							})
							if named && assigns && recovers {
								shape = fn + ":closure-recovers-and-assigns-named-err"
							} else {
								shape = fn + ":closure-without-named-assignment"
							}
						} else {
							shape = fn + ":deferred-call " + g.Render(d.Call)
						}
					}
					return false
				})
				shapes = append(shapes, shape)
			}
			e.Strs("recoverDefers", shapes, "RecoverUnaryInterceptor / RecoverStreamInterceptor: shape of the deferred recover")
		}
	}, "network/grpcutil/interceptors.go", "proxyapi/grpc_v1.go", "proxyapi/grpc_export.go", "proxyapi/grpc_fetch.go", "pkg/storeapi/store_api.pb.go", "proxy/search/ingestor.go", "proxy/search/merged_docs_iterator.go", "proxy/search/search_request.go")
}
