// Extracted facts for C10 (proxyapi/http_bulk.go, proxy/bulk/ingestor.go, proxy/bulk/processor.go, consts/consts.go).
package main

import (
	"fmt"
	"go/ast"
	"go/token"
	"strconv"
	"strings"

	"verifextract/lib"
)

// translate renders an int64 / bool Go expression over the parameters of documentDelayed as a Lean term
// (Int arithmetic; unary minus is the wrapping negation of int64; comparisons become `decide`).
func translate(f *lib.File, e ast.Expr, params map[string]bool) (string, error) {
	switch x := e.(type) {
	case *ast.ParenExpr:
		s, err := translate(f, x.X, params)
		return "(" + s + ")", err
	case *ast.Ident:
		if params[x.Name] {
			return x.Name, nil
		}
		if x.Name == "true" || x.Name == "false" {
			return x.Name, nil
		}
		return "", fmt.Errorf("unknown identifier %s", x.Name)
	case *ast.BasicLit:
		if x.Kind == token.INT {
			return "(" + x.Value + " : Int)", nil
		}
		return "", fmt.Errorf("unsupported literal %s", x.Value)
	case *ast.UnaryExpr:
		s, err := translate(f, x.X, params)
		if err != nil {
			return "", err
		}
		switch x.Op {
		case token.SUB:
			return "(negWrap64 " + s + ")", nil
		case token.NOT:
			return "(!" + s + ")", nil
		}
		return "", fmt.Errorf("unsupported unary operator %s", x.Op)
	case *ast.BinaryExpr:
		a, err := translate(f, x.X, params)
		if err != nil {
			return "", err
		}
		b, err := translate(f, x.Y, params)
		if err != nil {
			return "", err
		}
		switch x.Op {
		case token.LAND:
			return "(" + a + " && " + b + ")", nil
		case token.LOR:
			return "(" + a + " || " + b + ")", nil
		case token.GTR, token.LSS, token.GEQ, token.LEQ:
			op := map[token.Token]string{token.GTR: ">", token.LSS: "<", token.GEQ: "≥", token.LEQ: "≤"}[x.Op]
			return "decide (" + a + " " + op + " " + b + ")", nil
		case token.EQL:
			return "decide (" + a + " = " + b + ")", nil
		case token.NEQ:
			return "decide (" + a + " ≠ " + b + ")", nil
		}
		return "", fmt.Errorf("unsupported binary operator %s (int64 overflow semantics not translated)", x.Op)
	}
	return "", fmt.Errorf("unsupported expression %T", e)
}

func main() {
	lib.Main("C10", func(r lib.Repo, e *lib.Emitter) {
		// ---- consts: time fields and formats, in order
		if cf, err := r.Load("consts/consts.go"); err != nil {
			e.Missing("consts.go", err)
		} else {
			var fields, formats []string
			okF, okT := false, false
			ast.Inspect(cf.AST, func(n ast.Node) bool {
				vs, ok := n.(*ast.ValueSpec)
				if !ok || len(vs.Names) != 1 || len(vs.Values) != 1 {
					return true
				}
				cl, ok := vs.Values[0].(*ast.CompositeLit)
				if !ok {
					return true
				}
				switch vs.Names[0].Name {
				case "TimeFields":
					okF = true
					for _, el := range cl.Elts {
						inner, ok := el.(*ast.CompositeLit)
						if !ok {
							okF = false
							continue
						}
						var path []string
						for _, p := range inner.Elts {
							bl, ok := p.(*ast.BasicLit)
							if !ok || bl.Kind != token.STRING {
								okF = false
								continue
							}
							s, _ := strconv.Unquote(bl.Value)
							path = append(path, s)
						}
						fields = append(fields, strings.Join(path, "."))
					}
				case "TimeFormats":
					okT = true
					for _, el := range cl.Elts {
						formats = append(formats, cf.Render(el))
					}
				}
				return true
			})
			if okF {
				e.Strs("timeFields", fields, "consts.TimeFields (paths joined by '.'), in lookup order")
			} else {
				e.Missing("timeFields", "consts.TimeFields is not a literal [][]string")
			}
			if okT {
				e.Strs("timeFormats", formats, "consts.TimeFormats as written, in order")
			} else {
				e.Missing("timeFormats", "consts.TimeFormats is not a literal []string")
			}
		}
		if s, err := r.ConstString("consts", "ESTimeFormat"); err != nil {
			e.Missing("esTimeFormat", err)
		} else {
			e.Str("esTimeFormat", s, "consts.ESTimeFormat")
		}

		// ---- http_bulk.go: number of checked action lines, structure of the reader
		if hf, err := r.Load("proxyapi/http_bulk.go"); err != nil {
			e.Missing("http_bulk.go", err)
		} else {
			if fd := hf.Func("esBulkDocReader", "skipActionLine"); fd == nil {
				e.Missing("actionLinesToCheck", "skipActionLine not found")
			} else {
				found := false
				var needles []string
				var prefixRet []string
				ast.Inspect(fd.Body, func(n ast.Node) bool {
					switch x := n.(type) {
					case *ast.ValueSpec:
						if len(x.Names) == 1 && x.Names[0].Name == "actionLinesToCheck" && len(x.Values) == 1 {
							if bl, ok := x.Values[0].(*ast.BasicLit); ok && bl.Kind == token.INT {
								v, _ := strconv.ParseUint(bl.Value, 0, 64)
								e.Nat("actionLinesToCheck", v, "const actionLinesToCheck in esBulkDocReader.skipActionLine")
								found = true
							}
						}
					case *ast.CallExpr:
						if hf.Render(x.Fun) == "strings.Contains" && len(x.Args) == 2 {
							if bl, ok := x.Args[1].(*ast.BasicLit); ok {
								s, _ := strconv.Unquote(bl.Value)
								needles = append(needles, s)
							}
						}
					case *ast.IfStmt:
						if hf.Render(x.Cond) == "isPrefix" {
							for _, s := range x.Body.List {
								if _, ok := s.(*ast.ReturnStmt); ok {
									prefixRet = append(prefixRet, "return")
								}
							}
						}
						if strings.Contains(hf.Render(x.Cond), "actionLinesToCheck") {
							e.Str("actionCheckCond", hf.Render(x.Cond), "condition of the unknown-action protocol error")
						}
					}
					return true
				})
				if !found {
					e.Missing("actionLinesToCheck", "const actionLinesToCheck not found")
				}
				e.Strs("actionNeedles", needles, "strings searched in an action line")
				var nb []string
				for _, s := range needles {
					var bs []string
					for _, c := range []byte(s) {
						bs = append(bs, strconv.Itoa(int(c)))
					}
					nb = append(nb, "["+strings.Join(bs, ", ")+"]")
				}
				e.Raw("/-- the same as bytes -/\ndef actionNeedleBytes : List (List Nat) := [" + strings.Join(nb, ", ") + "]\n\n")
				e.Bool("actionPrefixIsError", len(prefixRet) == 1, "skipActionLine: `if isPrefix { return error }`")
			}
			if fd := hf.Func("esBulkDocReader", "ReadDoc"); fd == nil {
				e.Missing("readDocOrder", "ReadDoc not found")
			} else {
				calls := lib.Filter(hf.Calls(fd.Body), func(s string) bool { return strings.HasPrefix(s, "r.") })
				e.Strs("readDocOrder", calls, "calls on the reader inside ReadDoc, source order")
				var conds []string
				ast.Inspect(fd.Body, func(n ast.Node) bool {
					if x, ok := n.(*ast.IfStmt); ok {
						conds = append(conds, hf.Render(x.Cond))
					}
					return true
				})
				e.Strs("readDocConds", conds, "conditions tested in ReadDoc, source order")
			}
			if fd := hf.Func("", "writeBulkResponse"); fd == nil {
				e.Missing("responseWrites", "writeBulkResponse not found")
			} else {
				// every write to the response in source order; loops and conditions around them are rendered too
				var evs []string
				var walk func(list []ast.Stmt)
				lit := func(x ast.Expr) string {
					switch v := x.(type) {
					case *ast.BasicLit:
						return v.Value
					case *ast.Ident:
						return v.Name
					}
					return hf.Render(x)
				}
				walk = func(list []ast.Stmt) {
					for _, st := range list {
						switch x := st.(type) {
						case *ast.ForStmt:
							evs = append(evs, "for "+hf.Render(x.Init)+"; "+hf.Render(x.Cond)+"; "+hf.Render(x.Post))
							walk(x.Body.List)
						case *ast.RangeStmt:
							evs = append(evs, "range "+hf.Render(x.X))
							walk(x.Body.List)
						case *ast.IfStmt:
							for _, s := range x.Body.List {
								if as, ok := s.(*ast.AssignStmt); ok && len(as.Rhs) == 1 {
									if c, ok := as.Rhs[0].(*ast.CallExpr); ok && strings.HasSuffix(hf.Render(c.Fun), ".WriteString") {
										evs = append(evs, "if "+hf.Render(x.Cond)+" "+lit(c.Args[0]))
										continue
									}
								}
								evs = append(evs, "if "+hf.Render(x.Cond)+" { "+hf.Render(s)+" }")
							}
							if x.Else != nil {
								evs = append(evs, "else "+hf.Render(x.Else))
							}
						case *ast.AssignStmt:
							if len(x.Rhs) == 1 {
								if c, ok := x.Rhs[0].(*ast.CallExpr); ok {
									fn := hf.Render(c.Fun)
									switch {
									case strings.HasSuffix(fn, ".WriteString") || strings.HasSuffix(fn, ".Write"):
										evs = append(evs, lit(c.Args[0]))
									case fn == "strconv.AppendInt":
									case fn == "bytespool.AcquireWriterSize":
									default:
										if strings.Contains(hf.Render(x), "response") {
											evs = append(evs, hf.Render(x))
										}
									}
								}
							}
						case *ast.ExprStmt:
							if strings.Contains(hf.Render(x), "response") {
								evs = append(evs, hf.Render(x))
							}
						}
					}
				}
				walk(fd.Body.List)
				e.Strs("responseWrites", evs, "writeBulkResponse: writes to the response in source order with the loops/conditions around them")
				ast.Inspect(fd.Body, func(n ast.Node) bool {
					if vs, ok := n.(*ast.ValueSpec); ok && len(vs.Names) == 1 && vs.Names[0].Name == "itemCreated" && len(vs.Values) == 1 {
						if bl, ok := vs.Values[0].(*ast.BasicLit); ok {
							s, _ := strconv.Unquote(bl.Value)
							e.Str("responseItem", s, "const itemCreated")
						}
					}
					return true
				})
			}
			if fd := hf.Func("", "acquireESBulkDocReader"); fd == nil {
				e.Missing("readerCtor", "acquireESBulkDocReader not found")
			} else {
				var ctor []string
				ast.Inspect(fd.Body, func(n ast.Node) bool {
					if c, ok := n.(*ast.CallExpr); ok && hf.Render(c.Fun) == "bufio.NewReaderSize" {
						ctor = append(ctor, hf.Render(c))
					}
					return true
				})
				e.Strs("readerCtor", ctor, "how the bufio reader is sized")
			}
		}

		// ---- ingestor.go: the single StoreDocuments call and what precedes it
		if inf, err := r.Load("proxy/bulk/ingestor.go"); err != nil {
			e.Missing("ingestor.go", err)
		} else {
			if fd := inf.Func("Ingestor", "ProcessDocuments"); fd == nil {
				e.Missing("processDocumentsOrder", "ProcessDocuments not found")
			} else {
				// top-level statement walk: record the processing call, early returns and the store call
				var evs []string
				for _, st := range fd.Body.List {
					switch x := st.(type) {
					case *ast.AssignStmt:
						for _, c := range inf.Calls(x) {
							if strings.HasSuffix(c, "processDocsToCompressor") {
								evs = append(evs, "total, err = processDocsToCompressor")
							}
						}
					case *ast.IfStmt:
						cond := inf.Render(x.Cond)
						init := ""
						if x.Init != nil {
							for _, c := range inf.Calls(x.Init) {
								if strings.HasSuffix(c, "StoreDocuments") {
									init = "StoreDocuments; "
								}
							}
						}
						for _, s := range x.Body.List {
							if rs, ok := s.(*ast.ReturnStmt); ok {
								evs = append(evs, "if "+init+cond+" return "+inf.Render(rs.Results[0])+", "+inf.Render(rs.Results[1]))
							}
						}
					case *ast.ReturnStmt:
						evs = append(evs, "return "+inf.Render(x.Results[0])+", "+inf.Render(x.Results[1]))
					}
				}
				keep := lib.Filter(evs, func(s string) bool { return !strings.Contains(s, "MaxInflightBulks") })
				e.Strs("processDocumentsOrder", keep, "ProcessDocuments: processing, early returns, store call, final return (top-level statements)")
				n := 0
				for _, c := range inf.Calls(fd.Body) {
					if strings.HasSuffix(c, "StoreDocuments") {
						n++
					}
				}
				e.Nat("storeCallsInProcessDocuments", uint64(n), "number of StoreDocuments call sites in ProcessDocuments")
			}
			if fd := inf.Func("Ingestor", "processDocsToCompressor"); fd == nil {
				e.Missing("loopOrder", "processDocsToCompressor not found")
			} else {
				var loop *ast.ForStmt
				ast.Inspect(fd.Body, func(n ast.Node) bool {
					if x, ok := n.(*ast.ForStmt); ok && loop == nil && x.Cond == nil {
						loop = x
					}
					return true
				})
				if loop == nil {
					e.Missing("loopOrder", "no `for {` loop in processDocsToCompressor")
				} else {
					var evs []string
					var walk func(list []ast.Stmt, prefix string)
					walk = func(list []ast.Stmt, prefix string) {
						for _, st := range list {
							switch x := st.(type) {
							case *ast.AssignStmt:
								for _, c := range inf.Calls(x) {
									if c == "readNext" || strings.HasSuffix(c, ".Process") || strings.HasSuffix(c, "AppendUint32") || c == "append" {
										evs = append(evs, prefix+inf.Render(x.Lhs[0])+" = "+c)
									}
								}
							case *ast.IfStmt:
								cond := inf.Render(x.Cond)
								for _, s := range x.Body.List {
									switch y := s.(type) {
									case *ast.ReturnStmt:
										evs = append(evs, prefix+"if "+cond+" return "+inf.Render(y.Results[len(y.Results)-1])[:10])
									case *ast.BranchStmt:
										evs = append(evs, prefix+"if "+cond+" "+y.Tok.String())
									case *ast.IfStmt:
										walk([]ast.Stmt{y}, prefix+"if "+cond+": ")
									}
								}
							case *ast.IncDecStmt:
								evs = append(evs, prefix+inf.Render(x))
							}
						}
					}
					walk(loop.Body.List, "")
					var fmts []string
					ast.Inspect(loop.Body, func(n ast.Node) bool {
						if c, ok := n.(*ast.CallExpr); ok && inf.Render(c.Fun) == "fmt.Errorf" && len(c.Args) > 0 {
							if bl, ok := c.Args[0].(*ast.BasicLit); ok {
								s, _ := strconv.Unquote(bl.Value)
								fmts = append(fmts, s)
							}
						}
						return true
					})
					e.Strs("loopErrorFormats", fmts, "format strings of the errors returned from the loop (%s loses the error chain, %w keeps it)")
					e.Strs("loopOrder", evs, "processDocsToCompressor loop: reads, error branches, payload appends (source order)")
				}
			}
		}

		// ---- indexer.go / tokenizer: the facts the index model relies on
		if xf, err := r.Load("proxy/bulk/indexer.go"); err != nil {
			e.Missing("indexer.go", err)
		} else {
			if fd := xf.Func("indexer", "Index"); fd == nil {
				e.Missing("indexSteps", "indexer.Index not found")
			} else {
				var evs []string
				ast.Inspect(fd.Body, func(n ast.Node) bool {
					switch x := n.(type) {
					case *ast.CallExpr:
						c := xf.Render(x.Fun)
						if c == "i.appendMeta" || c == "i.decodeInternal" {
							evs = append(evs, xf.Render(x))
						}
					case *ast.ForStmt:
						evs = append(evs, "for "+xf.Render(x.Init)+"; "+xf.Render(x.Cond))
					case *ast.AssignStmt:
						if strings.Contains(xf.Render(x), "parent.Tokens") {
							evs = append(evs, xf.Render(x))
						}
					}
					return true
				})
				e.Strs("indexSteps", evs, "indexer.Index: first meta, decode, copy of the parent's tokens into the nested metas")
			}
			if fd := xf.Func("indexer", "decodeInternal"); fd == nil {
				e.Missing("decodeConds", "decodeInternal not found")
			} else {
				var conds []string
				ast.Inspect(fd.Body, func(n ast.Node) bool {
					if x, ok := n.(*ast.IfStmt); ok {
						conds = append(conds, xf.Render(x.Cond))
					}
					return true
				})
				e.Strs("decodeConds", conds, "decodeInternal: conditions in source order")
			}
			if fd := xf.Func("indexer", "appendNestedMeta"); fd == nil {
				e.Missing("nestedMeta", "appendNestedMeta not found")
			} else {
				var evs []string
				ast.Inspect(fd.Body, func(n ast.Node) bool {
					switch x := n.(type) {
					case *ast.ValueSpec:
						evs = append(evs, xf.Render(x))
					case *ast.CallExpr:
						if xf.Render(x.Fun) == "i.appendMeta" {
							evs = append(evs, xf.Render(x))
						}
					}
					return true
				})
				e.Strs("nestedMeta", evs, "appendNestedMeta: the nested meta's size and ID")
			}
			if fd := xf.Func("indexer", "decodeTags"); fd == nil {
				e.Missing("tagsSteps", "decodeTags not found")
			} else {
				var evs []string
				ast.Inspect(fd.Body, func(n ast.Node) bool {
					if x, ok := n.(*ast.AssignStmt); ok {
						evs = append(evs, xf.Render(x))
					}
					return true
				})
				e.Strs("tagsSteps", evs, "decodeTags: statements")
			}
		}
		if tf, err := r.Load("tokenizer/tokenizer.go"); err != nil {
			e.Missing("csNormalizesInvalid", err)
		} else if fd := tf.Func("", "toLowerIfCaseInsensitive"); fd == nil {
			e.Missing("csNormalizesInvalid", "toLowerIfCaseInsensitive not found")
		} else {
			norm := false
			for _, st := range fd.Body.List {
				is, ok := st.(*ast.IfStmt)
				if !ok || tf.Render(is.Cond) != "isCaseSensitive" {
					continue
				}
				body := tf.Render(is.Body)
				norm = strings.Contains(body, "if utf8.Valid(x) { return x }") && strings.Contains(body, "return bytes.Map(func(r rune) rune { return r }, x)")
			}
			e.Bool("csNormalizesInvalid", norm, "toLowerIfCaseInsensitive: the case-sensitive branch replaces invalid UTF-8 (same fact as C11's)")
		}

		// ---- support code on the way in and out: the /_bulk route and the gRPC codec
		if hf, err := r.Load("proxyapi/http_server.go"); err != nil {
			e.Missing("bulkRoute", err)
		} else if fd := hf.Func("ingestorHandler", "ServeHTTP"); fd == nil {
			e.Missing("bulkRoute", "ingestorHandler.ServeHTTP not found")
		} else {
			var route []string
			ast.Inspect(fd.Body, func(n ast.Node) bool {
				if is, ok := n.(*ast.IfStmt); ok && strings.Contains(hf.Render(is.Cond), `"/_bulk"`) {
					for _, st := range is.Body.List {
						route = append(route, hf.Render(st))
					}
				}
				return true
			})
			e.Strs("bulkRoute", route, "ingestorHandler.ServeHTTP: what happens to a /_bulk request (the body reaches the bulk handler unwrapped)")
			var limiters []string
			for _, rel := range []string{"proxyapi/http_server.go", "proxyapi/http_bulk.go"} {
				if f2, err := r.Load(rel); err == nil {
					ast.Inspect(f2.AST, func(n ast.Node) bool {
						if c, ok := n.(*ast.CallExpr); ok {
							fn := f2.Render(c.Fun)
							if fn == "io.LimitReader" || fn == "http.MaxBytesReader" || strings.HasSuffix(fn, ".LimitReader") || strings.HasSuffix(fn, "MaxBytesReader") {
								limiters = append(limiters, rel+": "+f2.Render(c))
							}
						}
						return true
					})
				}
			}
			e.Strs("bulkBodyLimiters", limiters, "readers that cut the request body short in the proxy's HTTP layer")
		}
		if vf, err := r.Load("network/grpcutil/vtproto.go"); err != nil {
			e.Missing("codecMarshal", err)
		} else if fd := vf.Func("VTProtoCodec", "Marshal"); fd == nil {
			e.Missing("codecMarshal", "VTProtoCodec.Marshal not found")
		} else {
			var rets []string
			ast.Inspect(fd.Body, func(n ast.Node) bool {
				if rs, ok := n.(*ast.ReturnStmt); ok && len(rs.Results) > 0 {
					rets = append(rets, vf.Render(rs.Results[0]))
				}
				return true
			})
			e.Strs("codecMarshal", rets, "VTProtoCodec.Marshal: what it returns (freshly allocated slices)")
			pooled := false
			ast.Inspect(vf.AST, func(n ast.Node) bool {
				if c, ok := n.(*ast.CallExpr); ok && strings.HasPrefix(vf.Render(c.Fun), "bytespool.") {
					pooled = true
				}
				return true
			})
			e.Bool("codecUsesBytesPool", pooled, "network/grpcutil/vtproto.go calls bytespool")
		}
		// ---- ID layout: seq.NewID, IngestorMaxInstances
		if sf, err := r.Load("seq/seq.go"); err != nil {
			e.Missing("newIDBody", err)
		} else if fd := sf.Func("", "NewID"); fd == nil {
			e.Missing("newIDBody", "seq.NewID not found")
		} else {
			var evs []string
			for _, st := range fd.Body.List {
				evs = append(evs, sf.Render(st))
			}
			e.Strs("newIDBody", evs, "seq.NewID: its statements")
		}
		if v, err := r.ConstInt("consts", "IngestorMaxInstances"); err != nil {
			e.Missing("ingestorMaxInstances", err)
		} else {
			e.Nat("ingestorMaxInstances", uint64(v), "consts.IngestorMaxInstances")
		}
		// ---- lifetime of the pooled compressor whose buffers are handed to the storage client
		if cf, err := r.Load("proxy/bulk/ingestor.go"); err != nil {
			e.Missing("compressorLifetime", err)
		} else {
			var life, outside []string
			for _, d := range cf.AST.Decls {
				fd, ok := d.(*ast.FuncDecl)
				if !ok || fd.Body == nil {
					continue
				}
				inPD := fd.Name.Name == "ProcessDocuments"
				ast.Inspect(fd.Body, func(n ast.Node) bool {
					var txt string
					switch x := n.(type) {
					case *ast.AssignStmt:
						t := cf.Render(x)
						if strings.Contains(t, "GetDocsMetasCompressor") || strings.Contains(t, ".DocsMetas()") || strings.Contains(t, "frac.CompressDocsAndMetas") {
							txt = t
						}
					case *ast.DeferStmt:
						if strings.Contains(cf.Render(x), "PutDocMetasCompressor") {
							txt = cf.Render(x)
						}
					case *ast.ExprStmt:
						if strings.Contains(cf.Render(x), "PutDocMetasCompressor") {
							txt = cf.Render(x)
						}
					case *ast.CallExpr:
						if strings.HasSuffix(cf.Render(x.Fun), ".StoreDocuments") {
							txt = cf.Render(x)
						}
					}
					if txt != "" {
						if inPD {
							life = append(life, txt)
						} else {
							outside = append(outside, fd.Name.Name+": "+txt)
						}
					}
					return true
				})
			}
			e.Strs("compressorLifetime", life, "Ingestor.ProcessDocuments: acquisition and release of the pooled compressor, where the blocks come from, the store call")
			e.Strs("compressorPoolUsesOutsideProcessDocuments", outside, "the same in every other function of ingestor.go")
		}
		// ---- single-binary glue: what the in-memory client hands to the store
		if gf, err := r.Load("storeapi/client.go"); err != nil {
			e.Missing("inMemoryBulk", err)
		} else if fd := gf.Func("inMemoryAPIClient", "Bulk"); fd == nil {
			e.Missing("inMemoryBulk", "inMemoryAPIClient.Bulk not found")
		} else {
			var evs []string
			for _, st := range fd.Body.List {
				evs = append(evs, gf.Render(st))
			}
			e.Strs("inMemoryBulk", evs, "storeapi.inMemoryAPIClient.Bulk: its statements (an owned clone is handed over, nothing is released or pooled)")
			pooled := false
			ast.Inspect(fd.Body, func(n ast.Node) bool {
				switch x := n.(type) {
				case *ast.DeferStmt:
					pooled = true
				case *ast.CallExpr:
					if strings.HasPrefix(gf.Render(x.Fun), "bytespool.") || strings.Contains(gf.Render(x.Fun), "Pool") {
						pooled = true
					}
				}
				return true
			})
			e.Bool("inMemoryBulkReleasesOrPools", pooled, "inMemoryAPIClient.Bulk contains a defer or a pool call")
		}
		// ---- the configuration path: IngestorConfig.setDefaults and NewIngestor
		if cf, err := r.Load("proxyapi/ingestor_config.go"); err != nil {
			e.Missing("setDefaultsAssigns", err)
		} else if fd := cf.Func("IngestorConfig", "setDefaults"); fd == nil {
			e.Missing("setDefaultsAssigns", "setDefaults not found")
		} else {
			var evs []string
			var walk func(list []ast.Stmt, cond string)
			walk = func(list []ast.Stmt, cond string) {
				for _, st := range list {
					switch x := st.(type) {
					case *ast.IfStmt:
						c := cf.Render(x.Cond)
						if cond != "" {
							c = cond + " && " + c
						}
						walk(x.Body.List, c)
						if x.Else != nil {
							evs = append(evs, "else after "+c)
						}
					case *ast.AssignStmt:
						evs = append(evs, cond+": "+cf.Render(x))
					case *ast.IncDecStmt:
						evs = append(evs, cond+": "+cf.Render(x))
					}
				}
			}
			walk(fd.Body.List, "")
			e.Strs("setDefaultsAssigns", evs, "IngestorConfig.setDefaults: every assignment with the condition it is under")
		}
		for _, kv := range [][2]string{{"defaultSearchTimeout", "DefaultSearchTimeout"}, {"defaultExportTimeout", "DefaultExportTimeout"}, {"ingestorMaxInflightBulks", "IngestorMaxInflightBulks"}} {
			if v, err := r.ConstInt("consts", kv[1]); err != nil {
				e.Missing(kv[0], err)
			} else {
				e.Int(kv[0], v, "consts."+kv[1])
			}
		}
		if nf, err := r.Load("proxyapi/ingestor.go"); err != nil {
			e.Missing("newIngestorSteps", err)
		} else if fd := nf.Func("", "NewIngestor"); fd == nil {
			e.Missing("newIngestorSteps", "NewIngestor not found")
		} else {
			var evs []string
			if len(fd.Body.List) > 0 {
				if es, ok := fd.Body.List[0].(*ast.ExprStmt); ok {
					evs = append(evs, nf.Render(es.X))
				}
			}
			var handler []string
			ast.Inspect(fd.Body, func(n ast.Node) bool {
				if c, ok := n.(*ast.CallExpr); ok && nf.Render(c.Fun) == "bulk.NewIngestor" {
					evs = append(evs, nf.Render(c))
				}
				if c, ok := n.(*ast.CallExpr); ok && nf.Render(c.Fun) == "NewBulkHandler" {
					handler = append(handler, nf.Render(c))
				}
				return true
			})
			e.Strs("newIngestorBulkHandler", handler, "NewIngestor: how the bulk handler (whose reader buffer is the size limit) is built")
			e.Strs("newIngestorSteps", evs, "NewIngestor: its first statement and how the bulk ingestor is built")
		}

		// ---- where a processor gets its drifts from: constructor parameters, field initialisers, every later
		// assignment to the two fields (any method), and what getProcessor does with a new / a pooled processor
		if pf2, err := r.Load("proxy/bulk/processor.go"); err == nil {
			var evs []string
			for _, d := range pf2.AST.Decls {
				fd, ok := d.(*ast.FuncDecl)
				if !ok || fd.Body == nil {
					continue
				}
				var params []string
				if fd.Type.Params != nil {
					for _, p := range fd.Type.Params.List {
						for _, n := range p.Names {
							params = append(params, n.Name)
						}
					}
				}
				hit := false
				var local []string
				ast.Inspect(fd.Body, func(n ast.Node) bool {
					switch x := n.(type) {
					case *ast.KeyValueExpr:
						k := pf2.Render(x.Key)
						if k == "drift" || k == "futureDrift" {
							local = append(local, k+": "+pf2.Render(x.Value))
							hit = true
						}
					case *ast.AssignStmt:
						for i, l := range x.Lhs {
							ls := pf2.Render(l)
							if strings.HasSuffix(ls, ".drift") || strings.HasSuffix(ls, ".futureDrift") {
								if i < len(x.Rhs) {
									local = append(local, ls+" = "+pf2.Render(x.Rhs[i]))
								}
								hit = true
							}
						}
					}
					return true
				})
				if hit {
					evs = append(evs, fd.Name.Name+"("+strings.Join(params, ", ")+")")
					evs = append(evs, local...)
				}
			}
			e.Strs("driftWiring", evs, "processor.go: every function that sets the processor's drift fields, its parameters and the assignments")
		} else {
			e.Missing("driftWiring", err)
		}
		if inf2, err := r.Load("proxy/bulk/ingestor.go"); err != nil {
			e.Missing("getProcessorCalls", err)
		} else if fd := inf2.Func("Ingestor", "getProcessor"); fd == nil {
			e.Missing("getProcessorCalls", "getProcessor not found")
		} else {
			var evs []string
			ast.Inspect(fd.Body, func(n ast.Node) bool {
				if c, ok := n.(*ast.CallExpr); ok {
					fn := inf2.Render(c.Fun)
					if fn == "newBulkProcessor" || strings.HasPrefix(fn, "proc.") || strings.HasPrefix(fn, "procEface.(*processor).") {
						evs = append(evs, inf2.Render(c))
					}
				}
				if r, ok := n.(*ast.ReturnStmt); ok && len(r.Results) == 1 {
					evs = append(evs, "return "+inf2.Render(r.Results[0]))
				}
				return true
			})
			e.Strs("getProcessorCalls", evs, "Ingestor.getProcessor: calls that configure a processor, and what is returned")
		}

		// ---- processor.go: documentDelayed translated, Process time selection
		pf, err := r.Load("proxy/bulk/processor.go")
		if err != nil {
			e.Missing("processor.go", err)
			return
		}
		e.Raw("/-- unary minus on int64 (wraps at the minimum) -/\ndef negWrap64 (d : Int) : Int := if d = -9223372036854775808 then -9223372036854775808 else -d\n\n")
		translated := false
		var condsRendered []string
		body := "false"
		if fd := pf.Func("", "documentDelayed"); fd != nil && fd.Type.Params != nil {
			var names []string
			for _, p := range fd.Type.Params.List {
				for _, n := range p.Names {
					names = append(names, n.Name)
				}
			}
			params := map[string]bool{}
			for _, n := range names {
				params[n] = true
			}
			// expected shape: `delayed := false`; any number of `if C { ...; delayed = true }`; `return delayed`
			ok := len(names) == 3 && len(fd.Body.List) >= 2
			var terms []string
			if ok {
				first, isAssign := fd.Body.List[0].(*ast.AssignStmt)
				ok = isAssign && pf.Render(first) == "delayed := false"
				last, isRet := fd.Body.List[len(fd.Body.List)-1].(*ast.ReturnStmt)
				ok = ok && isRet && len(last.Results) == 1 && pf.Render(last.Results[0]) == "delayed"
			}
			if ok {
				for _, st := range fd.Body.List[1 : len(fd.Body.List)-1] {
					is, isIf := st.(*ast.IfStmt)
					if !isIf || is.Else != nil || is.Init != nil {
						ok = false
						break
					}
					sets := false
					for _, s := range is.Body.List {
						switch y := s.(type) {
						case *ast.AssignStmt:
							if pf.Render(y) == "delayed = true" {
								sets = true
							} else {
								ok = false
							}
						case *ast.ExprStmt: // metric increments
						default:
							ok = false
						}
					}
					if !sets {
						ok = false
					}
					t, err := translate(pf, is.Cond, params)
					if err != nil {
						ok = false
						e.Comment("documentDelayed: " + err.Error())
						break
					}
					terms = append(terms, t)
					condsRendered = append(condsRendered, pf.Render(is.Cond))
				}
			}
			if ok {
				translated = true
				if len(terms) > 0 {
					body = strings.Join(terms, " || ")
				}
				e.Raw(fmt.Sprintf("/-- proxy/bulk.documentDelayed translated statement by statement (int64 values as Int, unary minus wrapping) -/\ndef documentDelayedX (%s : Int) : Bool :=\n  %s\n\n", strings.Join(names, " "), body))
			}
		}
		if !translated {
			e.Missing("delayedTranslated", "documentDelayed has an unexpected shape; the driver falls back to `false`")
			e.Raw("def documentDelayedX (_ _ _ : Int) : Bool := false\n\n")
		} else {
			e.Bool("delayedTranslated", true, "documentDelayed had the expected shape")
			e.Strs("delayedConds", condsRendered, "conditions under which documentDelayed reports a delay")
		}
		if fd := pf.Func("processor", "Process"); fd == nil {
			e.Missing("processTimeSteps", "processor.Process not found")
		} else {
			var evs []string
			ast.Inspect(fd.Body, func(n ast.Node) bool {
				switch x := n.(type) {
				case *ast.AssignStmt:
					l := pf.Render(x.Lhs[0])
					if l == "docTime" || l == "docDelay" || l == "id" {
						evs = append(evs, pf.Render(x))
					}
				case *ast.IfStmt:
					c := pf.Render(x.Cond)
					if strings.Contains(c, "timeField") || strings.Contains(c, "documentDelayed") {
						evs = append(evs, "if "+c)
					}
				}
				return true
			})
			e.Strs("processTimeSteps", evs, "processor.Process: how the ID time is chosen")
		}
		if fd := pf.Func("", "extractDocTime"); fd == nil {
			e.Missing("extractLoops", "extractDocTime not found")
		} else {
			var evs []string
			ast.Inspect(fd.Body, func(n ast.Node) bool {
				switch x := n.(type) {
				case *ast.RangeStmt:
					evs = append(evs, "range "+pf.Render(x.X))
				case *ast.IfStmt:
					c := pf.Render(x.Cond)
					for _, s := range x.Body.List {
						switch y := s.(type) {
						case *ast.BranchStmt:
							evs = append(evs, "if "+c+" "+y.Tok.String())
						case *ast.ReturnStmt:
							evs = append(evs, "if "+c+" return "+pf.Render(y.Results[0]))
						}
					}
				}
				return true
			})
			e.Strs("extractLoops", evs, "extractDocTime: loop nesting and exits")
		}
		if sf, err := r.Load("seq/seq.go"); err != nil {
			e.Missing("seq.go", err)
		} else if fd := sf.Func("", "TimeToMID"); fd == nil || len(fd.Body.List) != 1 {
			e.Missing("timeToMID", "seq.TimeToMID not found or not a single statement")
		} else {
			e.Str("timeToMIDSrc", sf.Render(fd.Body.List[0]), "seq.TimeToMID")
		}
	}, "consts/consts.go", "proxyapi/http_bulk.go", "proxy/bulk/ingestor.go", "proxy/bulk/processor.go", "seq/seq.go")
}
