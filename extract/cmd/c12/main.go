// Extracted facts for C12 (parser/*.go, frac/processor/eval_tree.go, node/node_nand.go, seq/tokenizer.go).
package main

import (
	"fmt"
	"go/ast"
	"go/token"
	"strings"

	"verifextract/lib"
)

// conds lists, in source order, the rendered conditions of all if statements and the rendered case lists of all
// expression switches under n ("case a, b" / "default").
func conds(f *lib.File, n ast.Node) []string {
	type pc struct {
		pos token.Pos
		s   string
	}
	var res []pc
	ast.Inspect(n, func(x ast.Node) bool {
		switch v := x.(type) {
		case *ast.IfStmt:
			res = append(res, pc{v.Pos(), "if " + f.Render(v.Cond)})
		case *ast.CaseClause:
			if len(v.List) == 0 {
				res = append(res, pc{v.Pos(), "default"})
			} else {
				var parts []string
				for _, e := range v.List {
					parts = append(parts, f.Render(e))
				}
				res = append(res, pc{v.Pos(), "case " + strings.Join(parts, ", ")})
			}
		}
		return true
	})
	out := make([]string, len(res))
	for i, r := range res {
		out[i] = r.s
	}
	return out
}

// typeSwitchDefault finds the `switch <tag> {` whose cases mention TokenizerType constants and reports the handled
// case lists and what the default branch does: "panic", "return-error" or "other".
func typeSwitch(f *lib.File, fd *ast.FuncDecl) (cases []string, def string, ok bool) {
	ast.Inspect(fd.Body, func(n ast.Node) bool {
		sw, is := n.(*ast.SwitchStmt)
		if !is || sw.Tag == nil || ok {
			return true
		}
		var cs []string
		d := ""
		mention := false
		for _, st := range sw.Body.List {
			cc := st.(*ast.CaseClause)
			if len(cc.List) == 0 {
				d = "other"
				if len(cc.Body) == 1 {
					switch b := cc.Body[0].(type) {
					case *ast.ExprStmt:
						if c, isCall := b.X.(*ast.CallExpr); isCall && f.Render(c.Fun) == "panic" {
							d = "panic"
						}
					case *ast.ReturnStmt:
						if len(b.Results) == 2 && f.Render(b.Results[0]) == "nil" && f.Render(b.Results[1]) != "nil" {
							d = "return-error"
						}
					}
				}
				continue
			}
			var parts []string
			for _, e := range cc.List {
				s := f.Render(e)
				if strings.Contains(s, "TokenizerType") {
					mention = true
				}
				parts = append(parts, strings.TrimPrefix(s, "seq."))
			}
			cs = append(cs, strings.Join(parts, ","))
		}
		if mention {
			cases, def, ok = cs, d, true
		}
		return true
	})
	return
}

func main() {
	lib.Main("C12", func(r lib.Repo, e *lib.Emitter) {
		// --- operator enum
		for i, n := range []string{"LogicalOr", "LogicalAnd", "LogicalNot", "LogicalNAnd"} {
			if v, err := r.ConstInt("parser", n); err != nil {
				e.Missing("op"+n, err)
			} else {
				e.Nat("op"+n, uint64(v), "parser."+n)
				_ = i
			}
		}
		// --- tokenizer types
		for _, n := range []string{"Noop", "Keyword", "Text", "Object", "Tags", "Path", "Nested", "Exists"} {
			if v, err := r.ConstInt("seq", "TokenizerType"+n); err != nil {
				e.Missing("tt"+n, err)
			} else {
				e.Nat("tt"+n, uint64(v), "seq.TokenizerType"+n)
			}
		}
		// --- buildEvalTree dispatch
		if f, err := r.Load("frac/processor/eval_tree.go"); err != nil {
			e.Missing("evalDispatch", err)
		} else if fd := f.Func("", "buildEvalTree"); fd == nil {
			e.Missing("evalDispatch", "buildEvalTree not found")
		} else {
			var table []string
			ast.Inspect(fd.Body, func(n ast.Node) bool {
				cc, ok := n.(*ast.CaseClause)
				if !ok || len(cc.List) != 1 || !strings.HasPrefix(f.Render(cc.List[0]), "parser.Logical") {
					return true
				}
				for _, st := range cc.Body {
					ret, ok := st.(*ast.ReturnStmt)
					if !ok || len(ret.Results) == 0 {
						continue
					}
					call, ok := ret.Results[0].(*ast.CallExpr)
					if !ok {
						continue
					}
					var args []string
					for _, a := range call.Args {
						s := f.Render(a)
						if strings.HasPrefix(s, "children[") {
							args = append(args, strings.TrimSuffix(strings.TrimPrefix(s, "children["), "]"))
						}
					}
					table = append(table, fmt.Sprintf("%s=%s(%s)", strings.TrimPrefix(f.Render(cc.List[0]), "parser."), f.Render(call.Fun), strings.Join(args, ",")))
				}
				return true
			})
			e.Strs("evalDispatch", table, "buildEvalTree: operator -> node constructor(children indices)")
		}
		// --- NewNAnd parameter order and NewNot's use of it
		if f, err := r.Load("node/node_nand.go"); err != nil {
			e.Missing("nandParams", err)
		} else if fd := f.Func("", "NewNAnd"); fd == nil {
			e.Missing("nandParams", "NewNAnd not found")
		} else {
			var ps []string
			for _, fl := range fd.Type.Params.List {
				for _, n := range fl.Names {
					ps = append(ps, n.Name)
				}
			}
			e.Strs("nandParams", ps, "node.NewNAnd parameter names")
		}
		if f, err := r.Load("node/node_not.go"); err != nil {
			e.Missing("notViaNand", err)
		} else if fd := f.Func("", "NewNot"); fd == nil {
			e.Missing("notViaNand", "NewNot not found")
		} else {
			var calls []string
			ast.Inspect(fd.Body, func(n ast.Node) bool {
				if c, ok := n.(*ast.CallExpr); ok && f.Render(c.Fun) == "NewNAnd" {
					calls = append(calls, f.Render(c))
				}
				return true
			})
			e.Strs("notViaNand", calls, "node.NewNot: its NewNAnd call")
		}
		// --- propagateNot control skeleton
		if f, err := r.Load("parser/ast_node.go"); err != nil {
			e.Missing("propagateNotConds", err)
		} else if fd := f.Func("", "propagateNot"); fd == nil {
			e.Missing("propagateNotConds", "propagateNot not found")
		} else {
			e.Strs("propagateNotConds", conds(f, fd.Body), "propagateNot: if conditions in source order")
			var assigns []string
			ast.Inspect(fd.Body, func(n ast.Node) bool {
				if a, ok := n.(*ast.AssignStmt); ok && a.Tok == token.ASSIGN {
					assigns = append(assigns, f.Render(a))
				}
				return true
			})
			e.Strs("propagateNotAssigns", assigns, "propagateNot: plain assignments in source order")
			var rets []string
			ast.Inspect(fd.Body, func(n ast.Node) bool {
				if a, ok := n.(*ast.ReturnStmt); ok {
					rets = append(rets, f.Render(a))
				}
				return true
			})
			e.Strs("propagateNotReturns", rets, "propagateNot: return statements in source order")
		}
		// --- the two accumulator loops
		if f, err := r.Load("parser/seqql.go"); err != nil {
			e.Missing("seqqlFilterConds", err)
		} else {
			if fd := f.Func("", "parseSeqQLFilter"); fd == nil {
				e.Missing("seqqlFilterConds", "parseSeqQLFilter not found")
			} else {
				e.Strs("seqqlFilterConds", conds(f, fd.Body), "parseSeqQLFilter: conditions in source order")
			}
			if fd := f.Func("", "parseSeqQLSubexpr"); fd == nil {
				e.Missing("seqqlSubexprConds", "parseSeqQLSubexpr not found")
			} else {
				e.Strs("seqqlSubexprConds", conds(f, fd.Body), "parseSeqQLSubexpr: conditions in source order")
			}
			if fd := f.Func("", "ParseSeqQL"); fd == nil {
				e.Missing("parseSeqQLConds", "ParseSeqQL not found")
			} else {
				e.Strs("parseSeqQLConds", conds(f, fd.Body), "ParseSeqQL: conditions in source order")
			}
			if fd := f.Func("", "joinOr"); fd == nil {
				e.Missing("joinOrConds", "joinOr not found")
			} else {
				e.Strs("joinOrConds", conds(f, fd.Body), "joinOr: conditions")
			}
		}
		if f, err := r.Load("parser/query_parser.go"); err != nil {
			e.Missing("legacyExprConds", err)
		} else {
			if fd := f.Func("queryParser", "parseExpr"); fd == nil {
				e.Missing("legacyExprConds", "parseExpr not found")
			} else {
				e.Strs("legacyExprConds", conds(f, fd.Body), "queryParser.parseExpr: conditions in source order")
			}
			if fd := f.Func("queryParser", "parseSubexpr"); fd == nil {
				e.Missing("legacySubexprConds", "parseSubexpr not found")
			} else {
				e.Strs("legacySubexprConds", conds(f, fd.Body), "queryParser.parseSubexpr: conditions in source order")
			}
		}
		// --- the nesting limit (absent before the fix: Option none)
		nestingOf := func(file, recv, fn, counter string) (string, []string) {
			f, err := r.Load(file)
			if err != nil {
				return "none", nil
			}
			fd := f.Func(recv, fn)
			if fd == nil {
				return "none", nil
			}
			var stmts []string
			limited := false
			for _, st := range fd.Body.List {
				s := f.Render(st)
				if strings.Contains(s, counter) {
					if len(s) > 60 {
						s = s[:60]
					}
					stmts = append(stmts, s)
				}
				if is, ok := st.(*ast.IfStmt); ok && f.Render(is.Cond) == counter+" >= maxQueryNesting" {
					// the branch must return an error
					if len(is.Body.List) == 1 {
						if ret, ok := is.Body.List[0].(*ast.ReturnStmt); ok && len(ret.Results) == 2 && f.Render(ret.Results[0]) == "nil" && f.Render(ret.Results[1]) != "nil" {
							limited = true
						}
					}
				}
			}
			if !limited {
				return "none", stmts
			}
			v, err := r.ConstInt("parser", "maxQueryNesting")
			if err != nil || v < 0 {
				return "none", stmts
			}
			return fmt.Sprintf("some %d", v), stmts
		}
		sqMax, sqStmts := nestingOf("parser/seqql.go", "", "parseSeqQLSubexpr", "lex.nesting")
		lgMax, lgStmts := nestingOf("parser/query_parser.go", "queryParser", "parseSubexpr", "qp.nesting")
		e.Raw(fmt.Sprintf("/-- maxQueryNesting as enforced at the entry of parseSeqQLSubexpr (none = no limit in the source) -/\ndef seqqlMaxNest : Option Nat := %s\n\n", sqMax))
		e.Raw(fmt.Sprintf("/-- maxQueryNesting as enforced at the entry of queryParser.parseSubexpr (none = no limit in the source) -/\ndef legacyMaxNest : Option Nat := %s\n\n", lgMax))
		e.Strs("seqqlNestingStmts", sqStmts, "parseSeqQLSubexpr: top-level statements that mention lex.nesting, in order (cut to 60 characters)")
		e.Strs("legacyNestingStmts", lgStmts, "parseSubexpr: top-level statements that mention qp.nesting, in order (cut to 60 characters)")
		// --- the field type switches
		// the word-rune predicates of the two text term builders (what SV.Parser.isWordRune transcribes)
		wordConds := func(file, recv, fn string, inFuncLit bool) ([]string, bool) {
			f, err := r.Load(file)
			if err != nil {
				return nil, false
			}
			fd := f.Func(recv, fn)
			if fd == nil {
				return nil, false
			}
			var res []string
			ast.Inspect(fd.Body, func(n ast.Node) bool {
				if inFuncLit {
					if fl, ok := n.(*ast.FuncLit); ok {
						ast.Inspect(fl.Body, func(m ast.Node) bool {
							if is, ok := m.(*ast.IfStmt); ok {
								res = append(res, f.Render(is.Cond))
							}
							return true
						})
						return false
					}
					return true
				}
				if is, ok := n.(*ast.IfStmt); ok && strings.Contains(f.Render(is.Cond), "unicode.") {
					res = append(res, f.Render(is.Cond))
				}
				return true
			})
			return res, true
		}
		if cs, ok := wordConds("parser/seqql_filter.go", "", "parseSeqQLText", false); !ok {
			e.Missing("seqqlWordRuneConds", "parseSeqQLText not found")
		} else {
			e.Strs("seqqlWordRuneConds", cs, "parseSeqQLText: conditions that mention the unicode package")
		}
		if cs, ok := wordConds("parser/token_parser.go", "tokenParser", "parseLiteral", true); !ok {
			e.Missing("legacyWordRuneConds", "parseLiteral not found")
		} else {
			e.Strs("legacyWordRuneConds", cs, "parseLiteral: conditions of the text builder's isIndexed closure")
		}
		if f, err := r.Load("parser/seqql.go"); err != nil {
			e.Missing("tokenRuneExpr", err)
		} else if fd := f.Func("", "isTokenRune"); fd == nil {
			e.Missing("tokenRuneExpr", "isTokenRune not found")
		} else {
			var rets []string
			ast.Inspect(fd.Body, func(n ast.Node) bool {
				if rs, ok := n.(*ast.ReturnStmt); ok && len(rs.Results) == 1 {
					rets = append(rets, f.Render(rs.Results[0]))
				}
				return true
			})
			e.Strs("tokenRuneExpr", rets, "isTokenRune: the returned expression")
			if fd := f.Func("", "unquotePrefix"); fd == nil {
				e.Missing("unquotePrefixConds", "unquotePrefix not found")
			} else {
				e.Strs("unquotePrefixConds", conds(f, fd.Body), "unquotePrefix: conditions in source order")
			}
		}
		// who passes which case-sensitivity flag: the calls of the value parsers inside parseSeqQLFieldFilter / parseFilterIn,
		// the override for the builtin `_exists_` field, and the legacy builder's per-rune case mapping
		if f, err := r.Load("parser/seqql_filter.go"); err != nil {
			e.Missing("caseFlagCalls", err)
		} else {
			var calls []string
			for _, fn := range []string{"parseSeqQLFieldFilter", "parseFilterIn"} {
				fd := f.Func("", fn)
				if fd == nil {
					calls = append(calls, fn+": not found")
					continue
				}
				var ps []string
				for _, fl := range fd.Type.Params.List {
					for _, n := range fl.Names {
						ps = append(ps, n.Name)
					}
				}
				calls = append(calls, fn+"("+strings.Join(ps, ", ")+")")
				ast.Inspect(fd.Body, func(n ast.Node) bool {
					if c, ok := n.(*ast.CallExpr); ok {
						name := f.Render(c.Fun)
						if name == "parseFilterIn" || name == "parseFulltextSearchFilter" || name == "parseSeqQLTokenRange" {
							calls = append(calls, "  "+f.Render(c))
						}
					}
					return true
				})
			}
			e.Strs("caseFlagCalls", calls, "parameters of parseSeqQLFieldFilter / parseFilterIn and the value-parser calls they make")
			if fd := f.Func("", "parseSeqQLFieldFilter"); fd != nil {
				var ov []string
				ast.Inspect(fd.Body, func(n ast.Node) bool {
					switch v := n.(type) {
					case *ast.AssignStmt:
						if strings.Contains(f.Render(v.Lhs[0]), "caseSensitive") {
							ov = append(ov, f.Render(v))
						}
					case *ast.IfStmt:
						if strings.Contains(f.Render(v.Cond), "TokenExists") {
							ov = append(ov, "if "+f.Render(v.Cond))
						}
					}
					return true
				})
				e.Strs("caseFlagOverride", ov, "parseSeqQLFieldFilter: how caseSensitive is computed")
			}
		}
		// does the legacy range-bound builder (singleTermBuilder.appendRune) apply the case rule?  always emitted
		legacyRangeLower := false
		if f, err := r.Load("parser/term_builder.go"); err == nil {
			if fd := f.Func("singleTermBuilder", "appendRune"); fd != nil {
				var st []string
				for _, x := range fd.Body.List {
					st = append(st, f.Render(x))
				}
				e.Strs("singleTermAppendRuneBody", st, "singleTermBuilder.appendRune: statements")
				body := strings.Join(st, " ; ")
				legacyRangeLower = strings.Contains(body, "if !b.caseSensitive { r = unicode.ToLower(r) }") || strings.Contains(body, "if !b.caseSensitive { // range bounds")
				for _, x := range fd.Body.List {
					if is, ok := x.(*ast.IfStmt); ok && f.Render(is.Cond) == "!b.caseSensitive" && strings.Contains(f.Render(is.Body), "r = unicode.ToLower(r)") {
						legacyRangeLower = true
					}
				}
			}
		}
		if f, err := r.Load("parser/token_parser.go"); err == nil {
			var calls []string
			for _, fn := range []string{"parseRange", "parseRangeTerm", "parseLiteral"} {
				if fd := f.Func("tokenParser", fn); fd != nil {
					ast.Inspect(fd.Body, func(n ast.Node) bool {
						switch v := n.(type) {
						case *ast.CallExpr:
							name := f.Render(v.Fun)
							if name == "tp.parseRange" || name == "tp.parseRangeTerm" {
								calls = append(calls, fn+": "+f.Render(v))
							}
						case *ast.CompositeLit:
							if f.Render(v.Type) == "singleTermBuilder" {
								calls = append(calls, fn+": "+f.Render(v))
							}
						}
						return true
					})
				}
			}
			e.Strs("legacyRangeCaseCalls", calls, "legacy range parsing: how the case flag reaches the bound builder")
		}
		e.Bool("legacyRangeLowercases", legacyRangeLower, "singleTermBuilder.appendRune lower-cases unless caseSensitive")
		if f, err := r.Load("parser/term_builder.go"); err != nil {
			e.Missing("appendRuneInternalBody", err)
		} else if fd := f.Func("baseTokenBuilder", "appendRuneInternal"); fd == nil {
			e.Missing("appendRuneInternalBody", "appendRuneInternal not found")
		} else {
			var st []string
			for _, x := range fd.Body.List {
				st = append(st, f.Render(x))
			}
			e.Strs("appendRuneInternalBody", st, "baseTokenBuilder.appendRuneInternal: statements")
		}
		// SeqQL range bounds: parseRangeTerm goes through parseCompositeToken + parseSeqQLKeyword for every bound (that is where
		// the case rule is applied), assigns the term only from its result, and nothing in token_range.go trims a bound
		if f, err := r.Load("parser/token_range.go"); err != nil {
			e.Missing("rangeTermCalls", err)
		} else {
			var calls, assigns, trims []string
			if fd := f.Func("", "parseRangeTerm"); fd == nil {
				e.Missing("rangeTermCalls", "parseRangeTerm not found")
			} else {
				calls = lib.Filter(f.Calls(fd.Body), func(s string) bool { return strings.HasPrefix(s, "parse") })
				ast.Inspect(fd.Body, func(n ast.Node) bool {
					if a, ok := n.(*ast.AssignStmt); ok {
						l := f.Render(a.Lhs[0])
						if strings.HasPrefix(l, "*term") || strings.HasPrefix(l, "term.") {
							x := f.Render(a)
							if len(x) > 40 {
								x = x[:40]
							}
							assigns = append(assigns, x)
						}
					}
					return true
				})
				e.Strs("rangeTermCalls", calls, "parseRangeTerm: parser functions called, in order")
				e.Strs("rangeTermAssigns", assigns, "parseRangeTerm: assignments to the term (cut to 40 characters)")
			}
			for _, d := range f.AST.Decls {
				if fd, ok := d.(*ast.FuncDecl); ok && fd.Body != nil {
					for _, c := range f.Calls(fd.Body) {
						if strings.Contains(c, "Trim") || strings.Contains(c, "Fields") {
							trims = append(trims, fd.Name.Name+": "+c)
						}
					}
				}
			}
			e.Strs("rangeTrimCalls", trims, "token_range.go: calls of strings.Trim* / Fields (none expected)")
			if fd := f.Func("", "parseSeqQLTokenRange"); fd != nil {
				e.Strs("tokenRangeCalls", lib.Filter(f.Calls(fd.Body), func(s string) bool { return s == "parseRangeTerm" || strings.HasPrefix(s, "strings.") }),
					"parseSeqQLTokenRange: parseRangeTerm / strings.* calls")
			}
		}
		// The switch is looked for in every function of the file; the flags the driver needs are ALWAYS emitted (conservative
		// default when the shape is not recognised, plus a Missing marker), so that a restructured source still lets the
		// harness run and search for a failing input.
		findSwitch := func(file string) (cs []string, def, fn string, ok bool) {
			f, err := r.Load(file)
			if err != nil {
				return nil, "", "", false
			}
			for _, d := range f.AST.Decls {
				fd, isFn := d.(*ast.FuncDecl)
				if !isFn || fd.Body == nil {
					continue
				}
				if c, dd, found := typeSwitch(f, fd); found {
					return c, dd, fd.Name.Name, true
				}
			}
			return nil, "", "", false
		}
		if cs, def, fn, ok := findSwitch("parser/seqql_filter.go"); !ok {
			e.Missing("seqqlTypeCases", "type switch not recognised")
			e.Bool("seqqlDefaultPanics", false, "NOT EXTRACTED - conservative default so that the driver builds")
		} else {
			e.Strs("seqqlTypeCases", cs, "SeqQL value parser: handled case lists of the index type switch")
			e.Str("seqqlTypeSwitchFunc", fn, "function that contains the index type switch")
			e.Str("seqqlTypeDefault", def, "what the default branch does")
			e.Bool("seqqlDefaultPanics", def != "return-error", "default branch is not a plain error return")
		}
		if cs, def, fn, ok := findSwitch("parser/token_parser.go"); !ok {
			e.Missing("legacyTypeCases", "type switch not recognised")
			e.Bool("legacyDefaultPanics", false, "NOT EXTRACTED - conservative default so that the driver builds")
		} else {
			e.Strs("legacyTypeCases", cs, "legacy literal parser: handled case lists of the index type switch")
			e.Str("legacyTypeSwitchFunc", fn, "function that contains the index type switch")
			e.Str("legacyTypeDefault", def, "what the default branch does")
			e.Bool("legacyDefaultPanics", def != "return-error", "default branch is not a plain error return")
		}
	}, "parser/ast_node.go", "parser/seqql.go", "parser/seqql_filter.go", "parser/query_parser.go", "parser/token_parser.go",
		"parser/token_logical.go", "frac/processor/eval_tree.go", "node/node_nand.go", "node/node_not.go", "seq/tokenizer.go")
}
