// Mechanical Go -> Lean translation of the order flags and of the total / limit arithmetic of seq.MergeQPRs that
// C19's model of FetchSearchResult (one MergeQPRs per persisted partial result) relies on (see extract/xlate).
package main

import "verifextract/xlate"

func main() {
	xlate.Main("C19",
		xlate.Spec{Pkg: "seq", Recv: "DocsOrder", Name: "IsDesc"},
		xlate.Spec{Pkg: "seq", Recv: "DocsOrder", Name: "IsReverse"},
		xlate.Spec{Pkg: "seq", Name: "MergeQPRs", As: "totalAfter", Stmts: []string{"if dst.Total"}, Result: "dst.Total"},
		xlate.Spec{Pkg: "seq", Name: "MergeQPRs", As: "cut", Stmts: []string{"l := min(len(ids), limit)"}},
	)
}
