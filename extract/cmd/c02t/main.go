// Mechanical Go -> Lean translation of the LID border computation C02's model relies on (see extract/xlate).
package main

import "verifextract/xlate"

func main() {
	xlate.Main("C02",
		xlate.Spec{Pkg: "util", Name: "BinSearchInRange"},
		// the ids index is an interface: its two methods stay uninterpreted (parameters idsIndex_Len, idsIndex_LessOrEqual)
		xlate.Spec{Pkg: "frac/processor", Name: "getLIDsBorders", Oracles: []string{"idsIndex.Len", "idsIndex.LessOrEqual"}},
	)
}
