// Mechanical Go -> Lean translation of the LID border computation C02's model relies on (see extract/xlate).
package main

import "verifextract/xlate"

func main() {
	xlate.Main("C02",
		xlate.Spec{Pkg: "util", Name: "BinSearchInRange"},
		// the ids index is an interface: its two methods stay uninterpreted (parameters idsIndex_Len, idsIndex_LessOrEqual)
		// nodeRange: start / bound / step chosen by NewRange (its struct holds a function value: taken as slices), one Next step
		xlate.Spec{Pkg: "node", Name: "NewRange", As: "rangeStep", Stmts: []string{"step := 1", "if reverse"}, Result: "step"},
		xlate.Spec{Pkg: "node", Name: "NewRange", As: "rangeStart", Stmts: []string{"if reverse"}, Result: "minVal"},
		xlate.Spec{Pkg: "node", Name: "NewRange", As: "rangeBound", Stmts: []string{"if reverse"}, Result: "maxVal"},
		xlate.Spec{Pkg: "node", Recv: "nodeRange", Name: "Next"},
		// nodeOr.Next: which side is taken (the reads of the children are interface calls)
		xlate.Spec{Pkg: "node", Recv: "nodeOr", Name: "Next", As: "orDone", Stmts: []string{"if !n.hasLeft && !n.hasRight"}},
		xlate.Spec{Pkg: "node", Recv: "nodeOr", Name: "Next", As: "orTakeLeft", Stmts: []string{"if n.hasLeft && ("}},
		xlate.Spec{Pkg: "node", Recv: "nodeOr", Name: "Next", As: "orTakeRight", Stmts: []string{"if n.hasRight && ("}},
		xlate.Spec{Pkg: "frac/processor", Name: "getLIDsBorders", Oracles: []string{"idsIndex.Len", "idsIndex.LessOrEqual"}},
	)
}
