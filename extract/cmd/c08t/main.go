// Mechanical Go -> Lean translation of the index-file registry entry (disk/index_block_header.go) every block
// written while sealing is recorded with (see extract/xlate).
package main

import "verifextract/xlate"

func main() {
	m := func(name string) xlate.Spec { return xlate.Spec{Pkg: "disk", Recv: "IndexBlockHeader", Name: name} }
	xlate.Main("C08", xlate.Spec{Pkg: "disk", Name: "NewIndexBlockHeader"},
		m("Codec"), m("Len"), m("RawLen"), m("GetExt1"), m("GetExt2"), m("GetPos"))
}
