// Scratch CLI: xlt [-repo DIR] pkg recv name [@As stmt;stmt] ... (prints the translation)
package main

import (
	"fmt"
	"os"
	"strings"

	"verifextract/xlate"
)

func main() {
	a := os.Args[1:]
	repo := "/repo"
	if len(a) > 1 && a[0] == "-repo" {
		repo, a = a[1], a[2:]
	}
	var specs []xlate.Spec
	for len(a) >= 3 {
		s := xlate.Spec{Pkg: a[0], Recv: a[1], Name: a[2]}
		a = a[3:]
		if len(a) >= 2 && strings.HasPrefix(a[0], "@") {
			s.As, s.Stmts = a[0][1:], strings.Split(a[1], ";")
			a = a[2:]
		}
		if len(a) >= 1 && strings.HasPrefix(a[0], "+") {
			s.Oracles = strings.Split(a[0][1:], ",")
			a = a[1:]
		}
		specs = append(specs, s)
	}
	text, missing := xlate.Generate(repo, "X", specs)
	fmt.Print(text)
	for _, m := range missing {
		fmt.Println("EXTRACT-MISSING", m)
	}
}
