// Extracted facts for C07: the order of the critical sections in the index worker, the data provider, the
// proxyFrac hand-over and Active.Append - the orders the transition systems of Model/ProxyFrac.lean and
// Model/ActiveConc.lean are built from.
package main

import (
	"go/ast"
	"go/token"
	"sort"
	"strings"

	"verifextract/lib"
)

type ev struct {
	pos token.Pos
	s   string
}

func sorted(evs []ev) []string {
	sort.SliceStable(evs, func(i, j int) bool { return evs[i].pos < evs[j].pos })
	out := make([]string, len(evs))
	for i, e := range evs {
		out[i] = e.s
	}
	return out
}

// callEvents lists (ordered by the END of the call, i.e. evaluation order for nested/chained calls) the calls under n
// whose rendered callee ends with one of the suffixes; the suffix is what gets recorded (or names[suffix]).
func callEvents(f *lib.File, n ast.Node, suffixes []string, names map[string]string) []ev {
	var res []ev
	ast.Inspect(n, func(x ast.Node) bool {
		if c, ok := x.(*ast.CallExpr); ok {
			callee := strings.ReplaceAll(f.Render(c.Fun), "()", "")
			for _, s := range suffixes {
				if callee == s || strings.HasSuffix(callee, "."+s) {
					name := s
					if v, ok := names[s]; ok {
						name = v
					}
					res = append(res, ev{c.End(), name})
					break
				}
			}
		}
		return true
	})
	return res
}

// fieldAssigns lists assignments `f.<field> = rhs` under n as "<field>=<rhs>".
func fieldAssigns(f *lib.File, n ast.Node, recv string) []ev {
	var res []ev
	ast.Inspect(n, func(x ast.Node) bool {
		if a, ok := x.(*ast.AssignStmt); ok && a.Tok == token.ASSIGN && len(a.Lhs) == 1 && len(a.Rhs) == 1 {
			l := f.Render(a.Lhs[0])
			if strings.HasPrefix(l, recv+".") {
				res = append(res, ev{a.End(), strings.TrimPrefix(l, recv+".") + "=" + f.Render(a.Rhs[0])})
			}
		}
		return true
	})
	return res
}

// mainPath returns the statements of a body without the bodies of `if` statements whose block ends in a return
// (error / early-exit paths); the conditions of those ifs are kept.
func mainPath(body *ast.BlockStmt) []ast.Node {
	var res []ast.Node
	for _, st := range body.List {
		if is, ok := st.(*ast.IfStmt); ok && len(is.Body.List) > 0 {
			if _, ret := is.Body.List[len(is.Body.List)-1].(*ast.ReturnStmt); ret {
				if is.Init != nil {
					res = append(res, is.Init)
				}
				res = append(res, is.Cond)
				continue
			}
		}
		res = append(res, st)
	}
	return res
}

func main() {
	lib.Main("C07", func(r lib.Repo, e *lib.Emitter) {
		// ---------------------------------------------------------------- index worker
		if f, err := r.Load("frac/active_indexer.go"); err != nil {
			e.Missing("appendWorkerOrder", err)
		} else {
			if fd := f.Func("ActiveIndexer", "appendWorker"); fd == nil {
				e.Missing("appendWorkerOrder", "appendWorker not found")
			} else {
				evs := callEvents(f, fd.Body, []string{"DocBlocks.Append", "DocsPositions.SetMultiple", "AppendIDs", "TokenList.Append",
					"addLIDsToTokens", "UpdateStats", "Wg.Done", "DocsPositions.Set", "PutLIDsInQueue", "MIDs.Append", "RIDs.Append"}, nil)
				e.Strs("appendWorkerOrder", sorted(evs), "index-update calls of ActiveIndexer.appendWorker in evaluation order")
			}
			if fd := f.Func("", "addLIDsToTokens"); fd == nil {
				e.Missing("queueLoop", "addLIDsToTokens not found")
			} else {
				loop := ""
				n := 0
				puts := func(body *ast.BlockStmt, recv, idx string) bool {
					has := false
					ast.Inspect(body, func(y ast.Node) bool {
						if c, ok := y.(*ast.CallExpr); ok && f.Render(c.Fun) == recv+".PutLIDsInQueue" &&
							len(c.Args) == 1 && f.Render(c.Args[0]) == "lids["+idx+"]" {
							has = true
						}
						return true
					})
					return has
				}
				ast.Inspect(fd.Body, func(x ast.Node) bool {
					switch rs := x.(type) {
					case *ast.RangeStmt:
						n++
						if puts(rs.Body, f.Render(rs.Value), f.Render(rs.Key)) {
							loop = "for " + f.Render(rs.Key) + ", " + f.Render(rs.Value) + " := range " + f.Render(rs.X)
						}
					case *ast.ForStmt:
						n++
						if rs.Init != nil && rs.Cond != nil && rs.Post != nil && (puts(rs.Body, "tl", "i") || puts(rs.Body, "tlids[i]", "i")) {
							loop = "for " + f.Render(rs.Init) + "; " + f.Render(rs.Cond) + "; " + f.Render(rs.Post)
						}
					}
					return true
				})
				if n != 1 || loop == "" {
					e.Missing("queueLoop", "addLIDsToTokens: expected one loop calling PutLIDsInQueue(lids[i])")
				} else {
					e.Str("queueLoop", loop, "addLIDsToTokens: the loop that queues the LIDs token by token (collector order)")
				}
			}
		}
		if f, err := r.Load("frac/active_token_list.go"); err != nil {
			e.Missing("tokenListAppendOrder", err)
		} else if fd := f.Func("TokenList", "Append"); fd == nil {
			e.Missing("tokenListAppendOrder", "TokenList.Append not found")
		} else {
			evs := callEvents(f, fd.Body, []string{"getTokenLIDs", "createTIDs", "fillFieldTIDs", "fillSizes", "appendMu.Lock", "appendMu.Unlock"}, nil)
			order := sorted(evs)
			locked := len(order) >= 2 && order[0] == "appendMu.Lock" && len(fd.Body.List) >= 2
			if locked {
				d, ok := fd.Body.List[1].(*ast.DeferStmt)
				locked = ok && strings.HasSuffix(f.Render(d.Call.Fun), "appendMu.Unlock")
			}
			var rest []string
			for _, x := range order {
				if !strings.HasPrefix(x, "appendMu.") {
					rest = append(rest, x)
				}
			}
			e.Strs("tokenListAppendOrder", rest, "TokenList.Append: token objects, then TIDs, then the per-field lists readers search")
			e.Bool("tokenListAppendLocked", locked, "TokenList.Append starts with appendMu.Lock(); defer appendMu.Unlock()")
		}
		if f, err := r.Load("frac/active_token_list.go"); err != nil {
			e.Missing("tokenProviderOrder", err)
		} else if fd := f.Func("TokenList", "getTokenProvider"); fd == nil {
			e.Missing("tokenProviderOrder", "TokenList.getTokenProvider not found")
		} else {
			// evaluation order of the two snapshots: the per-field TID list and the tidToVal slice
			var evs []ev
			ast.Inspect(fd.Body, func(x ast.Node) bool {
				switch n := x.(type) {
				case *ast.CallExpr:
					if strings.HasSuffix(f.Render(n.Fun), "GetTIDsByField") {
						evs = append(evs, ev{n.End(), "GetTIDsByField"})
					}
				case *ast.AssignStmt:
					if len(n.Rhs) == 1 && f.Render(n.Rhs[0]) == "tl.tidToVal" {
						evs = append(evs, ev{n.End(), "tidToVal"})
					}
				case *ast.KeyValueExpr:
					if f.Render(n.Value) == "tl.tidToVal" {
						evs = append(evs, ev{n.End(), "tidToVal"})
					}
				}
				return true
			})
			e.Strs("tokenProviderOrder", sorted(evs), "TokenList.getTokenProvider: order of the reader's two dictionary snapshots")
		}
		if f, err := r.Load("frac/inverser.go"); err != nil {
			e.Missing("inverserSliceOrder", err)
		} else if fd := f.Func("", "getSlice"); fd == nil {
			e.Missing("inverserSliceOrder", "getSlice not found")
		} else {
			evs := callEvents(f, fd.Body, []string{"bytespool.AcquireLen", "unsafe.Slice", "clear"}, nil)
			e.Strs("inverserSliceOrder", sorted(evs), "frac/inverser.go getSlice: the pooled buffer is zeroed before newInverser fills it (0 = LID not in the reader's mapping)")
		}
		{ // who hands a sealed provider's pooled unpack caches back: exactly one place per provider
			var sites []string
			for _, rel := range []string{"frac/sealed.go", "frac/sealed_index.go"} {
				f, err := r.Load(rel)
				if err != nil {
					e.Missing("sealedReleaseSites", err)
					sites = nil
					break
				}
				for _, d := range f.AST.Decls {
					fd, ok := d.(*ast.FuncDecl)
					if !ok || fd.Body == nil {
						continue
					}
					ast.Inspect(fd.Body, func(x ast.Node) bool {
						if c, ok := x.(*ast.CallExpr); ok && f.Render(c.Fun) == "dp.release" {
							sites = append(sites, rel+":"+fd.Name.Name)
						}
						return true
					})
				}
			}
			if sites != nil {
				e.Strs("sealedReleaseSites", sites, "functions that call sealedDataProvider.release (puts midCache/ridCache into the sync.Pool)")
			}
		}
		if f, err := r.Load("fracmanager/fracmanager.go"); err != nil {
			e.Missing("fmAppendReturns", err)
		} else if fd := f.Func("FracManager", "Append"); fd == nil {
			e.Missing("fmAppendReturns", "FracManager.Append not found")
		} else {
			// every return of the retry loop with the condition it sits under
			var rets []ev
			var walk func(n ast.Node, guard string)
			walk = func(n ast.Node, guard string) {
				ast.Inspect(n, func(x ast.Node) bool {
					switch st := x.(type) {
					case *ast.IfStmt:
						if x == n {
							return true
						}
						c := f.Render(st.Cond)
						if st.Init != nil {
							c = f.Render(st.Init) + "; " + c
						}
						walk(st.Body, c)
						if st.Else != nil {
							walk(st.Else, "else of "+c)
						}
						return false
					case *ast.CaseClause:
						if x == n {
							return true
						}
						walk(&ast.BlockStmt{List: st.Body}, guard)
						return false
					case *ast.CommClause:
						if x == n {
							return true
						}
						g := "default"
						if st.Comm != nil {
							g = "case " + f.Render(st.Comm)
						}
						walk(&ast.BlockStmt{List: st.Body}, g)
						return false
					case *ast.ReturnStmt:
						rets = append(rets, ev{st.Pos(), guard + " -> " + f.Render(st)})
					}
					return true
				})
			}
			walk(fd.Body, "")
			e.Strs("fmAppendReturns", sorted(rets), "FracManager.Append: the ways out of the retry loop")
		}
		if f, err := r.Load("frac/file_writer.go"); err != nil {
			e.Missing("syncLoopErrScope", err)
		} else if fd := f.Func("FileWriter", "syncLoop"); fd == nil {
			e.Missing("syncLoopErrScope", "FileWriter.syncLoop not found")
		} else {
			// where the error that is sent to the waiting writers is declared / assigned, relative to the batch loop
			var loop *ast.RangeStmt
			ast.Inspect(fd.Body, func(x ast.Node) bool {
				if rs, ok := x.(*ast.RangeStmt); ok && loop == nil && strings.HasSuffix(f.Render(rs.X), "notify") {
					loop = rs
				}
				return true
			})
			if loop == nil {
				e.Missing("syncLoopErrScope", "syncLoop: no `for range fs.notify` loop")
			} else {
				var evs []ev
				sent := ""
				ast.Inspect(fd.Body, func(x ast.Node) bool {
					where := "before-loop"
					if x != nil && x.Pos() >= loop.Body.Pos() && x.End() <= loop.Body.End() {
						where = "in-loop"
					}
					switch st := x.(type) {
					case *ast.AssignStmt:
						for _, l := range st.Lhs {
							if f.Render(l) == "err" {
								evs = append(evs, ev{st.Pos(), where + ": " + f.Render(st)})
							}
						}
					case *ast.DeclStmt:
						if strings.Contains(f.Render(st), "err ") {
							evs = append(evs, ev{st.Pos(), where + ": " + f.Render(st)})
						}
					case *ast.SendStmt:
						sent = f.Render(st.Value)
					}
					return true
				})
				evs = append(evs, ev{fd.End(), "sent: " + sent})
				e.Strs("syncLoopErrScope", sorted(evs), "FileWriter.syncLoop: every declaration/assignment of the error sent to the batch's writers, and what is sent")
			}
		}
		if f, err := r.Load("disk/index_reader.go"); err != nil {
			e.Missing("indexReaderShape", err)
		} else if fd := f.Func("IndexReader", "ReadIndexBlock"); fd == nil {
			e.Missing("indexReaderShape", "IndexReader.ReadIndexBlock not found")
		} else {
			// the reader belongs to the sealed fraction and is shared by all its concurrent searches: it has no mutable
			// scratch state, the compressed-block buffer is acquired per call
			var shape []string
			ast.Inspect(f.AST, func(x ast.Node) bool {
				if ts, ok := x.(*ast.TypeSpec); ok && ts.Name.Name == "IndexReader" {
					if st, ok := ts.Type.(*ast.StructType); ok {
						for _, fl := range st.Fields.List {
							for _, nm := range fl.Names {
								shape = append(shape, "field "+nm.Name)
							}
						}
					}
				}
				return true
			})
			for _, c := range sorted(callEvents(f, fd.Body, []string{"bytespool.AcquireLen", "bytespool.Release"}, nil)) {
				shape = append(shape, c)
			}
			for _, a := range sorted(fieldAssigns(f, fd.Body, "r")) {
				shape = append(shape, "writes r."+a)
			}
			e.Strs("indexReaderShape", shape, "disk.IndexReader: its fields, the per-call buffer of ReadIndexBlock, and any write to the shared reader")
		}
		if f, err := r.Load("fracmanager/fraction_provider.go"); err != nil {
			e.Missing("activeRefInstance", err)
		} else if fd := f.Func("fractionProvider", "newActiveRef"); fd == nil {
			e.Missing("activeRefInstance", "fractionProvider.newActiveRef not found")
		} else {
			var evs []ev
			ast.Inspect(fd.Body, func(x ast.Node) bool {
				switch st := x.(type) {
				case *ast.AssignStmt:
					if st.Tok == token.DEFINE {
						evs = append(evs, ev{st.Pos(), f.Render(st)})
					}
				case *ast.KeyValueExpr:
					if k := f.Render(st.Key); k == "instance" || k == "frac" {
						evs = append(evs, ev{st.Pos(), k + "=" + f.Render(st.Value)})
					}
				}
				return true
			})
			e.Strs("activeRefInstance", sorted(evs), "newActiveRef: the entry of FracManager's fraction list is the proxyFrac (readers never hold the raw Active)")
		}
		if f, err := r.Load("fracmanager/list.go"); err != nil {
			e.Missing("filterInRangeResult", err)
		} else if fd := f.Func("List", "FilterInRange"); fd == nil {
			e.Missing("filterInRangeResult", "List.FilterInRange not found")
		} else {
			var evs []ev
			ast.Inspect(fd.Body, func(x ast.Node) bool {
				switch st := x.(type) {
				case *ast.AssignStmt:
					if st.Tok == token.DEFINE && len(st.Lhs) == 1 {
						evs = append(evs, ev{st.Pos(), f.Render(st)})
					}
				case *ast.ReturnStmt:
					evs = append(evs, ev{st.Pos(), f.Render(st)})
				}
				return true
			})
			e.Strs("filterInRangeResult", sorted(evs), "List.FilterInRange: where its result lives (a fresh slice, not the receiver's backing array) and what it returns")
		}
		if f, err := r.Load("frac/info.go"); err != nil {
			e.Missing("buildDistributionLoop", err)
		} else if fd := f.Func("Info", "BuildDistribution"); fd == nil {
			e.Missing("buildDistributionLoop", "Info.BuildDistribution not found")
		} else {
			var evs []ev
			ast.Inspect(fd.Body, func(x ast.Node) bool {
				if rs, ok := x.(*ast.RangeStmt); ok {
					evs = append(evs, ev{rs.Pos(), "for " + f.Render(rs.Key) + ", " + f.Render(rs.Value) + " := range " + f.Render(rs.X)})
					for _, st := range rs.Body.List {
						evs = append(evs, ev{st.Pos(), f.Render(st)})
					}
					return false
				}
				return true
			})
			e.Strs("buildDistributionLoop", sorted(evs), "Info.BuildDistribution: the loop that marks the buckets (every id, unconditionally)")
		}
		if f, err := r.Load("fracmanager/fetcher.go"); err != nil {
			e.Missing("fetchArrangeGuards", err)
		} else if fd := f.Func("Fetcher", "FetchDocs"); fd == nil {
			e.Missing("fetchArrangeGuards", "Fetcher.FetchDocs not found")
		} else {
			// every assignment into result[...]: the condition of the innermost enclosing if ("" when unguarded)
			var guards []ev
			var walk func(n ast.Node, guard string)
			walk = func(n ast.Node, guard string) {
				ast.Inspect(n, func(x ast.Node) bool {
					switch st := x.(type) {
					case *ast.IfStmt:
						if x == n {
							return true
						}
						walk(st.Body, f.Render(st.Cond))
						if st.Else != nil {
							walk(st.Else, "else of "+f.Render(st.Cond))
						}
						return false
					case *ast.AssignStmt:
						if len(st.Lhs) == 1 && strings.HasPrefix(f.Render(st.Lhs[0]), "result[") {
							guards = append(guards, ev{st.Pos(), guard})
						}
					}
					return true
				})
			}
			walk(fd.Body, "")
			e.Strs("fetchArrangeGuards", sorted(guards), "Fetcher.FetchDocs: condition guarding each write into the result slots (arrange step)")
		}
		if f, err := r.Load("storeapi/client.go"); err != nil {
			e.Missing("inMemoryBulkOrder", err)
		} else if fd := f.Func("inMemoryAPIClient", "Bulk"); fd == nil {
			e.Missing("inMemoryBulkOrder", "inMemoryAPIClient.Bulk not found")
		} else {
			var evs []ev
			ast.Inspect(fd.Body, func(x ast.Node) bool {
				switch n := x.(type) {
				case *ast.AssignStmt:
					if len(n.Lhs) == 1 && len(n.Rhs) == 1 && f.Render(n.Lhs[0]) == "in.Metas" {
						evs = append(evs, ev{n.End(), "in.Metas=" + f.Render(n.Rhs[0])})
					}
				case *ast.CallExpr:
					if strings.HasSuffix(f.Render(n.Fun), "GrpcV1().Bulk") {
						evs = append(evs, ev{n.End(), "store.Bulk"})
					}
				}
				return true
			})
			e.Strs("inMemoryBulkOrder", sorted(evs), "in-memory store client: the metas handed to the asynchronous indexer are a private copy")
		}
		if f, err := r.Load("proxy/bulk/indexer.go"); err != nil {
			e.Missing("firstMetaToken", err)
		} else if fd := f.Func("indexer", "appendMeta"); fd == nil {
			e.Missing("firstMetaToken", "indexer.appendMeta not found")
		} else {
			var keys []ev
			ast.Inspect(fd.Body, func(x ast.Node) bool {
				if c, ok := x.(*ast.CompositeLit); ok && strings.HasSuffix(f.Render(c.Type), "MetaToken") {
					for _, el := range c.Elts {
						if kv, ok := el.(*ast.KeyValueExpr); ok && f.Render(kv.Key) == "Key" {
							keys = append(keys, ev{c.Pos(), f.Render(kv.Value)})
						}
					}
				}
				return true
			})
			ks := sorted(keys)
			if len(ks) == 0 {
				e.Missing("firstMetaToken", "no MetaToken literal in appendMeta")
			} else {
				e.Str("firstMetaToken", ks[0], "proxy indexer: key of the first token appendMeta gives every document")
			}
		}
		// ---------------------------------------------------------------- data provider
		if f, err := r.Load("frac/active_index.go"); err != nil {
			e.Missing("getIDsIndexOrder", err)
		} else {
			if fd := f.Func("activeDataProvider", "getIDsIndex"); fd == nil {
				e.Missing("getIDsIndexOrder", "getIDsIndex not found")
			} else {
				evs := callEvents(f, fd.Body, []string{"GetAllTokenLIDs.GetLIDs", "mids.GetVals", "rids.GetVals"}, nil)
				e.Strs("getIDsIndexOrder", sorted(evs), "snapshot order in activeDataProvider.getIDsIndex")
			}
			if fd := f.Func("activeFetchIndex", "GetBlocksOffsets"); fd == nil {
				e.Missing("fetchBlocksRefresh", "activeFetchIndex.GetBlocksOffsets not found")
			} else {
				refresh := false
				ast.Inspect(fd.Body, func(x ast.Node) bool {
					if is, ok := x.(*ast.IfStmt); ok && strings.Contains(f.Render(is.Cond), ">= len(di.blocksOffsets)") {
						for _, a := range fieldAssigns(f, is.Body, "di") {
							if strings.HasPrefix(a.s, "blocksOffsets=") && strings.HasSuffix(a.s, ".GetVals()") {
								refresh = true
							}
						}
					}
					return true
				})
				rets := 0
				ast.Inspect(fd.Body, func(x ast.Node) bool {
					if rt, ok := x.(*ast.ReturnStmt); ok && len(rt.Results) == 1 && f.Render(rt.Results[0]) == "di.blocksOffsets[num]" {
						rets++
					}
					return true
				})
				if rets != 1 {
					e.Missing("fetchBlocksRefresh", "GetBlocksOffsets: expected `return di.blocksOffsets[num]`")
				} else {
					e.Bool("fetchBlocksRefresh", refresh, "activeFetchIndex.GetBlocksOffsets re-reads DocBlocks when the index is past the provider's snapshot")
				}
			}
			if fd := f.Func("activeDataProvider", "Search"); fd == nil {
				e.Missing("searchClamp", "activeDataProvider.Search not found")
			} else {
				var evs []ev
				ast.Inspect(fd.Body, func(x ast.Node) bool {
					if a, ok := x.(*ast.AssignStmt); ok && len(a.Lhs) == 1 {
						l := f.Render(a.Lhs[0])
						if l == "params.From" || l == "params.To" {
							evs = append(evs, ev{a.Pos(), f.Render(a)})
						}
					}
					return true
				})
				e.Strs("searchClamp", sorted(evs), "activeDataProvider.Search: assignments to the query range")
			}
		}
		if f, err := r.Load("frac/active.go"); err != nil {
			e.Missing("providerFields", err)
		} else {
			if fd := f.Func("Active", "createDataProvider"); fd == nil {
				e.Missing("providerFields", "createDataProvider not found")
			} else {
				var evs []ev
				ast.Inspect(fd.Body, func(x ast.Node) bool {
					if kv, ok := x.(*ast.KeyValueExpr); ok {
						k := f.Render(kv.Key)
						if k == "info" || k == "blocksOffsets" || k == "docsPositions" {
							evs = append(evs, ev{kv.Pos(), k + "=" + f.Render(kv.Value)})
						}
					}
					return true
				})
				e.Strs("providerFields", sorted(evs), "Active.createDataProvider: what is copied and what stays live")
			}
			if fd := f.Func("Active", "Append"); fd == nil {
				e.Missing("activeAppendOrder", "Active.Append not found")
			} else {
				evs := callEvents(f, fd.Body, []string{"writer.Write", "updateDiskStats", "indexer.Index", "wg.Done"}, nil)
				ast.Inspect(fd.Body, func(x ast.Node) bool {
					if is, ok := x.(*ast.IfStmt); ok {
						for _, st := range is.Body.List {
							if rt, ok := st.(*ast.ReturnStmt); ok {
								evs = append(evs, ev{rt.End(), f.Render(rt)})
							}
						}
					}
					return true
				})
				e.Strs("activeAppendOrder", sorted(evs), "Active.Append: write, error return, index hand-off")
			}
		}
		// ---------------------------------------------------------------- proxyFrac
		f, err := r.Load("fracmanager/proxy_frac.go")
		if err != nil {
			e.Missing("proxy_frac.go", err)
			return
		}
		locks := []string{"useMu.Lock", "useMu.Unlock", "useMu.RLock", "useMu.RUnlock"}
		if fd := f.Func("proxyFrac", "Append"); fd == nil {
			e.Missing("proxyAppendOrder", "proxyFrac.Append not found")
		} else {
			var evs []ev
			for _, n := range mainPath(fd.Body) {
				evs = append(evs, callEvents(f, n, append([]string{"isActiveState", "indexWg.Add", "indexWg.Done", "active.Append"}, locks...), nil)...)
			}
			e.Strs("proxyAppendOrder", sorted(evs), "proxyFrac.Append, main path")
			var errEvs []ev
			ast.Inspect(fd.Body, func(x ast.Node) bool {
				if is, ok := x.(*ast.IfStmt); ok && strings.Contains(f.Render(is.Cond), "err != nil") {
					errEvs = append(errEvs, callEvents(f, is.Body, []string{"indexWg.Done", "indexWg.Add"}, nil)...)
				}
				return true
			})
			e.Strs("appendErrorPath", sorted(errEvs), "proxyFrac.Append: WaitGroup calls on the path where active.Append returned an error")
		}
		if fd := f.Func("proxyFrac", "Seal"); fd == nil {
			e.Missing("proxySealOrder", "proxyFrac.Seal not found")
		} else {
			var evs []ev
			for _, n := range mainPath(fd.Body) {
				evs = append(evs, callEvents(f, n, append([]string{"isSuicidedState", "isActiveState", "sealWg.Add", "sealWg.Done", "WaitWriteIdle",
					"frac.Seal", "NewSealedPreloaded", "active.Release", "indexWg.Wait"}, locks...), nil)...)
				for _, a := range fieldAssigns(f, n, "f") {
					evs = append(evs, a)
				}
			}
			e.Strs("proxySealOrder", sorted(evs), "proxyFrac.Seal, main path: calls and field assignments")
		}
		if fd := f.Func("proxyFrac", "Suicide"); fd == nil {
			e.Missing("proxySuicideOrder", "proxyFrac.Suicide not found")
		} else {
			evs := callEvents(f, fd.Body, []string{"trySetSuicided", "sealWg.Wait", "active.Suicide", "sealed.Suicide"}, nil)
			e.Strs("proxySuicideOrder", sorted(evs), "proxyFrac.Suicide")
		}
		if fd := f.Func("proxyFrac", "trySetSuicided"); fd == nil {
			e.Missing("trySetClearsUnlessSealing", "trySetSuicided not found")
		} else {
			total := len(fieldAssigns(f, fd.Body, "f"))
			inside := 0
			ast.Inspect(fd.Body, func(x ast.Node) bool {
				if is, ok := x.(*ast.IfStmt); ok && f.Render(is.Cond) == "!sealing" && is.Else == nil {
					as := sorted(fieldAssigns(f, is.Body, "f"))
					sort.Strings(as)
					if len(as) == 2 && as[0] == "active=nil" && as[1] == "sealed=nil" {
						inside = 2
					}
				}
				return true
			})
			sealingDef := false
			ast.Inspect(fd.Body, func(x ast.Node) bool {
				if a, ok := x.(*ast.AssignStmt); ok && len(a.Lhs) == 1 && f.Render(a.Lhs[0]) == "sealing" && f.Render(a.Rhs[0]) == "f.isSealingState()" {
					sealingDef = true
				}
				return true
			})
			e.Bool("trySetClearsUnlessSealing", total == 2 && inside == 2 && sealingDef,
				"trySetSuicided: `sealing := f.isSealingState()` and the only field writes are sealed=nil, active=nil under `if !sealing`")
		}
	}, "frac/active_indexer.go", "frac/active_index.go", "frac/active.go", "frac/active_token_list.go", "frac/inverser.go", "disk/index_reader.go", "fracmanager/fraction_provider.go", "frac/info.go", "fracmanager/list.go", "frac/file_writer.go", "frac/sealed.go", "frac/sealed_index.go", "fracmanager/fracmanager.go", "fracmanager/fetcher.go", "storeapi/client.go", "proxy/bulk/indexer.go", "fracmanager/proxy_frac.go")
}
