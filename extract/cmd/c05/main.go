// Extracted facts for C05 (fracmanager/searcher.go, fracmanager/list.go, seq/qpr.go, proxy/search/ingestor.go).
package main

import (
	"go/ast"
	"go/token"
	"strings"

	"verifextract/lib"
)

// conds of the if statements directly containing a call whose rendered callee has the given suffix, paired with
// the rendered call ("<cond> => <call>"; else branches are rendered as "else(<cond>) => <call>")
func callsUnderIf(f *lib.File, body ast.Node, suffix string) []string {
	var res []string
	var walk func(n ast.Node, ctx string)
	walk = func(n ast.Node, ctx string) {
		ast.Inspect(n, func(x ast.Node) bool {
			switch v := x.(type) {
			case *ast.IfStmt:
				c := f.Render(v.Cond)
				walk(v.Body, c)
				if v.Else != nil {
					walk(v.Else, "else("+c+")")
				}
				return false
			case *ast.FuncLit:
				return false // predicate bodies are rendered with their call
			case *ast.CallExpr:
				if strings.HasSuffix(f.Render(v.Fun), suffix) {
					res = append(res, ctx+" => "+f.Render(v))
				}
			}
			return true
		})
	}
	walk(body, "")
	return res
}

func renderBlock(f *lib.File, b *ast.BlockStmt) string { return f.Render(b) }

func main() {
	lib.Main("C05", func(r lib.Repo, e *lib.Emitter) {
		// ---- Searcher.SearchDocs loop
		if f, err := r.Load("fracmanager/searcher.go"); err != nil {
			e.Missing("searcher.go", err)
		} else {
			if fd := f.Func("Searcher", "SearchDocs"); fd == nil {
				e.Missing("searchDocsLoop", "SearchDocs not found")
			} else {
				var conds, calls, limitAssign []string
				ast.Inspect(fd.Body, func(n ast.Node) bool {
					if fs, ok := n.(*ast.ForStmt); ok && fs.Cond != nil {
						conds = append(conds, f.Render(fs.Cond))
						for _, c := range f.Calls(fs.Body) {
							if strings.HasSuffix(c, ".Shift") || strings.HasSuffix(c, "searchDocsAsync") || c == "seq.MergeQPRs" || c == "calcEnsuredIDsCount" {
								calls = append(calls, c)
							}
						}
						ast.Inspect(fs.Body, func(m ast.Node) bool {
							switch x := m.(type) {
							case *ast.AssignStmt:
								if len(x.Lhs) == 1 && f.Render(x.Lhs[0]) == "params.Limit" {
									limitAssign = append(limitAssign, f.Render(x.Rhs[0]))
								}
							case *ast.CallExpr:
								if f.Render(x.Fun) == "seq.MergeQPRs" {
									var args []string
									for _, a := range x.Args {
										args = append(args, f.Render(a))
									}
									e.Strs("searchDocsMergeArgs", args, "arguments of seq.MergeQPRs inside the SearchDocs loop")
								}
							}
							return true
						})
					}
					return true
				})
				e.Strs("searchDocsLoopConds", conds, "loop condition of Searcher.SearchDocs")
				e.Strs("searchDocsLoopCalls", calls, "shift / search / merge / ensured calls of the loop body, source order")
				e.Strs("searchDocsLimitAssign", limitAssign, "right-hand sides assigned to params.Limit inside the loop")
			}
			if fd := f.Func("", "calcEnsuredIDsCount"); fd == nil {
				e.Missing("ensuredSearches", "calcEnsuredIDsCount not found")
			} else {
				e.Strs("ensuredSearches", callsUnderIf(f, fd.Body, "sort.Search"), "the sort.Search calls of calcEnsuredIDsCount with the condition they sit under")
				var rets []string
				ast.Inspect(fd.Body, func(n ast.Node) bool {
					if is, ok := n.(*ast.IfStmt); ok && strings.Contains(f.Render(is.Cond), "len(remainingFracs)") {
						for _, s := range is.Body.List {
							if rs, ok := s.(*ast.ReturnStmt); ok && len(rs.Results) == 1 {
								rets = append(rets, f.Render(is.Cond)+" => "+f.Render(rs.Results[0]))
							}
						}
					}
					return true
				})
				e.Strs("ensuredNoRemaining", rets, "calcEnsuredIDsCount when no fraction remains")
				nfi := ""
				ast.Inspect(fd.Body, func(n ast.Node) bool {
					if as, ok := n.(*ast.AssignStmt); ok && len(as.Lhs) == 1 && f.Render(as.Lhs[0]) == "nextFracInfo" {
						nfi = f.Render(as.Rhs[0])
					}
					return true
				})
				e.Str("ensuredNextFrac", nfi, "the fraction calcEnsuredIDsCount compares against")
			}
			if fd := f.Func("Searcher", "prepareFracs"); fd == nil {
				e.Missing("prepareFracsCalls", "prepareFracs not found")
			} else {
				e.Strs("prepareFracsCalls", lib.Filter(f.Calls(fd.Body), func(s string) bool {
					return strings.HasSuffix(s, "FilterInRange") || strings.HasSuffix(s, ".Sort")
				}), "prepareFracs: filter then sort")
			}
		}
		// ---- List.Sort comparators
		if f, err := r.Load("fracmanager/list.go"); err != nil {
			e.Missing("list.go", err)
		} else if fd := f.Func("List", "Sort"); fd == nil {
			e.Missing("listSortLess", "List.Sort not found")
		} else {
			var res []string
			var walk func(n ast.Node, ctx string)
			walk = func(n ast.Node, ctx string) {
				ast.Inspect(n, func(x ast.Node) bool {
					switch v := x.(type) {
					case *ast.IfStmt:
						c := f.Render(v.Cond)
						walk(v.Body, c)
						if v.Else != nil {
							walk(v.Else, "else("+c+")")
						}
						return false
					case *ast.ReturnStmt:
						if len(v.Results) == 1 {
							res = append(res, ctx+" => "+f.Render(v.Results[0]))
						}
					}
					return true
				})
			}
			walk(fd.Body, "")
			e.Strs("listSortLess", res, "comparators of fracmanager.List.Sort per order")
		}
		// ---- seq.MergeQPRs
		if f, err := r.Load("seq/qpr.go"); err != nil {
			e.Missing("qpr.go", err)
		} else {
			if fd := f.Func("", "MergeQPRs"); fd == nil {
				e.Missing("mergeSorts", "MergeQPRs not found")
			} else {
				e.Strs("mergeSorts", callsUnderIf(f, fd.Body, "sort.Sort"), "the sort calls of MergeQPRs per order")
				var stmts []string
				ast.Inspect(fd.Body, func(n ast.Node) bool {
					switch x := n.(type) {
					case *ast.AssignStmt:
						l := f.Render(x.Lhs[0])
						if l == "dst.Total" || l == "l" || (l == "dst.IDs" && strings.Contains(f.Render(x.Rhs[0]), "ids[")) {
							stmts = append(stmts, f.Render(x))
						}
					case *ast.IfStmt:
						if strings.Contains(f.Render(x.Cond), "dst.Total") {
							stmts = append(stmts, "if "+f.Render(x.Cond))
						}
					}
					return true
				})
				e.Strs("mergeTotalAndCut", stmts, "MergeQPRs: total accounting and the final cut")
			}
			if fd := f.Func("", "removeRepetitionsAdvanced"); fd == nil {
				e.Missing("repetitionCond", "removeRepetitionsAdvanced not found")
			} else {
				var conds []string
				ast.Inspect(fd.Body, func(n ast.Node) bool {
					if is, ok := n.(*ast.IfStmt); ok {
						conds = append(conds, f.Render(is.Cond))
					}
					return true
				})
				e.Strs("repetitionConds", conds, "conditions of removeRepetitionsAdvanced, source order")
			}
			if fd := f.Func("", "removeHistogramRepetition"); fd == nil {
				e.Missing("histRepetition", "removeHistogramRepetition not found")
			} else {
				var st []string
				for _, s := range fd.Body.List {
					st = append(st, f.Render(s))
				}
				e.Strs("histRepetition", st, "body of removeHistogramRepetition")
			}
			if fd := f.Func("IDSources", "Less"); fd == nil {
				e.Missing("idSourcesLess", "IDSources.Less not found")
			} else if len(fd.Body.List) == 1 {
				e.Str("idSourcesLess", f.Render(fd.Body.List[0]), "IDSources.Less")
			}
		}
		if f, err := r.Load("seq/seq.go"); err != nil {
			e.Missing("seq.go", err)
		} else if fd := f.Func("", "Less"); fd == nil {
			e.Missing("seqLess", "seq.Less not found")
		} else {
			var st []string
			for _, s := range fd.Body.List {
				st = append(st, f.Render(s))
			}
			e.Strs("seqLess", st, "body of seq.Less")
		}
		// ---- proxy: merge limit and pagination
		if f, err := r.Load("proxy/search/ingestor.go"); err != nil {
			e.Missing("ingestor.go", err)
		} else {
			if fd := f.Func("Ingestor", "Search"); fd == nil {
				e.Missing("proxyMergeArgs", "Ingestor.Search not found")
			} else {
				var args, pag []string
				ast.Inspect(fd.Body, func(n ast.Node) bool {
					if c, ok := n.(*ast.CallExpr); ok {
						switch f.Render(c.Fun) {
						case "seq.MergeQPRs":
							for _, a := range c.Args {
								args = append(args, f.Render(a))
							}
						case "si.paginateIDs":
							for _, a := range c.Args {
								pag = append(pag, f.Render(a))
							}
						}
					}
					return true
				})
				e.Strs("proxyMergeArgs", args, "arguments of seq.MergeQPRs in Ingestor.Search")
				e.Strs("proxyPaginateArgs", pag, "arguments of paginateIDs in Ingestor.Search")
			}
			if fd := f.Func("Ingestor", "paginateIDs"); fd == nil {
				e.Missing("paginateBody", "paginateIDs not found")
			} else {
				var st []string
				ast.Inspect(fd.Body, func(n ast.Node) bool {
					switch x := n.(type) {
					case *ast.IfStmt:
						st = append(st, "if "+f.Render(x.Cond))
					case *ast.AssignStmt:
						st = append(st, f.Render(x))
					}
					return true
				})
				e.Strs("paginateBody", st, "conditions and assignments of paginateIDs, source order")
			}
		}
		// ---- retention: OldestCT is taken from the REMAINING fractions (the local slice advances with every eviction)
		if f, err := r.Load("fracmanager/fracmanager.go"); err != nil {
			e.Missing("fracmanager.go", err)
		} else if fd := f.Func("FracManager", "shrinkSizes"); fd == nil {
			e.Missing("shrinkSizesFacts", "shrinkSizes not found")
		} else {
			var facts []string
			ast.Inspect(fd.Body, func(n ast.Node) bool {
				switch x := n.(type) {
				case *ast.ForStmt:
					if x.Cond != nil {
						facts = append(facts, "for "+f.Render(x.Cond))
						for _, st := range x.Body.List {
							if as, ok := st.(*ast.AssignStmt); ok && f.Render(as.Lhs[0]) == "fracs" {
								facts = append(facts, "  "+f.Render(as))
							}
							if as, ok := st.(*ast.AssignStmt); ok && f.Render(as.Lhs[0]) == "outsider" {
								facts = append(facts, "  "+f.Render(as))
							}
						}
					}
				case *ast.IfStmt:
					if x.Init != nil && strings.Contains(f.Render(x.Init), "GetOldestFrac") {
						facts = append(facts, "if "+f.Render(x.Init)+"; "+f.Render(x.Cond))
					}
				case *ast.AssignStmt:
					if len(x.Lhs) == 1 && (f.Render(x.Lhs[0]) == "newOldestCT" || (f.Render(x.Lhs[0]) == "fracs" && x.Tok == token.DEFINE)) {
						facts = append(facts, f.Render(x))
					}
				}
				return true
			})
			e.Strs("shrinkSizesFacts", facts, "shrinkSizes: the eviction loop advances the local fraction list; OldestCT comes from that list")
		}
		// ---- the token text of an aggregation source: the cache of ValueBySource must be an identity
		if f, err := r.Load("frac/processor/aggregator.go"); err != nil {
			e.Missing("aggregator.go", err)
		} else if fd := f.Func("SourcedNodeIterator", "ValueBySource"); fd == nil {
			e.Missing("valueBySourceCache", "ValueBySource not found")
		} else {
			var keys, vals []string
			ast.Inspect(fd.Body, func(n ast.Node) bool {
				switch x := n.(type) {
				case *ast.IndexExpr:
					if f.Render(x.X) == "s.tokensCache" {
						keys = append(keys, f.Render(x.Index))
					}
				case *ast.CallExpr:
					if strings.HasSuffix(f.Render(x.Fun), "GetValByTID") && len(x.Args) == 1 {
						arg := f.Render(x.Args[0])
						vals = append(vals, arg)
					}
				}
				return true
			})
			tidDef := ""
			ast.Inspect(fd.Body, func(n ast.Node) bool {
				if as, ok := n.(*ast.AssignStmt); ok && len(as.Lhs) == 1 && f.Render(as.Lhs[0]) == "tid" {
					tidDef = f.Render(as.Rhs[0])
				}
				return true
			})
			for i, v := range vals {
				if v == "tid" && tidDef != "" {
					vals[i] = tidDef
				}
			}
			e.Strs("valueBySourceCacheKeys", keys, "ValueBySource: every key expression used with s.tokensCache (reads and the write)")
			e.Strs("valueBySourceTokens", vals, "ValueBySource: the TID every GetValByTID call looks up (a local `tid` resolved)")
		}
		// ---- API boundary: storeapi.GrpcV1.doSearch
		if f, err := r.Load("storeapi/grpc_search.go"); err != nil {
			e.Missing("grpc_search.go", err)
		} else {
			if fd := f.Func("GrpcV1", "doSearch"); fd == nil {
				e.Missing("doSearchConversions", "doSearch not found")
			} else {
				var conv, params, order []string
				ast.Inspect(fd.Body, func(n ast.Node) bool {
					switch x := n.(type) {
					case *ast.AssignStmt:
						if len(x.Lhs) == 1 {
							switch f.Render(x.Lhs[0]) {
							case "from", "to", "limit":
								conv = append(conv, f.Render(x))
								order = append(order, "convert "+f.Render(x.Lhs[0]))
							}
						}
					case *ast.IfStmt:
						c := f.Render(x.Cond)
						if strings.Contains(c, "StoreModeHot") || strings.Contains(c, "earlierThanOldestFrac") {
							conv = append(conv, "if "+c)
							order = append(order, "hot-check")
						}
					case *ast.CompositeLit:
						if strings.HasSuffix(f.Render(x.Type), "SearchParams") {
							order = append(order, "params")
							for _, el := range x.Elts {
								if kv, ok := el.(*ast.KeyValueExpr); ok {
									params = append(params, f.Render(kv.Key)+": "+f.Render(kv.Value))
								}
							}
						}
					case *ast.CallExpr:
						if strings.HasSuffix(f.Render(x.Fun), "SearchDocs") {
							order = append(order, "SearchDocs("+f.Render(x.Args[1])+")")
						}
					}
					return true
				})
				e.Strs("doSearchConversions", conv, "doSearch: request field conversions and the hot-store conditions, source order")
				e.Strs("doSearchParams", params, "doSearch: the SearchParams literal")
				e.Strs("doSearchOrder", order, "doSearch: order of conversions, hot check, parameter construction, search")
			}
			if fd := f.Func("GrpcV1", "earlierThanOldestFrac"); fd != nil {
				var st []string
				for _, s := range fd.Body.List {
					st = append(st, f.Render(s))
				}
				e.Strs("earlierThanOldest", st, "GrpcV1.earlierThanOldestFrac")
			} else {
				e.Missing("earlierThanOldest", "not found")
			}
		}
		if f, err := r.Load("storeapi/grpc_v1.go"); err != nil {
			e.Missing("grpc_v1.go", err)
		} else if fd := f.Func("", "parseStoreError"); fd == nil {
			e.Missing("storeErrorCodes", "parseStoreError not found")
		} else {
			var codes []string
			ast.Inspect(fd.Body, func(n ast.Node) bool {
				if is, ok := n.(*ast.IfStmt); ok {
					for _, s := range is.Body.List {
						if rs, ok := s.(*ast.ReturnStmt); ok && len(rs.Results) == 2 {
							codes = append(codes, f.Render(is.Cond)+" => "+f.Render(rs.Results[0]))
						}
					}
				}
				return true
			})
			e.Strs("storeErrorCodes", codes, "parseStoreError: error -> response code")
		}
		// ---- API boundary: proxy request -> store request, validation, replica order
		if f, err := r.Load("proxy/search/search_request.go"); err != nil {
			e.Missing("search_request.go", err)
		} else if fd := f.Func("SearchRequest", "GetAPISearchRequest"); fd == nil {
			e.Missing("apiRequestFields", "GetAPISearchRequest not found")
		} else {
			var fields []string
			ast.Inspect(fd.Body, func(n ast.Node) bool {
				if cl, ok := n.(*ast.CompositeLit); ok && strings.HasSuffix(f.Render(cl.Type), "SearchRequest") {
					for _, el := range cl.Elts {
						if kv, ok := el.(*ast.KeyValueExpr); ok {
							fields = append(fields, f.Render(kv.Key)+": "+f.Render(kv.Value))
						}
					}
				}
				return true
			})
			e.Strs("apiRequestFields", fields, "SearchRequest.GetAPISearchRequest: the store request literal")
		}
		if f, err := r.Load("proxy/search/ingestor.go"); err == nil {
			if fd := f.Func("Ingestor", "Search"); fd != nil {
				var val []string
				ast.Inspect(fd.Body, func(n ast.Node) bool {
					if is, ok := n.(*ast.IfStmt); ok && strings.Contains(f.Render(is.Cond), "sr.Size") {
						val = append(val, f.Render(is.Cond))
					}
					return true
				})
				e.Strs("proxyValidation", val, "Ingestor.Search: request validation conditions")
			}
			if fd := f.Func("Ingestor", "searchShard"); fd != nil {
				// the arms of `switch resp.Code`: every arm returns an error, no arm = the response is data
				var arms []string
				found := false
				ast.Inspect(fd.Body, func(n ast.Node) bool {
					if sw, ok := n.(*ast.SwitchStmt); ok && sw.Tag != nil && f.Render(sw.Tag) == "resp.Code" {
						found = true
						for _, c := range sw.Body.List {
							cc := c.(*ast.CaseClause)
							returnsErr := false
							for _, st := range cc.Body {
								if rs, ok := st.(*ast.ReturnStmt); ok && len(rs.Results) == 3 && f.Render(rs.Results[2]) != "nil" {
									returnsErr = true
								}
							}
							if returnsErr {
								for _, l := range cc.List {
									arms = append(arms, f.Render(l))
								}
							}
						}
					}
					return true
				})
				if found {
					e.Strs("shardCodeArms", arms, "searchShard: the case labels of `switch resp.Code` that return an error")
				} else {
					e.Missing("shardCodeArms", "switch resp.Code not found in searchShard")
				}
				var st []string
				ast.Inspect(fd.Body, func(n ast.Node) bool {
					if is, ok := n.(*ast.IfStmt); ok && strings.Contains(f.Render(is.Cond), "ShuffleReplicas") {
						st = append(st, "if "+f.Render(is.Cond)+" "+renderBlock(f, is.Body)+" else "+f.Render(is.Else))
					}
					if as, ok := n.(*ast.AssignStmt); ok && len(as.Lhs) == 1 && f.Render(as.Lhs[0]) == "host" {
						st = append(st, f.Render(as))
					}
					return true
				})
				e.Strs("replicaOrder", st, "searchShard: the visiting order of the replicas")
			}
		}
	}, "fracmanager/searcher.go", "fracmanager/list.go", "seq/qpr.go", "seq/seq.go", "proxy/search/ingestor.go", "storeapi/grpc_search.go", "storeapi/grpc_v1.go", "proxy/search/search_request.go", "frac/processor/aggregator.go")
}
