// Mechanical Go -> Lean translation of the DocBlock header accessors C01's byte model relies on (see extract/xlate).
package main

import "verifextract/xlate"

func main() {
	m := func(name string) xlate.Spec { return xlate.Spec{Pkg: "disk", Recv: "DocBlock", Name: name} }
	xlate.Main("C01", m("Codec"), m("SetCodec"), m("Len"), m("SetLen"), m("FullLen"), m("CalcLen"), m("RawLen"), m("SetRawLen"),
		m("GetExt1"), m("SetExt1"), m("GetExt2"), m("SetExt2"))
}
