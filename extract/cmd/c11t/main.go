// Mechanical Go -> Lean translation of the byte-class tables and the size decisions of the tokenizers C11's model
// relies on (see extract/xlate).
package main

import "verifextract/xlate"

func main() {
	kw := func(as string, stmts ...string) xlate.Spec {
		return xlate.Spec{Pkg: "tokenizer", Recv: "KeywordTokenizer", Name: "Tokenize", As: as, Stmts: stmts}
	}
	tx := func(as string, stmts ...string) xlate.Spec {
		return xlate.Spec{Pkg: "tokenizer", Recv: "TextTokenizer", Name: "Tokenize", As: as, Stmts: stmts}
	}
	xlate.Main("C11",
		// the init loops of the 256-entry tables (package-level arrays: parameters, returned when written)
		xlate.Spec{Pkg: "tokenizer", Name: "initUpperToLowerMap"},
		xlate.Spec{Pkg: "tokenizer", Name: "initIsASCII"},
		xlate.Spec{Pkg: "tokenizer", Name: "initIsUpperASCII"},
		xlate.Spec{Pkg: "tokenizer", Name: "initIsTextToken"},
		// statement slices: effective limit, skip decision, cut length
		kw("kwSkip", "if maxTokenSize == 0", "if len(value) > maxTokenSize && !t.partialIndexing"),
		kw("kwCut", "if maxTokenSize == 0", "maxLength := min(len(value), maxTokenSize)"),
		tx("textSkip", "if maxFieldValueLength == 0", "if len(value) > maxFieldValueLength && !t.partialIndexing"),
		tx("textCut", "if maxFieldValueLength == 0", "maxLength := min(len(value), maxFieldValueLength)"),
	)
}
