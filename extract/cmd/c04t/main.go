// Mechanical Go -> Lean translation of the integer functions C04's models rely on (see extract/xlate).
package main

import "verifextract/xlate"

func main() {
	xlate.Main("C04",
		xlate.Spec{Pkg: "seq", Name: "PackDocPos"},
		xlate.Spec{Pkg: "seq", Recv: "DocPos", Name: "Unpack"},
		xlate.Spec{Pkg: "storeapi", Recv: "docsStream", Name: "calcChunkSize"},
		// docsStream.batchLoader: the chunk cut off the remaining ids and what is left
		xlate.Spec{Pkg: "storeapi", Recv: "docsStream", Name: "batchLoader", As: "cutChunk",
			Stmts: []string{"l := min(len(d.ids), chunkSize)", "chunk := d.ids[:l]"}},
		xlate.Spec{Pkg: "storeapi", Recv: "docsStream", Name: "batchLoader", As: "restIDs",
			Stmts: []string{"l := min(len(d.ids), chunkSize)", "d.ids = d.ids[l:]"}},
		// metaDataCollector.Filter: the start values and the two per-ID updates of the recomputed MID range
		xlate.Spec{Pkg: "frac", Recv: "metaDataCollector", Name: "Filter", As: "filterMinInit", Stmts: []string{"c.MinMID = math.MaxUint64"}},
		xlate.Spec{Pkg: "frac", Recv: "metaDataCollector", Name: "Filter", As: "filterMaxInit", Stmts: []string{"c.MaxMID = 0"}},
		xlate.Spec{Pkg: "frac", Recv: "metaDataCollector", Name: "Filter", As: "filterMinStep", Stmts: []string{"if id.MID <"}, Result: "c.MinMID"},
		xlate.Spec{Pkg: "frac", Recv: "metaDataCollector", Name: "Filter", As: "filterMaxStep", Stmts: []string{"if id.MID >"}, Result: "c.MaxMID"},
	)
}
