// Mechanical Go -> Lean translation of the integer functions C04's models rely on (see extract/xlate).
package main

import "verifextract/xlate"

func main() {
	xlate.Main("C04",
		xlate.Spec{Pkg: "seq", Name: "PackDocPos"},
		xlate.Spec{Pkg: "seq", Recv: "DocPos", Name: "Unpack"},
		xlate.Spec{Pkg: "storeapi", Recv: "docsStream", Name: "calcChunkSize"},
	)
}
