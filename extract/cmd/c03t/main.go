// Mechanical Go -> Lean translation of the integer functions C03's models rely on (see extract/xlate).
package main

import "verifextract/xlate"

func main() {
	xlate.Main("C03",
		xlate.Spec{Pkg: "seq", Name: "PackDocPos"},
		xlate.Spec{Pkg: "seq", Recv: "DocPos", Name: "Unpack"},
		xlate.Spec{Pkg: "frac/lids", Recv: "Table", Name: "GetAdjustedMinTID"},
		xlate.Spec{Pkg: "frac/lids", Recv: "Table", Name: "GetChunksCount"},
		xlate.Spec{Pkg: "frac/lids", Recv: "Table", Name: "HasTIDInPrevBlock"},
		xlate.Spec{Pkg: "frac/lids", Recv: "Table", Name: "HasTIDInNextBlock"},
		xlate.Spec{Pkg: "frac/lids", Recv: "Table", Name: "GetFirstBlockIndexForTID"},
		xlate.Spec{Pkg: "frac/lids", Recv: "Table", Name: "GetLastBlockIndexForTID"},
		// GetMID / GetRID load ID blocks through caches: they stay uninterpreted (parameters p_GetMID, p_GetRID)
		xlate.Spec{Pkg: "frac", Recv: "sealedIDsIndex", Name: "LessOrEqual", Oracles: []string{"sealedIDsIndex.GetMID", "sealedIDsIndex.GetRID"}},
		// the length-prefixed fields of the token table / docs blocks (binary.Varint itself is standard library: not taken)
		xlate.Spec{Pkg: "packer", Recv: "BytesPacker", Name: "PutUint32"},
		xlate.Spec{Pkg: "packer", Recv: "BytesPacker", Name: "PutStringWithSize"},
		xlate.Spec{Pkg: "packer", Recv: "BytesUnpacker", Name: "GetUint32"},
		xlate.Spec{Pkg: "packer", Recv: "BytesUnpacker", Name: "GetBinary"},
		xlate.Spec{Pkg: "frac", Recv: "DiskBlocksProducer", Name: "getTokensBlocksGenerator", As: "blockSize",
			Stmts: []string{"blocksCount := fieldSize", "blockSize := max("}},
	)
}
