// Mechanical Go -> Lean translation of the time arithmetic C10's models rely on (see extract/xlate).
package main

import "verifextract/xlate"

func main() {
	xlate.Main("C10",
		xlate.Spec{Pkg: "seq", Name: "TimeToMID"},
		xlate.Spec{Pkg: "proxy/bulk", Name: "documentDelayed", Ignore: []string{"delays.Inc", "futureDelays.Inc"}},
		xlate.Spec{Pkg: "proxyapi", Recv: "IngestorConfig", Name: "setDefaults"},
		xlate.Spec{Pkg: "seq", Name: "NewID"},
	)
}
