// Mechanical Go -> Lean translation of the KMP loops C13's model relies on (see extract/xlate).
package main

import "verifextract/xlate"

func main() {
	xlate.Main("C13",
		xlate.Spec{Pkg: "pattern", Name: "findSubstring"},
		xlate.Spec{Pkg: "pattern", Recv: "substring", Name: "calcPrefFunc"},
		xlate.Spec{Pkg: "pattern", Name: "findSequence"},
		// the value tests of the searchers and their narrowing to a TID interval (the token dictionary is an interface)
		xlate.Spec{Pkg: "pattern", Name: "cut", Oracles: []string{"tokenProvider.GetToken"}},
		xlate.Spec{Pkg: "pattern", Recv: "literalSearch", Name: "check"},
		xlate.Spec{Pkg: "pattern", Recv: "wildcardSearch", Name: "checkPrefix"},
		xlate.Spec{Pkg: "pattern", Recv: "wildcardSearch", Name: "checkSuffix"},
		xlate.Spec{Pkg: "pattern", Recv: "literalSearch", Name: "Narrow"},
		xlate.Spec{Pkg: "pattern", Recv: "wildcardSearch", Name: "Narrow"},
	)
}
