// Mechanical Go -> Lean translation of the KMP loops C13's model relies on (see extract/xlate).
package main

import "verifextract/xlate"

func main() {
	xlate.Main("C13",
		xlate.Spec{Pkg: "pattern", Name: "findSubstring"},
		xlate.Spec{Pkg: "pattern", Recv: "substring", Name: "calcPrefFunc"},
		xlate.Spec{Pkg: "pattern", Name: "findSequence"},
	)
}
