// Extracted facts for C14 (frac/info.go, seq/mids_distribution.go, util/bitmask.go, frac/active.go,
// fracmanager/list.go, fracmanager/searcher.go, fracmanager/fetcher.go).
package main

import (
	"go/ast"
	"os"
	"path/filepath"
	"sort"
	"strings"

	"verifextract/lib"
)

// conds lists, in source order, the rendered conditions of the if statements (incl. else-if) under fd
func conds(f *lib.File, fd *ast.FuncDecl) []string {
	var res []string
	ast.Inspect(fd.Body, func(n ast.Node) bool {
		if x, ok := n.(*ast.IfStmt); ok {
			res = append(res, f.Render(x.Cond))
		}
		return true
	})
	return res
}

// returns lists the rendered result expressions of all return statements under fd, in source order
func returns(f *lib.File, fd *ast.FuncDecl) []string {
	var res []string
	ast.Inspect(fd.Body, func(n ast.Node) bool {
		if x, ok := n.(*ast.ReturnStmt); ok {
			var parts []string
			for _, r := range x.Results {
				parts = append(parts, f.Render(r))
			}
			res = append(res, strings.Join(parts, ", "))
		}
		return true
	})
	return res
}

// stmts renders every top-level statement of the body (one line each)
func stmts(f *lib.File, fd *ast.FuncDecl) []string {
	var res []string
	for _, s := range fd.Body.List {
		res = append(res, f.Render(s))
	}
	return res
}

// callsRendered lists every call expression under n rendered with its arguments, source order
func callsRendered(f *lib.File, n ast.Node) []string {
	type pc struct {
		pos int
		s   string
	}
	var res []pc
	ast.Inspect(n, func(x ast.Node) bool {
		if c, ok := x.(*ast.CallExpr); ok {
			res = append(res, pc{int(c.Pos()), f.Render(c)})
		}
		return true
	})
	sort.SliceStable(res, func(i, j int) bool { return res[i].pos < res[j].pos })
	out := make([]string, len(res))
	for i, r := range res {
		out[i] = r.s
	}
	return out
}

func main() {
	lib.Main("C14", func(r lib.Repo, e *lib.Emitter) {
		for _, c := range []struct{ lean, pkg, name string }{
			{"distributionMaxInterval", "frac", "DistributionMaxInterval"},
			{"distributionBucket", "frac", "DistributionBucket"},
			{"distributionSpreadThreshold", "frac", "DistributionSpreadThreshold"},
			{"bitsInByte", "util", "bitsInByte"},
		} {
			if v, err := r.ConstInt(c.pkg, c.name); err != nil {
				e.Missing(c.lean, err)
			} else {
				e.Int(c.lean, v, c.pkg+"."+c.name+" (durations in ns)")
			}
		}
		if v, err := r.ConstUint("frac", "systemMID"); err != nil {
			e.Missing("systemMID", err)
		} else {
			e.Nat("systemMID", v, "frac.systemMID: MID of the stub ID at LID 0")
		}

		if f, err := r.Load("frac/info.go"); err != nil {
			e.Missing("frac/info.go", err)
		} else {
			if fd := f.Func("Info", "IsIntersecting"); fd == nil {
				e.Missing("infoIsIntersectingConds", "Info.IsIntersecting not found")
			} else {
				e.Strs("infoIsIntersectingConds", conds(f, fd), "conditions of Info.IsIntersecting, source order")
				e.Strs("infoIsIntersectingReturns", returns(f, fd), "results of Info.IsIntersecting, source order")
			}
			if fd := f.Func("Info", "InitEmptyDistribution"); fd == nil {
				e.Missing("initEmptyDistribution", "Info.InitEmptyDistribution not found")
			} else {
				e.Strs("initEmptyDistribution", stmts(f, fd), "statements of Info.InitEmptyDistribution")
			}
			if fd := f.Func("Info", "BuildDistribution"); fd == nil {
				e.Missing("buildDistribution", "Info.BuildDistribution not found")
			} else {
				e.Strs("buildDistribution", stmts(f, fd), "statements of Info.BuildDistribution")
			}
			if fd := f.Func("", "NewInfo"); fd == nil {
				e.Missing("newInfoBorders", "NewInfo not found")
			} else {
				var kv []string
				ast.Inspect(fd.Body, func(n ast.Node) bool {
					if x, ok := n.(*ast.KeyValueExpr); ok {
						k := f.Render(x.Key)
						if k == "From" || k == "To" || k == "Distribution" || k == "DocsTotal" {
							kv = append(kv, k+": "+f.Render(x.Value))
						}
					}
					return true
				})
				e.Strs("newInfoBorders", kv, "From/To/DocsTotal/Distribution initialisers in NewInfo")
			}
		}

		if f, err := r.Load("seq/mids_distribution.go"); err != nil {
			e.Missing("seq/mids_distribution.go", err)
		} else {
			for _, fn := range []struct{ lean, name string }{
				{"distSize", "size"}, {"distMidToIndex", "midToIndex"}, {"distAdd", "Add"},
				{"distIsIntersecting", "IsIntersecting"}, {"distIsUndefined", "isUndefined"},
			} {
				if fd := f.Func("MIDsDistribution", fn.name); fd == nil {
					e.Missing(fn.lean, fn.name+" not found")
				} else {
					e.Strs(fn.lean, stmts(f, fd), "statements of MIDsDistribution."+fn.name)
				}
			}
			if fd := f.Func("", "NewMIDsDistribution"); fd == nil {
				e.Missing("distNew", "NewMIDsDistribution not found")
			} else {
				e.Strs("distNew", stmts(f, fd), "statements of NewMIDsDistribution")
			}
			// the JSON image: which expression fills which field, and how the fields are read back
			if fd := f.Func("MIDsDistribution", "MarshalJSON"); fd == nil {
				e.Missing("distMarshalFields", "MarshalJSON not found")
			} else {
				var kv []string
				ast.Inspect(fd.Body, func(n ast.Node) bool {
					if x, ok := n.(*ast.KeyValueExpr); ok {
						kv = append(kv, f.Render(x.Key)+": "+f.Render(x.Value))
					}
					return true
				})
				e.Strs("distMarshalFields", kv, "field initialisers of midsDistributionJSON in MarshalJSON")
				e.Strs("distMarshalConds", conds(f, fd), "conditions in MarshalJSON")
			}
			if fd := f.Func("MIDsDistribution", "UnmarshalJSON"); fd == nil {
				e.Missing("distUnmarshalAssigns", "UnmarshalJSON not found")
			} else {
				var as []string
				ast.Inspect(fd.Body, func(n ast.Node) bool {
					if x, ok := n.(*ast.AssignStmt); ok && len(x.Lhs) == 1 && strings.HasPrefix(f.Render(x.Lhs[0]), "d.") {
						as = append(as, f.Render(x))
					}
					return true
				})
				e.Strs("distUnmarshalAssigns", as, "assignments to the receiver's fields in UnmarshalJSON, source order")
			}
		}
		if f, err := r.Load("seq/seq.go"); err != nil {
			e.Missing("seq/seq.go", err)
		} else if fd := f.Func("MID", "Time"); fd == nil {
			e.Missing("midTime", "MID.Time not found")
		} else {
			e.Strs("midTime", stmts(f, fd), "statements of MID.Time")
		}

		if f, err := r.Load("util/bitmask.go"); err != nil {
			e.Missing("util/bitmask.go", err)
		} else {
			for _, fn := range []struct{ lean, name string }{
				{"bitmaskGet", "Get"}, {"bitmaskSet", "Set"}, {"bitmaskHasBitsIn", "HasBitsIn"},
			} {
				if fd := f.Func("Bitmask", fn.name); fd == nil {
					e.Missing(fn.lean, fn.name+" not found")
				} else {
					e.Strs(fn.lean, stmts(f, fd), "statements of Bitmask."+fn.name)
				}
			}
			for _, fn := range []struct{ lean, name string }{{"bitmaskNew", "NewBitmask"}, {"bitmaskLoad", "LoadBitmask"}} {
				if fd := f.Func("", fn.name); fd == nil {
					e.Missing(fn.lean, fn.name+" not found")
				} else {
					e.Strs(fn.lean, stmts(f, fd), "statements of "+fn.name)
				}
			}
		}

		if f, err := r.Load("frac/active.go"); err != nil {
			e.Missing("frac/active.go", err)
		} else {
			if fd := f.Func("Active", "UpdateStats"); fd == nil {
				e.Missing("updateStats", "Active.UpdateStats not found")
			} else {
				var ss []string
				for _, s := range fd.Body.List {
					t := f.Render(s)
					if strings.Contains(t, "info.From") || strings.Contains(t, "info.To") || strings.Contains(t, "DocsTotal") {
						ss = append(ss, t)
					}
				}
				e.Strs("updateStats", ss, "border and counter statements of Active.UpdateStats")
			}
			for _, fn := range []struct{ lean, name string }{{"activeContains", "Contains"}, {"activeIsIntersecting", "IsIntersecting"}} {
				if fd := f.Func("Active", fn.name); fd == nil {
					e.Missing(fn.lean, fn.name+" not found")
				} else {
					e.Strs(fn.lean, returns(f, fd), "result of Active."+fn.name)
				}
			}
		}
		if f, err := r.Load("frac/sealed.go"); err != nil {
			e.Missing("frac/sealed.go", err)
		} else {
			for _, fn := range []struct{ lean, name string }{{"sealedContains", "Contains"}, {"sealedIsIntersecting", "IsIntersecting"}} {
				if fd := f.Func("Sealed", fn.name); fd == nil {
					e.Missing(fn.lean, fn.name+" not found")
				} else {
					e.Strs(fn.lean, returns(f, fd), "result of Sealed."+fn.name)
				}
			}
		}
		if f, err := r.Load("frac/active_sealer.go"); err != nil {
			e.Missing("frac/active_sealer.go", err)
		} else if fd := f.Func("", "writeSealedFraction"); fd == nil {
			e.Missing("sealBuildDistributionArgs", "writeSealedFraction not found")
		} else {
			var args, src []string
			ast.Inspect(fd.Body, func(n ast.Node) bool {
				switch x := n.(type) {
				case *ast.CallExpr:
					if strings.HasSuffix(f.Render(x.Fun), ".BuildDistribution") {
						for _, a := range x.Args {
							args = append(args, f.Render(a))
						}
					}
				case *ast.AssignStmt:
					if len(x.Lhs) > 0 && f.Render(x.Lhs[0]) == "sortedIDs" {
						src = append(src, f.Render(x))
					}
				}
				return true
			})
			e.Strs("sealBuildDistributionArgs", args, "arguments of info.BuildDistribution in writeSealedFraction")
			e.Strs("sealSortedIDsSource", src, "where sortedIDs comes from in writeSealedFraction")
		}

		if f, err := r.Load("fracmanager/list.go"); err != nil {
			e.Missing("fracmanager/list.go", err)
		} else if fd := f.Func("List", "FilterInRange"); fd == nil {
			e.Missing("filterInRangeConds", "List.FilterInRange not found")
		} else {
			e.Strs("filterInRangeConds", conds(f, fd), "conditions under which FilterInRange keeps a fraction")
			e.Strs("filterInRangeStmts", stmts(f, fd), "statements of List.FilterInRange (the result list must be a fresh one: docsStream reuses its fraction list for every batch)")
		}
		if f, err := r.Load("frac/meta_data_collector.go"); err != nil {
			e.Missing("frac/meta_data_collector.go", err)
		} else {
			for _, fn := range []struct{ lean, name string }{{"collectorFilterBorders", "Filter"}, {"collectorAppendMetaBorders", "AppendMeta"}} {
				fd := f.Func("metaDataCollector", fn.name)
				if fd == nil {
					e.Missing(fn.lean, fn.name+" not found")
					continue
				}
				var ss []string
				ast.Inspect(fd.Body, func(n ast.Node) bool {
					switch x := n.(type) {
					case *ast.IfStmt:
						t := f.Render(x)
						if strings.Contains(t, "MinMID") || strings.Contains(t, "MaxMID") {
							ss = append(ss, t)
							return false // an else-if chain is rendered as one statement
						}
					case *ast.AssignStmt:
						t := f.Render(x)
						if len(x.Lhs) == 1 && (f.Render(x.Lhs[0]) == "c.MinMID" || f.Render(x.Lhs[0]) == "c.MaxMID" || f.Render(x.Lhs[0]) == "c.DocsCounter") {
							ss = append(ss, t)
						}
					}
					return true
				})
				e.Strs(fn.lean, ss, "every statement of metaDataCollector."+fn.name+" that writes MinMID / MaxMID / DocsCounter (if statements rendered whole)")
			}
		}
		if f, err := r.Load("frac/active_indexer.go"); err != nil {
			e.Missing("frac/active_indexer.go", err)
		} else if fd := f.Func("ActiveIndexer", "appendWorker"); fd == nil {
			e.Missing("indexerFilterAndStats", "ActiveIndexer.appendWorker not found")
		} else {
			var ss []string
			ast.Inspect(fd.Body, func(n ast.Node) bool {
				switch x := n.(type) {
				case *ast.IfStmt:
					if strings.Contains(f.Render(x.Cond), "appendedIDs") {
						ss = append(ss, "if "+f.Render(x.Cond))
					}
				case *ast.CallExpr:
					fn := f.Render(x.Fun)
					if strings.HasSuffix(fn, ".SetMultiple") || strings.HasSuffix(fn, "collector.Filter") || strings.HasSuffix(fn, ".UpdateStats") || strings.HasSuffix(fn, ".AppendIDs") {
						ss = append(ss, f.Render(x))
					}
				}
				return true
			})
			e.Strs("indexerFilterAndStats", ss, "appendWorker: SetMultiple, the duplicate test, Filter, AppendIDs, UpdateStats - source order")
		}
		if f, err := r.Load("fracmanager/proxy_frac.go"); err != nil {
			e.Missing("fracmanager/proxy_frac.go", err)
		} else {
			for _, fn := range []struct{ lean, name string }{{"proxyInfo", "Info"}, {"proxyIsIntersecting", "IsIntersecting"}, {"proxyContains", "Contains"}, {"proxyCur", "cur"}} {
				if fd := f.Func("proxyFrac", fn.name); fd == nil {
					e.Missing(fn.lean, fn.name+" not found")
				} else {
					e.Strs(fn.lean, stmts(f, fd), "statements of proxyFrac."+fn.name)
				}
			}
			// fields of proxyFrac whose type mentions frac.Info: a cached copy of the info would show up here
			var fields []string
			ast.Inspect(f.AST, func(n ast.Node) bool {
				if ts, ok := n.(*ast.TypeSpec); ok && ts.Name.Name == "proxyFrac" {
					if st, ok := ts.Type.(*ast.StructType); ok {
						for _, fl := range st.Fields.List {
							if strings.Contains(f.Render(fl.Type), "Info") {
								fields = append(fields, f.Render(fl.Type))
							}
						}
					}
				}
				return true
			})
			e.Strs("proxyInfoFields", fields, "fields of proxyFrac with an Info type (none: no cached copy)")
		}
		if f, err := r.Load("frac/unpack_cache.go"); err != nil {
			e.Missing("frac/unpack_cache.go", err)
		} else {
			if fd := f.Func("UnpackCache", "unpackMIDs"); fd == nil {
				e.Missing("unpackMIDs", "UnpackCache.unpackMIDs not found")
			} else {
				e.Strs("unpackMIDs", stmts(f, fd), "statements of UnpackCache.unpackMIDs")
			}
			if fd := f.Func("", "unpackRawIDsVarint"); fd == nil {
				e.Missing("unpackRawIDsVarint", "unpackRawIDsVarint not found")
			} else {
				e.Strs("unpackRawIDsVarint", stmts(f, fd), "statements of unpackRawIDsVarint")
			}
		}
		if f, err := r.Load("frac/disk_blocks.go"); err != nil {
			e.Missing("frac/disk_blocks.go", err)
		} else if fd := f.Func("DiskIDsBlock", "packMIDs"); fd == nil {
			e.Missing("packMIDs", "DiskIDsBlock.packMIDs not found")
		} else {
			e.Strs("packMIDs", stmts(f, fd), "statements of DiskIDsBlock.packMIDs")
		}
		if f, err := r.Load("fracmanager/sealed_frac_cache.go"); err != nil {
			e.Missing("fracmanager/sealed_frac_cache.go", err)
		} else {
			if fd := f.Func("", "NewFracCacheFromDisk"); fd == nil {
				e.Missing("newFracCacheFromDisk", "NewFracCacheFromDisk not found")
			} else {
				e.Strs("newFracCacheFromDisk", stmts(f, fd), "statements of NewFracCacheFromDisk")
			}
			if fd := f.Func("sealedFracCache", "LoadFromDisk"); fd == nil {
				e.Missing("cacheLoadCalls", "sealedFracCache.LoadFromDisk not found")
			} else {
				// every call of LoadFromDisk that is not logging: reading the file and decoding it
				e.Strs("cacheLoadCalls", lib.Filter(callsRendered(f, fd.Body), func(c string) bool {
					return !strings.HasPrefix(c, "logger.") && !strings.HasPrefix(c, "zap.") && !strings.HasPrefix(c, "len(")
				}), "the non-logging calls of LoadFromDisk, rendered with their arguments, source order")
			}
			if fd := f.Func("sealedFracCache", "getContentWithVersion"); fd == nil {
				e.Missing("cacheSaveMarshal", "getContentWithVersion not found")
			} else {
				e.Strs("cacheSaveMarshal", lib.Filter(callsRendered(f, fd.Body), func(c string) bool { return strings.HasPrefix(c, "json.") }), "how the cache content is produced")
			}
		}
		if f, err := r.Load("fracmanager/loader.go"); err != nil {
			e.Missing("fracmanager/loader.go", err)
		} else if fd := f.Func("loader", "loadSealedFrac"); fd == nil {
			e.Missing("loadSealedFrac", "loader.loadSealedFrac not found")
		} else {
			e.Strs("loadSealedFrac", stmts(f, fd), "statements of loader.loadSealedFrac")
		}
		// every call site of Info.InitEmptyDistribution in the repository (non-test, non-verif files)
		{
			var sites []string
			filepath.WalkDir(r.Root, func(p string, d os.DirEntry, err error) error {
				if err != nil {
					return nil
				}
				if d.IsDir() {
					if n := d.Name(); n == ".git" || n == "vendor" || n == "node_modules" {
						return filepath.SkipDir
					}
					return nil
				}
				n := d.Name()
				if !strings.HasSuffix(n, ".go") || strings.HasSuffix(n, "_test.go") || strings.HasPrefix(n, "verif_export") {
					return nil
				}
				rel, _ := filepath.Rel(r.Root, p)
				f, err := r.Load(rel)
				if err != nil {
					return nil
				}
				for _, decl := range f.AST.Decls {
					fd, ok := decl.(*ast.FuncDecl)
					if !ok || fd.Body == nil {
						continue
					}
					ast.Inspect(fd.Body, func(x ast.Node) bool {
						if c, ok := x.(*ast.CallExpr); ok {
							if sel, ok := c.Fun.(*ast.SelectorExpr); ok && sel.Sel.Name == "InitEmptyDistribution" {
								sites = append(sites, filepath.ToSlash(rel)+":"+fd.Name.Name)
							}
						}
						return true
					})
				}
				return nil
			})
			sort.Strings(sites)
			e.Strs("initEmptyDistributionCallers", sites, "file:function of every call of InitEmptyDistribution (none on a load path)")
		}
		if f, err := r.Load("fracmanager/searcher.go"); err != nil {
			e.Missing("fracmanager/searcher.go", err)
		} else if fd := f.Func("Searcher", "prepareFracs"); fd == nil {
			e.Missing("prepareFracsFilter", "Searcher.prepareFracs not found")
		} else {
			var fs []string
			ast.Inspect(fd.Body, func(n ast.Node) bool {
				if x, ok := n.(*ast.CallExpr); ok && strings.HasSuffix(f.Render(x.Fun), ".FilterInRange") {
					fs = append(fs, f.Render(x))
				}
				return true
			})
			e.Strs("prepareFracsFilter", fs, "FilterInRange calls in Searcher.prepareFracs")
		}
		if f, err := r.Load("fracmanager/searcher.go"); err != nil {
			e.Missing("fracmanager/searcher.go", err)
		} else {
			if fd := f.Func("", "calcEnsuredIDsCount"); fd == nil {
				e.Missing("calcEnsuredStmts", "calcEnsuredIDsCount not found")
			} else {
				e.Strs("calcEnsuredStmts", stmts(f, fd), "statements of calcEnsuredIDsCount (both sort.Search predicates with their comparison operators)")
			}
			if fd := f.Func("Searcher", "SearchDocs"); fd == nil {
				e.Missing("searchDocsLimitUpdate", "Searcher.SearchDocs not found")
			} else {
				var as []string
				ast.Inspect(fd.Body, func(n ast.Node) bool {
					switch x := n.(type) {
					case *ast.AssignStmt:
						if len(x.Lhs) == 1 && (f.Render(x.Lhs[0]) == "params.Limit" || f.Render(x.Lhs[0]) == "origLimit" || f.Render(x.Lhs[0]) == "fracsChunkSize") {
							as = append(as, f.Render(x))
						}
					case *ast.ForStmt:
						if x.Cond != nil {
							as = append(as, "for "+f.Render(x.Cond))
						}
					}
					return true
				})
				e.Strs("searchDocsLimitUpdate", as, "loop condition and the limit / chunk-size assignments of Searcher.SearchDocs, source order")
			}
		}
		if f, err := r.Load("fracmanager/fetcher.go"); err != nil {
			e.Missing("fracmanager/fetcher.go", err)
		} else if fd := f.Func("", "groupIDsByFraction"); fd == nil {
			e.Missing("groupIDsFilter", "groupIDsByFraction not found")
		} else {
			var fs []string
			ast.Inspect(fd.Body, func(n ast.Node) bool {
				if x, ok := n.(*ast.CallExpr); ok {
					fn := f.Render(x.Fun)
					if strings.HasSuffix(fn, ".FilterInRange") || strings.HasSuffix(fn, ".Contains") {
						fs = append(fs, f.Render(x))
					}
				}
				return true
			})
			e.Strs("groupIDsFilter", fs, "FilterInRange / Contains calls in groupIDsByFraction, source order")
			// every statement of groupIDsByFraction that mentions the fraction lists
			var lw []string
			ast.Inspect(fd.Body, func(n ast.Node) bool {
				switch x := n.(type) {
				case *ast.AssignStmt:
					t := f.Render(x)
					if strings.Contains(t, "fracsOut") || strings.Contains(t, "fracsIn") {
						lw = append(lw, t)
					}
				case *ast.ReturnStmt:
					lw = append(lw, f.Render(x))
				}
				return true
			})
			e.Strs("groupIDsListWrites", lw, "assignments that mention fracsIn/fracsOut and the return of groupIDsByFraction")
		}
	}, "frac/info.go", "seq/mids_distribution.go", "seq/seq.go", "util/bitmask.go", "frac/active.go", "frac/sealed.go",
		"frac/active_sealer.go", "fracmanager/list.go", "fracmanager/searcher.go", "fracmanager/fetcher.go")
}
