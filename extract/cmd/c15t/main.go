// Mechanical Go -> Lean translation of the retention arithmetic C15's model relies on (see extract/xlate).
package main

import "verifextract/xlate"

func main() {
	xlate.Main("C15",
		xlate.Spec{Pkg: "frac", Recv: "Info", Name: "FullSize"},
		// statement slices of FracManager.shrinkSizes: the loop condition and the size update (fractions are an interface:
		// Info() stays uninterpreted, the Info value is read through accessors)
		xlate.Spec{Pkg: "fracmanager", Recv: "FracManager", Name: "shrinkSizes", As: "shrinkCond", Stmts: []string{"for size > fm.config.TotalSize"}},
		xlate.Spec{Pkg: "fracmanager", Recv: "FracManager", Name: "shrinkSizes", As: "shrinkStep",
			Stmts: []string{"size -= outsider.Info().FullSize()"}, Oracles: []string{"Fraction.Info"}},
	)
}
