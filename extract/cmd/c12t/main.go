// Mechanical Go -> Lean translation of the token predicates of the SeqQL lexer / filter parser C12's model relies
// on (see extract/xlate).  unicode / utf8 / strings functions stay uninterpreted (oracles); strings are byte lists.
package main

import "verifextract/xlate"

func main() {
	uni := []string{"unicode.IsLetter", "unicode.IsDigit", "strings.EqualFold", "utf8.DecodeRuneInString"}
	xlate.Main("C12",
		xlate.Spec{Pkg: "parser", Name: "isTokenRune", Oracles: uni},
		xlate.Spec{Pkg: "parser", Recv: "lexer", Name: "IsKeyword"},
		xlate.Spec{Pkg: "parser", Name: "isCompositeToken"},
		xlate.Spec{Pkg: "parser", Recv: "lexer", Name: "IsEnd"},
		xlate.Spec{Pkg: "parser", Recv: "lexer", Name: "IsRawString"},
	)
}
