// Extracted facts for C09 (proxy/bulk/seqdb_client.go, consts/consts.go).
package main

import (
	"go/ast"
	"go/token"
	"strings"

	"verifextract/lib"
)

func main() {
	lib.Main("C09", func(r lib.Repo, e *lib.Emitter) {
		if v, err := r.ConstInt("consts", "BulkMaxTries"); err != nil {
			e.Missing("bulkMaxTries", err)
		} else {
			e.Nat("bulkMaxTries", uint64(v), "consts.BulkMaxTries")
		}
		f, err := r.Load("proxy/bulk/seqdb_client.go")
		if err != nil {
			e.Missing("seqdb_client.go", err)
			return
		}
		// StoreDocuments: `for n := 0; n < consts.BulkMaxTries; n++` and the error return at n == BulkMaxTries-1
		if fd := f.Func("SeqDBClient", "StoreDocuments"); fd == nil {
			e.Missing("storeDocumentsLoop", "StoreDocuments not found")
		} else {
			var conds, rets []string
			ast.Inspect(fd.Body, func(n ast.Node) bool {
				switch x := n.(type) {
				case *ast.ForStmt:
					if x.Cond != nil {
						conds = append(conds, f.Render(x.Cond))
					}
				case *ast.IfStmt:
					c := f.Render(x.Cond)
					if strings.Contains(c, "BulkMaxTries") {
						for _, s := range x.Body.List {
							if _, ok := s.(*ast.ReturnStmt); ok {
								rets = append(rets, c)
							}
						}
					}
				}
				return true
			})
			e.Strs("storeDocumentsLoopConds", conds, "loop conditions of SeqDBClient.StoreDocuments")
			e.Strs("storeDocumentsGiveUpConds", rets, "conditions under which StoreDocuments returns its retry error")
		}
		// StoreDocuments: the write status handed to storeDocs is a local initialised once from newBulkWriteStatus(...)
		if fd := f.Func("SeqDBClient", "StoreDocuments"); fd != nil {
			var inits []string
			var passed []string
			ast.Inspect(fd.Body, func(n ast.Node) bool {
				switch x := n.(type) {
				case *ast.AssignStmt:
					for i, l := range x.Lhs {
						if i < len(x.Rhs) {
							if c, ok := x.Rhs[i].(*ast.CallExpr); ok && strings.Contains(f.Render(c.Fun), "riteStatus") {
								inits = append(inits, f.Render(l)+" "+x.Tok.String()+" "+f.Render(c.Fun))
							}
						}
					}
				case *ast.CallExpr:
					if strings.HasSuffix(f.Render(x.Fun), ".storeDocs") && len(x.Args) == 3 {
						passed = append(passed, f.Render(x.Args[2]))
					}
				}
				return true
			})
			e.Strs("writeStatusInits", inits, "StoreDocuments: assignments whose right side is a *WriteStatus* call")
			e.Strs("writeStatusPassed", passed, "StoreDocuments: third argument of every storeDocs call")
		}
		// sendBulkToHost: the returns, each with the innermost enclosing if condition ("" = top level)
		if fd := f.Func("", "sendBulkToHost"); fd == nil {
			e.Missing("sendBulkToHostReturns", "sendBulkToHost not found")
		} else {
			var rets []string
			var walk func(n ast.Node, cond string)
			walk = func(n ast.Node, cond string) {
				ast.Inspect(n, func(m ast.Node) bool {
					switch x := m.(type) {
					case *ast.IfStmt:
						if m == n {
							return true
						}
						walk(x.Body, f.Render(x.Cond))
						if x.Else != nil {
							walk(x.Else, "!("+f.Render(x.Cond)+")")
						}
						return false
					case *ast.ReturnStmt:
						r := "nil"
						if len(x.Results) == 1 {
							r = f.Render(x.Results[0])
							if i := strings.Index(r, "("); i > 0 {
								r = r[:i]
							}
						}
						rets = append(rets, cond+" => "+r)
					}
					return true
				})
			}
			walk(fd.Body, "")
			e.Strs("sendBulkToHostReturns", rets, "sendBulkToHost: every return with its innermost enclosing if condition")
		}
		if ws, err := r.Load("proxy/bulk/write_status.go"); err != nil {
			e.Missing("write_status.go", err)
		} else {
			for _, fn := range []string{"newBulkWriteStatus", "newStoresWriteStatus"} {
				if fd := ws.Func("", fn); fd == nil {
					e.Missing(fn+"Body", fn+" not found")
				} else {
					var ss []string
					for _, st := range fd.Body.List {
						ss = append(ss, strings.Join(strings.Fields(ws.Render(st)), " "))
					}
					e.Strs(fn+"Body", ss, fn+": statements")
				}
			}
		}
		// circuit breaker wrapper: Execute hands the callback to the circuit with no fallback and returns its error
		if cbf, err := r.Load("network/circuitbreaker/circuitbreaker.go"); err != nil {
			e.Missing("circuitbreaker.go", err)
		} else if fd := cbf.Func("CircuitBreaker", "Execute"); fd == nil {
			e.Missing("breakerExecuteStmts", "CircuitBreaker.Execute not found")
		} else {
			var ss []string
			for _, st := range fd.Body.List {
				ss = append(ss, strings.Join(strings.Fields(cbf.Render(st)), " "))
			}
			e.Strs("breakerExecuteStmts", ss, "CircuitBreaker.Execute: statements")
		}
		// cmd/seq-db: how the host lists become topologies - every NewStoresFromString call with its two arguments, and
		// the statements that compute the hot replica factor
		if mf, err := r.Load("cmd/seq-db/seq-db.go"); err != nil {
			e.Missing("seq-db.go", err)
		} else if fd := mf.Func("", "startProxy"); fd == nil {
			e.Missing("proxyTopologyCalls", "startProxy not found")
		} else {
			var calls, hot []string
			ast.Inspect(fd.Body, func(n ast.Node) bool {
				switch x := n.(type) {
				case *ast.CallExpr:
					if strings.HasSuffix(mf.Render(x.Fun), "NewStoresFromString") {
						var as []string
						for _, a := range x.Args {
							as = append(as, mf.Render(a))
						}
						calls = append(calls, strings.Join(as, ", "))
					}
				case *ast.AssignStmt:
					if len(x.Lhs) == 1 && mf.Render(x.Lhs[0]) == "hotReplicasNum" {
						hot = append(hot, strings.Join(strings.Fields(mf.Render(x)), " "))
					}
				case *ast.IfStmt:
					if strings.Contains(mf.Render(x.Cond), "flagHotReplicas") {
						hot = append(hot, "if "+mf.Render(x.Cond))
					}
				}
				return true
			})
			e.Strs("proxyTopologyCalls", calls, "startProxy: arguments of every stores.NewStoresFromString call, source order")
			e.Strs("proxyHotReplicas", hot, "startProxy: how hotReplicasNum is computed")
		}
		// storeDocs: order of the tier sends and of the coldWritten assignment
		if fd := f.Func("SeqDBClient", "storeDocs"); fd == nil {
			e.Missing("storeDocsOrder", "storeDocs not found")
		} else {
			type ev struct {
				pos token.Pos
				s   string
			}
			var evs []ev
			ast.Inspect(fd.Body, func(n ast.Node) bool {
				switch x := n.(type) {
				case *ast.CallExpr:
					if strings.HasSuffix(f.Render(x.Fun), "sendBulkToStores") && len(x.Args) >= 3 {
						evs = append(evs, ev{x.Pos(), "send " + f.Render(x.Args[2])})
					}
				case *ast.AssignStmt:
					if len(x.Lhs) == 1 && strings.HasSuffix(f.Render(x.Lhs[0]), ".coldWritten") {
						evs = append(evs, ev{x.Pos(), "coldWritten = " + f.Render(x.Rhs[0])})
					}
				case *ast.IfStmt:
					if strings.Contains(f.Render(x.Cond), "coldWritten") && x.Init == nil {
						evs = append(evs, ev{x.Pos(), "if " + f.Render(x.Cond)})
					}
				}
				return true
			})
			var ss []string
			for _, v := range evs {
				ss = append(ss, v.s)
			}
			e.Strs("storeDocsOrder", ss, "tier sends and coldWritten handling in SeqDBClient.storeDocs, source order")
		}
		// shard.Bulk: where is writtenReplicas[i] = true ?  expected: only in the else branch of `if hostErr != nil`
		if fd := f.Func("shard", "Bulk"); fd == nil {
			e.Missing("writtenSetOnlyOnSuccess", "shard.Bulk not found")
		} else {
			total, inElse := 0, 0
			var skipConds []string
			isSet := func(n ast.Node) bool {
				a, ok := n.(*ast.AssignStmt)
				return ok && len(a.Lhs) == 1 && strings.HasPrefix(f.Render(a.Lhs[0]), "writtenReplicas[") && f.Render(a.Rhs[0]) == "true"
			}
			ast.Inspect(fd.Body, func(n ast.Node) bool {
				if isSet(n) {
					total++
				}
				if x, ok := n.(*ast.IfStmt); ok {
					c := f.Render(x.Cond)
					if c == "hostErr != nil" && x.Else != nil {
						ast.Inspect(x.Else, func(m ast.Node) bool {
							if isSet(m) {
								inElse++
							}
							return true
						})
					}
					if strings.Contains(c, "writtenReplicas[") {
						for _, s := range x.Body.List {
							if b, ok := s.(*ast.BranchStmt); ok && b.Tok == token.CONTINUE {
								skipConds = append(skipConds, c)
							}
						}
					}
				}
				return true
			})
			e.Bool("writtenSetOnlyOnSuccess", total == 1 && inElse == 1, "shard.Bulk: the single `writtenReplicas[i] = true` sits in the else branch of `if hostErr != nil`")
			e.Strs("replicaSkipConds", skipConds, "shard.Bulk: conditions under which a replica is skipped (continue)")
		}
		// sendBulkToStores: loop breaks on the first nil error, returns error iff last err != nil
		if fd := f.Func("SeqDBClient", "sendBulkToStores"); fd == nil {
			e.Missing("sendBulkBreakConds", "sendBulkToStores not found")
		} else {
			var br []string
			ast.Inspect(fd.Body, func(n ast.Node) bool {
				if x, ok := n.(*ast.IfStmt); ok {
					for _, s := range x.Body.List {
						if b, ok := s.(*ast.BranchStmt); ok && b.Tok == token.BREAK {
							br = append(br, f.Render(x.Cond))
						}
					}
				}
				return true
			})
			e.Strs("sendBulkBreakConds", br, "sendBulkToStores: conditions that end the shard loop")
		}
	}, "consts/consts.go", "proxy/bulk/seqdb_client.go", "proxy/bulk/write_status.go", "network/circuitbreaker/circuitbreaker.go", "cmd/seq-db/seq-db.go")
}
