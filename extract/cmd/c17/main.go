// Extracted facts for C17 (frac/active_indexer.go, frac/active_docs_positions.go, frac/meta_data_collector.go,
// seq/qpr.go, seq/doc_pos.go): the order of the index steps inside appendWorker, the condition that guards
// Filter, the acceptance condition of SetMultiple, which collector fields Filter re-assigns, the order of the
// steps of MergeQPRs, and the position-packing constant.
package main

import (
	"go/ast"
	"go/token"
	"strings"

	"verifextract/lib"
)

func main() {
	lib.Main("C17", func(r lib.Repo, e *lib.Emitter) {
		if v, err := r.ConstInt("seq", "docOffsetBits"); err != nil {
			e.Missing("docOffsetBits", err)
		} else {
			e.Nat("docOffsetBits", uint64(v), "seq.docOffsetBits")
		}

		// ---- appendWorker: order of the calls the model's indexBulk follows, and the Filter guard
		if f, err := r.Load("frac/active_indexer.go"); err != nil {
			e.Missing("appendWorkerOrder", err)
		} else if fd := f.Func("ActiveIndexer", "appendWorker"); fd == nil {
			e.Missing("appendWorkerOrder", "appendWorker not found")
		} else {
			want := map[string]bool{"active.DocBlocks.Append": true, "collector.Init": true, "collector.AppendMeta": true,
				"active.DocsPositions.SetMultiple": true, "collector.Filter": true, "active.AppendIDs": true,
				"active.TokenList.Append": true, "collector.GroupLIDsByToken": true, "addLIDsToTokens": true, "active.UpdateStats": true}
			e.Strs("appendWorkerOrder", lib.Filter(f.Calls(fd.Body), func(s string) bool { return want[s] }),
				"index steps of ActiveIndexer.appendWorker, source order")
			var guards []string
			ast.Inspect(fd.Body, func(n ast.Node) bool {
				if x, ok := n.(*ast.IfStmt); ok {
					for _, c := range f.Calls(x.Body) {
						if c == "collector.Filter" {
							guards = append(guards, f.Render(x.Cond))
						}
					}
				}
				return true
			})
			e.Strs("filterGuards", guards, "conditions under which appendWorker calls collector.Filter")
			var filterArgs, appendIDsArgs, setArgs []string
			ast.Inspect(fd.Body, func(n ast.Node) bool {
				if c, ok := n.(*ast.CallExpr); ok {
					var args []string
					for _, a := range c.Args {
						args = append(args, f.Render(a))
					}
					switch f.Render(c.Fun) {
					case "collector.Filter":
						filterArgs = append(filterArgs, strings.Join(args, ", "))
					case "active.AppendIDs":
						appendIDsArgs = append(appendIDsArgs, strings.Join(args, ", "))
					case "active.DocsPositions.SetMultiple":
						setArgs = append(setArgs, strings.Join(args, ", "))
					}
				}
				return true
			})
			e.Strs("filterArgs", filterArgs, "arguments of collector.Filter in appendWorker")
			e.Strs("appendIDsArgs", appendIDsArgs, "arguments of active.AppendIDs in appendWorker")
			e.Strs("setMultipleArgs", setArgs, "arguments of DocsPositions.SetMultiple in appendWorker")
		}

		// ---- SetMultiple: acceptance condition and what happens in the accepting branch
		if f, err := r.Load("frac/active_docs_positions.go"); err != nil {
			e.Missing("setMultipleAccept", err)
		} else if fd := f.Func("DocsPositions", "SetMultiple"); fd == nil {
			e.Missing("setMultipleAccept", "SetMultiple not found")
		} else {
			var conds, body []string
			ast.Inspect(fd.Body, func(n ast.Node) bool {
				if x, ok := n.(*ast.IfStmt); ok {
					c := ""
					if x.Init != nil {
						c = f.Render(x.Init) + "; "
					}
					conds = append(conds, c+f.Render(x.Cond))
					for _, s := range x.Body.List {
						body = append(body, f.Render(s))
					}
				}
				return true
			})
			e.Strs("setMultipleAccept", conds, "if conditions inside DocsPositions.SetMultiple")
			e.Strs("setMultipleAcceptBody", body, "statements of the accepting branch of DocsPositions.SetMultiple")
		}

		// ---- Filter: the fields it re-assigns (TokensValues / SizeCounter are NOT among them), and the slice expression
		if f, err := r.Load("frac/meta_data_collector.go"); err != nil {
			e.Missing("filterAssigns", err)
		} else if fd := f.Func("metaDataCollector", "Filter"); fd == nil {
			e.Missing("filterAssigns", "Filter not found")
		} else {
			seen := map[string]bool{}
			var fields, slices []string
			ast.Inspect(fd.Body, func(n ast.Node) bool {
				switch x := n.(type) {
				case *ast.AssignStmt:
					for _, l := range x.Lhs {
						s := f.Render(l)
						if strings.HasPrefix(s, "c.") && !seen[s] {
							seen[s] = true
							fields = append(fields, s)
						}
					}
				case *ast.SliceExpr:
					slices = append(slices, f.Render(x))
				}
				return true
			})
			e.Strs("filterAssigns", fields, "collector fields assigned by metaDataCollector.Filter, first-assignment order")
			e.Strs("filterSlices", slices, "slice expressions inside metaDataCollector.Filter")
			// ---- Init: the collector is reused across bulks; per ReallocSolver both branches, statement by statement
			if fi := f.Func("metaDataCollector", "Init"); fi == nil {
				e.Missing("initBranches", "Init not found")
			} else {
				var branches, plain []string
				for _, st := range fi.Body.List {
					switch x := st.(type) {
					case *ast.IfStmt:
						if x.Init == nil || !strings.Contains(f.Render(x.Init), "ReallocParams") {
							plain = append(plain, "if "+f.Render(x.Cond))
							continue
						}
						var a, b []string
						for _, s := range x.Body.List {
							a = append(a, f.Render(s))
						}
						if el, ok := x.Else.(*ast.BlockStmt); ok {
							for _, s := range el.List {
								b = append(b, f.Render(s))
							}
						}
						branches = append(branches, f.Render(x.Init)+" ? "+strings.Join(a, "; ")+" : "+strings.Join(b, "; "))
					default:
						plain = append(plain, f.Render(st))
					}
				}
				e.Strs("initBranches", branches, "metaDataCollector.Init: per ReallocSolver the re-allocate branch and the reuse branch")
				e.Strs("initPlain", plain, "metaDataCollector.Init: the statements outside the solver branches")
			}
			if fn := f.Func("", "newMetaDataCollector"); fn == nil {
				e.Missing("collectorFields", "newMetaDataCollector not found")
			}
			// every field of the collector struct (a new field needs a reset in Init and a place in the model)
			var flds []string
			ast.Inspect(f.AST, func(n ast.Node) bool {
				if ts, ok := n.(*ast.TypeSpec); ok && ts.Name.Name == "metaDataCollector" {
					if st, ok := ts.Type.(*ast.StructType); ok {
						for _, fl := range st.Fields.List {
							for _, nm := range fl.Names {
								flds = append(flds, nm.Name)
							}
						}
					}
				}
				return true
			})
			e.Strs("collectorFields", flds, "fields of the metaDataCollector struct")
		}

		// ---- ActiveWriter.Write: the mutex that makes `crun true` (C01's concurrent writers) the right system
		if f, err := r.Load("frac/active_writer.go"); err != nil {
			e.Missing("writerLock", err)
		} else if fd := f.Func("ActiveWriter", "Write"); fd == nil {
			e.Missing("writerLock", "ActiveWriter.Write not found")
		} else {
			var locks []string
			firstWrite := -1
			for i, c := range f.Calls(fd.Body) {
				if strings.HasSuffix(c, ".mu.Lock") || strings.HasSuffix(c, ".mu.Unlock") {
					locks = append(locks, c)
				}
				if firstWrite < 0 && (c == "a.docs.Write" || c == "a.meta.Write") {
					firstWrite = i
					locks = append(locks, c)
				}
			}
			var defers []string
			ast.Inspect(fd.Body, func(n ast.Node) bool {
				if d, ok := n.(*ast.DeferStmt); ok {
					defers = append(defers, f.Render(d.Call.Fun))
				}
				return true
			})
			e.Strs("writerLock", locks, "ActiveWriter.Write: lock / unlock calls and the first file write, source order")
			e.Strs("writerDefers", defers, "ActiveWriter.Write: deferred calls")
		}

		// ---- Fetcher.fetchDocsAsync: the scheduling loop and every way out of it
		if f, err := r.Load("fracmanager/fetcher.go"); err != nil {
			e.Missing("fetchLoopExits", err)
		} else if fd := f.Func("Fetcher", "fetchDocsAsync"); fd == nil {
			e.Missing("fetchLoopExits", "fetchDocsAsync not found")
		} else {
			var headers, exits, cases []string
			ast.Inspect(fd.Body, func(n ast.Node) bool {
				rs, ok := n.(*ast.RangeStmt)
				if !ok {
					return true
				}
				headers = append(headers, "for "+f.Render(rs.Key)+", "+f.Render(rs.Value)+" := range "+f.Render(rs.X))
				// exits of the loop: break / return / goto / continue-with-label anywhere in the loop body that is not
				// inside a nested function literal, with the select case (or if condition) that guards it
				var walk func(n ast.Node, guard string)
				walk = func(n ast.Node, guard string) {
					switch x := n.(type) {
					case nil:
						return
					case *ast.FuncLit:
						return
					case *ast.CommClause:
						g := "default"
						if x.Comm != nil {
							g = "case " + f.Render(x.Comm)
						}
						cases = append(cases, g)
						for _, st := range x.Body {
							walk(st, g)
						}
						return
					case *ast.IfStmt:
						g := guard + " if " + f.Render(x.Cond)
						walk(x.Body, g)
						walk(x.Else, g+" else")
						return
					case *ast.BranchStmt:
						lbl := ""
						if x.Label != nil {
							lbl = " " + x.Label.Name
						}
						exits = append(exits, guard+": "+x.Tok.String()+lbl)
						return
					case *ast.ReturnStmt:
						exits = append(exits, guard+": return")
						return
					}
					ast.Inspect(n, func(m ast.Node) bool {
						if m == n || m == nil {
							return true
						}
						walk(m, guard)
						return false
					})
				}
				walk(rs.Body, "")
				return false
			})
			e.Strs("fetchLoopHeader", headers, "Fetcher.fetchDocsAsync: the loop over the grouped fractions")
			e.Strs("fetchLoopCases", cases, "Fetcher.fetchDocsAsync: the cases of the select inside the loop")
			e.Strs("fetchLoopExits", exits, "Fetcher.fetchDocsAsync: every break / return / goto inside the loop (outside the worker closure) with its guard")
		}

		// ---- MergeQPRs: sort, then removeRepetitionsAdvanced, then total correction, then cut to limit
		if f, err := r.Load("seq/qpr.go"); err != nil {
			e.Missing("mergeOrder", err)
		} else {
			if fd := f.Func("", "MergeQPRs"); fd == nil {
				e.Missing("mergeOrder", "MergeQPRs not found")
			} else {
				type ev struct {
					pos token.Pos
					s   string
				}
				var evs []ev
				ast.Inspect(fd.Body, func(n ast.Node) bool {
					switch x := n.(type) {
					case *ast.CallExpr:
						fn := f.Render(x.Fun)
						if fn == "sort.Sort" || fn == "removeRepetitionsAdvanced" {
							evs = append(evs, ev{x.Pos(), "call " + f.Render(x)})
						}
					case *ast.AssignStmt:
						l := f.Render(x.Lhs[0])
						if l == "dst.Total" || l == "dst.IDs" || l == "l" {
							evs = append(evs, ev{x.Pos(), f.Render(x)})
						}
					}
					return true
				})
				var ss []string
				for _, v := range evs {
					ss = append(ss, v.s)
				}
				e.Strs("mergeOrder", ss, "MergeQPRs: sorting, repetition removal, total correction and cut, source order")
			}
			if fd := f.Func("", "removeRepetitionsAdvanced"); fd == nil {
				e.Missing("repetitionConds", "removeRepetitionsAdvanced not found")
			} else {
				var conds []string
				ast.Inspect(fd.Body, func(n ast.Node) bool {
					if x, ok := n.(*ast.IfStmt); ok {
						conds = append(conds, f.Render(x.Cond))
					}
					return true
				})
				e.Strs("repetitionConds", conds, "if conditions of removeRepetitionsAdvanced")
			}
		}
	}, "seq/doc_pos.go", "frac/active_indexer.go", "frac/active_docs_positions.go", "frac/meta_data_collector.go", "seq/qpr.go", "fracmanager/fetcher.go", "frac/active_writer.go")
}
