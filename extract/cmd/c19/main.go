// Extracted facts for C19 (fracmanager/async_searcher.go, seq/qpr.go, storeapi/grpc_async_search.go).
package main

import (
	"go/ast"
	"go/token"
	"strings"

	"verifextract/lib"
)

func main() {
	lib.Main("C19", func(r lib.Repo, e *lib.Emitter) {
		f, err := r.Load("fracmanager/async_searcher.go")
		if err != nil {
			e.Missing("async_searcher.go", err)
			return
		}
		// mustWriteFileAtomic: ordered file operations
		if fd := f.Func("", "mustWriteFileAtomic"); fd == nil {
			e.Missing("atomicWriteOps", "mustWriteFileAtomic not found")
		} else {
			ops := lib.Filter(f.Calls(fd.Body), func(s string) bool {
				return s == "os.Create" || s == "f.Write" || s == "f.Sync" || s == "f.Close" || s == "os.Rename" || s == "mustFsyncFile"
			})
			e.Strs("atomicWriteOps", ops, "file operations of mustWriteFileAtomic, source order (f.Close is deferred)")
			tmp := ""
			ast.Inspect(fd.Body, func(n ast.Node) bool {
				if as, ok := n.(*ast.AssignStmt); ok && len(as.Lhs) == 1 && f.Render(as.Lhs[0]) == "fpathTmp" {
					tmp = f.Render(as.Rhs[0])
				}
				return true
			})
			e.Str("atomicTmpName", tmp, "name of the temporary file")
			var ren []string
			ast.Inspect(fd.Body, func(n ast.Node) bool {
				if c, ok := n.(*ast.CallExpr); ok && f.Render(c.Fun) == "os.Rename" {
					for _, a := range c.Args {
						ren = append(ren, f.Render(a))
					}
				}
				return true
			})
			e.Strs("atomicRenameArgs", ren, "arguments of os.Rename")
		}
		for _, c := range []string{"asyncSearchFileExtension", "qprExtension"} {
			if v, err := r.ConstString("fracmanager", c); err != nil {
				e.Missing(c, err)
			} else {
				e.Str(c, v, "fracmanager."+c)
			}
		}
		// globs
		for _, fn := range []string{"loadQPRPaths", "loadAsyncSearches"} {
			var fd *ast.FuncDecl
			if fn == "loadQPRPaths" {
				fd = f.Func("AsyncSearcher", fn)
			} else {
				fd = f.Func("", fn)
			}
			if fd == nil {
				e.Missing(fn+"Pattern", fn+" not found")
				continue
			}
			pat := ""
			ast.Inspect(fd.Body, func(n ast.Node) bool {
				if as, ok := n.(*ast.AssignStmt); ok && len(as.Lhs) == 1 && f.Render(as.Lhs[0]) == "pattern" {
					pat = f.Render(as.Rhs[0])
				}
				return true
			})
			e.Str(fn+"Pattern", pat, "glob pattern of "+fn)
		}
		// FetchSearchResult: the merge call and the initial accumulator
		if fd := f.Func("AsyncSearcher", "FetchSearchResult"); fd == nil {
			e.Missing("fetchMergeArgs", "FetchSearchResult not found")
		} else {
			var args []string
			init := ""
			ast.Inspect(fd.Body, func(n ast.Node) bool {
				switch x := n.(type) {
				case *ast.CallExpr:
					if f.Render(x.Fun) == "seq.MergeQPRs" {
						for _, a := range x.Args {
							args = append(args, f.Render(a))
						}
					}
				case *ast.AssignStmt:
					if len(x.Lhs) == 1 && f.Render(x.Lhs[0]) == "qpr" && x.Tok == token.DEFINE {
						init = f.Render(x.Rhs[0])
					}
				}
				return true
			})
			if len(args) == 5 {
				e.Strs("fetchMergeArgs", args, "arguments of seq.MergeQPRs in FetchSearchResult")
				e.Str("fetchIntervalArg", args[3], "the histogram interval FetchSearchResult merges with")
				e.Bool("fetchUsesRequestInterval", args[3] != "1", "false = the literal 1 (code as found), true = taken from the request")
			} else {
				e.Missing("fetchMergeArgs", "MergeQPRs call with 5 arguments not found")
			}
			e.Str("fetchAccInit", init, "initial accumulator of FetchSearchResult")
		}
		// doSearch: skip processed fractions, Done afterwards
		if fd := f.Func("AsyncSearcher", "doSearch"); fd == nil {
			e.Missing("doSearchSkips", "doSearch not found")
		} else {
			var skips, done []string
			ast.Inspect(fd.Body, func(n ast.Node) bool {
				switch x := n.(type) {
				case *ast.IfStmt:
					for _, s := range x.Body.List {
						if b, ok := s.(*ast.BranchStmt); ok && b.Tok == token.CONTINUE {
							c := f.Render(x.Cond)
							if x.Init != nil {
								c = f.Render(x.Init) + "; " + c
							}
							skips = append(skips, c)
						}
					}
				case *ast.AssignStmt:
					if len(x.Lhs) == 1 && f.Render(x.Lhs[0]) == "state.Done" {
						done = append(done, f.Render(x))
					}
				}
				return true
			})
			e.Strs("doSearchSkips", skips, "conditions under which doSearch skips a fraction")
			e.Strs("doSearchDone", done, "assignments to state.Done in doSearch")
			e.Strs("doSearchCalls", lib.Filter(f.Calls(fd.Body), func(s string) bool {
				return s == "as.loadQPRPaths" || s == "as.processFrac" || s == "as.updateSearchInfo"
			}), "doSearch: load processed, process, persist Done")
		}
		// loadAsyncSearches: every persisted request is decoded into a value declared inside the per-file loop
		// (json.Unmarshal decodes into existing slices and pointers in place: a shared target aliases the requests)
		if fd := f.Func("", "loadAsyncSearches"); fd == nil {
			e.Missing("loadDecodeTargets", "loadAsyncSearches not found")
		} else {
			var targets []string
			ast.Inspect(fd.Body, func(n ast.Node) bool {
				loop, ok := n.(*ast.RangeStmt)
				if !ok {
					return true
				}
				declared := map[string]bool{}
				ast.Inspect(loop.Body, func(m ast.Node) bool {
					switch x := m.(type) {
					case *ast.DeclStmt:
						if gd, ok := x.Decl.(*ast.GenDecl); ok && gd.Tok == token.VAR {
							for _, sp := range gd.Specs {
								if vs, ok := sp.(*ast.ValueSpec); ok {
									for _, nm := range vs.Names {
										declared[nm.Name] = true
									}
								}
							}
						}
					case *ast.AssignStmt:
						if x.Tok == token.DEFINE {
							for _, l := range x.Lhs {
								declared[f.Render(l)] = true
							}
						}
					case *ast.CallExpr:
						if f.Render(x.Fun) == "json.Unmarshal" && len(x.Args) == 2 {
							t := strings.TrimPrefix(f.Render(x.Args[1]), "&")
							where := "declared outside the loop"
							if declared[t] {
								where = "declared inside the loop"
							}
							targets = append(targets, t+": "+where)
						}
					}
					return true
				})
				return false
			})
			e.Strs("loadDecodeTargets", targets, "loadAsyncSearches: target of each json.Unmarshal in the per-file loop")
		}
		if fd := f.Func("AsyncSearcher", "processFrac"); fd == nil {
			e.Missing("processFracCalls", "processFrac not found")
		} else {
			e.Strs("processFracCalls", lib.Filter(f.Calls(fd.Body), func(s string) bool {
				return s == "dp.Search" || s == "json.Marshal" || s == "zstd.CompressLevel" || s == "mustWriteFileAtomic"
			}), "processFrac: search, encode, compress, atomic write")
		}
		// every place where the query text is parsed, with the mapping argument; and what a reload does to the AST
		{
			var parses, astAssign []string
			for _, d := range f.AST.Decls {
				fd, ok := d.(*ast.FuncDecl)
				if !ok || fd.Body == nil {
					continue
				}
				ast.Inspect(fd.Body, func(n ast.Node) bool {
					switch x := n.(type) {
					case *ast.CallExpr:
						if strings.HasPrefix(f.Render(x.Fun), "parser.Parse") {
							parses = append(parses, fd.Name.Name+": "+f.Render(x))
						}
					case *ast.AssignStmt:
						if len(x.Lhs) == 1 && strings.HasSuffix(f.Render(x.Lhs[0]), "Params.AST") {
							astAssign = append(astAssign, fd.Name.Name+": "+f.Render(x))
						}
					}
					return true
				})
			}
			e.Strs("queryParses", parses, "every parser call of async_searcher.go: function: call")
			e.Strs("astAssignments", astAssign, "every assignment to ...Params.AST: function: statement")
		}
		// resume uses the persisted fraction list: what MustStartAsync does per unfinished request, what doSearch
		// iterates, and every place that writes a Fractions field
		{
			var resume, fracWrites, loops []string
			if fd := f.Func("", "MustStartAsync"); fd != nil {
				ast.Inspect(fd.Body, func(n ast.Node) bool {
					if rs, ok := n.(*ast.RangeStmt); ok && strings.Contains(f.Render(rs.X), "notProcessedIDs") {
						resume = f.Calls(rs.Body)
					}
					return true
				})
			}
			if fd := f.Func("AsyncSearcher", "doSearch"); fd != nil {
				ast.Inspect(fd.Body, func(n ast.Node) bool {
					if rs, ok := n.(*ast.RangeStmt); ok {
						for _, c := range f.Calls(rs.Body) {
							if c == "as.processFrac" {
								loops = append(loops, f.Render(rs.X))
							}
						}
					}
					return true
				})
			}
			for _, d := range f.AST.Decls {
				fd, ok := d.(*ast.FuncDecl)
				if !ok || fd.Body == nil {
					continue
				}
				ast.Inspect(fd.Body, func(n ast.Node) bool {
					switch x := n.(type) {
					case *ast.AssignStmt:
						for _, l := range x.Lhs {
							if strings.HasSuffix(f.Render(l), ".Fractions") {
								fracWrites = append(fracWrites, fd.Name.Name+": "+f.Render(x))
							}
						}
					case *ast.KeyValueExpr:
						if f.Render(x.Key) == "Fractions" {
							fracWrites = append(fracWrites, fd.Name.Name+": Fractions: "+f.Render(x.Value))
						}
					}
					return true
				})
			}
			if fd := f.Func("AsyncSearcher", "doSearch"); fd != nil {
				var lookups []string
				ast.Inspect(fd.Body, func(n ast.Node) bool {
					if rs, ok := n.(*ast.RangeStmt); ok && strings.Contains(f.Render(rs.Body), "fracsByName[") {
						x := f.Render(rs.X)
						// resolve a local slice to its definition
						ast.Inspect(fd.Body, func(m ast.Node) bool {
							if as, ok := m.(*ast.AssignStmt); ok && len(as.Lhs) == 1 && f.Render(as.Lhs[0]) == x {
								x = f.Render(as.Rhs[0])
							}
							return true
						})
						lookups = append(lookups, x)
					}
					return true
				})
				e.Strs("doSearchFracLookup", lookups, "doSearch: the fraction list the recorded names are looked up in")
			}
			e.Strs("resumeCalls", resume, "calls MustStartAsync makes for every unfinished request")
			e.Strs("doSearchFractionLoop", loops, "what the processFrac loop of doSearch ranges over")
			e.Strs("fractionsWrites", fracWrites, "every write of a Fractions field: function: statement")
		}
		// the proxy's fan-out: which errors pass over a replica, how done is accumulated, what is merged
		if pa, err := r.Load("proxy/search/async.go"); err != nil {
			e.Missing("proxy/search/async.go", err)
		} else {
			for _, fn := range []string{"FetchAsyncSearchResult", "StartAsyncSearch"} {
				fd := pa.Func("Ingestor", fn)
				if fd == nil {
					e.Missing("proxy"+fn, fn+" not found")
					continue
				}
				var facts []string
				ast.Inspect(fd.Body, func(n ast.Node) bool {
					switch x := n.(type) {
					case *ast.IfStmt:
						c := pa.Render(x.Cond)
						if x.Init != nil {
							c = pa.Render(x.Init) + "; " + c
						}
						for _, st := range x.Body.List {
							switch y := st.(type) {
							case *ast.BranchStmt:
								facts = append(facts, "if "+c+" { "+y.Tok.String()+" }")
							case *ast.ReturnStmt:
								facts = append(facts, "if "+c+" { return }")
							case *ast.AssignStmt:
								if pa.Render(y.Lhs[0]) == "done" {
									facts = append(facts, "if "+c+" { "+pa.Render(y)+" }")
								}
							}
						}
					case *ast.AssignStmt:
						if len(x.Lhs) == 1 && (pa.Render(x.Lhs[0]) == "done" || pa.Render(x.Lhs[0]) == "anyResponse") && x.Tok == token.DEFINE {
							facts = append(facts, pa.Render(x))
						}
					case *ast.BranchStmt:
						if x.Tok == token.BREAK {
							facts = append(facts, "break")
						}
					case *ast.CallExpr:
						if pa.Render(x.Fun) == "seq.MergeQPRs" {
							facts = append(facts, pa.Render(x))
						}
					}
					return true
				})
				e.Strs("proxy"+fn, facts, "Ingestor."+fn+": control flow over shards and replicas, source order")
			}
		}
		// durable before ack: the tail of StartSearch (top-level statements after the info literal) and updateSearchInfo
		{
			if fd := f.Func("AsyncSearcher", "StartSearch"); fd == nil {
				e.Missing("startSearchTail", "StartSearch not found")
			} else {
				var tail []string
				seenInfo := false
				for _, st := range fd.Body.List {
					txt := f.Render(st)
					if strings.HasPrefix(txt, "info := asyncSearchInfo") {
						seenInfo = true
						continue
					}
					if seenInfo {
						tail = append(tail, txt)
					}
				}
				e.Strs("startSearchTail", tail, "StartSearch: the top-level statements after the request info is built")
			}
			if fd := f.Func("AsyncSearcher", "updateSearchInfo"); fd == nil {
				e.Missing("updateSearchInfoBody", "updateSearchInfo not found")
			} else {
				var body []string
				for _, st := range fd.Body.List {
					body = append(body, f.Render(st))
				}
				e.Strs("updateSearchInfoBody", body, "updateSearchInfo: statements in order")
			}
			if fd := f.Func("AsyncSearcher", "mustWriteSearchInfo"); fd != nil {
				e.Strs("writeSearchInfoCalls", lib.Filter(f.Calls(fd.Body), func(c string) bool { return c == "json.Marshal" || c == "mustWriteFileAtomic" }), "mustWriteSearchInfo: encode, atomic write")
			} else {
				e.Missing("writeSearchInfoCalls", "mustWriteSearchInfo not found")
			}
		}
		// the proxy's public handler: how the documents of an async result are built
		if gv, err := r.Load("proxyapi/grpc_v1.go"); err != nil {
			e.Missing("proxyapi/grpc_v1.go", err)
		} else if fd := gv.Func("", "makeProtoDocs"); fd == nil {
			e.Missing("makeProtoDocsNilSafe", "makeProtoDocs not found")
		} else {
			guarded, bare := 0, 0
			var walk func(n ast.Node, inGuard bool)
			walk = func(n ast.Node, inGuard bool) {
				ast.Inspect(n, func(x ast.Node) bool {
					switch v := x.(type) {
					case *ast.IfStmt:
						g := inGuard || gv.Render(v.Cond) == "docs != nil"
						walk(v.Body, g)
						if v.Else != nil {
							walk(v.Else, inGuard)
						}
						return false
					case *ast.CallExpr:
						if gv.Render(v.Fun) == "docs.Next" {
							if inGuard {
								guarded++
							} else {
								bare++
							}
						}
					}
					return true
				})
			}
			walk(fd.Body, false)
			if guarded+bare == 0 {
				e.Missing("makeProtoDocsNilSafe", "no docs.Next() call in makeProtoDocs")
			} else {
				e.Bool("makeProtoDocsNilSafe", bare == 0, "makeProtoDocs: every docs.Next() sits under `if docs != nil`")
			}
			var loop []string
			ast.Inspect(fd.Body, func(n ast.Node) bool {
				if rs, ok := n.(*ast.RangeStmt); ok {
					loop = append(loop, "for range "+gv.Render(rs.X))
				}
				if as, ok := n.(*ast.AssignStmt); ok && len(as.Lhs) == 1 && (gv.Render(as.Lhs[0]) == "doc.Id" || gv.Render(as.Lhs[0]) == "respDocs[i]") {
					loop = append(loop, gv.Render(as))
				}
				return true
			})
			e.Strs("makeProtoDocsLoop", loop, "makeProtoDocs: one entry per element of qpr.IDs")
		}
		if ga, err := r.Load("proxyapi/grpc_async_search.go"); err != nil {
			e.Missing("proxyapi/grpc_async_search.go", err)
		} else if fd := ga.Func("grpcV1", "FetchAsyncSearchResult"); fd == nil {
			e.Missing("asyncHandlerResponse", "handler not found")
		} else {
			var fields, call []string
			ast.Inspect(fd.Body, func(n ast.Node) bool {
				switch x := n.(type) {
				case *ast.CompositeLit:
					t := ga.Render(x.Type)
					for _, el := range x.Elts {
						if kv, ok := el.(*ast.KeyValueExpr); ok {
							if strings.HasSuffix(t, "ComplexSearchResponse") || strings.HasSuffix(t, "search.FetchAsyncSearchResultRequest") {
								fields = append(fields, ga.Render(kv.Key)+": "+ga.Render(kv.Value))
							}
						}
					}
				case *ast.CallExpr:
					if strings.HasSuffix(ga.Render(x.Fun), "searchIngestor.FetchAsyncSearchResult") {
						call = append(call, ga.Render(x.Fun))
					}
				}
				return true
			})
			e.Strs("asyncHandlerResponse", fields, "grpcV1.FetchAsyncSearchResult: the request passed down and the response literal")
		}
		if ga, err := r.Load("proxyapi/grpc_async_search.go"); err == nil {
			if fd := ga.Func("grpcV1", "StartAsyncSearch"); fd != nil {
				var lit, writes []string
				ast.Inspect(fd.Body, func(n ast.Node) bool {
					switch x := n.(type) {
					case *ast.CompositeLit:
						if strings.HasSuffix(ga.Render(x.Type), "search.AsyncRequest") {
							for _, el := range x.Elts {
								if kv, ok := el.(*ast.KeyValueExpr); ok {
									lit = append(lit, ga.Render(kv.Key)+": "+ga.Render(kv.Value))
								}
							}
						}
					case *ast.AssignStmt:
						for _, l := range x.Lhs {
							if strings.HasPrefix(ga.Render(l), "aggs[") || strings.HasPrefix(ga.Render(l), "aggs.") {
								writes = append(writes, ga.Render(x))
							}
						}
					}
					return true
				})
				e.Strs("asyncStartRequest", lit, "grpcV1.StartAsyncSearch: the search.AsyncRequest literal")
				e.Strs("asyncStartAggWrites", writes, "grpcV1.StartAsyncSearch: statements that modify the converted aggregation queries")
			} else {
				e.Missing("asyncStartRequest", "handler StartAsyncSearch not found")
			}
		}
		if pa2, err := r.Load("proxy/search/async.go"); err == nil {
			if fd := pa2.Func("Ingestor", "FetchAsyncSearchResult"); fd != nil {
				pag := false
				for _, c := range pa2.Calls(fd.Body) {
					if c == "si.paginateIDs" {
						pag = true
					}
				}
				e.Bool("proxyAsyncPaginates", pag, "Ingestor.FetchAsyncSearchResult paginates the merged IDs with (Offset, Size)")
			}
		}
		// seq.AggFunc <-> wire AggFunc (pkg/storeapi/mappings.go): the table, how its inverse is built, who reads what
		if mp, err := r.Load("pkg/storeapi/mappings.go"); err != nil {
			e.Missing("pkg/storeapi/mappings.go", err)
		} else {
			var table, inv, uses []string
			ast.Inspect(mp.AST, func(n ast.Node) bool {
				switch x := n.(type) {
				case *ast.ValueSpec:
					if len(x.Names) == 1 && x.Names[0].Name == "funcMappings" && len(x.Values) == 1 {
						if cl, ok := x.Values[0].(*ast.CompositeLit); ok {
							for _, el := range cl.Elts {
								if kv, ok := el.(*ast.KeyValueExpr); ok {
									table = append(table, mp.Render(kv.Key)+": "+mp.Render(kv.Value))
								}
							}
						}
					}
					if len(x.Names) == 1 && x.Names[0].Name == "funcMappingsPb" && len(x.Values) == 1 {
						ast.Inspect(x.Values[0], func(m ast.Node) bool {
							switch y := m.(type) {
							case *ast.RangeStmt:
								inv = append(inv, "for "+mp.Render(y.Key)+", "+mp.Render(y.Value)+" := range "+mp.Render(y.X))
							case *ast.AssignStmt:
								if y.Tok == token.ASSIGN {
									inv = append(inv, mp.Render(y))
								}
							}
							return true
						})
					}
				}
				return true
			})
			for _, fn := range [][2]string{{"AggFunc", "ToAggFunc"}, {"AggFunc", "MustAggFunc"}, {"", "ToProtoAggFunc"}} {
				if fd := mp.Func(fn[0], fn[1]); fd != nil {
					ast.Inspect(fd.Body, func(m ast.Node) bool {
						if rs, ok := m.(*ast.ReturnStmt); ok && len(rs.Results) >= 1 {
							if ix, ok := rs.Results[0].(*ast.IndexExpr); ok {
								uses = append(uses, fn[1]+": "+mp.Render(ix))
							}
						}
						return true
					})
				}
			}
			e.Strs("aggFuncTable", table, "funcMappings: seq.AggFunc -> wire AggFunc")
			e.Strs("aggFuncInverse", inv, "funcMappingsPb: built as the inverse of funcMappings")
			e.Strs("aggFuncUses", uses, "which table each conversion indexes")
		}
		// key codec
		if q, err := r.Load("seq/qpr.go"); err != nil {
			e.Missing("qpr.go", err)
		} else {
			if v, err := r.ConstString("seq", "AggBinSeparator"); err != nil {
				e.Missing("aggBinSeparator", err)
			} else {
				e.Str("aggBinSeparator", v, "seq.AggBinSeparator")
			}
			if fd := q.Func("AggBin", "toKey"); fd == nil {
				e.Missing("toKeyBody", "toKey not found")
			} else {
				var st []string
				for _, s := range fd.Body.List {
					st = append(st, q.Render(s))
				}
				e.Strs("toKeyBody", st, "AggBin.toKey")
			}
			if fd := q.Func("AggBin", "fromKey"); fd == nil {
				e.Missing("fromKeyCalls", "fromKey not found")
			} else {
				e.Strs("fromKeyCalls", lib.Filter(q.Calls(fd.Body), func(s string) bool { return s != "panic" }), "AggBin.fromKey calls")
			}
		}
		// store API: parameters of an async search
		if g, err := r.Load("storeapi/grpc_async_search.go"); err != nil {
			e.Missing("grpc_async_search.go", err)
		} else if fd := g.Func("GrpcV1", "StartAsyncSearch"); fd == nil {
			e.Missing("asyncParams", "StartAsyncSearch not found")
		} else {
			var kvs []string
			ast.Inspect(fd.Body, func(n ast.Node) bool {
				if cl, ok := n.(*ast.CompositeLit); ok && strings.HasSuffix(g.Render(cl.Type), "SearchParams") {
					for _, el := range cl.Elts {
						if kv, ok := el.(*ast.KeyValueExpr); ok {
							k := g.Render(kv.Key)
							if k == "Limit" || k == "WithTotal" || k == "HistInterval" {
								kvs = append(kvs, k+": "+g.Render(kv.Value))
							}
						}
					}
				}
				return true
			})
			e.Strs("asyncParams", kvs, "Limit / WithTotal / HistInterval of an async search")
			var all, reqf []string
			ast.Inspect(fd.Body, func(n ast.Node) bool {
				if cl, ok := n.(*ast.CompositeLit); ok {
					t := g.Render(cl.Type)
					for _, el := range cl.Elts {
						if kv, ok := el.(*ast.KeyValueExpr); ok {
							if strings.HasSuffix(t, "SearchParams") {
								all = append(all, g.Render(kv.Key)+": "+g.Render(kv.Value))
							} else if strings.HasSuffix(t, "AsyncSearchRequest") {
								reqf = append(reqf, g.Render(kv.Key)+": "+g.Render(kv.Value))
							}
						}
					}
				}
				return true
			})
			e.Strs("startAsyncParams", all, "StartAsyncSearch: the SearchParams literal")
			e.Strs("startAsyncRequest", reqf, "StartAsyncSearch: the AsyncSearchRequest literal")
		}
	}, "fracmanager/async_searcher.go", "seq/qpr.go", "storeapi/grpc_async_search.go")
}
