// Extracted facts for C15: everything C08 uses (package sealfacts) plus the file operations of fraction creation and
// deletion, of the frac-cache save, and the retention loop.
package main

import (
	"go/ast"
	"strings"

	"verifextract/lib"
	"verifextract/sealfacts"
)

// fileOps walks the top-level statements of a function body in order, remembers `name = <expr>` assignments and
// lists every os.Rename / os.Remove with the expressions its arguments were last assigned.
func fileOps(f *lib.File, body *ast.BlockStmt) []string {
	env := map[string]string{}
	var ops []string
	val := func(e ast.Expr) string {
		if id, ok := e.(*ast.Ident); ok {
			if v, ok := env[id.Name]; ok {
				return v
			}
		}
		return f.Render(e)
	}
	var visit func(n ast.Node)
	visit = func(n ast.Node) {
		ast.Inspect(n, func(x ast.Node) bool {
			if c, ok := x.(*ast.CallExpr); ok {
				switch f.Render(c.Fun) {
				case "os.Rename":
					ops = append(ops, "rename "+val(c.Args[0])+" -> "+val(c.Args[1]))
				case "os.Remove":
					ops = append(ops, "remove "+val(c.Args[0]))
				}
			}
			return true
		})
	}
	for _, st := range body.List {
		switch x := st.(type) {
		case *ast.AssignStmt:
			if len(x.Lhs) == 1 && len(x.Rhs) == 1 {
				if id, ok := x.Lhs[0].(*ast.Ident); ok {
					env[id.Name] = f.Render(x.Rhs[0])
					continue
				}
			}
			visit(st)
		default:
			visit(st)
		}
	}
	return ops
}

func main() {
	lib.Main("C15", func(r lib.Repo, e *lib.Emitter) {
		sealfacts.Emit(r, e)
		if f, err := r.Load("frac/active.go"); err != nil {
			e.Missing("active.go", err)
		} else {
			if fd := f.Func("", "mustOpenFile"); fd == nil {
				e.Missing("mustOpenFileCalls", "mustOpenFile not found")
			} else {
				e.Strs("mustOpenFileCalls", sealfacts.GuardedCalls(f, fd.Body, "os.OpenFile", "util.MustSyncPath", "os.Create", "os.Remove", "os.Rename"), "mustOpenFile: file operations in source order")
				flags := ""
				ast.Inspect(fd.Body, func(n ast.Node) bool {
					if c, ok := n.(*ast.CallExpr); ok && f.Render(c.Fun) == "os.OpenFile" && len(c.Args) >= 2 {
						flags = f.Render(c.Args[1])
					}
					return true
				})
				e.Str("mustOpenFileFlags", flags, "mustOpenFile: flags of os.OpenFile")
			}
			if fd := f.Func("Active", "Replay"); fd == nil {
				e.Missing("replayCancelBody", "Active.Replay not found")
			} else {
				var body []string
				found := false
				ast.Inspect(fd.Body, func(n ast.Node) bool {
					if cc, ok := n.(*ast.CommClause); ok && cc.Comm != nil && strings.Contains(f.Render(cc.Comm), "ctx.Done()") && !found {
						found = true
						for _, st := range cc.Body {
							body = append(body, f.Render(st))
						}
					}
					return true
				})
				if !found {
					e.Missing("replayCancelBody", "no `case <-ctx.Done()` in Active.Replay")
				} else {
					e.Strs("replayCancelBody", body, "Active.Replay: statements of the `case <-ctx.Done()` branch")
				}
				// what follows the replay loop, in order
				var after []string
				seenLoop := false
				for _, st := range fd.Body.List {
					if l, ok := st.(*ast.LabeledStmt); ok {
						if _, isFor := l.Stmt.(*ast.ForStmt); isFor {
							seenLoop = true
							continue
						}
					}
					if _, ok := st.(*ast.ForStmt); ok {
						seenLoop = true
						continue
					}
					if seenLoop {
						after = append(after, sealfacts.KeepCalls(f, st, "wg.Wait", "f.truncateTail", "ctx.Err")...)
					}
				}
				e.Strs("replayAfterLoop", after, "Active.Replay: calls after the replay loop")
			}
			if fd := f.Func("Active", "Suicide"); fd == nil {
				e.Missing("activeSuicideBranches", "Active.Suicide not found")
			} else {
				var br []string
				ast.Inspect(fd.Body, func(n ast.Node) bool {
					x, ok := n.(*ast.IfStmt)
					if !ok || f.Render(x.Cond) != "released" {
						return true
					}
					br = append(br, "released: "+strings.Join(sealfacts.GuardedCalls(f, x.Body, "f.removeMetaFile", "f.removeDocsFiles", "f.releaseMem"), "; "))
					if el, ok := x.Else.(*ast.BlockStmt); ok {
						br = append(br, "not released: "+strings.Join(sealfacts.KeepCalls(f, el, "f.removeMetaFile", "f.removeDocsFiles", "f.releaseMem", "os.Remove", "os.Rename"), "; "))
					}
					return false
				})
				e.Strs("activeSuicideBranches", br, "Active.Suicide: what is removed, in source order")
			}
		}
		if f, err := r.Load("fracmanager/loader.go"); err != nil {
			e.Missing("loader.go", err)
		} else if fd := f.Func("loader", "load"); fd == nil {
			e.Missing("loadSortCalls", "loader.load not found")
		} else {
			// the order of fm.fracs after start-up: sealed fractions in the order of the sorted fraction ids, then the replayed
			// ones in the same order - the only sort is sort.Strings(fracIDs), and the replay runs inside the loop over `actives`
			var sorts []string
			ast.Inspect(fd.Body, func(n ast.Node) bool {
				if c, ok := n.(*ast.CallExpr); ok && (strings.HasPrefix(f.Render(c.Fun), "sort.") || strings.HasPrefix(f.Render(c.Fun), "slices.Sort")) {
					sorts = append(sorts, f.Render(c))
				}
				return true
			})
			e.Strs("loadSortCalls", sorts, "loader.load: every sort it performs")
			var loop []string
			ast.Inspect(fd.Body, func(n ast.Node) bool {
				rs, ok := n.(*ast.RangeStmt)
				if !ok || f.Render(rs.X) != "actives" {
					return true
				}
				inGo := false
				ast.Inspect(rs.Body, func(m ast.Node) bool {
					switch x := m.(type) {
					case *ast.GoStmt, *ast.FuncLit:
						_ = x
						inGo = true
					}
					return true
				})
				loop = append(loop, sealfacts.KeepCalls(f, rs.Body, "a.Replay", "removeFractionFiles", "l.fracProvider.newActiveRef")...)
				if inGo {
					loop = append(loop, "<goroutine or closure in the loop>")
				}
				return false
			})
			e.Strs("replayLoopCalls", loop, "loader.load: what the loop over the unsealed fractions does, in order")
		}
		if f, err := r.Load("disk/doc_blocks_reader.go"); err != nil {
			e.Missing("doc_blocks_reader.go", err)
		} else if fd := f.Func("DocBlocksReader", "ReadDocBlock"); fd == nil {
			e.Missing("readDocBlockStmts", "ReadDocBlock not found")
		} else {
			// Replay takes (io.EOF, size != 0) from ReadDocBlock for a torn tail and truncates: ReadDocBlock must report
			// EOF only when the file really ends - its statements are pinned
			var st []string
			for _, x := range fd.Body.List {
				st = append(st, f.Render(x))
			}
			e.Strs("readDocBlockStmts", st, "DocBlocksReader.ReadDocBlock: its statements")
		}
		if f, err := r.Load("frac/sealed.go"); err != nil {
			e.Missing("sealed.go", err)
		} else if fd := f.Func("", "NewSealed"); fd == nil {
			e.Missing("newSealedFastPath", "NewSealed not found")
		} else {
			// the condition under which a .frac-cache entry is trusted (the index header is not read)
			cond := ""
			for _, st := range fd.Body.List {
				if x, ok := st.(*ast.IfStmt); ok && strings.Contains(f.Render(x.Cond), "info") && len(x.Body.List) == 1 {
					if _, isRet := x.Body.List[0].(*ast.ReturnStmt); isRet && cond == "" {
						cond = f.Render(x.Cond)
					}
				}
			}
			e.Str("newSealedFastPath", cond, "NewSealed: condition of the early return that trusts the cached Info")
		}
		if f, err := r.Load("frac/sealed.go"); err != nil {
			e.Missing("sealed.go", err)
		} else if fd := f.Func("Sealed", "Suicide"); fd == nil {
			e.Missing("sealedSuicideOps", "Sealed.Suicide not found")
		} else {
			e.Strs("sealedSuicideOps", fileOps(f, fd.Body), "Sealed.Suicide: renames and removes in source order")
		}
		if f, err := r.Load("fracmanager/proxy_frac.go"); err != nil {
			e.Missing("proxy_frac.go", err)
		} else if fd := f.Func("proxyFrac", "Suicide"); fd == nil {
			e.Missing("proxySuicideCalls", "proxyFrac.Suicide not found")
		} else {
			e.Strs("proxySuicideCalls", sealfacts.KeepCalls(f, fd.Body, "f.trySetSuicided", "f.sealWg.Wait", "active.Suicide", "sealed.Suicide"), "proxyFrac.Suicide: waits for a running seal, then deletes")
		}
		if f, err := r.Load("fracmanager/sealed_frac_cache.go"); err != nil {
			e.Missing("sealed_frac_cache.go", err)
		} else if fdl, fdg := f.Func("sealedFracCache", "LoadFromDisk"), f.Func("sealedFracCache", "GetFracInfo"); fdl == nil || fdg == nil {
			e.Missing("loadFromDiskDecode", "LoadFromDisk / GetFracInfo not found")
		} else {
			var dec []string
			ast.Inspect(fdl.Body, func(n ast.Node) bool {
				if c, ok := n.(*ast.CallExpr); ok {
					fn := f.Render(c.Fun)
					if strings.HasPrefix(fn, "json.") || strings.Contains(strings.ToLower(fn), "decode") {
						dec = append(dec, f.Render(c))
					}
				}
				return true
			})
			e.Strs("loadFromDiskDecode", dec, "sealedFracCache.LoadFromDisk: how the cache file is decoded")
			var ret []string
			if n := len(fdg.Body.List); n > 0 {
				if r, ok := fdg.Body.List[n-1].(*ast.ReturnStmt); ok {
					for _, x := range r.Results {
						ret = append(ret, f.Render(x))
					}
				}
			}
			e.Strs("getFracInfoReturn", ret, "sealedFracCache.GetFracInfo: results of its final return")
		}
		if f, err := r.Load("fracmanager/sealed_frac_cache.go"); err != nil {
			e.Missing("sealed_frac_cache.go", err)
		} else if fd := f.Func("sealedFracCache", "SaveCacheToDisk"); fd == nil {
			e.Missing("saveCacheCalls", "SaveCacheToDisk not found")
		} else {
			e.Strs("saveCacheCalls", sealfacts.KeepCalls(f, fd.Body, "os.CreateTemp", "tmp.Write", "tmp.Sync", "os.Rename", "os.WriteFile", "os.Create", "os.Remove"), "SaveCacheToDisk: file operations in source order")
		}
		if f, err := r.Load("fracmanager/fracmanager.go"); err != nil {
			e.Missing("fracmanager.go", err)
		} else {
			if fd := f.Func("FracManager", "shrinkSizes"); fd == nil {
				e.Missing("shrinkLoop", "shrinkSizes not found")
			} else {
				var loop []string
				ast.Inspect(fd.Body, func(n ast.Node) bool {
					if x, ok := n.(*ast.ForStmt); ok && x.Cond != nil && len(loop) == 0 {
						loop = append(loop, "for "+f.Render(x.Cond))
						for _, st := range x.Body.List {
							s := f.Render(st)
							switch {
							case strings.Contains(s, "shiftFirstFrac()"), strings.HasPrefix(s, "size -="), strings.HasPrefix(s, "if outsider == nil"):
								loop = append(loop, s)
							}
						}
					}
					return true
				})
				e.Strs("shrinkLoop", loop, "shrinkSizes: the retention loop")
			}
			if fd := f.Func("FracManager", "shiftFirstFrac"); fd == nil {
				e.Missing("shiftFirst", "shiftFirstFrac not found")
			} else {
				var st []string
				for _, s := range fd.Body.List {
					r := f.Render(s)
					if strings.Contains(r, "fm.fracs[") {
						st = append(st, r)
					}
				}
				e.Strs("shiftFirst", st, "shiftFirstFrac: takes the head of fm.fracs")
			}
		}
	}, append(sealfacts.Sources, "fracmanager/sealed_frac_cache.go", "fracmanager/fracmanager.go")...)
}
