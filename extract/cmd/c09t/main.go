// Mechanical Go -> Lean translation of the write-status index arithmetic C09's model relies on (see extract/xlate).
package main

import "verifextract/xlate"

func main() {
	xlate.Main("C09",
		xlate.Spec{Pkg: "proxy/bulk", Name: "newStoresWriteStatus"},
		xlate.Spec{Pkg: "proxy/bulk", Recv: "storesWriteStatus", Name: "getShard"},
		// shard.Bulk: a replica already written is skipped; a replica is marked written only when its call returned no error
		xlate.Spec{Pkg: "proxy/bulk", Recv: "shard", Name: "Bulk", As: "replicaSkip",
			Stmts: []string{"if len(writtenReplicas) > 0 && writtenReplicas[replicaIdx]"}},
		xlate.Spec{Pkg: "proxy/bulk", Recv: "shard", Name: "Bulk", As: "replicaMark", Stmts: []string{"if hostErr"},
			Result: "writtenReplicas", Ignore: []string{"metric.BulkErrors.Add", "verifhook.Point"}},
		// sendBulkToStores: shards are visited in the shuffled order until one Bulk call returns no error
		xlate.Spec{Pkg: "proxy/bulk", Recv: "SeqDBClient", Name: "sendBulkToStores", As: "visitLoop",
			Stmts: []string{"for n := 0; n < len(shards); n++"}, Oracles: []string{"shard.Bulk", "bulk.isOpenCircuitBreakerError"}},
	)
}
