// Mechanical Go -> Lean translation of the write-status index arithmetic C09's model relies on (see extract/xlate).
package main

import "verifextract/xlate"

func main() {
	xlate.Main("C09",
		xlate.Spec{Pkg: "proxy/bulk", Name: "newStoresWriteStatus"},
		xlate.Spec{Pkg: "proxy/bulk", Recv: "storesWriteStatus", Name: "getShard"},
	)
}
