// Mechanical Go -> Lean translation of the cleaner's list maintenance (cache/cleaner.go) C18's model relies on
// (see extract/xlate).  Generations and buckets are opaque values; atomic loads and the bucket interface stay
// uninterpreted; metric updates and the mutex are ignored.
package main

import "verifextract/xlate"

func main() {
	ign := []string{"c.mu.Lock", "c.mu.Unlock", "c.metrics.GenerationsSub", "c.metrics.OldestSet", "c.metrics.BucketsSub"}
	xlate.Main("C18",
		xlate.Spec{Pkg: "cache", Recv: "Cleaner", Name: "getSize", Oracles: []string{"Uint64.Load", "bucket.Released"}, Ignore: ign},
		xlate.Spec{Pkg: "cache", Recv: "Cleaner", Name: "ReleaseBuckets"},
		xlate.Spec{Pkg: "cache", Recv: "Cleaner", Name: "CleanEmptyGenerations"},
	)
}
