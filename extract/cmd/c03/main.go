// Extracted facts for C03 (consts, seq/doc_pos.go, frac/disk_blocks_producer.go, frac/lids, frac/sealed_ids.go).
package main

import (
	"go/ast"
	"go/token"
	"strings"

	"verifextract/lib"
)

func main() {
	lib.Main("C03", func(r lib.Repo, e *lib.Emitter) {
		for _, c := range []struct{ pkg, name, lean string }{
			{"consts", "IDsPerBlock", "idsPerBlock"},
			{"consts", "IDsBlockSize", "idsBlockSize"},
			{"consts", "LIDBlockCap", "lidBlockCap"},
			{"consts", "RegularBlockSize", "regularBlockSize"},
			{"seq", "docOffsetBits", "docOffsetBits"},
			{"seq", "maxDocOffset", "maxDocOffset"},
			{"disk", "IndexBlockHeaderSize", "indexBlockHeaderSize"},
		} {
			if v, err := r.ConstInt(c.pkg, c.name); err != nil {
				e.Missing(c.lean, err)
			} else {
				e.Nat(c.lean, uint64(v), c.pkg+"."+c.name)
			}
		}

		// writeSealedFraction: capacities handed to the generators
		if f, err := r.Load("frac/active_sealer.go"); err != nil {
			e.Missing("sealerCaps", err)
		} else if fd := f.Func("", "writeSealedFraction"); fd == nil {
			e.Missing("sealerCaps", "writeSealedFraction not found")
		} else {
			var caps []string
			ast.Inspect(fd.Body, func(n ast.Node) bool {
				if c, ok := n.(*ast.CallExpr); ok {
					fn := f.Render(c.Fun)
					if strings.HasSuffix(fn, "getIDsBlocksGenerator") || strings.HasSuffix(fn, "getLIDsBlockGenerator") {
						caps = append(caps, fn[strings.LastIndex(fn, ".")+1:]+" "+f.Render(c.Args[len(c.Args)-1]))
					}
				}
				return true
			})
			e.Strs("sealerCaps", caps, "writeSealedFraction: last argument (block capacity) of the ID and LID block generators")
		}

		// writeSortedDocs: what is returned from the pooled docBlocksWriter (must be copies: the writer goes back to the pool)
		if f, err := r.Load("frac/active_sealer.go"); err != nil {
			e.Missing("sortedDocsReturns", err)
		} else if fd := f.Func("", "writeSortedDocs"); fd == nil {
			e.Missing("sortedDocsReturns", "writeSortedDocs not found")
		} else {
			var last []string
			ast.Inspect(fd.Body, func(n ast.Node) bool {
				if x, ok := n.(*ast.ReturnStmt); ok && len(x.Results) == 4 && f.Render(x.Results[3]) == "nil" {
					last = nil
					for _, r := range x.Results {
						last = append(last, f.Render(r))
					}
				}
				return true
			})
			e.Strs("sortedDocsReturns", last, "writeSortedDocs: the successful return statement")
		}

		// fracmanager/loader.go: start-up clean-up for a fraction that has .sdocs and .index (leftovers of Active.Release)
		if f, err := r.Load("fracmanager/loader.go"); err != nil {
			e.Missing("loaderSealedCleanup", err)
		} else if fd := f.Func("loader", "load"); fd == nil {
			e.Missing("loaderSealedCleanup", "loader.load not found")
		} else {
			var steps []string
			found := false
			ast.Inspect(fd.Body, func(n ast.Node) bool {
				x, ok := n.(*ast.IfStmt)
				if !ok || f.Render(x.Cond) != "info.hasSdocs && info.hasIndex" {
					return true
				}
				found = true
				for _, st := range x.Body.List { // direct children only: nesting is part of the fact
					if is, ok := st.(*ast.IfStmt); ok {
						for _, c := range f.Calls(is.Body) {
							if c == "removeFile" {
								var args []string
								ast.Inspect(is.Body, func(m ast.Node) bool {
									if ce, ok := m.(*ast.CallExpr); ok && f.Render(ce.Fun) == "removeFile" && len(ce.Args) == 1 {
										args = append(args, f.Render(ce.Args[0]))
									}
									return true
								})
								steps = append(steps, "if "+f.Render(is.Cond)+" remove "+strings.Join(args, ", "))
								break
							}
						}
					}
				}
				return false
			})
			if !found {
				e.Missing("loaderSealedCleanup", "branch `info.hasSdocs && info.hasIndex` not found")
			} else {
				e.Strs("loaderSealedCleanup", steps, "loader.load, branch hasSdocs && hasIndex: top-level removals of leftovers")
			}
		}

		// sealed_loader.go: shape of the section loops (probe until the empty separator header)
		if f, err := r.Load("frac/sealed_loader.go"); err != nil {
			e.Missing("loaderLoops", err)
		} else {
			var loops []string
			for _, fn := range []string{"loadIDs", "skipTokens", "loadLIDsBlocksTable"} {
				fd := f.Func("Loader", fn)
				if fd == nil {
					e.Missing("loaderLoops", fn+" not found")
					continue
				}
				ast.Inspect(fd.Body, func(n ast.Node) bool {
					x, ok := n.(*ast.ForStmt)
					if !ok {
						return true
					}
					shape := "for{}"
					if x.Cond != nil || x.Init != nil || x.Post != nil {
						shape = "for " + f.Render(x.Cond)
						if x.Init != nil {
							shape = "for " + f.Render(x.Init) + "; " + f.Render(x.Cond)
						}
					}
					var br []string
					ast.Inspect(x.Body, func(m ast.Node) bool {
						if is, ok := m.(*ast.IfStmt); ok {
							for _, st := range is.Body.List {
								if b, ok := st.(*ast.BranchStmt); ok && b.Tok == token.BREAK {
									br = append(br, f.Render(is.Cond))
								}
							}
						}
						return true
					})
					if strings.Contains(shape, "len(result)") { // the varint loop over the positions block
						return true
					}
					loops = append(loops, fn+": "+shape+" break if "+strings.Join(br, " || "))
					return true
				})
			}
			e.Strs("loaderLoops", loops, "Loader.loadIDs / skipTokens / loadLIDsBlocksTable: loop shapes over the block registry")
		}

		// disk/docs_reader.go: the key under which a doc block is cached
		if f, err := r.Load("disk/docs_reader.go"); err != nil {
			e.Missing("docsCacheKeyExpr", err)
		} else if fd := f.Func("DocsReader", "ReadDocsFunc"); fd == nil {
			e.Missing("docsCacheKeyExpr", "ReadDocsFunc not found")
		} else {
			var keys []string
			ast.Inspect(fd.Body, func(n ast.Node) bool {
				if c, ok := n.(*ast.CallExpr); ok && strings.HasSuffix(f.Render(c.Fun), "cache.GetWithError") && len(c.Args) >= 1 {
					keys = append(keys, f.Render(c.Args[0]))
				}
				return true
			})
			e.Strs("docsCacheKeyExpr", keys, "DocsReader.ReadDocsFunc: cache key of a doc block")
		}

		// sealed_ids.go: the reader's block index function
		if f, err := r.Load("frac/sealed_ids.go"); err != nil {
			e.Missing("idBlockIndexExpr", err)
		} else if fd := f.Func("IDsLoader", "getIDBlockIndexByLID"); fd == nil {
			e.Missing("idBlockIndexExpr", "getIDBlockIndexByLID not found")
		} else {
			var rets []string
			ast.Inspect(fd.Body, func(n ast.Node) bool {
				if x, ok := n.(*ast.ReturnStmt); ok && len(x.Results) == 1 {
					rets = append(rets, f.Render(x.Results[0]))
				}
				return true
			})
			e.Strs("idBlockIndexExpr", rets, "IDsLoader.getIDBlockIndexByLID: returned expression")
		}

		f, err := r.Load("frac/disk_blocks_producer.go")
		if err != nil {
			e.Missing("disk_blocks_producer.go", err)
			return
		}
		// token block generator: how blocksCount and blockSize are computed
		if fd := f.Func("DiskBlocksProducer", "getTokensBlocksGenerator"); fd == nil {
			e.Missing("tokenBlockSizeExpr", "getTokensBlocksGenerator not found")
		} else {
			var bs, bc []string
			ast.Inspect(fd.Body, func(n ast.Node) bool {
				if a, ok := n.(*ast.AssignStmt); ok && a.Tok == token.DEFINE && len(a.Lhs) == 1 {
					switch f.Render(a.Lhs[0]) {
					case "blockSize":
						bs = append(bs, f.Render(a.Rhs[0]))
					case "blocksCount":
						bc = append(bc, f.Render(a.Rhs[0]))
					}
				}
				return true
			})
			e.Strs("tokenBlockSizeExpr", bs, "getTokensBlocksGenerator: blockSize := ...")
			e.Strs("tokenBlocksCountExpr", bc, "getTokensBlocksGenerator: blocksCount := ...")
		}
		// LID block generator: flush conditions and the isLastLID arguments
		if fd := f.Func("DiskBlocksProducer", "getLIDsBlockGenerator"); fd == nil {
			e.Missing("lidGenFlush", "getLIDsBlockGenerator not found")
		} else {
			var flush, rights []string
			ast.Inspect(fd.Body, func(n ast.Node) bool {
				switch x := n.(type) {
				case *ast.IfStmt:
					c := f.Render(x.Cond)
					if x.Init == nil && strings.Contains(c, "blockLIDs") {
						ast.Inspect(x.Body, func(m ast.Node) bool {
							if call, ok := m.(*ast.CallExpr); ok && f.Render(call.Fun) == "newBlockFn" {
								flush = append(flush, c+" => newBlockFn("+f.Render(call.Args[0])+")")
							}
							return true
						})
					}
				case *ast.AssignStmt:
					if x.Tok == token.DEFINE && len(x.Lhs) == 1 && f.Render(x.Lhs[0]) == "right" {
						rights = append(rights, f.Render(x.Rhs[0]))
					}
				}
				return true
			})
			// the block handed to newBlockFn / reassignLIDs (rewritten in place) must be the generator's own buffer
			var reArgs, bufAssigns []string
			ast.Inspect(fd.Body, func(n ast.Node) bool {
				switch x := n.(type) {
				case *ast.CallExpr:
					if f.Render(x.Fun) == "reassignLIDs" && len(x.Args) == 2 {
						reArgs = append(reArgs, f.Render(x.Args[0]))
					}
				case *ast.AssignStmt:
					if len(x.Lhs) == 1 && f.Render(x.Lhs[0]) == "blockLIDs" {
						bufAssigns = append(bufAssigns, f.Render(x.Rhs[0]))
					}
				}
				return true
			})
			e.Strs("lidGenReassignArgs", reArgs, "getLIDsBlockGenerator: first argument of every reassignLIDs call (rewritten in place)")
			e.Strs("lidGenBufferAssigns", bufAssigns, "getLIDsBlockGenerator: every value assigned to blockLIDs")
			e.Strs("lidGenFlush", flush, "getLIDsBlockGenerator: conditions under which a block is pushed, with the isLastLID argument")
			e.Strs("lidGenRight", rights, "getLIDsBlockGenerator: right := ...")
		}
		// lids.Block.GetExtForRegistry and the loader's decoding
		if lf, err := r.Load("frac/lids/block.go"); err != nil {
			e.Missing("lidExtExpr", err)
		} else if fd := lf.Func("Block", "GetExtForRegistry"); fd == nil {
			e.Missing("lidExtExpr", "GetExtForRegistry not found")
		} else {
			var as []string
			ast.Inspect(fd.Body, func(n ast.Node) bool {
				if a, ok := n.(*ast.AssignStmt); ok && len(a.Lhs) == 1 {
					as = append(as, lf.Render(a.Lhs[0])+" = "+lf.Render(a.Rhs[0]))
				}
				return true
			})
			e.Strs("lidExtExpr", as, "lids.Block.GetExtForRegistry: assignments")
		}
		if lf, err := r.Load("frac/sealed_loader.go"); err != nil {
			e.Missing("lidExtLoadExpr", err)
		} else if fd := lf.Func("Loader", "loadLIDsBlocksTable"); fd == nil {
			e.Missing("lidExtLoadExpr", "loadLIDsBlocksTable not found")
		} else {
			var as []string
			ast.Inspect(fd.Body, func(n ast.Node) bool {
				if a, ok := n.(*ast.AssignStmt); ok && len(a.Lhs) == 1 && len(a.Rhs) == 1 {
					if c, ok := a.Rhs[0].(*ast.CallExpr); ok && lf.Render(c.Fun) == "append" && len(c.Args) == 2 {
						as = append(as, lf.Render(a.Lhs[0])+" <- "+lf.Render(c.Args[1]))
					}
				}
				return true
			})
			e.Strs("lidExtLoadExpr", as, "Loader.loadLIDsBlocksTable: appended values")
		}
	}, "consts/consts.go", "disk/docs_reader.go", "seq/doc_pos.go", "frac/active_sealer.go", "frac/sealed_ids.go", "frac/disk_blocks_producer.go", "frac/lids/block.go", "frac/sealed_loader.go")
}
