// Extracted facts for C02 (frac/processor/search.go, eval_tree.go, search_params.go, node/*.go, frac/active_index.go).
package main

import (
	"go/ast"
	"go/token"
	"strings"

	"verifextract/lib"
)

func main() {
	lib.Main("C02", func(r lib.Repo, e *lib.Emitter) {
		// ---- buildEvalTree: operator -> node constructor with its argument order
		if f, err := r.Load("frac/processor/eval_tree.go"); err != nil {
			e.Missing("evalDispatch", err)
		} else if fd := f.Func("", "buildEvalTree"); fd == nil {
			e.Missing("evalDispatch", "buildEvalTree not found")
		} else {
			var table []string
			var leafCases []string
			ast.Inspect(fd.Body, func(n ast.Node) bool {
				cc, ok := n.(*ast.CaseClause)
				if !ok || len(cc.List) == 0 {
					return true
				}
				var label []string
				for _, x := range cc.List {
					label = append(label, f.Render(x))
				}
				for _, s := range cc.Body {
					if ret, ok := s.(*ast.ReturnStmt); ok && len(ret.Results) >= 1 {
						entry := strings.Join(label, ",") + " => " + f.Render(ret.Results[0])
						if strings.HasPrefix(label[0], "parser.Logical") {
							table = append(table, entry)
						} else {
							leafCases = append(leafCases, entry)
						}
					}
				}
				return true
			})
			e.Strs("evalDispatch", table, "buildEvalTree: logical operator => node constructor (source order)")
			e.Strs("evalLeafCases", leafCases, "buildEvalTree: leaf token types => constructor")
			// children are built left to right with the same borders
			var rec []string
			ast.Inspect(fd.Body, func(n ast.Node) bool {
				if c, ok := n.(*ast.CallExpr); ok && f.Render(c.Fun) == "buildEvalTree" {
					rec = append(rec, f.Render(c))
				}
				return true
			})
			e.Strs("evalRecursion", rec, "buildEvalTree: recursive calls")
			if fl := f.Func("", "evalLeaf"); fl == nil {
				e.Missing("evalLeafReturn", "evalLeaf not found")
			} else {
				var rets []string
				for _, s := range fl.Body.List {
					if ret, ok := s.(*ast.ReturnStmt); ok {
						rets = append(rets, f.Render(ret.Results[0]))
					}
				}
				e.Strs("evalLeafReturn", rets, "evalLeaf: final return value")
			}
		}
		// ---- node package: NewNot, BuildORTree/treeFold, LessFn
		if f, err := r.Load("node/node_not.go"); err != nil {
			e.Missing("newNotCalls", err)
		} else if fd := f.Func("", "NewNot"); fd == nil {
			e.Missing("newNotCalls", "NewNot not found")
		} else {
			var calls []string
			ast.Inspect(fd.Body, func(n ast.Node) bool {
				if c, ok := n.(*ast.CallExpr); ok && strings.HasPrefix(f.Render(c.Fun), "New") {
					calls = append(calls, f.Render(c))
				}
				return true
			})
			e.Strs("newNotCalls", calls, "node.NewNot: constructor calls")
		}
		if f, err := r.Load("node/builder.go"); err != nil {
			e.Missing("orTree", err)
		} else {
			var facts []string
			if fd := f.Func("", "BuildORTree"); fd != nil {
				ast.Inspect(fd.Body, func(n ast.Node) bool {
					if c, ok := n.(*ast.CallExpr); ok && f.Render(c.Fun) == "NewOr" {
						facts = append(facts, f.Render(c))
					}
					return true
				})
			}
			if fd := f.Func("", "treeFold"); fd != nil {
				ast.Inspect(fd.Body, func(n ast.Node) bool {
					if a, ok := n.(*ast.AssignStmt); ok && len(a.Lhs) == 1 && f.Render(a.Lhs[0]) == "mid" {
						facts = append(facts, "mid := "+f.Render(a.Rhs[0]))
					}
					if c, ok := n.(*ast.CallExpr); ok && f.Render(c.Fun) == "treeFold" {
						facts = append(facts, f.Render(c))
					}
					return true
				})
			}
			e.Strs("orTree", facts, "node.BuildORTree / treeFold: combining node, split point, recursive calls")
		}
		if f, err := r.Load("node/less_fn.go"); err != nil {
			e.Missing("lessFns", err)
		} else {
			var facts []string
			for _, d := range f.AST.Decls {
				gd, ok := d.(*ast.GenDecl)
				if !ok || gd.Tok != token.VAR {
					continue
				}
				for _, sp := range gd.Specs {
					vs := sp.(*ast.ValueSpec)
					for i, n := range vs.Names {
						if fl, ok := vs.Values[i].(*ast.FuncLit); ok && len(fl.Body.List) == 1 {
							if ret, ok := fl.Body.List[0].(*ast.ReturnStmt); ok {
								facts = append(facts, n.Name+": "+f.Render(ret.Results[0]))
							}
						}
					}
				}
			}
			if fd := f.Func("", "GetLessFn"); fd != nil {
				ast.Inspect(fd.Body, func(n ast.Node) bool {
					if is, ok := n.(*ast.IfStmt); ok {
						for _, s := range is.Body.List {
							if ret, ok := s.(*ast.ReturnStmt); ok {
								facts = append(facts, "if "+f.Render(is.Cond)+" => "+f.Render(ret.Results[0]))
							}
						}
					}
					return true
				})
			}
			e.Strs("lessFns", facts, "node.LessFn: comparison used ascending / descending, selection by `reverse`")
		}
		// ---- search.go: getLIDsBorders, iterateEvalTree, IndexSearch
		f, err := r.Load("frac/processor/search.go")
		if err != nil {
			e.Missing("search.go", err)
			return
		}
		if fd := f.Func("", "getLIDsBorders"); fd == nil {
			e.Missing("bordersFacts", "getLIDsBorders not found")
		} else {
			var facts []string
			ast.Inspect(fd.Body, func(n ast.Node) bool {
				switch x := n.(type) {
				case *ast.AssignStmt:
					if len(x.Lhs) == 1 {
						l := f.Render(x.Lhs[0])
						if l == "from" || l == "to" || l == "minID" || l == "maxID" || l == "minLID" || l == "maxLID" || strings.HasPrefix(l, "minID.") {
							facts = append(facts, l+" "+x.Tok.String()+" "+f.Render(x.Rhs[0]))
						}
					}
				case *ast.IncDecStmt:
					facts = append(facts, f.Render(x.X)+x.Tok.String())
				case *ast.IfStmt:
					facts = append(facts, "if "+f.Render(x.Cond))
				case *ast.ReturnStmt:
					var rs []string
					for _, res := range x.Results {
						rs = append(rs, f.Render(res))
					}
					facts = append(facts, "return "+strings.Join(rs, ", "))
				}
				return true
			})
			e.Strs("bordersFacts", facts, "getLIDsBorders: assignments, conditions and returns in source order")
		}
		if fd := f.Func("", "iterateEvalTree"); fd == nil {
			e.Missing("iterateFacts", "iterateEvalTree not found")
		} else {
			var facts []string
			ast.Inspect(fd.Body, func(n ast.Node) bool {
				switch x := n.(type) {
				case *ast.AssignStmt:
					if len(x.Lhs) == 1 {
						l := f.Render(x.Lhs[0])
						if l == "needMore" || l == "needScanAllRange" || l == "lastID" || l == "ids" || l == "total" || l == "id" {
							facts = append(facts, l+" "+x.Tok.String()+" "+f.Render(x.Rhs[0]))
						}
					}
				case *ast.IncDecStmt:
					if f.Render(x.X) == "total" {
						facts = append(facts, "total"+x.Tok.String())
					}
				case *ast.IfStmt:
					c := f.Render(x.Cond)
					if strings.Contains(c, "needMore") || strings.Contains(c, "lastID") || c == "!has" {
						facts = append(facts, "if "+c)
					}
				case *ast.BranchStmt:
					facts = append(facts, x.Tok.String())
				}
				return true
			})
			e.Strs("iterateFacts", facts, "iterateEvalTree: statements that decide ids / total / loop exit, source order")
		}
		if fd := f.Func("", "IndexSearch"); fd == nil {
			e.Missing("indexSearchFacts", "IndexSearch not found")
		} else {
			var facts []string
			ast.Inspect(fd.Body, func(n ast.Node) bool {
				switch x := n.(type) {
				case *ast.CallExpr:
					fn := f.Render(x.Fun)
					if fn == "getLIDsBorders" || fn == "buildEvalTree" || fn == "iterateEvalTree" || fn == "evalLeaf" {
						facts = append(facts, f.Render(x))
					}
				case *ast.IfStmt:
					if strings.Contains(f.Render(x.Cond), "WithTotal") {
						for _, s := range x.Body.List {
							facts = append(facts, "if "+f.Render(x.Cond)+" { "+f.Render(s)+" }")
						}
					}
				case *ast.KeyValueExpr:
					k := f.Render(x.Key)
					if k == "IDs" || k == "Total" {
						facts = append(facts, k+": "+f.Render(x.Value))
					}
				}
				return true
			})
			e.Strs("indexSearchFacts", facts, "IndexSearch: borders -> tree -> iterate, total zeroed without WithTotal, result fields")
		}
		if fp, err := r.Load("frac/processor/search_params.go"); err != nil {
			e.Missing("scanAllExpr", err)
		} else if fd := fp.Func("SearchParams", "IsScanAllRequest"); fd == nil {
			e.Missing("scanAllExpr", "IsScanAllRequest not found")
		} else if ret, ok := fd.Body.List[0].(*ast.ReturnStmt); ok {
			e.Str("scanAllExpr", fp.Render(ret.Results[0]), "SearchParams.IsScanAllRequest")
		} else {
			e.Missing("scanAllExpr", "unexpected shape")
		}
		// ---- active fraction: window clamp, inverse mapping
		if fa, err := r.Load("frac/active_index.go"); err != nil {
			e.Missing("activeFacts", err)
		} else {
			var facts []string
			if fd := fa.Func("activeDataProvider", "Search"); fd != nil {
				ast.Inspect(fd.Body, func(n ast.Node) bool {
					if a, ok := n.(*ast.AssignStmt); ok && len(a.Lhs) == 1 && strings.HasPrefix(fa.Render(a.Lhs[0]), "params.") {
						facts = append(facts, fa.Render(a.Lhs[0])+" = "+fa.Render(a.Rhs[0]))
					}
					return true
				})
			}
			if fd := fa.Func("", "inverseLIDs"); fd != nil {
				ast.Inspect(fd.Body, func(n ast.Node) bool {
					if is, ok := n.(*ast.IfStmt); ok && is.Init == nil {
						facts = append(facts, "if "+fa.Render(is.Cond))
					}
					return true
				})
			}
			for _, m := range []string{"GetMID", "GetRID"} {
				if fd := fa.Func("activeIDsIndex", m); fd != nil {
					for _, s := range fd.Body.List {
						if a, ok := s.(*ast.AssignStmt); ok {
							facts = append(facts, m+": "+fa.Render(a.Lhs[0])+" := "+fa.Render(a.Rhs[0]))
						}
					}
				}
			}
			e.Strs("activeFacts", facts, "active fraction: window clamp, inverseLIDs filter, Revert in GetMID/GetRID")
		}
		// ---- inverser: the pooled LID -> position table is zeroed before it is filled
		if fi, err := r.Load("frac/inverser.go"); err != nil {
			e.Missing("inverserFacts", err)
		} else {
			var facts []string
			if fd := fi.Func("", "getSlice"); fd != nil {
				for _, c := range fi.Calls(fd.Body) {
					if c == "clear" || strings.HasPrefix(c, "bytespool.") {
						facts = append(facts, "getSlice: "+c)
					}
				}
			}
			if fd := fi.Func("", "newInverser"); fd != nil {
				ast.Inspect(fd.Body, func(n ast.Node) bool {
					switch x := n.(type) {
					case *ast.AssignStmt:
						if len(x.Lhs) >= 1 && (fi.Render(x.Lhs[0]) == "inversion[v]" || strings.Contains(fi.Render(x.Rhs[0]), "getSlice")) {
							facts = append(facts, "newInverser: "+fi.Render(x))
						}
					case *ast.RangeStmt:
						facts = append(facts, "newInverser: range "+fi.Render(x.X))
					}
					return true
				})
			}
			if fd := fi.Func("inverser", "Inverse"); fd != nil {
				ast.Inspect(fd.Body, func(n ast.Node) bool {
					switch x := n.(type) {
					case *ast.IfStmt:
						facts = append(facts, "Inverse: if "+fi.Render(x.Cond))
					case *ast.ReturnStmt:
						var rs []string
						for _, res := range x.Results {
							rs = append(rs, fi.Render(res))
						}
						facts = append(facts, "Inverse: return "+strings.Join(rs, ", "))
					}
					return true
				})
			}
			e.Strs("inverserFacts", facts, "inverser: getSlice takes the table from the pool and clears it; newInverser fills it; Inverse reads it")
		}
		// ---- seq.MergeQPRs: how the merged ids are ordered, and what `Less` on IDSources compares
		if fq, err := r.Load("seq/qpr.go"); err != nil {
			e.Missing("mergeOrderFacts", err)
		} else {
			var facts []string
			if fd := fq.Func("IDSources", "Less"); fd != nil && len(fd.Body.List) == 1 {
				if ret, ok := fd.Body.List[0].(*ast.ReturnStmt); ok {
					facts = append(facts, "IDSources.Less: "+fq.Render(ret.Results[0]))
				}
			}
			if fd := fq.Func("", "MergeQPRs"); fd != nil {
				ast.Inspect(fd.Body, func(n ast.Node) bool {
					is, ok := n.(*ast.IfStmt)
					if !ok || fq.Render(is.Cond) != "order.IsReverse()" {
						return true
					}
					for _, st := range is.Body.List {
						facts = append(facts, "reverse: "+fq.Render(st))
					}
					if el, ok := is.Else.(*ast.BlockStmt); ok {
						for _, st := range el.List {
							facts = append(facts, "regular: "+fq.Render(st))
						}
					}
					return false
				})
			}
			if fs, err := r.Load("seq/seq.go"); err == nil {
				if fd := fs.Func("", "Less"); fd != nil {
					ast.Inspect(fd.Body, func(n ast.Node) bool {
						switch x := n.(type) {
						case *ast.IfStmt:
							facts = append(facts, "seq.Less: if "+fs.Render(x.Cond))
						case *ast.ReturnStmt:
							facts = append(facts, "seq.Less: return "+fs.Render(x.Results[0]))
						}
						return true
					})
				}
			}
			e.Strs("mergeOrderFacts", facts, "seq.MergeQPRs orders the merged ids with sort.Sort over IDSources (ascending) or its sort.Reverse (regular = descending); IDSources.Less is seq.Less on (MID, RID)")
		}
		// ---- proxy: the request sent to the stores
		if fp, err := r.Load("proxy/search/search_request.go"); err != nil {
			e.Missing("apiRequestFields", err)
		} else if fd := fp.Func("SearchRequest", "GetAPISearchRequest"); fd == nil {
			e.Missing("apiRequestFields", "GetAPISearchRequest not found")
		} else {
			var facts []string
			ast.Inspect(fd.Body, func(n ast.Node) bool {
				if kv, ok := n.(*ast.KeyValueExpr); ok {
					k := fp.Render(kv.Key)
					if k == "Size" || k == "Offset" || k == "From" || k == "To" || k == "WithTotal" || k == "Order" {
						facts = append(facts, k+": "+fp.Render(kv.Value))
					}
				}
				return true
			})
			e.Strs("apiRequestFields", facts, "SearchRequest.GetAPISearchRequest: paging, window, total and order fields of the store request")
		}
		if fg, err := r.Load("storeapi/grpc_search.go"); err != nil {
			e.Missing("storeLimitExpr", err)
		} else {
			var facts []string
			ast.Inspect(fg.AST, func(n ast.Node) bool {
				if a, ok := n.(*ast.AssignStmt); ok && len(a.Lhs) == 1 && fg.Render(a.Lhs[0]) == "limit" {
					facts = append(facts, "limit := "+fg.Render(a.Rhs[0]))
				}
				return true
			})
			e.Strs("storeLimitExpr", facts, "storeapi search: the limit a store searches with")
		}
	}, "proxy/search/search_request.go", "storeapi/grpc_search.go", "seq/qpr.go", "seq/seq.go", "frac/inverser.go", "frac/processor/search.go", "frac/processor/eval_tree.go", "frac/processor/search_params.go", "node/node_not.go", "node/builder.go", "node/less_fn.go", "frac/active_index.go")
}
