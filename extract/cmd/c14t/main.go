// Mechanical Go -> Lean translation of the bitmask / distribution arithmetic C14's models rely on (see extract/xlate).
package main

import "verifextract/xlate"

func main() {
	xlate.Main("C14",
		xlate.Spec{Pkg: "util", Recv: "Bitmask", Name: "Get"},
		xlate.Spec{Pkg: "util", Recv: "Bitmask", Name: "HasBitsIn"},
		xlate.Spec{Pkg: "seq", Recv: "MID", Name: "Time"},
		xlate.Spec{Pkg: "seq", Recv: "MIDsDistribution", Name: "size"},
		xlate.Spec{Pkg: "seq", Recv: "MIDsDistribution", Name: "midToIndex"},
		xlate.Spec{Pkg: "seq", Recv: "MIDsDistribution", Name: "IsIntersecting"},
		xlate.Spec{Pkg: "util", Recv: "Bitmask", Name: "Set"},
		xlate.Spec{Pkg: "seq", Recv: "MIDsDistribution", Name: "Add"},
		xlate.Spec{Pkg: "frac", Recv: "Info", Name: "IsIntersecting"},
		// the loop of Info.BuildDistribution (InitEmptyDistribution, which allocates the distribution, is not in the subset)
		xlate.Spec{Pkg: "frac", Recv: "Info", Name: "BuildDistribution", As: "buildLoop", Stmts: []string{"for _, id := range ids"}},
	)
}
