// Extracted facts for C04 (storeapi/docs_stream.go, frac/sealed_index.go, seq/doc_pos.go, conf, consts, fracmanager/fetcher.go).
package main

import (
	"go/ast"
	"go/token"
	"strconv"
	"strings"

	"verifextract/lib"
)

func main() {
	lib.Main("C04", func(r lib.Repo, e *lib.Emitter) {
		for _, c := range []struct{ pkg, name, lean string }{
			{"storeapi", "initChunkSize", "initChunkSize"},
			{"consts", "IDsPerBlock", "idsPerBlock"},
			{"seq", "docOffsetBits", "docOffsetBits"},
		} {
			if v, err := r.ConstInt(c.pkg, c.name); err != nil {
				e.Missing(c.lean, err)
			} else {
				e.Nat(c.lean, uint64(v), c.pkg+"."+c.name)
			}
		}
		// conf.MaxFetchSizeBytes is a package variable with a constant initialiser `N * consts.X`
		if f, err := r.Load("conf/conf.go"); err != nil {
			e.Missing("maxFetchSizeBytes", err)
		} else {
			found := false
			ast.Inspect(f.AST, func(n ast.Node) bool {
				vs, ok := n.(*ast.ValueSpec)
				if !ok {
					return true
				}
				for i, nm := range vs.Names {
					if nm.Name != "MaxFetchSizeBytes" || i >= len(vs.Values) {
						continue
					}
					found = true
					be, ok := vs.Values[i].(*ast.BinaryExpr)
					if !ok || be.Op != token.MUL {
						e.Missing("maxFetchSizeBytes", "initialiser is not N * consts.X: "+f.Render(vs.Values[i]))
						continue
					}
					lit, ok1 := be.X.(*ast.BasicLit)
					sel, ok2 := be.Y.(*ast.SelectorExpr)
					if !ok1 || !ok2 || f.Render(sel.X) != "consts" {
						e.Missing("maxFetchSizeBytes", "initialiser is not N * consts.X: "+f.Render(vs.Values[i]))
						continue
					}
					n, err1 := strconv.ParseUint(lit.Value, 10, 64)
					u, err2 := r.ConstInt("consts", sel.Sel.Name)
					if err1 != nil || err2 != nil {
						e.Missing("maxFetchSizeBytes", "cannot evaluate "+f.Render(vs.Values[i]))
						continue
					}
					e.Nat("maxFetchSizeBytes", n*uint64(u), "conf.MaxFetchSizeBytes (variable, initialiser "+f.Render(vs.Values[i])+")")
				}
				return true
			})
			if !found {
				e.Missing("maxFetchSizeBytes", "conf.MaxFetchSizeBytes not found")
			}
		}
		if v, err := r.ConstUint("seq", "DocPosNotFound"); err != nil {
			e.Missing("docPosNotFound", err)
		} else {
			e.Nat("docPosNotFound", v, "seq.DocPosNotFound")
		}

		// ---- docsStream.calcChunkSize: the statements that compute the result, in source order
		if f, err := r.Load("storeapi/docs_stream.go"); err != nil {
			e.Missing("docs_stream.go", err)
		} else {
			if fd := f.Func("docsStream", "calcChunkSize"); fd == nil {
				e.Missing("calcChunkSizeStmts", "calcChunkSize not found")
			} else {
				var stmts []string
				for _, s := range fd.Body.List {
					switch x := s.(type) {
					case *ast.AssignStmt:
						stmts = append(stmts, f.Render(x))
					case *ast.RangeStmt:
						stmts = append(stmts, "for "+f.Render(x.Value)+" := range "+f.Render(x.X)+" { "+renderBody(f, x.Body)+" }")
					case *ast.IfStmt:
						c := f.Render(x.Cond)
						if strings.Contains(renderBody(f, x.Body), "logger.") { // the debug log does not take part in the result
							continue
						}
						stmts = append(stmts, "if "+c+" { "+renderBody(f, x.Body)+" }")
					case *ast.ReturnStmt:
						stmts = append(stmts, f.Render(x))
					}
				}
				e.Strs("calcChunkSizeStmts", stmts, "docsStream.calcChunkSize: result-relevant statements in source order (debug logging skipped)")
			}
			// batchLoader: the loop condition, the cut, the order fetch -> send -> stop on error -> recompute
			if fd := f.Func("docsStream", "batchLoader"); fd == nil {
				e.Missing("batchLoaderOps", "batchLoader not found")
			} else {
				var ops []string
				ast.Inspect(fd.Body, func(n ast.Node) bool {
					switch x := n.(type) {
					case *ast.ForStmt:
						if x.Cond != nil {
							ops = append(ops, "for "+f.Render(x.Cond))
						}
					case *ast.AssignStmt:
						s := f.Render(x)
						if strings.Contains(s, "chunkSize") || strings.Contains(s, "d.ids") || strings.Contains(s, "FetchDocs") {
							ops = append(ops, s)
						}
					case *ast.CommClause:
						if x.Comm != nil {
							if s := f.Render(x.Comm); strings.Contains(s, "d.out <-") {
								ops = append(ops, s)
							}
						}
					case *ast.IfStmt:
						if c := f.Render(x.Cond); c == "err != nil" {
							ops = append(ops, "if "+c+" { "+renderBody(f, x.Body)+" }")
						}
					}
					return true
				})
				e.Strs("batchLoaderOps", ops, "docsStream.batchLoader: loop condition, chunk cut, fetch, send, stop-on-error, chunk size update, in source order")
			}
		}

		// ---- sealedFetchIndex.findLIDs
		if f, err := r.Load("frac/sealed_index.go"); err != nil {
			e.Missing("sealed_index.go", err)
		} else if fd := f.Func("sealedFetchIndex", "findLIDs"); fd == nil {
			e.Missing("findLIDsOps", "findLIDs not found")
		} else {
			var ops []string
			ast.Inspect(fd.Body, func(n ast.Node) bool {
				switch x := n.(type) {
				case *ast.AssignStmt:
					s := f.Render(x)
					if strings.HasPrefix(s, "left ") || strings.HasPrefix(s, "right ") || strings.HasPrefix(s, "res[i]") {
						ops = append(ops, s)
					}
					if strings.HasPrefix(s, "lid :=") {
						if c, ok := x.Rhs[0].(*ast.CallExpr); ok && len(c.Args) == 1 {
							if b, ok := c.Args[0].(*ast.CallExpr); ok && len(b.Args) == 3 {
								ops = append(ops, "lid := "+f.Render(c.Fun)+"("+f.Render(b.Fun)+"("+f.Render(b.Args[0])+", "+f.Render(b.Args[1])+", "+renderFuncLit(f, b.Args[2])+"))")
								return true
							}
						}
						ops = append(ops, "lid := <unrecognised>")
					}
				case *ast.IfStmt:
					ops = append(ops, "if "+f.Render(x.Cond))
				case *ast.RangeStmt:
					ops = append(ops, "for "+f.Render(x.Key)+", "+f.Render(x.Value)+" := range "+f.Render(x.X))
				}
				return true
			})
			e.Strs("findLIDsOps", ops, "sealedFetchIndex.findLIDs: assignments of left/right/lid/res and conditions, in source order")
		}

		// ---- List.FilterInRange builds a fresh list (the caller's list is shared by all chunks of a fetch stream)
		if f, err := r.Load("fracmanager/list.go"); err != nil {
			e.Missing("list.go", err)
		} else if fd := f.Func("List", "FilterInRange"); fd == nil {
			e.Missing("filterInRangeStmts", "FilterInRange not found")
		} else {
			var stmts []string
			for _, st := range fd.Body.List {
				switch x := st.(type) {
				case *ast.RangeStmt:
					stmts = append(stmts, "for "+f.Render(x.Value)+" := range "+f.Render(x.X)+" { "+renderBody(f, x.Body)+" }")
				default:
					stmts = append(stmts, f.Render(st))
				}
			}
			e.Strs("filterInRangeStmts", stmts, "fracmanager.List.FilterInRange: statements in source order")
		}

		// ---- the range of an active fraction: Filter's min/max recomputation and UpdateStats
		if f, err := r.Load("frac/meta_data_collector.go"); err != nil {
			e.Missing("meta_data_collector.go", err)
		} else if fd := f.Func("metaDataCollector", "Filter"); fd == nil {
			e.Missing("filterMinMaxStmts", "Filter not found")
		} else {
			var stmts []string
			ast.Inspect(fd.Body, func(n ast.Node) bool {
				switch x := n.(type) {
				case *ast.IfStmt:
					if c := f.Render(x.Cond); strings.Contains(c, "MinMID") || strings.Contains(c, "MaxMID") {
						stmts = append(stmts, "if "+c+" { "+renderBody(f, x.Body)+" }")
					}
				case *ast.SwitchStmt:
					if t := f.Render(x); strings.Contains(t, "MinMID") || strings.Contains(t, "MaxMID") {
						stmts = append(stmts, t)
					}
					return false
				}
				return true
			})
			e.Strs("filterMinMaxStmts", stmts, "metaDataCollector.Filter: how MinMID / MaxMID are recomputed per appended id")
		}
		if f, err := r.Load("frac/active.go"); err != nil {
			e.Missing("active.go", err)
		} else if fd := f.Func("Active", "UpdateStats"); fd == nil {
			e.Missing("updateStatsStmts", "UpdateStats not found")
		} else {
			var stmts []string
			ast.Inspect(fd.Body, func(n ast.Node) bool {
				switch x := n.(type) {
				case *ast.IfStmt:
					stmts = append(stmts, "if "+f.Render(x.Cond)+" { "+renderBody(f, x.Body)+" }")
					return false
				case *ast.SwitchStmt:
					stmts = append(stmts, f.Render(x))
					return false
				}
				return true
			})
			e.Strs("updateStatsStmts", stmts, "Active.UpdateStats: how From / To are widened")
		}
		// ---- the pooled fields filter keeps no state between fetches
		if f, err := r.Load("storeapi/grpc_fetch.go"); err != nil {
			e.Missing("grpc_fetch.go", err)
		} else {
			for _, fn := range []struct{ name, lean string }{{"acquireDocFieldsFilter", "acquireFilterStmts"}, {"releaseDocFieldsFilter", "releaseFilterStmts"}} {
				fd := f.Func("", fn.name)
				if fd == nil {
					e.Missing(fn.lean, fn.name+" not found")
					continue
				}
				var stmts []string
				for _, st := range fd.Body.List {
					if is, ok := st.(*ast.IfStmt); ok {
						stmts = append(stmts, "if "+f.Render(is.Cond)+" { "+renderBody(f, is.Body)+" }")
					} else {
						stmts = append(stmts, f.Render(st))
					}
				}
				e.Strs(fn.lean, stmts, "storeapi."+fn.name+": statements")
			}
		}

		// ---- the public Fetch handler: how the textual IDs of the request become seq.IDs, and the ID text it sends back
		if f, err := r.Load("proxyapi/grpc_fetch.go"); err != nil {
			e.Missing("proxyapi/grpc_fetch.go", err)
		} else if fd := f.Func("grpcV1", "Fetch"); fd == nil {
			e.Missing("apiFetchIDLoop", "grpcV1.Fetch not found")
		} else {
			var loop, sent []string
			ast.Inspect(fd.Body, func(n ast.Node) bool {
				switch x := n.(type) {
				case *ast.RangeStmt:
					if f.Render(x.X) == "req.Ids" {
						for _, st := range x.Body.List {
							if is, ok := st.(*ast.IfStmt); ok {
								calls := lib.Filter(f.Calls(is.Body), func(c string) bool { return c == "append" })
								els := ""
								if is.Else != nil {
									els = " else { " + f.Render(is.Else.(*ast.BlockStmt).List[0]) + " }"
								}
								loop = append(loop, "if "+f.Render(is.Cond)+" { appends:"+strings.Join(calls, ",")+" }"+els)
							} else {
								loop = append(loop, f.Render(st))
							}
						}
						return false
					}
				case *ast.KeyValueExpr:
					if f.Render(x.Key) == "Id" {
						sent = append(sent, f.Render(x.Value))
					}
				}
				return true
			})
			e.Strs("apiFetchIDLoop", loop, "grpcV1.Fetch: body of the loop over req.Ids")
			e.Strs("apiFetchSentID", sent, "grpcV1.Fetch: the Id field of every document sent")
		}

		// ---- the ID text of search and export responses
		{
			var texts []string
			for _, src := range []struct{ file, recv, fn string }{{"proxyapi/grpc_v1.go", "", "makeProtoDocs"}, {"proxyapi/grpc_export.go", "grpcV1", "Export"}} {
				f, err := r.Load(src.file)
				if err != nil {
					e.Missing(src.file, err)
					continue
				}
				fd := f.Func(src.recv, src.fn)
				if fd == nil {
					texts = append(texts, src.fn+": not found")
					continue
				}
				ast.Inspect(fd.Body, func(n ast.Node) bool {
					switch x := n.(type) {
					case *ast.AssignStmt:
						if len(x.Lhs) == 1 && strings.HasSuffix(f.Render(x.Lhs[0]), ".Id") {
							texts = append(texts, src.fn+": "+f.Render(x.Rhs[0]))
						}
					case *ast.KeyValueExpr:
						if f.Render(x.Key) == "Id" {
							texts = append(texts, src.fn+": "+f.Render(x.Value))
						}
					}
					return true
				})
			}
			e.Strs("apiResponseIDTexts", texts, "proxyapi: the Id text of every document of a search / export response")
		}

		// ---- processor.IndexFetch: the per-block read and scatter
		if f, err := r.Load("frac/processor/fetch.go"); err != nil {
			e.Missing("processor/fetch.go", err)
		} else if fd := f.Func("", "IndexFetch"); fd == nil {
			e.Missing("indexFetchLoop", "IndexFetch not found")
		} else {
			var stmts []string
			for _, st := range fd.Body.List {
				rs, ok := st.(*ast.RangeStmt)
				if !ok {
					continue
				}
				stmts = append(stmts, "for "+f.Render(rs.Key)+", "+f.Render(rs.Value)+" := range "+f.Render(rs.X))
				for _, b := range rs.Body.List {
					switch x := b.(type) {
					case *ast.IfStmt:
						stmts = append(stmts, "if "+f.Render(x.Cond)+" { "+renderBody(f, x.Body)+" }")
					case *ast.RangeStmt:
						stmts = append(stmts, "for "+f.Render(x.Key)+", "+f.Render(x.Value)+" := range "+f.Render(x.X)+" { "+renderBody(f, x.Body)+" }")
					case *ast.ForStmt:
						stmts = append(stmts, "for "+f.Render(x.Cond)+" { "+renderBody(f, x.Body)+" }")
					default:
						stmts = append(stmts, f.Render(b))
					}
				}
			}
			e.Strs("indexFetchLoop", stmts, "processor.IndexFetch: the loop over the blocks, statements in source order")
		}

		// ---- support code the fetch relies on after a restart: bulks are written under one lock (docs and meta offsets
		// in the same order, which Replay assumes), and the loader removes the leftovers of an interrupted sealing
		if f, err := r.Load("frac/active_writer.go"); err != nil {
			e.Missing("active_writer.go", err)
		} else if fd := f.Func("ActiveWriter", "Write"); fd == nil {
			e.Missing("activeWriterLocks", "ActiveWriter.Write not found")
		} else {
			var locks []string
			ast.Inspect(fd.Body, func(n ast.Node) bool {
				switch x := n.(type) {
				case *ast.DeferStmt:
					if t := f.Render(x); strings.Contains(t, "ock()") {
						locks = append(locks, t)
					}
					return false
				case *ast.ExprStmt:
					if t := f.Render(x); strings.Contains(t, "Lock()") {
						locks = append(locks, t)
					}
				}
				return true
			})
			e.Strs("activeWriterLocks", locks, "ActiveWriter.Write: lock / unlock statements")
		}
		if f, err := r.Load("fracmanager/loader.go"); err != nil {
			e.Missing("loader.go", err)
		} else if fd := f.Func("loader", "load"); fd == nil {
			e.Missing("loaderRemovals", "loader.load not found")
		} else {
			var rm []string
			var walk func(n ast.Node, conds []string)
			walk = func(n ast.Node, conds []string) {
				ast.Inspect(n, func(x ast.Node) bool {
					switch y := x.(type) {
					case *ast.IfStmt:
						c := append(append([]string{}, conds...), f.Render(y.Cond))
						walk(y.Body, c)
						if y.Else != nil {
							walk(y.Else, append(append([]string{}, conds...), "!("+f.Render(y.Cond)+")"))
						}
						return false
					case *ast.CaseClause:
						var cs []string
						for _, c := range y.List {
							cs = append(cs, f.Render(c))
						}
						c := append(append([]string{}, conds...), "case "+strings.Join(cs, ", "))
						for _, st := range y.Body {
							walk(st, c)
						}
						return false
					case *ast.CallExpr:
						if f.Render(y.Fun) == "removeFile" {
							rm = append(rm, strings.Join(conds, " && ")+": "+f.Render(y))
						}
					}
					return true
				})
			}
			walk(fd.Body, nil)
			e.Strs("loaderRemovals", rm, "fracmanager.loader.load: every removeFile call with the conditions it sits under")
		}

		// ---- fracFetch recovers panics into an error (one fraction's panic fails the whole batch)
		if f, err := r.Load("fracmanager/fetcher.go"); err != nil {
			e.Missing("fetcher.go", err)
		} else {
			if fd := f.Func("", "fracFetch"); fd == nil {
				e.Missing("fracFetchRecovers", "fracFetch not found")
			} else {
				rec := false
				ast.Inspect(fd.Body, func(n ast.Node) bool {
					if d, ok := n.(*ast.DeferStmt); ok && strings.Contains(f.Render(d), "recover()") {
						rec = true
					}
					return true
				})
				e.Bool("fracFetchRecovers", rec, "fracmanager.fracFetch defers a recover() that turns a panic into the batch error")
			}
			// sortIDs: works on a copy, the range comes from the ends of the SORTED list
			if fd := f.Func("", "sortIDs"); fd == nil {
				e.Missing("sortIDsStmts", "sortIDs not found")
			} else {
				var stmts []string
				ast.Inspect(fd.Body, func(n ast.Node) bool {
					switch x := n.(type) {
					case *ast.AssignStmt:
						stmts = append(stmts, f.Render(x))
					case *ast.IfStmt:
						stmts = append(stmts, "if "+f.Render(x.Cond))
					case *ast.ExprStmt:
						stmts = append(stmts, f.Render(x))
					case *ast.ReturnStmt:
						stmts = append(stmts, f.Render(x))
					}
					return true
				})
				e.Strs("sortIDsStmts", stmts, "fracmanager.sortIDs: statements in source order")
			}
			// groupIDsByFraction: where the candidate list comes from and which list elements it overwrites
			if fd := f.Func("", "groupIDsByFraction"); fd == nil {
				e.Missing("groupIDsListWrites", "groupIDsByFraction not found")
			} else {
				var ws []string
				ast.Inspect(fd.Body, func(n ast.Node) bool {
					if a, ok := n.(*ast.AssignStmt); ok {
						s := f.Render(a)
						if strings.Contains(s, "FilterInRange") {
							ws = append(ws, s)
						}
						for _, l := range a.Lhs {
							if ix, ok := l.(*ast.IndexExpr); ok {
								if t := f.Render(ix.X); t == "fracsOut" || t == "fracsIn" {
									ws = append(ws, s)
								}
							}
						}
					}
					if r, ok := n.(*ast.ReturnStmt); ok {
						ws = append(ws, f.Render(r))
					}
					return true
				})
				e.Strs("groupIDsListWrites", ws, "fracmanager.groupIDsByFraction: origin of the candidate list, writes into fraction lists, return")
			}
			if fd := f.Func("Fetcher", "FetchDocs"); fd == nil {
				e.Missing("fetchDocsCalls", "FetchDocs not found")
			} else {
				calls := lib.Filter(f.Calls(fd.Body), func(s string) bool {
					return s == "groupIDsByFraction" || s == "f.fetchDocsAsync" || s == "make"
				})
				e.Strs("fetchDocsCalls", calls, "Fetcher.FetchDocs: reversPos map, grouping, per-fraction fetch, result slice - call order")
			}
		}
	}, "storeapi/docs_stream.go", "frac/sealed_index.go", "fracmanager/fetcher.go", "fracmanager/list.go", "frac/meta_data_collector.go", "frac/active.go", "frac/active_writer.go", "fracmanager/loader.go", "frac/processor/fetch.go", "storeapi/grpc_fetch.go", "seq/doc_pos.go", "conf/conf.go", "consts/consts.go")
}

func renderBody(f *lib.File, b *ast.BlockStmt) string {
	var ss []string
	for _, s := range b.List {
		ss = append(ss, f.Render(s))
	}
	return strings.Join(ss, "; ")
}

func renderFuncLit(f *lib.File, e ast.Expr) string {
	if fl, ok := e.(*ast.FuncLit); ok {
		return "func { " + renderBody(f, fl.Body) + " }"
	}
	return f.Render(e)
}
