package xlate

import (
	"flag"
	"os"
	"os/exec"
	"path/filepath"
	"strings"
	"testing"
)

var update = flag.Bool("update", false, "rewrite the golden files")

func golden(t *testing.T, name, got string) {
	t.Helper()
	path := filepath.Join("testdata", "golden", name+".lean")
	if *update {
		os.MkdirAll(filepath.Dir(path), 0o755)
		if err := os.WriteFile(path, []byte(got), 0o644); err != nil {
			t.Fatal(err)
		}
		return
	}
	want, err := os.ReadFile(path)
	if err != nil {
		t.Fatalf("%v (run go test -update)", err)
	}
	if got != string(want) {
		t.Errorf("%s: translation differs from the golden file\n--- got\n%s\n--- want\n%s", name, got, want)
	}
}

func root(t *testing.T) string {
	r, err := filepath.Abs(filepath.Join("testdata", "m"))
	if err != nil {
		t.Fatal(err)
	}
	return r
}

// Every sample of the fragment translates to the golden Lean text (the goldens are compiled by Lean in
// TestGoldenCompiles when a toolchain is available).
func TestGolden(t *testing.T) {
	for _, c := range []struct {
		name  string
		specs []Spec
	}{
		{"pack", []Spec{{Pkg: "p", Name: "Pack"}, {Pkg: "p", Recv: "Pos", Name: "Unpack"}}},
		{"avg", []Spec{{Pkg: "p", Name: "Twice"}}}, // pulls in Avg
		{"sum", []Spec{{Pkg: "p", Name: "Sum"}}},
		{"find", []Spec{{Pkg: "p", Name: "Find"}}},
		{"index", []Spec{{Pkg: "p", Recv: "Window", Name: "Index"}}},
		{"page", []Spec{{Pkg: "p", Name: "Page"}}},
		{"slice", []Spec{{Pkg: "p", Name: "Big", As: "bucketOf", Stmts: []string{"bucket := mid", "bucket -= bucket %"}}}},
		{"le", []Spec{{Pkg: "p", Name: "Hdr"}, {Pkg: "p", Name: "Touch"}}}, // pulls in SetHdr
		{"search", []Spec{{Pkg: "p", Name: "Lower"}, {Pkg: "p", Name: "Apply"}}},
		{"pair", []Spec{{Pkg: "p", Name: "UsePair"}}}, // pulls in MkPair
		{"gas", []Spec{{Pkg: "p", Name: "Halvings"}}},
		{"short", []Spec{{Pkg: "p", Name: "Short"}}},
		{"oracle", []Spec{{Pkg: "p", Name: "Scan", Oracles: []string{"Src.Len", "Src.At"}}}},
		{"switch", []Spec{{Pkg: "p", Name: "Class"}}},
		{"table", []Spec{{Pkg: "p", Name: "initTable"}}},
		{"compact", []Spec{{Pkg: "p", Name: "Compact"}}},
		{"field", []Spec{{Pkg: "p", Recv: "Acc", Name: "Sub"},
			{Pkg: "p", Name: "Settle", As: "settled", Stmts: []string{"if a.Total > 0"}, Result: "a.Total"}}},
		{"oracle2", []Spec{{Pkg: "p", Name: "First", Oracles: []string{"utf8.DecodeRuneInString"}}}},
		{"arm", []Spec{{Pkg: "p", Name: "Route", As: "routeArm", Stmts: []string{"switch code"}},
			{Pkg: "p", Name: "Route", As: "routeSeen", Stmts: []string{"if err != nil"}, Result: "seen"}}},
		{"cond", []Spec{{Pkg: "p", Name: "Avg", As: "avgGuard", Stmts: []string{"if total == 0"}}}},
	} {
		text, missing := Generate(root(t), "X", c.specs)
		if len(missing) > 0 {
			t.Errorf("%s: not translated: %v", c.name, missing)
		}
		golden(t, c.name, text)
	}
}

// Anything outside the fragment is refused with a reason and nothing is emitted for it.
func TestRefused(t *testing.T) {
	for name, why := range map[string]string{
		"Float": "type",
		"Map":   "non-slice",
		"Spawn": "statement",
		"Runes": "decodes runes",
		"Rec":   "recursion",
		"Scan":  "no source", // an interface method, unless named as an oracle
	} {
		text, missing := Generate(root(t), "X", []Spec{{Pkg: "p", Name: name}})
		if len(missing) != 1 || !strings.Contains(missing[0], why) {
			t.Errorf("%s: want one refusal mentioning %q, got %v", name, why, missing)
		}
		if strings.Contains(text, "def "+name) {
			t.Errorf("%s: a definition was emitted for a refused function:\n%s", name, text)
		}
	}
	if _, missing := Generate(root(t), "X", []Spec{{Pkg: "p", Name: "Big", As: "b", Stmts: []string{"bucket"}}}); len(missing) != 1 {
		t.Errorf("an ambiguous statement pattern must be refused, got %v", missing)
	}
	if _, missing := Generate(root(t), "X", []Spec{{Pkg: "p", Name: "Settle", As: "b", Stmts: []string{"if a.Total > 0", "a.Total -= n"}, Result: "a.Total"}}); len(missing) != 1 {
		t.Errorf("a selected statement inside another selected statement must be refused, got %v", missing)
	}
	if _, missing := Generate(root(t), "X", []Spec{{Pkg: "p", Name: "Nope"}}); len(missing) != 1 {
		t.Errorf("a missing function must be reported, got %v", missing)
	}
}

// Renaming a local changes names only: after mapping the names back the text is identical.
func TestAlphaRenaming(t *testing.T) {
	src, err := os.ReadFile(filepath.Join(root(t), "p", "p.go"))
	if err != nil {
		t.Fatal(err)
	}
	dir := t.TempDir()
	for _, f := range []string{"go.mod", "q/q.go"} {
		b, _ := os.ReadFile(filepath.Join(root(t), f))
		os.MkdirAll(filepath.Dir(filepath.Join(dir, f)), 0o755)
		os.WriteFile(filepath.Join(dir, f), b, 0o644)
	}
	os.MkdirAll(filepath.Join(dir, "p"), 0o755)
	renamed := strings.NewReplacer("s := 0", "acc := 0", "s += i", "acc += i", "return s", "return acc").Replace(string(src))
	os.WriteFile(filepath.Join(dir, "p", "p.go"), []byte(renamed), 0o644)
	a, _ := Generate(root(t), "X", []Spec{{Pkg: "p", Name: "Sum"}})
	b, missing := Generate(dir, "X", []Spec{{Pkg: "p", Name: "Sum"}})
	if len(missing) > 0 {
		t.Fatal(missing)
	}
	if a == b || strings.NewReplacer("acc", "s").Replace(b) != a {
		t.Errorf("renaming a local must change the names and nothing else\n%s\n%s", a, b)
	}
}

// The golden files are accepted by Lean (skipped when the Lean project or toolchain is not around).
func TestGoldenCompiles(t *testing.T) {
	leanDir, _ := filepath.Abs(filepath.Join("..", "..", "lean"))
	if _, err := os.Stat(filepath.Join(leanDir, ".lake", "build", "lib", "lean", "SeqVerif", "Base", "GoInt.olean")); err != nil {
		t.Skip("SeqVerif.Base.GoInt is not built")
	}
	if _, err := exec.LookPath("lake"); err != nil {
		t.Skip("no lake")
	}
	files, _ := filepath.Glob(filepath.Join("testdata", "golden", "*.lean"))
	for _, f := range files {
		abs, _ := filepath.Abs(f)
		cmd := exec.Command("lake", "env", "lean", abs)
		cmd.Dir = leanDir
		if out, err := cmd.CombinedOutput(); err != nil || strings.Contains(string(out), "error") {
			t.Errorf("%s: %v\n%s", f, err, out)
		}
	}
}
