package p

import (
	"bytes"
	"encoding/binary"
	"fmt"
	"sort"
	"time"
	"unicode/utf8"

	"example.com/m/q"
)

const offBits = 30
const offMask = 1<<offBits - 1

type Pos uint64

// Pack: shift, or, wrap-around add, explicit panic.
func Pack(block uint32, off uint64) Pos {
	if off > offMask {
		panic("offset too big")
	}
	return Pos(block)<<offBits | Pos(off) + 1
}

// Unpack: two results, mask, narrowing conversion.
func (p Pos) Unpack() (uint32, uint64) {
	p--
	return uint32(p >> offBits), uint64(p & offMask)
}

// Avg: division by a variable (can panic), signed arithmetic, min/max, constant of another package.
func Avg(total, n int) int {
	if total == 0 {
		return 0
	} else if n < 0 {
		return -1
	}
	return max(1, min(total/n, q.Block))
}

// Sum: counting loop with an accumulator and a local that is reassigned.
func Sum(a, b int) int {
	s := 0
	for i := a; i < b; i++ {
		if i%2 == 0 {
			continue
		}
		s += i
	}
	return s
}

// Find: range loop with early return, len of a slice parameter, index expression.
func Find(xs []uint16, want uint16) int {
	if len(xs) > 0 {
		if xs[0] == want {
			return 0
		}
	}
	n := 0
	for _, x := range xs {
		if x == want {
			return n
		}
		n++
	}
	return -1
}

type Window struct {
	from, to time.Time
	step     time.Duration
	mask     q.Mask
}

// Index: struct receiver flattened to the fields read, time intrinsics, method of a nested struct field,
// package-level variable of another package.
func (w *Window) Index(t time.Time) int {
	if t.Before(w.from) {
		return 0
	}
	if t.After(w.to) {
		return w.mask.Size() - 1
	}
	return int(t.Sub(w.from)/w.step) + q.Limit
}

// Twice calls another translated function that can panic.
func Twice(total, n int) int { return 2 * Avg(total, n) }

// Page: slicing of a slice whose elements are opaque to the translator.
func Page(ids []fmt.Stringer, off int) []fmt.Stringer {
	if len(ids) > off {
		return ids[off:]
	}
	return ids[:0]
}

// Big has a statement slice worth translating on its own (see TestSlice).
func Big(m map[string]int, mid uint64, interval int64) uint64 {
	m["x"]++
	bucket := mid
	bucket -= bucket % uint64(interval)
	return bucket
}

// Hdr / SetHdr: little-endian field of a byte slice; the write is returned as the new slice.
func Hdr(b []byte) uint32 { return binary.LittleEndian.Uint32(b[4:]) }

func SetHdr(b []byte, v uint32) { binary.LittleEndian.PutUint32(b[4:], v) }

// Touch calls a function that writes to its slice parameter, then writes an element itself.
func Touch(b []byte, v uint32) byte {
	SetHdr(b, v)
	b[0] |= 1
	return b[0]
}

// Lower: sort.Search with a function literal that can panic.
func Lower(xs []uint32, x uint32) int {
	return sort.Search(len(xs), func(i int) bool { return xs[i] >= x })
}

// Apply: a callback parameter.
func Apply(f func(int) bool, x int) bool { return f(x + 1) }

// Pair: a struct built field by field and returned by value (a tuple); UsePair reads it back.
type Pair struct{ A, B int }

func MkPair(a int) Pair {
	p := Pair{A: a}
	p.B = a * 2
	return p
}

func UsePair(a int) int {
	p := MkPair(a)
	return p.A + p.B
}

// Halvings: a `for cond {}` loop (bounded by the gas parameter) nested in a range loop with an index.
func Halvings(xs []int) int {
	s := 0
	for i, x := range xs {
		for x > 0 {
			x /= 2
			s++
		}
		s += i
	}
	return s
}

// Short: the right operand of && can panic, so it is evaluated only when the left one holds.
func Short(xs []int) bool { return len(xs) > 0 && xs[0] == 1 }

// Scan: methods of an interface stay uninterpreted (oracles); the struct they return is opaque, read by accessors.
type Item struct{ K uint64 }

type Src interface {
	Len() int
	At(i int) Item
}

func Scan(s Src, i int) uint64 {
	if i < s.Len() {
		return s.At(i).K
	}
	return 0
}

// Class: switch on a byte, with and without a tag; string constants and comparisons (a string is its bytes).
func Class(c byte, s string) int {
	switch c {
	case 'a', 'b':
		return 1
	case '_':
		if s == "x" {
			return 5
		}
	default:
		return 0
	}
	switch {
	case len(s) > 3 && s[0] == '#':
		return 2
	}
	return 3
}

// table is a package-level array: a parameter of the translated function, returned when it is written.
var table [4]bool

func initTable() {
	for i := 1; i < 3; i++ {
		table[i] = true
	}
}

// Compact: a range loop whose body writes the slice it ranges over (in-place filter), append and 3-argument make.
func Compact(xs []int) ([]int, []int) {
	dropped := make([]int, 0, len(xs))
	k := 0
	for _, x := range xs {
		if x < 0 {
			dropped = append(dropped, x)
			continue
		}
		xs[k] = x
		k++
	}
	return xs[:k], dropped
}

// Acc: a field of a struct parameter is updated (returned after the results); Settle is sliced with a Result.
type Acc struct{ Total uint64 }

func (a *Acc) Sub(n uint64) {
	if a.Total > 0 {
		a.Total -= n
	}
}

func Settle(a *Acc, n uint64, log func(string)) {
	log("settle")
	if a.Total > 0 {
		a.Total -= n
	}
	log("done")
}

// First: an oracle with two results.
func First(s string) int {
	r, size := utf8.DecodeRuneInString(s)
	if r == utf8.RuneError {
		return -1
	}
	return size
}

// Route: a selected `switch` stands for the number of the arm taken; nil tests on an interface value and on a slice
// become parameters; bytes.Equal / bytes.Compare have a fixed meaning.
func Route(code int, err error, seen []bool, a, b []byte) error {
	switch code {
	case 1, 2:
		return err
	case 7:
		return nil
	}
	n := 0
	if err != nil {
		n++
	} else if seen != nil {
		seen[0] = bytes.Equal(a, b) || bytes.Compare(a, b) > 0
	}
	if n > 0 {
		return err
	}
	return nil
}

// the following are outside the fragment

func Float(x float64) int { return int(x * 2) }

func Map(m map[string]int) int { return m["a"] }

func Runes(s string) int {
	n := 0
	for range s {
		n++
	}
	return n
}

func Spawn(n int) int {
	go Rec(n)
	return n
}

func Rec(n int) int {
	if n <= 0 {
		return 0
	}
	return Rec(n-1) + 1
}
