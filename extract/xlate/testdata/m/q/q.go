package q

const Block = 1 << 14

var Limit = 4 * Block

type Mask struct {
	size int
	bin  []byte
}

func (m *Mask) Size() int { return m.size }
