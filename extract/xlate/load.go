// Package xlate: a small mechanical Go -> Lean 4 translator for structured integer / boolean functions.
//
// load.go type-checks packages of the repository from source with go/types, leniently: packages outside the module
// are replaced by empty ones (expressions that mention them get an invalid type and are refused by the
// translator), `time` and `math` by the few declarations the translated fragment uses.
package xlate

import (
	"fmt"
	"go/ast"
	"go/build"
	"go/parser"
	"go/token"
	"go/types"
	"os"
	"path"
	"path/filepath"
	"sort"
	"strings"
)

// fakeStd: the only standard-library declarations the fragment knows (their Lean meaning is in Base/GoInt.lean).
var fakeStd = map[string]string{
	"time": `package time
type Duration int64
const (
	Nanosecond  Duration = 1
	Microsecond          = 1000 * Nanosecond
	Millisecond          = 1000 * Microsecond
	Second               = 1000 * Millisecond
	Minute               = 60 * Second
	Hour                 = 60 * Minute
)
type Time struct{ opaque int }
func UnixMilli(ms int64) Time
func (t Time) UTC() Time
func (t Time) Sub(u Time) Duration
func (t Time) Before(u Time) bool
func (t Time) After(u Time) bool
func (t Time) UnixNano() int64
func (t Time) UnixMilli() int64
func (t Time) Add(d Duration) Time
`,
	"strings": `package strings
func EqualFold(s, t string) bool
func ToLower(s string) string
func HasPrefix(s, prefix string) bool
`,
	"unicode": `package unicode
func IsLetter(r rune) bool
func IsDigit(r rune) bool
func IsNumber(r rune) bool
func IsSpace(r rune) bool
`,
	"unicode/utf8": `package utf8
const (
	RuneSelf  = 0x80
	RuneError = 0xFFFD
	UTFMax    = 4
)
func DecodeRune(p []byte) (rune, int)
func DecodeRuneInString(s string) (rune, int)
func Valid(p []byte) bool
func RuneLen(r rune) int
`,
	"bytes": `package bytes
func Equal(a, b []byte) bool
func Compare(a, b []byte) int
`,
	"context": `package context
type Context interface{ Err() error }
`,
	"sync": `package sync
type Mutex struct{ state int }
func (m *Mutex) Lock()
func (m *Mutex) Unlock()
type RWMutex struct{ state int }
func (m *RWMutex) Lock()
func (m *RWMutex) Unlock()
func (m *RWMutex) RLock()
func (m *RWMutex) RUnlock()
`,
	"go.uber.org/atomic": `package atomic
type Uint64 struct{ v uint64 }
func (x *Uint64) Load() uint64
type Int64 struct{ v int64 }
func (x *Int64) Load() int64
type Bool struct{ v uint32 }
func (x *Bool) Load() bool
`,
	"sync/atomic": `package atomic
type Uint64 struct{ v uint64 }
func (x *Uint64) Load() uint64
type Int64 struct{ v int64 }
func (x *Int64) Load() int64
type Bool struct{ v uint32 }
func (x *Bool) Load() bool
`,
	"sort": `package sort
func Search(n int, f func(int) bool) int
`,
	"encoding/binary": `package binary
type littleEndian struct{}
var LittleEndian littleEndian
func (littleEndian) Uint16(b []byte) uint16
func (littleEndian) Uint32(b []byte) uint32
func (littleEndian) Uint64(b []byte) uint64
func (littleEndian) PutUint16(b []byte, v uint16)
func (littleEndian) PutUint32(b []byte, v uint32)
func (littleEndian) PutUint64(b []byte, v uint64)
`,
	"math": `package math
const (
	MaxInt8 = 1<<7 - 1; MinInt8 = -1 << 7; MaxInt16 = 1<<15 - 1; MinInt16 = -1 << 15
	MaxInt32 = 1<<31 - 1; MinInt32 = -1 << 31; MaxInt64 = 1<<63 - 1; MinInt64 = -1 << 63
	MaxInt = MaxInt64; MinInt = MinInt64
	MaxUint8 = 1<<8 - 1; MaxUint16 = 1<<16 - 1; MaxUint32 = 1<<32 - 1; MaxUint64 = 1<<64 - 1; MaxUint = MaxUint64
)
`,
}

type pkgInfo struct {
	pkg   *types.Package
	files []*ast.File
	info  *types.Info
}

// Loader type-checks repository packages on demand; it is the types.Importer of its own checks.
type Loader struct {
	Root   string
	Module string
	Fset   *token.FileSet
	pkgs   map[string]*pkgInfo
}

func NewLoader(root string) *Loader {
	l := &Loader{Root: root, Module: "github.com/ozontech/seq-db", Fset: token.NewFileSet(), pkgs: map[string]*pkgInfo{}}
	if b, err := os.ReadFile(filepath.Join(root, "go.mod")); err == nil {
		for _, ln := range strings.Split(string(b), "\n") {
			if f := strings.Fields(ln); len(f) == 2 && f[0] == "module" {
				l.Module = f[1]
			}
		}
	}
	return l
}

func (l *Loader) Import(p string) (*types.Package, error) {
	if p == "unsafe" {
		return types.Unsafe, nil
	}
	pi, err := l.load(p)
	if err != nil {
		return nil, err
	}
	return pi.pkg, nil
}

// Load returns the checked package in directory rel of the repository.
func (l *Loader) Load(rel string) (*pkgInfo, error) { return l.load(path.Join(l.Module, rel)) }

func (l *Loader) load(ip string) (*pkgInfo, error) {
	if pi, ok := l.pkgs[ip]; ok {
		if pi == nil {
			return nil, fmt.Errorf("import cycle through %s", ip)
		}
		return pi, nil
	}
	l.pkgs[ip] = nil
	var files []*ast.File
	switch {
	case fakeStd[ip] != "":
		f, err := parser.ParseFile(l.Fset, ip+".go", fakeStd[ip], 0)
		if err != nil {
			return nil, err
		}
		files = []*ast.File{f}
	case ip == l.Module || strings.HasPrefix(ip, l.Module+"/"):
		dir := filepath.Join(l.Root, strings.TrimPrefix(strings.TrimPrefix(ip, l.Module), "/"))
		ents, err := os.ReadDir(dir)
		if err != nil {
			return nil, err
		}
		var names []string
		for _, e := range ents {
			n := e.Name()
			if e.IsDir() || !strings.HasSuffix(n, ".go") || strings.HasSuffix(n, "_test.go") {
				continue
			}
			if ok, _ := build.Default.MatchFile(dir, n); ok { // drops files behind build tags (e.g. `verif`)
				names = append(names, n)
			}
		}
		sort.Strings(names)
		for _, n := range names {
			f, err := parser.ParseFile(l.Fset, filepath.Join(dir, n), nil, parser.ParseComments)
			if err != nil {
				return nil, err
			}
			files = append(files, f)
		}
		if len(files) == 0 {
			return nil, fmt.Errorf("no Go files in %s", dir)
		}
	default: // outside the module: an empty package
		p := types.NewPackage(ip, path.Base(ip))
		p.MarkComplete()
		pi := &pkgInfo{pkg: p, info: &types.Info{}}
		l.pkgs[ip] = pi
		return pi, nil
	}
	info := &types.Info{
		Types: map[ast.Expr]types.TypeAndValue{}, Defs: map[*ast.Ident]types.Object{},
		Uses: map[*ast.Ident]types.Object{}, Selections: map[*ast.SelectorExpr]*types.Selection{},
	}
	conf := types.Config{Importer: l, Error: func(error) {}, FakeImportC: true}
	pkg, _ := conf.Check(ip, l.Fset, files, info) // errors (unknown members of empty packages) are expected
	pi := &pkgInfo{pkg: pkg, files: files, info: info}
	l.pkgs[ip] = pi
	return pi, nil
}

// decl finds the declaration of fn and the package it lives in.
func (l *Loader) decl(fn *types.Func) (*pkgInfo, *ast.FuncDecl) {
	if fn.Pkg() == nil {
		return nil, nil
	}
	pi := l.pkgs[fn.Pkg().Path()]
	if pi == nil {
		return nil, nil
	}
	for _, f := range pi.files {
		for _, d := range f.Decls {
			if fd, ok := d.(*ast.FuncDecl); ok && pi.info.Defs[fd.Name] == fn {
				return pi, fd
			}
		}
	}
	return pi, nil
}

// lookup finds a function (recv == "") or a method of the named type recv in package directory rel.
func (l *Loader) lookup(rel, recv, name string) (*types.Func, error) {
	pi, err := l.Load(rel)
	if err != nil {
		return nil, err
	}
	for _, f := range pi.files {
		for _, d := range f.Decls {
			fd, ok := d.(*ast.FuncDecl)
			if !ok || fd.Name.Name != name {
				continue
			}
			fn, _ := pi.info.Defs[fd.Name].(*types.Func)
			if fn == nil {
				continue
			}
			r := fn.Type().(*types.Signature).Recv()
			if recv == "" && r == nil {
				return fn, nil
			}
			if recv != "" && r != nil {
				t := r.Type()
				if p, ok := t.(*types.Pointer); ok {
					t = p.Elem()
				}
				if n, ok := t.(*types.Named); ok && n.Obj().Name() == recv {
					return fn, nil
				}
			}
		}
	}
	return nil, fmt.Errorf("function %s.%s not found in %s", recv, name, rel)
}
