package xlate

// The translator proper (continued in xlate2.go: conditions that can panic, writes to slices, loops, function
// literals, sort.Search, LittleEndian; xlate3.go: struct values, accessors, oracles).  Fragment: parameters / locals
// of integer, bool, time.Time (an Int of nanoseconds) and slice type (a List); struct parameters flattened to the
// fields that are read; struct locals built by composite literals kept field by field, struct results returned as
// tuples, any other struct value opaque (type variable + accessor parameters); package-level variables, callbacks
// `func(int..) bool|int` and the calls named in Unit.Oracles as extra parameters; + - * / % << >> & | ^ with the wrap
// of the declared width, comparisons, && || ! (a right operand that can panic is evaluated only when Go evaluates it),
// conversions, len, min, max, make, indexing and slicing (panic = none), xs[i] = v and PutUintN (the written slice is
// returned after the results), if / else, early return; counting `for` loops and range loops (structurally recursive
// functions that contain the rest of the function; a loop nested in a loop returns the variables it assigns), other
// `for cond {}` loops bounded by a leading `gas : Nat` parameter (none when it runs out); calls to other translatable
// functions (translated first).  A function that can panic returns `Option T`.  Statements are translated in
// continuation-passing style: the code after an `if` is placed under both branches, so no join points appear in the
// output.  Anything else is refused with an error - never guessed.

import (
	"fmt"
	"go/ast"
	"go/constant"
	"go/printer"
	"go/token"
	"go/types"
	"math/big"
	"sort"
	"strings"
)

type kind int

const (
	kBad kind = iota
	kInt
	kBool
	kTime
	kList
	kStruct
	kOpaque
	kFunc
)

type ty struct {
	k      kind
	bits   int
	signed bool
	elem   *ty
	st     *types.Struct
	src    types.Type
	args   []ty // kFunc: parameter types; elem = result type
	str    bool // kList: a Go string
}

type lparam struct {
	name, ltype string
	src         int    // index of the Go parameter (receiver first), -1 for a package-level variable
	path        string // "f.g" for a field of a struct parameter
	glob        *types.Var
	order       []int
	accRoot     types.Type // accessor of an opaque struct value (src == -3): struct type, field path, field type
	accPath     []string
	accTy       ty
}

// Sig describes a translated function.
type Sig struct {
	Name      string
	Params    []lparam
	TVars     []string
	Res       string        // Lean result type without the Option
	Opt       bool          // can panic (or run out of gas)
	NRes      int           // declared results followed by the mutated slice parameters
	NDecl     int           // declared results
	Muts      []int         // indices (into Params) of slice parameters the function writes to: returned after the results
	StructRes *types.Struct // the single result is a struct: the Lean result is the tuple of its fields
	Fuel      bool          // has a leading `gas : Nat` parameter bounding its `for cond {}` loops (none when it runs out)
}

func (s *Sig) resType() string {
	if s.Opt {
		return "Option " + paren(s.Res)
	}
	return s.Res
}

type Unit struct {
	L       *Loader
	Ignore  []string // callees whose call statements have no effect on results (logging)
	Panics  []string // callees that never return
	Oracles []string // calls (`Recv.Method`, `pkg.Func`) translated as uninterpreted pure functions (extra parameters)
	sigs    map[*types.Func]*Sig
	out     []string
	names   map[string]bool
}

func New(root string) *Unit {
	return &Unit{L: NewLoader(root), sigs: map[*types.Func]*Sig{}, names: map[string]bool{},
		Ignore: []string{"logger.Debug", "logger.Info", "logger.Warn", "logger.Error"},
		Panics: []string{"panic", "logger.Panic", "logger.Fatal"}}
}

// Func translates pkgRel.(recv.)name and everything it calls; the definitions are appended to the unit.
func (u *Unit) Func(pkgRel, recv, name string) (sig *Sig, err error) {
	defer func() {
		if r := recover(); r != nil {
			if xe, ok := r.(xerr); ok {
				sig, err = nil, xe
				return
			}
			panic(r)
		}
	}()
	fn, err := u.L.lookup(pkgRel, recv, name)
	if err != nil {
		return nil, err
	}
	return u.translate(fn), nil
}

// Lean returns the definitions translated so far.
func (u *Unit) Lean() string { return strings.Join(u.out, "\n") }

type xerr struct{ msg string }

func (e xerr) Error() string { return e.msg }

type lvar struct {
	obj   types.Object
	name  string
	ltype string
}

type fn struct {
	u          *Unit
	pi         *pkgInfo
	obj        *types.Func
	sig        *Sig
	names      map[types.Object]string
	used       map[string]bool
	scope      []lvar
	structs    map[types.Object]int // struct-typed Go parameters -> index
	params     map[string]*lparam   // discovered struct paths and globals, by Lean name
	tvars      map[string]string
	pre        []string
	opt        bool
	panics     bool
	nloop      int
	ntmp       int
	aux        []string
	brk        func() string
	cont       func() string
	muts       map[string]bool // parameters (Lean names) written through: xs[i] = v, PutUint*, mutator calls
	needGas    bool
	closure    int  // > 0 while translating a function literal
	depth      int  // loop nesting depth
	hasReturn  bool // a return statement was translated inside the innermost loop body
	foreign    map[types.Object]bool
	flat       map[types.Object][]flatField // struct locals kept field by field
	closedOver map[string]string            // oracle name -> the arguments it closes over
	slice      bool                         // translating selected statements of a function: unknown locals become parameters
	order      []*lparam                    // discovered parameters in discovery order
}

func (f *fn) fail(n ast.Node, format string, a ...any) {
	pos := ""
	if n != nil {
		p := f.u.L.Fset.Position(n.Pos())
		pos = fmt.Sprintf(" (%s:%d)", strings.TrimPrefix(p.Filename, f.u.L.Root+"/"), p.Line)
	}
	panic(xerr{f.obj.Name() + ": " + fmt.Sprintf(format, a...) + pos})
}

// ---------------------------------------------------------------- types

func (f *fn) tyOf(t types.Type) ty {
	if t == nil {
		return ty{}
	}
	if p, ok := t.(*types.Pointer); ok {
		if r := f.tyOf(p.Elem()); r.k == kStruct {
			return r
		}
		return ty{k: kOpaque, src: t}
	}
	if n, ok := t.(*types.Named); ok && n.Obj().Pkg() != nil && n.Obj().Pkg().Path() == "time" && n.Obj().Name() == "Time" {
		return ty{k: kTime, src: t}
	}
	switch b := t.Underlying().(type) {
	case *types.Basic:
		switch b.Kind() {
		case types.Bool, types.UntypedBool:
			return ty{k: kBool, src: t}
		case types.Int, types.Int64, types.UntypedInt, types.UntypedRune:
			return ty{k: kInt, bits: 64, signed: true, src: t}
		case types.Int32:
			return ty{k: kInt, bits: 32, signed: true, src: t}
		case types.Int16:
			return ty{k: kInt, bits: 16, signed: true, src: t}
		case types.Int8:
			return ty{k: kInt, bits: 8, signed: true, src: t}
		case types.Uint, types.Uint64:
			return ty{k: kInt, bits: 64, src: t}
		case types.Uint32:
			return ty{k: kInt, bits: 32, src: t}
		case types.Uint16:
			return ty{k: kInt, bits: 16, src: t}
		case types.Uint8:
			return ty{k: kInt, bits: 8, src: t}
		case types.String, types.UntypedString: // a string is its bytes (ranging over one decodes runes: refused)
			return ty{k: kList, elem: &ty{k: kInt, bits: 8}, src: t, str: true}
		case types.Invalid:
			return ty{}
		}
	case *types.Array: // an array is a list of its length (indexing and element assignment only)
		e := f.tyOf(b.Elem())
		if e.k == kInt || e.k == kBool {
			return ty{k: kList, elem: &e, src: t}
		}
	case *types.Slice:
		e := f.tyOf(b.Elem())
		if e.k == kBad || e.k == kStruct {
			e = ty{k: kOpaque, src: b.Elem()}
		}
		return ty{k: kList, elem: &e, src: t}
	case *types.Struct:
		return ty{k: kStruct, st: b, src: t}
	case *types.Signature: // a function value over integers / bools (a callback that may panic)
		if b.Results().Len() == 1 && !b.Variadic() {
			r := f.tyOf(b.Results().At(0).Type())
			ft := ty{k: kFunc, elem: &r, src: t}
			ok := r.k == kInt || r.k == kBool
			for i := 0; i < b.Params().Len(); i++ {
				a := f.tyOf(b.Params().At(i).Type())
				ok = ok && (a.k == kInt || a.k == kBool)
				ft.args = append(ft.args, a)
			}
			if ok {
				return ft
			}
		}
	}
	return ty{k: kOpaque, src: t}
}

func (f *fn) lean(t ty) string {
	switch t.k {
	case kInt, kTime:
		return "Int"
	case kBool:
		return "Bool"
	case kList:
		return "List " + paren(f.lean(*t.elem))
	case kFunc:
		var as []string
		for _, a := range t.args {
			as = append(as, f.lean(a))
		}
		return strings.Join(append(as, "Option "+paren(f.lean(*t.elem))), " → ")
	case kOpaque, kStruct:
		key := tkey(t.src)
		if _, ok := f.tvars[key]; !ok {
			f.tvars[key] = fmt.Sprintf("α%d", len(f.tvars))
		}
		return f.tvars[key]
	}
	panic(xerr{f.obj.Name() + ": type " + types.TypeString(t.src, nil) + " is outside the fragment"})
}

func paren(s string) string {
	if strings.ContainsAny(s, " ") && !(strings.HasPrefix(s, "(") && strings.HasSuffix(s, ")") && balanced(s[1:len(s)-1])) {
		return "(" + s + ")"
	}
	return s
}

func balanced(s string) bool {
	d := 0
	for _, c := range s {
		if c == '(' {
			d++
		} else if c == ')' {
			if d--; d < 0 {
				return false
			}
		}
	}
	return d == 0
}

func pow2(n int) string { return new(big.Int).Lsh(big.NewInt(1), uint(n)).String() }

func (t ty) wrapName() string {
	if t.signed {
		return fmt.Sprintf("Go.wrapI%d", t.bits)
	}
	return fmt.Sprintf("Go.wrapU%d", t.bits)
}

func wrap(t ty, s string) string { return t.wrapName() + " " + paren(s) }

// fits: every value of type a is a value of type b
func fits(a, b ty) bool {
	if a.signed == b.signed {
		return a.bits <= b.bits
	}
	return !a.signed && b.signed && a.bits < b.bits
}

// ---------------------------------------------------------------- names

var reserved = map[string]bool{"from": true, "to": true, "at": true, "end": true, "have": true, "show": true, "fun": true,
	"let": true, "in": true, "do": true, "then": true, "else": true, "if": true, "match": true, "with": true, "open": true,
	"local": true, "prefix": true, "def": true, "theorem": true, "by": true, "where": true, "for": true, "section": true,
	"namespace": true, "instance": true, "structure": true, "class": true, "mut": true, "return": true, "using": true,
	"calc": true, "fuel": true, "some": true, "none": true, "min": true, "max": true, "Go": true, "Type": true, "Prop": true,
	"true": true, "false": true, "at_": true, "variable": true, "universe": true, "import": true, "set_option": true,
	"macro": true, "syntax": true, "notation": true, "infix": true, "postfix": true, "nomatch": true, "nofun": true,
	"private": true, "protected": true, "partial": true, "unsafe": true, "mutual": true, "deriving": true, "extends": true,
	"example": true, "abbrev": true, "axiom": true, "inductive": true, "attribute": true, "export": true,
	"hiding": true, "renaming": true, "exists": true, "forall": true, "suffices": true, "obtain": true, "assume": true}

func (f *fn) fresh(base string) string {
	if base == "" || base == "_" {
		base = "p"
	}
	n := base
	for i := 1; reserved[n] || f.used[n]; i++ {
		n = fmt.Sprintf("%s_%d", base, i)
	}
	f.used[n] = true
	return n
}

func (f *fn) declare(obj types.Object, t ty) string {
	if n, ok := f.names[obj]; ok {
		return n
	}
	n := f.fresh(obj.Name())
	f.names[obj] = n
	f.scope = append(f.scope, lvar{obj, n, f.lean(t)})
	return n
}

// ---------------------------------------------------------------- expressions

func (f *fn) guard(prop string) {
	f.panics = true
	f.pre = append(f.pre, "if ¬ ("+prop+") then none else\n")
}

func (f *fn) bind(opt string) string {
	f.panics = true
	v := fmt.Sprintf("v%d", f.ntmp)
	f.ntmp++
	f.pre = append(f.pre, "("+opt+").bind fun "+v+" =>\n")
	return v
}

func (f *fn) takePre() string {
	s := strings.Join(f.pre, "")
	f.pre = nil
	return s
}

func (f *fn) typeOf(e ast.Expr) ty {
	t := f.tyOf(f.pi.info.TypeOf(e))
	if t.k == kBad {
		f.fail(e, "expression %s has no known type (it mentions something outside the fragment)", f.render(e))
	}
	return t
}

func (f *fn) render(n ast.Node) string {
	var b strings.Builder
	ast.Inspect(n, func(x ast.Node) bool {
		switch y := x.(type) {
		case *ast.Ident:
			b.WriteString(y.Name + " ")
		case *ast.BasicLit:
			b.WriteString(y.Value + " ")
		}
		return true
	})
	return strings.TrimSpace(b.String())
}

func (f *fn) constant(e ast.Expr) (string, bool) {
	tv, ok := f.pi.info.Types[e]
	if !ok || tv.Value == nil {
		return "", false
	}
	switch tv.Value.Kind() {
	case constant.Bool:
		return fmt.Sprint(constant.BoolVal(tv.Value)), true
	case constant.Int:
		s := tv.Value.ExactString()
		if strings.HasPrefix(s, "-") {
			s = "(" + s + ")"
		}
		return s, true
	case constant.String:
		var bs []string
		for _, c := range []byte(constant.StringVal(tv.Value)) {
			bs = append(bs, fmt.Sprint(c))
		}
		return "([" + strings.Join(bs, ", ") + "] : List Int)", true
	}
	return "", false
}

func (f *fn) constInt(e ast.Expr) (*big.Int, bool) {
	tv, ok := f.pi.info.Types[e]
	if !ok || tv.Value == nil || tv.Value.Kind() != constant.Int {
		return nil, false
	}
	b, ok := new(big.Int).SetString(tv.Value.ExactString(), 10)
	return b, ok
}

// path resolves a chain x.f.g rooted at a struct parameter: (parameter index, field path, field-index order).
func (f *fn) path(e ast.Expr) (int, string, []int, bool) {
	switch x := e.(type) {
	case *ast.ParenExpr:
		return f.path(x.X)
	case *ast.Ident:
		o := f.pi.info.Uses[x]
		if v, isVar := o.(*types.Var); isVar && f.slice && f.names[o] == "" && v.Parent() != v.Pkg().Scope() && f.tyOf(v.Type()).k == kStruct {
			f.structs[o] = 100 + len(f.structs)
			f.names[o] = f.fresh(v.Name())
		}
		if i, ok := f.structs[o]; ok {
			return i, "", nil, true
		}
	case *ast.SelectorExpr:
		sel := f.pi.info.Selections[x]
		if sel == nil || sel.Kind() != types.FieldVal {
			return 0, "", nil, false
		}
		if i, p, ord, ok := f.path(x.X); ok {
			if p != "" {
				p += "."
			}
			return i, p + x.Sel.Name, append(append([]int{}, ord...), sel.Index()...), true
		}
	}
	return 0, "", nil, false
}

// param registers (once) a discovered Lean parameter: a field path of a struct parameter or a package-level variable.
func (f *fn) param(name string, lp lparam) string {
	if p, ok := f.params[name]; ok {
		return p.name
	}
	lp.name = name
	f.used[name] = true
	f.params[name] = &lp
	f.order = append(f.order, &lp)
	return name
}

// free: in slice mode a local of the enclosing function that no selected statement defines is a parameter.
func (f *fn) free(n ast.Node, o *types.Var) string {
	t := f.tyOf(o.Type())
	if !leaf(t) && t.k != kOpaque && t.k != kStruct { // a free variable of foreign type is an opaque value
		f.fail(n, "free variable %s has a type outside the fragment", o.Name())
	}
	name := f.fresh(o.Name())
	f.names[o] = name
	return f.param(name, lparam{ltype: f.lean(t), src: -2, glob: o})
}

func (f *fn) pathParam(n ast.Node, i int, p string, ord []int, t ty) string {
	root := ""
	for obj, j := range f.structs {
		if j == i {
			root = f.names[obj]
		}
	}
	if t.k == kStruct || t.k == kBad || t.k == kOpaque {
		f.fail(n, "field %s.%s is used as a value but its type is outside the fragment", root, p)
	}
	return f.param(root+"_"+strings.ReplaceAll(p, ".", "_"), lparam{ltype: f.lean(t), src: i, path: p, order: ord})
}

func (f *fn) global(n ast.Node, v *types.Var) string {
	t := f.tyOf(v.Type())
	if t.k != kInt && t.k != kBool && !(t.k == kList && (t.elem.k == kInt || t.elem.k == kBool)) {
		f.fail(n, "package-level variable %s has a type outside the fragment", v.Name())
	}
	return f.param(v.Pkg().Name()+"_"+v.Name(), lparam{ltype: f.lean(t), src: -1, glob: v})
}

func (f *fn) expr(e ast.Expr) string {
	if s, ok := f.constant(e); ok {
		return s
	}
	info := f.pi.info
	switch x := e.(type) {
	case *ast.ParenExpr:
		return paren(f.expr(x.X))
	case *ast.Ident:
		switch o := info.Uses[x].(type) {
		case *types.Var:
			if n, ok := f.names[o]; ok {
				if _, isStruct := f.structs[o]; isStruct {
					f.fail(e, "struct parameter %s used as a value", x.Name)
				}
				return n
			}
			if o.Pkg() != nil && o.Parent() == o.Pkg().Scope() {
				return f.global(e, o)
			}
			if f.slice {
				return f.free(e, o)
			}
		}
		f.fail(e, "identifier %s is outside the fragment", x.Name)
	case *ast.SelectorExpr:
		if i, p, ord, ok := f.path(x); ok {
			return f.pathParam(e, i, p, ord, f.typeOf(e))
		}
		if v, ok := info.Uses[x.Sel].(*types.Var); ok && v.Pkg() != nil && v.Parent() == v.Pkg().Scope() {
			return f.global(e, v)
		}
		if s, ok := f.field(x); ok {
			return s
		}
		f.fail(e, "selector %s is outside the fragment", f.render(e))
	case *ast.UnaryExpr:
		t := f.typeOf(e)
		a := f.expr(x.X)
		switch {
		case x.Op == token.NOT:
			return "!" + paren(a)
		case x.Op == token.ADD && t.k == kInt:
			return a
		case x.Op == token.SUB && t.k == kInt:
			return t.wrapName() + " (-" + paren(a) + ")"
		case x.Op == token.XOR && t.k == kInt && !t.signed:
			return paren(new(big.Int).Sub(new(big.Int).Lsh(big.NewInt(1), uint(t.bits)), big.NewInt(1)).String() + " - " + paren(a))
		}
		f.fail(e, "unary operator %s on this type is outside the fragment", x.Op)
	case *ast.BinaryExpr:
		switch x.Op {
		case token.LAND, token.LOR, token.EQL, token.NEQ, token.LSS, token.LEQ, token.GTR, token.GEQ:
			return "decide " + paren(f.cond(e))
		}
		return f.arith(e, x.Op, x.X, x.Y, f.typeOf(e))
	case *ast.IndexExpr:
		if t := f.typeOf(x.X); t.k == kList {
			xs, i := f.expr(x.X), f.expr(x.Index)
			return f.bind("Go.idx " + paren(xs) + " " + paren(i))
		}
		f.fail(e, "index expression on a non-slice")
	case *ast.SliceExpr:
		if t := f.typeOf(x.X); t.k == kList && !x.Slice3 {
			xs := paren(f.expr(x.X))
			lo, hi := "0", "Go.len "+xs
			if x.Low != nil {
				lo = f.expr(x.Low)
			}
			if x.High != nil {
				hi = f.expr(x.High)
			}
			f.guard("(0 : Int) ≤ " + lo + " ∧ " + lo + " ≤ " + hi + " ∧ " + hi + " ≤ Go.len " + xs)
			return "Go.slice " + xs + " " + paren(lo) + " " + paren(hi)
		}
		f.fail(e, "slice expression outside the fragment")
	case *ast.CallExpr:
		return f.call(x, 1)
	case *ast.FuncLit:
		return f.funcLit(x)
	}
	f.fail(e, "expression %T is outside the fragment", e)
	return ""
}

// arith translates `a op b` at integer type t (the type of the result, for shifts the type of a).
func (f *fn) arith(n ast.Node, op token.Token, ea, eb ast.Expr, t ty) string {
	if t.k != kInt {
		f.fail(n, "operator %s on a non-integer type", op)
	}
	a, b := paren(f.expr(ea)), paren(f.expr(eb))
	cb, isConst := f.constInt(eb)
	switch op {
	case token.ADD:
		return wrap(t, a+" + "+b)
	case token.SUB:
		return wrap(t, a+" - "+b)
	case token.MUL:
		return wrap(t, a+" * "+b)
	case token.QUO, token.REM:
		if !isConst || cb.Sign() == 0 {
			f.guard(b + " ≠ 0")
		}
		switch {
		case !t.signed && op == token.QUO:
			return a + " / " + b
		case !t.signed:
			return a + " % " + b
		case op == token.REM:
			return "Int.tmod " + a + " " + b
		case isConst && cb.Cmp(big.NewInt(-1)) != 0:
			return "Int.tdiv " + a + " " + b
		}
		return wrap(t, "Int.tdiv "+a+" "+b)
	case token.SHL, token.SHR:
		if isConst && cb.Sign() >= 0 && cb.IsInt64() && cb.Int64() < 4096 {
			if op == token.SHL {
				return wrap(t, a+" * "+pow2(int(cb.Int64())))
			}
			return a + " / " + pow2(int(cb.Int64()))
		}
		if f.typeOf(eb).signed {
			f.guard("(0 : Int) ≤ " + b)
		}
		if op == token.SHL {
			return wrap(t, "Go.shl "+a+" "+b)
		}
		return "Go.shr " + a + " " + b
	case token.AND, token.OR, token.XOR:
		if t.signed {
			f.fail(n, "bitwise %s on a signed type is outside the fragment", op)
		}
		return map[token.Token]string{token.AND: "Go.band ", token.OR: "Go.bor ", token.XOR: "Go.bxor "}[op] + a + " " + b
	}
	f.fail(n, "operator %s is outside the fragment", op)
	return ""
}

// cond translates a boolean expression to a Prop.
func (f *fn) cond(e ast.Expr) string {
	if s, ok := f.constant(e); ok {
		return map[string]string{"true": "True", "false": "False"}[s]
	}
	switch x := e.(type) {
	case *ast.ParenExpr:
		return paren(f.cond(x.X))
	case *ast.UnaryExpr:
		if x.Op == token.NOT {
			return "¬ " + paren(f.cond(x.X))
		}
	case *ast.BinaryExpr:
		switch x.Op {
		case token.LAND, token.LOR:
			a := f.cond(x.X)
			n := len(f.pre)
			b := f.cond(x.Y)
			if len(f.pre) != n {
				f.fail(e, "right operand of %s can panic (evaluation order is outside the fragment)", x.Op)
			}
			return paren(a) + map[token.Token]string{token.LAND: " ∧ ", token.LOR: " ∨ "}[x.Op] + paren(b)
		case token.EQL, token.NEQ, token.LSS, token.LEQ, token.GTR, token.GEQ:
			if id, ok := x.Y.(*ast.Ident); ok && id.Name == "nil" && (x.Op == token.EQL || x.Op == token.NEQ) {
				suffix := map[token.Token]string{token.EQL: " = true", token.NEQ: " = false"}[x.Op]
				if i, p, ord, ok := f.path(x.X); ok && p != "" { // s.ptr == nil: a Bool parameter `s_ptr_nil`
					return f.pathParam(x, i, p+".nil", ord, ty{k: kBool}) + suffix
				}
				switch t := f.typeOf(x.X); {
				case t.k == kOpaque || t.k == kStruct: // an interface / pointer value: `<Type>_isNil : α → Bool`
					v := paren(f.expr(x.X))
					name := strings.NewReplacer(".", "_", "*", "", "/", "_").Replace(tname(t.src)) + "_isNil"
					if b, isBasic := t.src.(*types.Named); isBasic && b.Obj().Pkg() == nil {
						name = b.Obj().Name() + "_isNil" // error
					}
					return f.param(name, lparam{ltype: f.lean(t) + " → Bool", src: -4}) + " " + v + suffix
				case t.k == kList: // a slice variable: nil-ness is a separate Bool parameter (a List cannot tell nil from empty)
					if xid, isID := unparen(x.X).(*ast.Ident); isID {
						return f.param(f.expr(xid)+"_isNil", lparam{ltype: "Bool", src: -4}) + suffix
					}
				}
			}
			ta, tb := f.typeOf(x.X), f.typeOf(x.Y)
			if !(ta.k == tb.k && (ta.k == kInt || ta.k == kTime || ((ta.k == kBool || ta.k == kList && ta.str && tb.str) && (x.Op == token.EQL || x.Op == token.NEQ)))) {
				f.fail(e, "comparison of values outside the fragment")
			}
			op := map[token.Token]string{token.EQL: " = ", token.NEQ: " ≠ ", token.LSS: " < ", token.LEQ: " ≤ ", token.GTR: " > ", token.GEQ: " ≥ "}[x.Op]
			return paren(f.expr(x.X)) + op + paren(f.expr(x.Y))
		}
	}
	if c, ok := e.(*ast.CallExpr); ok { // t.Before(u), t.After(u)
		if sel, ok := c.Fun.(*ast.SelectorExpr); ok && len(c.Args) == 1 {
			if fo, ok := f.pi.info.Uses[sel.Sel].(*types.Func); ok && (intrinsics[fo.FullName()] == "<" || intrinsics[fo.FullName()] == ">") {
				return paren(f.expr(sel.X)) + " " + intrinsics[fo.FullName()] + " " + paren(f.expr(c.Args[0]))
			}
		}
	}
	if f.typeOf(e).k != kBool {
		f.fail(e, "condition is not a bool")
	}
	return paren(f.expr(e)) + " = true"
}

var intrinsics = map[string]string{
	"time.UnixMilli": "Go.timeUnixMilli", "(time.Time).UTC": "id", "(time.Time).Sub": "Go.timeSub",
	"(time.Time).UnixNano": "Go.timeUnixNano", "(time.Time).UnixMilli": "Go.timeToUnixMilli",
	"(time.Time).Before": "<", "(time.Time).After": ">", "(time.Time).Add": "Go.timeAdd",
	"bytes.Equal": "Go.bytesEqual", "bytes.Compare": "Go.bytesCompare",
}

// call translates a call in expression position (nres = number of results the context accepts).
func (f *fn) call(x *ast.CallExpr, nres int) string {
	info := f.pi.info
	if tv, ok := info.Types[x.Fun]; ok && tv.IsType() && len(x.Args) == 1 { // conversion
		to, from := f.tyOf(tv.Type), f.typeOf(x.Args[0])
		a := f.expr(x.Args[0])
		if to.k == kInt && from.k == kInt {
			if fits(from, to) {
				return a
			}
			return wrap(to, a)
		}
		f.fail(x, "conversion to %s is outside the fragment", types.TypeString(tv.Type, nil))
	}
	var callee types.Object
	args := x.Args
	switch fun := x.Fun.(type) {
	case *ast.Ident:
		callee = info.Uses[fun]
	case *ast.SelectorExpr:
		callee = info.Uses[fun.Sel]
		if sel := info.Selections[fun]; sel != nil && sel.Kind() == types.MethodVal {
			args = append([]ast.Expr{fun.X}, x.Args...)
		}
	}
	if sel, isSel := x.Fun.(*ast.SelectorExpr); isSel { // a callback stored in a field of a struct parameter: n.less(a, b)
		if i, p, ord, isPath := f.path(sel); isPath && p != "" {
			if t := f.typeOf(sel); t.k == kFunc {
				var as []string
				for _, a := range x.Args {
					as = append(as, paren(f.expr(a)))
				}
				return f.bind(f.pathParam(x, i, p, ord, t) + " " + strings.Join(as, " "))
			}
		}
	}
	switch c := callee.(type) {
	case *types.Var: // a callback parameter: fn(x)
		if t := f.tyOf(c.Type()); t.k == kFunc && f.names[c] != "" {
			var as []string
			for _, a := range args {
				as = append(as, paren(f.expr(a)))
			}
			return f.bind(f.names[c] + " " + strings.Join(as, " "))
		}
	case *types.Builtin:
		switch c.Name() {
		case "append": // a new list (aliasing of the backing array is outside the fragment)
			if t := f.typeOf(x); t.k == kList && len(args) >= 1 {
				s := paren(f.expr(args[0]))
				if x.Ellipsis.IsValid() && len(args) == 2 {
					return s + " ++ " + paren(f.expr(args[1]))
				}
				var es []string
				for _, a := range args[1:] {
					es = append(es, f.expr(a))
				}
				return s + " ++ [" + strings.Join(es, ", ") + "]"
			}
		case "make":
			if t := f.typeOf(x); t.k == kList && len(args) == 3 { // make([]T, 0, cap)
				if n, ok := f.constInt(args[1]); ok && n.Sign() == 0 {
					c := paren(f.expr(args[2]))
					f.guard("(0 : Int) ≤ " + c)
					return "([] : " + f.lean(t) + ")"
				}
			}
			if t := f.typeOf(x); t.k == kList && len(args) == 2 && (t.elem.k == kInt || t.elem.k == kBool) {
				n := paren(f.expr(args[1]))
				f.guard("(0 : Int) ≤ " + n)
				return "List.replicate (Int.toNat " + n + ") " + map[kind]string{kInt: "(0 : Int)", kBool: "false"}[t.elem.k]
			}
		case "len":
			if f.typeOf(args[0]).k == kList {
				return "Go.len " + paren(f.expr(args[0]))
			}
		case "min", "max":
			if f.typeOf(x).k == kInt {
				s := f.expr(args[0])
				for _, a := range args[1:] {
					s = c.Name() + " " + paren(s) + " " + paren(f.expr(a))
				}
				return s
			}
		}
		f.fail(x, "builtin %s is outside the fragment here", c.Name())
	case *types.Func:
		if s, ok := f.special(x, c, args); ok {
			return s
		}
		if s, ok := f.oracle(x, c, args); ok {
			return s
		}
		if in, ok := intrinsics[c.FullName()]; ok {
			var as []string
			for _, a := range args {
				as = append(as, paren(f.expr(a)))
			}
			if in == "<" || in == ">" {
				return "decide " + paren(f.cond(x))
			}
			return in + " " + strings.Join(as, " ")
		}
		sig := f.u.translate(c)
		if sig.NRes != nres || len(sig.Muts) > 0 {
			f.fail(x, "call of %s yields %d values (%d of them written slices) where %d are expected", c.Name(), sig.NRes, len(sig.Muts), nres)
		}
		return f.apply(x, c, sig, args)
	}
	f.fail(x, "call of %s is outside the fragment", f.render(x.Fun))
	return ""
}

// apply builds the application of a translated function to the translated arguments (struct arguments by field
// path, package-level variables and gas passed along); a callee that can panic is bound.
func (f *fn) apply(x *ast.CallExpr, c *types.Func, sig *Sig, args []ast.Expr) string {
	{
		var as []string
		var opq map[int]string
		if sig.Fuel {
			f.needGas = true
			as = append(as, "gas")
		}
		for _, p := range sig.Params {
			switch {
			case p.src == -3: // the callee reads fields of opaque struct values: the caller provides the same accessors
				as = append(as, f.accessor(x, p.accRoot, p.accPath, p.accTy))
			case p.src == -4: // an oracle of the callee is an oracle of the caller
				as = append(as, f.param(p.name, p))
			case p.src < 0:
				as = append(as, f.global(x, p.glob))
			case p.path == "":
				as = append(as, paren(f.expr(args[p.src])))
			default:
				if fl, name, isFlat := f.flatOf(args[p.src]); isFlat && name == "" && !strings.Contains(p.path, ".") {
					as = append(as, f.flatVar(x, fl, p.path).lean)
					continue
				}
				i, pp, ord, ok := f.path(args[p.src])
				if !ok && !strings.HasSuffix(p.path, ".nil") { // an opaque struct value: read the field through an accessor
					if opq == nil {
						opq = map[int]string{}
					}
					if opq[p.src] == "" {
						opq[p.src] = paren(f.expr(args[p.src]))
					}
					as = append(as, "("+f.accessor(x, f.pi.info.TypeOf(args[p.src]), strings.Split(p.path, "."), f.fieldType(args[p.src], p.order))+" "+opq[p.src]+")")
					continue
				}
				if !ok {
					f.fail(x, "struct argument of %s is not a parameter path", c.Name())
				}
				if pp != "" {
					pp += "."
				}
				st := ty{k: kBool}
				if !strings.HasSuffix(p.path, ".nil") {
					st = f.fieldType(args[p.src], p.order)
				}
				as = append(as, f.pathParam(x, i, pp+p.path, append(append([]int{}, ord...), p.order...), st))
			}
		}
		s := strings.TrimSpace(sig.Name + " " + strings.Join(as, " "))
		if sig.Opt {
			return f.bind(s)
		}
		return s
	}
}

// fieldType follows field indices from the (struct) type of e.
func (f *fn) fieldType(e ast.Expr, order []int) ty {
	t := f.typeOf(e)
	for _, i := range order {
		if t.k != kStruct {
			f.fail(e, "field path leaves the struct")
		}
		t = f.tyOf(t.st.Field(i).Type())
	}
	return t
}

// ---------------------------------------------------------------- statements

func indent(s string) string { return "  " + strings.ReplaceAll(s, "\n", "\n  ") }

func memo(k func() string) func() string {
	var s *string
	return func() string {
		if s == nil {
			r := k()
			s = &r
		}
		return *s
	}
}

func (f *fn) ret(vals []string) string {
	s := strings.Join(vals, ", ")
	if len(vals) > 1 {
		s = "(" + s + ")"
	}
	if f.opt {
		return "some " + paren(s)
	}
	return s
}

// block translates a statement list in its own scope; k yields the code that follows a fall-through.
func (f *fn) block(list []ast.Stmt, k func() string) string {
	base := len(f.scope)
	s := f.seq(list, func() string { f.scope = f.scope[:base]; return k() })
	f.scope = f.scope[:base]
	return s
}

func (f *fn) callee(e ast.Expr) string {
	if c, ok := e.(*ast.CallExpr); ok {
		switch x := c.Fun.(type) {
		case *ast.Ident:
			return x.Name
		case *ast.SelectorExpr:
			var parts []string
			var cur ast.Expr = x
			for {
				if s, ok := cur.(*ast.SelectorExpr); ok {
					parts, cur = append([]string{s.Sel.Name}, parts...), s.X
					continue
				}
				if id, ok := cur.(*ast.Ident); ok {
					return strings.Join(append([]string{id.Name}, parts...), ".")
				}
				return ""
			}
		}
	}
	return ""
}

func has(list []string, s string) bool {
	for _, x := range list {
		if x == s {
			return true
		}
	}
	return false
}

func (f *fn) let(obj types.Object, t ty, val string, rest func() string) string {
	pre := f.takePre()
	name := f.declare(obj, t)
	return pre + "let " + name + " : " + f.lean(t) + " := " + val + "\n" + rest()
}

func (f *fn) lhs(e ast.Expr) (types.Object, bool) {
	id, ok := e.(*ast.Ident)
	if !ok {
		f.fail(e, "assignment to %s (only local variables can be assigned)", f.render(e))
	}
	if id.Name == "_" {
		return nil, false
	}
	obj := f.pi.info.Defs[id]
	if obj == nil {
		obj = f.pi.info.Uses[id]
	}
	if _, known := f.names[obj]; !known && f.pi.info.Defs[id] == nil {
		if v, isVar := obj.(*types.Var); isVar && f.slice && v.Parent() != v.Pkg().Scope() {
			f.free(e, v) // a statement slice updates a local it does not define: its old value is a parameter
			return obj, true
		}
		f.fail(e, "assignment to %s which is not a local variable", id.Name)
	}
	return obj, true
}

func (f *fn) seq(list []ast.Stmt, k func() string) string {
	if len(list) == 0 {
		return k()
	}
	rest := func() string { return f.seq(list[1:], k) }
	switch s := list[0].(type) {
	case *ast.EmptyStmt:
		return rest()
	case *ast.BlockStmt:
		return f.block(s.List, memo(rest))
	case *ast.ReturnStmt:
		f.hasReturn = true
		if len(s.Results) != f.sig.NDecl {
			f.fail(s, "return with %d values (named results are outside the fragment)", len(s.Results))
		}
		if len(s.Results) == 1 && f.sig.NRes == 1 && f.shortCircuit(s.Results[0]) { // a && b where b can panic
			return f.branch(s.Results[0], func() string { return f.ret([]string{"true"}) }, func() string { return f.ret([]string{"false"}) })
		}
		var vals []string
		for _, r := range s.Results {
			if f.sig.StructRes != nil && f.closure == 0 {
				vals = append(vals, f.structResult(r, f.sig.StructRes)...)
			} else {
				vals = append(vals, f.expr(r))
			}
		}
		return f.takePre() + f.ret(append(vals, f.mutVals()...))
	case *ast.ExprStmt:
		c := f.callee(s.X)
		if has(f.u.Panics, c) {
			f.panics = true
			return "none"
		}
		if has(f.u.Ignore, c) {
			return rest()
		}
		if call, ok := s.X.(*ast.CallExpr); ok {
			return f.effect(call, rest)
		}
		f.fail(s, "statement %s is outside the fragment", f.render(s))
	case *ast.DeclStmt:
		gd := s.Decl.(*ast.GenDecl)
		if gd.Tok == token.CONST {
			return rest()
		}
		if gd.Tok != token.VAR {
			f.fail(s, "declaration outside the fragment")
		}
		var todo []func(func() string) string
		for _, sp := range gd.Specs {
			vs := sp.(*ast.ValueSpec)
			for i, id := range vs.Names {
				obj, t := f.pi.info.Defs[id], f.tyOf(f.pi.info.Defs[id].Type())
				val := map[kind]string{kInt: "0", kBool: "false", kList: "[]"}[t.k]
				if t.k == kStruct && len(vs.Values) == 0 {
					todo = append(todo, func(r func() string) string { return f.newFlat(s, obj, map[string]string{}, r) })
					continue
				}
				if i < len(vs.Values) {
					val = f.expr(vs.Values[i])
				} else if len(vs.Values) > 0 || val == "" {
					f.fail(s, "variable declaration outside the fragment")
				}
				todo = append(todo, func(r func() string) string { return f.let(obj, t, val, r) })
			}
		}
		r := rest
		for i := len(todo) - 1; i >= 0; i-- {
			t, inner := todo[i], r
			r = func() string { return t(inner) }
		}
		return r()
	case *ast.IncDecStmt:
		if fl, name, ok := f.flatOf(s.X); ok && name != "" {
			fv := f.flatVar(s, fl, name)
			op := map[token.Token]string{token.INC: " + 1", token.DEC: " - 1"}[s.Tok]
			return f.takePre() + "let " + fv.lean + " : " + f.lean(fv.t) + " := " + wrap(fv.t, fv.lean+op) + "\n" + rest()
		}
		obj, _ := f.lhs(s.X)
		t := f.typeOf(s.X)
		op := map[token.Token]string{token.INC: " + 1", token.DEC: " - 1"}[s.Tok]
		return f.let(obj, t, wrap(t, f.expr(s.X)+op), rest)
	case *ast.AssignStmt:
		return f.assign(s, rest)
	case *ast.IfStmt:
		if s.Init != nil {
			inner := *s
			inner.Init = nil
			return f.block([]ast.Stmt{s.Init, &inner}, memo(rest))
		}
		kr := memo(rest)
		return f.branch(s.Cond, memo(func() string { return f.block(s.Body.List, kr) }), memo(func() string {
			switch el := s.Else.(type) {
			case nil:
				return kr()
			case *ast.BlockStmt:
				return f.block(el.List, kr)
			default:
				return f.block([]ast.Stmt{el}, kr)
			}
		}))
	case *ast.ForStmt:
		if s.Init != nil {
			inner := *s
			inner.Init = nil
			return f.block([]ast.Stmt{s.Init, &inner}, memo(rest))
		}
		if f.counting(s) {
			return f.forLoop(s, memo(rest))
		}
		return f.whileLoop(s, memo(rest))
	case *ast.RangeStmt:
		return f.rangeLoop(s, memo(rest))
	case *ast.SwitchStmt:
		return f.switchStmt(s, memo(rest))
	case *ast.BranchStmt:
		if s.Label == nil && s.Tok == token.BREAK && f.brk != nil {
			return f.brk()
		}
		if s.Label == nil && s.Tok == token.CONTINUE && f.cont != nil {
			return f.cont()
		}
	}
	f.fail(list[0], "statement %T is outside the fragment", list[0])
	return ""
}

func (f *fn) assign(s *ast.AssignStmt, rest func() string) string {
	if ix, ok := s.Lhs[0].(*ast.IndexExpr); ok && len(s.Lhs) == 1 && len(s.Rhs) == 1 { // xs[i] = v, xs[i] op= v
		return f.setIndex(s, ix, rest)
	}
	if len(s.Lhs) == 1 && len(s.Rhs) == 1 {
		if r, ok := f.structAssign(s, rest); ok {
			return r
		}
		if call, ok := unparen(s.Rhs[0]).(*ast.CallExpr); ok { // x := g(..) where g also writes to its slice parameters
			if c, args := f.repoCallee(call); c != nil && !has(f.u.Oracles, oracleKey(c)) {
				if sig := f.u.translate(c); len(sig.Muts) > 0 && sig.NDecl == 1 && sig.StructRes == nil {
					ts := f.mutTargets(call, c, sig, args)
					r := f.apply(call, c, sig, args)
					tmp := f.fresh("r")
					out := f.takePre() + "let " + tmp + " := " + r + "\n"
					obj, named := f.lhs(s.Lhs[0])
					k := rest
					for i := len(ts) - 1; i >= 0; i-- {
						proj := tmp + strings.Repeat(".2", 1+i)
						if i < len(ts)-1 {
							proj += ".1"
						}
						t, inner := ts[i], k
						k = func() string { return f.rebind(t.name, t.t, proj, inner) }
					}
					if !named {
						return out + k()
					}
					return out + f.let(obj, f.tyOf(obj.Type()), tmp+".1", k)
				}
			}
		}
		if sel, ok := s.Lhs[0].(*ast.SelectorExpr); ok && s.Tok != token.DEFINE { // p.f = e, p.f op= e on a field of a struct parameter
			if _, pp, _, isPath := f.path(sel); isPath && pp != "" && leaf(f.typeOf(sel)) {
				t := f.typeOf(sel)
				var val string
				if s.Tok == token.ASSIGN {
					val = f.expr(s.Rhs[0])
				} else {
					ops := map[token.Token]token.Token{token.ADD_ASSIGN: token.ADD, token.SUB_ASSIGN: token.SUB, token.MUL_ASSIGN: token.MUL,
						token.QUO_ASSIGN: token.QUO, token.REM_ASSIGN: token.REM, token.AND_ASSIGN: token.AND, token.OR_ASSIGN: token.OR}
					op, known := ops[s.Tok]
					if !known {
						f.fail(s, "assignment operator %s on a struct field is outside the fragment", s.Tok)
					}
					val = f.arith(s, op, sel, s.Rhs[0], t)
				}
				name := f.pathParam(sel, func() int { i, _, _, _ := f.path(sel); return i }(), pp, func() []int { _, _, o, _ := f.path(sel); return o }(), t)
				return f.rebind(name, t, val, rest)
			}
		}
	}
	if s.Tok != token.DEFINE && s.Tok != token.ASSIGN { // x op= e
		ops := map[token.Token]token.Token{token.ADD_ASSIGN: token.ADD, token.SUB_ASSIGN: token.SUB, token.MUL_ASSIGN: token.MUL,
			token.QUO_ASSIGN: token.QUO, token.REM_ASSIGN: token.REM, token.SHL_ASSIGN: token.SHL, token.SHR_ASSIGN: token.SHR,
			token.AND_ASSIGN: token.AND, token.OR_ASSIGN: token.OR, token.XOR_ASSIGN: token.XOR}
		op, ok := ops[s.Tok]
		if !ok || len(s.Lhs) != 1 {
			f.fail(s, "assignment operator %s is outside the fragment", s.Tok)
		}
		obj, _ := f.lhs(s.Lhs[0])
		t := f.typeOf(s.Lhs[0])
		return f.let(obj, t, f.arith(s, op, s.Lhs[0], s.Rhs[0], t), rest)
	}
	if len(s.Lhs) == 1 && len(s.Rhs) == 1 {
		val := f.expr(s.Rhs[0])
		obj, ok := f.lhs(s.Lhs[0])
		if !ok {
			return f.takePre() + rest()
		}
		return f.let(obj, f.tyOf(obj.Type()), val, rest)
	}
	var vals []string
	if len(s.Rhs) == 1 { // a, b := g(..)
		c, ok := s.Rhs[0].(*ast.CallExpr)
		if !ok {
			f.fail(s, "multi-value assignment outside the fragment")
		}
		r := f.call(c, len(s.Lhs))
		tmp := f.fresh("r")
		pre := f.takePre()
		for i := range s.Lhs {
			p := tmp + strings.Repeat(".2", i)
			if i < len(s.Lhs)-1 {
				p += ".1"
			}
			vals = append(vals, p)
		}
		return pre + "let " + tmp + " := " + r + "\n" + f.lets(s.Lhs, vals, rest)
	}
	var tmps []string
	pre := ""
	for _, r := range s.Rhs { // parallel assignment: all right sides first
		t := f.fresh("t")
		v := f.expr(r)
		pre += f.takePre() + "let " + t + " := " + v + "\n"
		tmps = append(tmps, t)
	}
	return pre + f.lets(s.Lhs, tmps, rest)
}

func (f *fn) lets(lhs []ast.Expr, vals []string, rest func() string) string {
	if len(lhs) == 0 {
		return rest()
	}
	obj, ok := f.lhs(lhs[0])
	if !ok {
		return f.lets(lhs[1:], vals[1:], rest)
	}
	return f.let(obj, f.tyOf(obj.Type()), vals[0], func() string { return f.lets(lhs[1:], vals[1:], rest) })
}

// ---------------------------------------------------------------- functions

func (u *Unit) translate(obj *types.Func) *Sig {
	if s, ok := u.sigs[obj]; ok {
		if s == nil {
			panic(xerr{obj.Name() + ": recursion is outside the fragment"})
		}
		return s
	}
	pi, decl := u.L.decl(obj)
	if decl == nil || decl.Body == nil {
		panic(xerr{obj.FullName() + ": no source (a function outside the repository or without a body)"})
	}
	u.sigs[obj] = nil
	var f *fn
	var body string
	for pass := 1; pass <= 2; pass++ {
		prev := f
		f = &fn{u: u, pi: pi, obj: obj, names: map[types.Object]string{}, used: map[string]bool{}, structs: map[types.Object]int{},
			params: map[string]*lparam{}, tvars: map[string]string{}, opt: true, sig: &Sig{}, muts: map[string]bool{}, foreign: map[types.Object]bool{}, flat: map[types.Object][]flatField{}, closedOver: map[string]string{}}
		if prev != nil {
			f.opt, f.muts, f.needGas = prev.panics, prev.muts, prev.needGas
		}
		f.header(decl, prev)
		body = f.block(decl.Body.List, func() string {
			if f.sig.NDecl > 0 {
				f.fail(decl, "control can reach the end of the function")
			}
			return f.ret(f.mutVals())
		})
		if pass == 2 && f.sig.NRes == 0 {
			f.fail(decl, "function without a result that writes to none of its slice parameters")
		}
	}
	u.emit(f, decl, body, "")
	u.sigs[obj] = f.sig
	return f.sig
}

func (u *Unit) emit(f *fn, decl *ast.FuncDecl, body, note string) {
	if len(body)+len(strings.Join(f.aux, "")) > 40000 {
		panic(xerr{f.sig.Name + ": translation too large (too many fall-through branches)"})
	}
	if u.names[f.sig.Name] {
		panic(xerr{f.obj.Name() + ": two translated functions would be named " + f.sig.Name})
	}
	u.names[f.sig.Name] = true
	var ps []string
	for _, tv := range f.sig.TVars {
		ps = append(ps, "{"+tv+" : Type}")
	}
	if f.sig.Fuel {
		ps = append(ps, "(gas : Nat)")
	}
	for _, p := range f.sig.Params {
		ps = append(ps, "("+p.name+" : "+p.ltype+")")
	}
	pos := u.L.Fset.Position(decl.Pos())
	doc := fmt.Sprintf("/-- %s (%s:%d)%s, translated mechanically -/\n", f.obj.FullName(), strings.TrimPrefix(pos.Filename, u.L.Root+"/"), pos.Line, note)
	u.out = append(u.out, f.aux...)
	u.out = append(u.out, strings.TrimSpace(fmt.Sprintf("%sdef %s %s", doc, f.sig.Name, strings.Join(ps, " ")))+" : "+f.sig.resType()+" :=\n"+indent(body)+"\n")
}

// header declares the Go parameters; in pass 2 the parameters discovered by pass 1 (prev) are fixed in order.
func (f *fn) header(decl *ast.FuncDecl, prev *fn) {
	sg := f.obj.Type().(*types.Signature)
	if sg.TypeParams().Len() > 0 || sg.Variadic() {
		f.fail(decl, "generic or variadic function")
	}
	f.sig.Name = f.obj.Name()
	var vars []*types.Var
	if r := sg.Recv(); r != nil {
		vars = append(vars, r)
		t := r.Type()
		if p, ok := t.(*types.Pointer); ok {
			t = p.Elem()
		}
		f.sig.Name = t.(*types.Named).Obj().Name() + "_" + f.obj.Name()
	}
	for i := 0; i < sg.Params().Len(); i++ {
		vars = append(vars, sg.Params().At(i))
	}
	var res []string
	for i := 0; i < sg.Results().Len(); i++ {
		t := f.tyOf(sg.Results().At(i).Type())
		if t.k == kStruct && sg.Results().Len() == 1 { // a struct result: the tuple of its fields
			f.sig.StructRes = t.st
			for j := 0; j < t.st.NumFields(); j++ {
				ft := f.tyOf(t.st.Field(j).Type())
				if !leaf(ft) {
					f.fail(decl, "field %s of the result has a type outside the fragment", t.st.Field(j).Name())
				}
				res = append(res, f.lean(ft))
			}
			continue
		}
		if t.k == kStruct || t.k == kBad {
			f.fail(decl, "result type outside the fragment")
		}
		res = append(res, f.lean(t))
	}
	f.sig.NDecl, f.sig.Opt, f.sig.Fuel = sg.Results().Len(), f.opt, f.needGas
	f.used["gas"] = true
	defer func() { // the slice parameters written to (known from pass 1) are returned after the declared results
		for i, p := range f.sig.Params {
			if f.muts[p.name] {
				f.sig.Muts = append(f.sig.Muts, i)
				res = append(res, p.ltype)
			}
		}
		f.sig.NRes, f.sig.Res = len(res), strings.Join(res, " × ")
	}()
	f.used[f.sig.Name] = true
	var found []*lparam
	if prev != nil {
		for _, p := range prev.params {
			found = append(found, p)
		}
		sort.Slice(found, func(i, j int) bool {
			a, b := found[i], found[j]
			if a.src < 0 || b.src < 0 { // package-level variables, accessors, oracles: after the Go parameters, by name
				if a.src < 0 && b.src < 0 {
					return a.name < b.name
				}
				return b.src < 0
			}
			if a.src != b.src {
				return a.src < b.src
			}
			return fmt.Sprint(a.order) < fmt.Sprint(b.order)
		})
	}
	for i, v := range vars {
		t := f.tyOf(v.Type())
		switch t.k {
		case kStruct:
			f.structs[v] = i
			f.names[v] = f.fresh(v.Name())
			for _, p := range found {
				if p.src == i {
					f.used[p.name] = true
					f.params[p.name] = p
					f.sig.Params = append(f.sig.Params, *p)
				}
			}
		case kBad:
			f.fail(decl, "parameter %s has a type outside the fragment", v.Name())
		case kOpaque: // a parameter of foreign type (context, stopwatch, an interface): dropped; using it as a value is refused
			f.foreign[v] = true
		default:
			n := f.declare(v, t)
			f.sig.Params = append(f.sig.Params, lparam{name: n, ltype: f.lean(t), src: i})
		}
	}
	for _, p := range found {
		if p.src < 0 {
			f.used[p.name] = true
			f.params[p.name] = p
			f.sig.Params = append(f.sig.Params, *p)
		}
	}
	if prev != nil {
		for k, v := range prev.tvars {
			f.tvars[k] = v
		}
	}
	for _, v := range f.tvars {
		f.sig.TVars = append(f.sig.TVars, v)
	}
	sort.Strings(f.sig.TVars)
}

// ---------------------------------------------------------------- statement slices

// Slice translates selected statements of pkgRel.(recv.)name as one Lean function leanName.  Each pattern must be
// the beginning of exactly one statement of the function (source text, blanks normalised); the statements are
// taken in source order.  Locals they read but do not define become parameters (in order of first use).  The
// result is the value returned by the last statement if it is a `return`, else the variable it assigns.
// With result != "" (the source text of a variable or field, e.g. "dst.Total") every selected statement is
// translated as a statement and the function returns that expression's value after them.
func (u *Unit) Slice(pkgRel, recv, name, leanName string, pats []string, result string) (sig *Sig, err error) {
	defer func() {
		if r := recover(); r != nil {
			if xe, ok := r.(xerr); ok {
				sig, err = nil, xe
				return
			}
			panic(r)
		}
	}()
	obj, err := u.L.lookup(pkgRel, recv, name)
	if err != nil {
		return nil, err
	}
	pi, decl := u.L.decl(obj)
	hits := make([][]ast.Stmt, len(pats))
	ast.Inspect(decl.Body, func(n ast.Node) bool {
		if st, ok := n.(ast.Stmt); ok {
			var b strings.Builder
			printer.Fprint(&b, u.L.Fset, st)
			src := strings.Join(strings.Fields(b.String()), " ")
			for i, p := range pats {
				if strings.HasPrefix(src, strings.Join(strings.Fields(p), " ")) {
					hits[i] = append(hits[i], st)
				}
			}
		}
		return true
	})
	var sel []ast.Stmt
	for i, h := range hits {
		if len(h) != 1 {
			return nil, xerr{fmt.Sprintf("%s: pattern %q matches %d statements of %s (want exactly 1)", leanName, pats[i], len(h), name)}
		}
		sel = append(sel, h[0])
	}
	sort.Slice(sel, func(i, j int) bool { return sel[i].Pos() < sel[j].Pos() })
	for i, a := range sel { // a statement inside another selected statement would be translated twice
		for j, b := range sel {
			if i != j && a.Pos() <= b.Pos() && b.End() <= a.End() {
				return nil, xerr{fmt.Sprintf("%s: selected statement %q lies inside selected statement %q", leanName, pats[j], pats[i])}
			}
		}
	}
	last := sel[len(sel)-1]
	var resExpr ast.Expr
	if result != "" {
		for _, st := range sel {
			ast.Inspect(st, func(n ast.Node) bool {
				if e, ok := n.(ast.Expr); ok && resExpr == nil {
					var b strings.Builder
					printer.Fprint(&b, u.L.Fset, e)
					if b.String() == result {
						resExpr = e
					}
				}
				return resExpr == nil
			})
		}
		if resExpr == nil {
			return nil, xerr{fmt.Sprintf("%s: the result %q does not occur in the selected statements", leanName, result)}
		}
	}
	switch x := last.(type) { // a selected `if` / `for` stands for its condition
	case ast.Stmt:
		if resExpr != nil {
			break
		}
		switch x := x.(type) {
		case *ast.IfStmt:
			if x.Init == nil {
				last = &ast.ReturnStmt{Return: x.Pos(), Results: []ast.Expr{x.Cond}}
			}
		case *ast.ForStmt:
			if x.Init == nil && x.Cond != nil {
				last = &ast.ReturnStmt{Return: x.Pos(), Results: []ast.Expr{x.Cond}}
			}
		}
	}
	sel[len(sel)-1] = last
	var f *fn
	var body string
	var loopRes []string
	for pass := 1; pass <= 2; pass++ {
		prev := f
		f = &fn{u: u, pi: pi, obj: obj, names: map[types.Object]string{}, used: map[string]bool{leanName: true}, structs: map[types.Object]int{},
			params: map[string]*lparam{}, tvars: map[string]string{}, opt: true, slice: true, sig: &Sig{Name: leanName, NRes: 1, NDecl: 1},
			muts: map[string]bool{}, foreign: map[types.Object]bool{}, flat: map[types.Object][]flatField{}, closedOver: map[string]string{}}
		var resT []ty
		if r, ok := last.(*ast.ReturnStmt); ok {
			f.sig.NRes, f.sig.NDecl = len(r.Results), len(r.Results)
			for _, e := range r.Results {
				resT = append(resT, f.typeOf(e))
			}
		}
		if prev != nil {
			f.opt, f.tvars = prev.panics, prev.tvars
			for _, p := range prev.order {
				f.used[p.name], f.params[p.name] = true, p
				f.order = append(f.order, p)
				f.sig.Params = append(f.sig.Params, *p)
				if p.src == -2 {
					f.names[p.glob] = p.name
				}
			}
			for _, v := range f.tvars {
				f.sig.TVars = append(f.sig.TVars, v)
			}
			sort.Strings(f.sig.TVars)
			f.sig.Res, f.sig.Opt = prev.sig.Res, f.opt
		}
		if sw, isSwitch := last.(*ast.SwitchStmt); isSwitch && sw.Tag != nil && sw.Init == nil && resExpr == nil && len(sel) == 1 {
			// a selected `switch tag {..}` stands for the number of the arm taken (1-based, in source order; 0 = none)
			body = f.switchArm(sw)
			f.sig.Res = "Int"
			continue
		}
		body = f.block(sel, func() string {
			if resExpr != nil {
				if id, isID := resExpr.(*ast.Ident); isID && pi.info.Defs[id] != nil { // the result is a variable the statements define
					resT = []ty{f.tyOf(pi.info.Defs[id].Type())}
					return f.ret([]string{f.names[pi.info.Defs[id]]})
				}
				resT = []ty{f.typeOf(resExpr)}
				v := f.expr(resExpr)
				return f.takePre() + f.ret([]string{v})
			}
			var lhs ast.Expr
			switch s := last.(type) {
			case *ast.AssignStmt:
				lhs = s.Lhs[0]
				if sel, isSel := lhs.(*ast.SelectorExpr); isSel { // the statement updates a field of a struct parameter
					if i, pp, ord, isPath := f.path(sel); isPath && pp != "" {
						t := f.typeOf(sel)
						resT = []ty{t}
						return f.ret([]string{f.pathParam(sel, i, pp, ord, t)})
					}
				}
			case *ast.IncDecStmt:
				lhs = s.X
			case *ast.RangeStmt, *ast.ForStmt: // a loop: the result is what it writes among the slice's parameters
				mod := f.assigned(last)
				var vals []string
				loopRes = nil
				for _, p := range f.order {
					if mod[p.name] {
						vals, loopRes = append(vals, p.name), append(loopRes, p.ltype)
					}
				}
				if len(vals) == 0 {
					f.fail(last, "the selected loop assigns none of the slice's free variables")
				}
				f.sig.NRes = len(vals)
				return f.ret(vals)
			default:
				f.fail(last, "the last selected statement neither returns nor assigns")
			}
			o, ok := f.lhs(lhs)
			if !ok {
				f.fail(last, "the last selected statement assigns to _")
			}
			resT = []ty{f.tyOf(o.Type())}
			return f.ret([]string{f.names[o]})
		})
		rs := loopRes
		for _, t := range resT {
			rs = append(rs, f.lean(t))
		}
		f.sig.Res = strings.Join(rs, " × ")
	}
	u.emit(f, decl, body, " (statements: "+strings.Join(pats, " ; ")+")")
	return f.sig, nil
}
