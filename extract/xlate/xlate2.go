package xlate

// Second part of the translator: conditions whose right operand can panic, writes to slices (returned as new
// lists), loops (counting, range, and `for cond {}` bounded by an explicit `gas` parameter), function literals,
// sort.Search and encoding/binary.LittleEndian.

import (
	"fmt"
	"go/ast"
	"go/token"
	"go/types"
	"strings"
)

func unparen(e ast.Expr) ast.Expr {
	for {
		p, ok := e.(*ast.ParenExpr)
		if !ok {
			return e
		}
		e = p.X
	}
}

// canPanic: does evaluating the condition e need a guard or a bind?  (trial translation, state restored)
func (f *fn) canPanic(e ast.Expr) (res bool) {
	pre, ntmp, panics := f.pre, f.ntmp, f.panics
	defer func() {
		if r := recover(); r != nil {
			if _, ok := r.(xerr); !ok {
				panic(r)
			}
			res = false // the real translation reports the error
		}
		f.pre, f.ntmp, f.panics = pre, ntmp, panics
	}()
	f.pre = nil
	f.cond(e)
	return len(f.pre) > 0
}

// shortCircuit: e is `a && b` / `a || b` (possibly under !) whose right operand can panic.
func (f *fn) shortCircuit(e ast.Expr) bool {
	switch x := unparen(e).(type) {
	case *ast.UnaryExpr:
		return x.Op == token.NOT && f.shortCircuit(x.X)
	case *ast.BinaryExpr:
		if x.Op == token.LAND || x.Op == token.LOR {
			return f.canPanic(x.Y) || f.shortCircuit(x.X) || f.shortCircuit(x.Y)
		}
	}
	return false
}

// branch translates `if e { t } else { el }`; && and || whose right operand can panic become nested tests, so
// that the operand is evaluated exactly when Go evaluates it.  t and el must be memoised by the caller.
func (f *fn) branch(e ast.Expr, t, el func() string) string {
	if f.shortCircuit(e) {
		switch x := unparen(e).(type) {
		case *ast.UnaryExpr:
			return f.branch(x.X, el, t)
		case *ast.BinaryExpr:
			if x.Op == token.LAND {
				return f.branch(x.X, memo(func() string { return f.branch(x.Y, t, el) }), el)
			}
			return f.branch(x.X, t, memo(func() string { return f.branch(x.Y, t, el) }))
		}
	}
	c := f.cond(e)
	pre := f.takePre()
	a, b := t(), el()
	if a == b {
		return pre + a
	}
	return pre + "if " + c + " then\n" + indent(a) + "\nelse\n" + indent(b)
}

// ---------------------------------------------------------------- writes to slices

// place resolves an assignable slice: a local, a slice parameter or a slice field of a struct parameter.
func (f *fn) place(e ast.Expr) (name string, t ty, ok bool) {
	e = unparen(e)
	if id, isID := e.(*ast.Ident); isID {
		if n := f.names[f.pi.info.Uses[id]]; n != "" {
			if _, isStruct := f.structs[f.pi.info.Uses[id]]; !isStruct {
				return n, f.typeOf(e), true
			}
		}
		if v, isVar := f.pi.info.Uses[id].(*types.Var); isVar && f.slice && v.Pkg() != nil && v.Parent() != v.Pkg().Scope() && f.tyOf(v.Type()).k == kList {
			return f.free(e, v), f.typeOf(e), true // a statement slice writes to a local slice it does not define
		}
		if v, isVar := f.pi.info.Uses[id].(*types.Var); isVar && v.Pkg() != nil && v.Parent() == v.Pkg().Scope() {
			if t := f.typeOf(e); t.k == kList { // a package-level array / slice: a parameter, returned when written
				return f.global(e, v), t, true
			}
		}
		return "", ty{}, false
	}
	if i, p, ord, isPath := f.path(e); isPath && p != "" {
		t := f.typeOf(e)
		return f.pathParam(e, i, p, ord, t), t, true
	}
	return "", ty{}, false
}

// wrote records a write through a parameter (it is then returned by the function).
func (f *fn) wrote(name string) {
	if _, isParam := f.params[name]; isParam {
		f.muts[name] = true
	}
	for _, p := range f.sig.Params {
		if p.name == name {
			f.muts[name] = true
		}
	}
}

func (f *fn) mutVals() []string {
	if f.closure > 0 {
		return nil
	}
	var r []string
	for _, p := range f.sig.Params {
		if f.muts[p.name] {
			r = append(r, p.name)
		}
	}
	return r
}

func (f *fn) rebind(name string, t ty, val string, rest func() string) string {
	f.wrote(name)
	return f.takePre() + "let " + name + " : " + f.lean(t) + " := " + val + "\n" + rest()
}

// setIndex: xs[i] = v, xs[i] op= v
func (f *fn) setIndex(s *ast.AssignStmt, ix *ast.IndexExpr, rest func() string) string {
	name, t, ok := f.place(ix.X)
	if !ok || t.k != kList || (t.elem.k != kInt && t.elem.k != kBool && !(t.elem.k == kOpaque && s.Tok == token.ASSIGN)) {
		f.fail(s, "assignment to %s is outside the fragment", f.render(ix))
	}
	i := paren(f.expr(ix.Index))
	var v string
	if s.Tok == token.ASSIGN {
		v = f.expr(s.Rhs[0])
		f.guard("(0 : Int) ≤ " + i + " ∧ " + i + " < Go.len " + name)
	} else {
		ops := map[token.Token]token.Token{token.ADD_ASSIGN: token.ADD, token.SUB_ASSIGN: token.SUB, token.AND_ASSIGN: token.AND,
			token.OR_ASSIGN: token.OR, token.XOR_ASSIGN: token.XOR, token.MUL_ASSIGN: token.MUL}
		op, ok := ops[s.Tok]
		if !ok {
			f.fail(s, "assignment operator %s on a slice element is outside the fragment", s.Tok)
		}
		v = f.arith(s, op, ix, s.Rhs[0], *t.elem) // reads xs[i] first: the bind is the bounds check
	}
	return f.rebind(name, t, "Go.set "+name+" "+i+" "+paren(v), rest)
}

var leWidth = map[string]int{"Uint16": 2, "Uint32": 4, "Uint64": 8, "PutUint16": 2, "PutUint32": 4, "PutUint64": 8}

func isLE(c *types.Func) bool {
	return strings.HasPrefix(c.FullName(), "(encoding/binary.littleEndian).") && leWidth[c.Name()] > 0
}

// special: library calls with a fixed Lean meaning (Base/GoInt.lean): LittleEndian reads, sort.Search.
func (f *fn) special(x *ast.CallExpr, c *types.Func, args []ast.Expr) (string, bool) {
	switch {
	case isLE(c) && !strings.HasPrefix(c.Name(), "Put") && len(args) == 2: // args[0] is the receiver
		xs := paren(f.expr(args[1]))
		n := leWidth[c.Name()]
		f.guard(fmt.Sprintf("%d ≤ Go.len %s", n, xs))
		return fmt.Sprintf("Go.leRead %d %s", n, xs), true
	case c.FullName() == "sort.Search" && len(args) == 2:
		lit, ok := args[1].(*ast.FuncLit)
		if !ok {
			f.fail(x, "sort.Search with a predicate that is not a function literal")
		}
		n := paren(f.expr(args[0]))
		return f.bind("Go.sortSearch " + n + " " + paren(f.funcLit(lit))), true
	}
	return "", false
}

// effect: a call in statement position: PutUint* on (a part of) a slice, or a translated function that writes to
// its slice parameters; the written slices are rebound to the returned lists.
func (f *fn) effect(call *ast.CallExpr, rest func() string) string {
	info := f.pi.info
	var c *types.Func
	args := call.Args
	switch fun := call.Fun.(type) {
	case *ast.Ident:
		c, _ = info.Uses[fun].(*types.Func)
	case *ast.SelectorExpr:
		c, _ = info.Uses[fun.Sel].(*types.Func)
		if sel := info.Selections[fun]; sel != nil && sel.Kind() == types.MethodVal {
			args = append([]ast.Expr{fun.X}, call.Args...)
		}
	}
	if c == nil {
		f.fail(call, "statement %s is outside the fragment", f.render(call))
	}
	if isLE(c) && strings.HasPrefix(c.Name(), "Put") && len(args) == 3 { // PutUintN(b[lo:hi], v)
		n := leWidth[c.Name()]
		target, lo, hi := unparen(args[1]), "0", ""
		if se, ok := target.(*ast.SliceExpr); ok && !se.Slice3 {
			target = se.X
			if se.Low != nil {
				lo = paren(f.expr(se.Low))
			}
			if se.High != nil {
				hi = paren(f.expr(se.High))
			}
		}
		name, t, ok := f.place(target)
		if !ok || t.k != kList || t.elem.k != kInt || t.elem.bits != 8 {
			f.fail(call, "%s on something that is not (a part of) a byte slice variable", c.Name())
		}
		if hi == "" {
			hi = "Go.len " + name
		}
		v := paren(f.expr(args[2]))
		f.guard(fmt.Sprintf("(0 : Int) ≤ %s ∧ %s + %d ≤ %s ∧ %s ≤ Go.len %s", lo, lo, n, hi, hi, name))
		return f.rebind(name, t, fmt.Sprintf("Go.lePut %d %s %s %s", n, name, lo, v), rest)
	}
	sig := f.u.translate(c)
	if sig.NDecl != 0 || len(sig.Muts) == 0 {
		f.fail(call, "statement %s: the call has results or no effect the translator knows", f.render(call))
	}
	ts := f.mutTargets(call, c, sig, args)
	r := f.apply(call, c, sig, args)
	return f.rebindAll(ts, r, 0, rest)
}

type target struct {
	name string
	t    ty
}

// mutTargets: the caller's variables / fields that stand for the slice parameters the callee writes to.
func (f *fn) mutTargets(call *ast.CallExpr, c *types.Func, sig *Sig, args []ast.Expr) []target {
	var ts []target
	for _, j := range sig.Muts {
		p := sig.Params[j]
		arg := args[p.src]
		if p.path != "" { // a field of a struct parameter of the callee: the same field of the caller's struct
			i, pp, ord, ok := f.path(arg)
			if !ok {
				f.fail(call, "struct argument of %s is not a parameter path", c.Name())
			}
			if pp != "" {
				pp += "."
			}
			t := f.fieldType(arg, p.order)
			ts = append(ts, target{f.pathParam(call, i, pp+p.path, append(append([]int{}, ord...), p.order...), t), t})
			continue
		}
		name, t, ok := f.place(arg)
		if !ok {
			f.fail(call, "%s writes to its argument %s, which is not a variable", c.Name(), f.render(arg))
		}
		ts = append(ts, target{name, t})
	}
	return ts
}

// rebindAll binds the written slices to the components of r from position skip on (the declared results come first).
func (f *fn) rebindAll(ts []target, r string, skip int, rest func() string) string {
	if len(ts) == 1 && skip == 0 {
		return f.rebind(ts[0].name, ts[0].t, r, rest)
	}
	tmp := f.fresh("r")
	out := f.takePre() + "let " + tmp + " := " + r + "\n"
	n := skip + len(ts)
	k := rest
	for i := len(ts) - 1; i >= 0; i-- {
		proj := tmp + strings.Repeat(".2", skip+i)
		if skip+i < n-1 {
			proj += ".1"
		}
		t, inner := ts[i], k
		k = func() string { return f.rebind(t.name, t.t, proj, inner) }
	}
	return out + k()
}

// funcLit translates a function literal over integers / bools to `fun x .. => (body : Option T)`.
func (f *fn) funcLit(lit *ast.FuncLit) string {
	t := f.tyOf(f.pi.info.TypeOf(lit))
	if t.k != kFunc {
		f.fail(lit, "function literal outside the fragment (want integer / bool parameters and one such result)")
	}
	var names []string
	base := len(f.scope)
	for _, fld := range lit.Type.Params.List {
		for _, id := range fld.Names {
			o := f.pi.info.Defs[id]
			names = append(names, f.declare(o, f.tyOf(o.Type())))
		}
	}
	opt, nres, ndecl, pre, brk, cont := f.opt, f.sig.NRes, f.sig.NDecl, f.pre, f.brk, f.cont
	f.opt, f.sig.NRes, f.sig.NDecl, f.pre, f.brk, f.cont = true, 1, 1, nil, nil, nil
	f.closure++
	body := f.block(lit.Body.List, func() string {
		f.fail(lit, "control can reach the end of the function literal")
		return ""
	})
	f.closure--
	f.opt, f.sig.NRes, f.sig.NDecl, f.pre, f.brk, f.cont = opt, nres, ndecl, pre, brk, cont
	f.scope = f.scope[:base]
	return "fun " + strings.Join(names, " ") + " =>\n" + indent(body)
}

// ---------------------------------------------------------------- loops

// assigned collects the Lean names of the variables (and written slices) assigned anywhere under n.
func (f *fn) assigned(n ast.Node) map[string]bool {
	res := map[string]bool{}
	add := func(e ast.Expr) {
		e = unparen(e)
		if fl, name, ok := f.flatOf(e); ok && name != "" {
			res[f.flatVar(e, fl, name).lean] = true
			return
		}
		if ix, ok := e.(*ast.IndexExpr); ok {
			e = unparen(ix.X)
		}
		if se, ok := e.(*ast.SliceExpr); ok {
			e = unparen(se.X)
		}
		if id, ok := e.(*ast.Ident); ok && f.slice && f.names[f.pi.info.Uses[id]] == "" {
			if v, isVar := f.pi.info.Uses[id].(*types.Var); isVar && v.Pkg() != nil && v.Parent() != v.Pkg().Scope() {
				f.free(e, v) // a statement slice assigns a local it does not define
			}
		}
		if id, ok := e.(*ast.Ident); ok && f.names[f.pi.info.Uses[id]] != "" {
			res[f.names[f.pi.info.Uses[id]]] = true
		} else if name, _, ok := f.place(e); ok {
			res[name] = true
		}
	}
	ast.Inspect(n, func(x ast.Node) bool {
		switch y := x.(type) {
		case *ast.AssignStmt:
			for _, l := range y.Lhs {
				add(l)
			}
		case *ast.IncDecStmt:
			add(y.X)
		case *ast.ExprStmt:
			call, ok := y.X.(*ast.CallExpr)
			if !ok {
				return true
			}
			var c *types.Func
			args := call.Args
			if sel, ok := call.Fun.(*ast.SelectorExpr); ok {
				c, _ = f.pi.info.Uses[sel.Sel].(*types.Func)
				if s := f.pi.info.Selections[sel]; s != nil && s.Kind() == types.MethodVal {
					args = append([]ast.Expr{sel.X}, call.Args...)
				}
			} else if id, ok := call.Fun.(*ast.Ident); ok {
				c, _ = f.pi.info.Uses[id].(*types.Func)
			}
			switch {
			case c == nil || has(f.u.Ignore, f.callee(call)) || has(f.u.Panics, f.callee(call)):
			case isLE(c) && len(args) == 3:
				add(args[1])
			default:
				if pi, d := f.u.L.decl(c); pi != nil && d != nil {
					sig := f.u.translate(c)
					for _, j := range sig.Muts {
						if p := sig.Params[j]; p.path == "" {
							add(args[p.src])
						} else if i, pp, ord, ok := f.path(args[p.src]); ok {
							if pp != "" {
								pp += "."
							}
							res[f.pathParam(call, i, pp+p.path, append(append([]int{}, ord...), p.order...), f.fieldType(args[p.src], p.order))] = true
						}
					}
				}
			}
		}
		return true
	})
	return res
}

// mentions: does n read a variable (or struct field) whose Lean name is in names?
func (f *fn) mentions(n ast.Node, names map[string]bool) bool {
	hit := false
	ast.Inspect(n, func(x ast.Node) bool {
		switch y := x.(type) {
		case *ast.Ident:
			if nm := f.names[f.pi.info.Uses[y]]; nm != "" && names[nm] {
				hit = true
			}
		case *ast.SelectorExpr:
			if _, p, _, ok := f.path(y); ok && p != "" {
				if name, _, ok := f.place(y); ok && names[name] {
					hit = true
				}
			}
		}
		return true
	})
	return hit
}

// loopDef emits `def <fn>_loopN`: the loop from its head on, including the code after it (exit).  first is the type
// of the argument the recursion runs on (Nat or the list), basePat / stepPat its two patterns, recArg the smaller
// argument; base builds the base case from the exit code, body the step case from the recursive call.
func (f *fn) loopDef(mod map[string]bool, first, basePat, stepPat, recArg string, after func() string,
	base func(exit string) string, body func(rec string, exit func() string) string) (call func(arg string) string) {
	name := fmt.Sprintf("%s_loop%d", f.sig.Name, f.nloop)
	f.nloop++
	var fixed, fixedArgs, vary, varyTypes []string
	for _, tv := range f.sig.TVars {
		fixed = append(fixed, "{"+tv+" : Type}")
	}
	if f.sig.Fuel && recArg != "gas" {
		fixed, fixedArgs = append(fixed, "(gas : Nat)"), append(fixedArgs, "gas")
	}
	seen := map[string]bool{}
	add := func(name, ltype string) {
		if seen[name] {
			return
		}
		seen[name] = true
		if mod[name] { // assigned in the loop: travels as an argument of the recursion
			vary, varyTypes = append(vary, name), append(varyTypes, ltype)
		} else {
			fixed, fixedArgs = append(fixed, "("+name+" : "+ltype+")"), append(fixedArgs, name)
		}
	}
	for _, p := range f.sig.Params {
		add(p.name, p.ltype)
	}
	for _, v := range f.scope {
		add(v.name, v.ltype)
	}
	head := strings.TrimSpace(name + " " + strings.Join(fixedArgs, " "))
	rec := strings.TrimSpace(head + " " + recArg + " " + strings.Join(vary, " "))
	pats := func(p string) string { return strings.Join(append([]string{p}, vary...), ", ") }
	saved := append([]lvar{}, f.scope...)
	closed := f.depth > 0 // a loop inside a loop: it returns the variables it assigns instead of containing what follows
	var exitText, resType string
	if closed {
		if len(vary) == 0 || f.hasReturn {
			panic(xerr{f.obj.Name() + ": a nested loop that returns from the function (or assigns nothing) is outside the fragment"})
		}
		exitText, resType = "("+strings.Join(vary, ", ")+")", strings.Join(varyTypes, " × ")
		if len(vary) == 1 {
			exitText = vary[0]
		}
		if f.opt {
			exitText, resType = "some "+paren(exitText), "Option "+paren(resType)
		}
	} else {
		exitText, resType = after(), f.sig.resType() // translated first, in the scope of the loop head; later loops are emitted before this one
		f.scope = append([]lvar{}, saved...)
	}
	step := body(rec, func() string { return exitText })
	f.scope = saved
	def := fmt.Sprintf("def %s %s : %s → %s\n  | %s =>\n%s\n  | %s =>\n%s\n", name, strings.Join(fixed, " "),
		strings.Join(append([]string{first}, varyTypes...), " → "), resType, pats(basePat), indent(indent(base(exitText))),
		pats(stepPat), indent(indent(step)))
	f.aux = append(f.aux, def)
	return func(arg string) string {
		app := strings.TrimSpace(head + " " + paren(arg) + " " + strings.Join(vary, " "))
		if !closed {
			return app
		}
		out, r := "", ""
		if f.opt {
			r = f.bind(app)
			out = f.takePre()
		} else {
			r = f.fresh("r")
			out = "let " + r + " := " + app + "\n"
		}
		for i, v := range vary {
			proj := r
			if len(vary) > 1 {
				proj += strings.Repeat(".2", i)
				if i < len(vary)-1 {
					proj += ".1"
				}
			}
			out += "let " + v + " : " + varyTypes[i] + " := " + proj + "\n"
		}
		return out + after()
	}
}

func (f *fn) inLoop(brk, cont func() string, run func() string) string {
	if f.closure > 0 {
		panic(xerr{f.obj.Name() + ": a loop inside a function literal is outside the fragment"})
	}
	ob, oc, oh := f.brk, f.cont, f.hasReturn
	f.brk, f.cont, f.hasReturn = brk, cont, false
	f.depth++
	defer func() { f.brk, f.cont, f.hasReturn = ob, oc, oh || f.hasReturn; f.depth-- }()
	return run()
}

// counting: `for ; i < b; i++ { body }` (also <=, and >, >= with i--) where neither i nor b is assigned in the body.
func (f *fn) counting(s *ast.ForStmt) bool {
	be, _ := s.Cond.(*ast.BinaryExpr)
	post, _ := s.Post.(*ast.IncDecStmt)
	if be == nil || post == nil {
		return false
	}
	iv, _ := be.X.(*ast.Ident)
	pid, _ := post.X.(*ast.Ident)
	if iv == nil || pid == nil || f.pi.info.Uses[iv] != f.pi.info.Uses[pid] || f.typeOf(iv).k != kInt {
		return false
	}
	up := map[token.Token]bool{token.LSS: true, token.LEQ: true}[be.Op] && post.Tok == token.INC
	down := map[token.Token]bool{token.GTR: true, token.GEQ: true}[be.Op] && post.Tok == token.DEC
	mod := f.assigned(s.Body)
	i := f.names[f.pi.info.Uses[iv]]
	return (up || down) && i != "" && !mod[i] && !f.mentions(be.Y, mod) && !f.mentions(be.Y, map[string]bool{i: true}) && !f.canPanic(s.Cond)
}

func (f *fn) forLoop(s *ast.ForStmt, after func() string) string {
	be, post := s.Cond.(*ast.BinaryExpr), s.Post.(*ast.IncDecStmt)
	mod := f.assigned(s.Body)
	i, b := f.expr(be.X), paren(f.expr(be.Y))
	mod[i] = true
	c := f.cond(s.Cond)
	fuel := map[token.Token]string{token.LSS: b + " - " + i, token.LEQ: b + " + 1 - " + i, token.GTR: i + " - " + b, token.GEQ: i + " + 1 - " + b}[be.Op]
	call := f.loopDef(mod, "Nat", "0", "fuel + 1", "fuel", after, func(exit string) string { return exit }, func(rec string, exit func() string) string {
		next := memo(func() string { return f.seq([]ast.Stmt{post}, func() string { return rec }) })
		body := f.inLoop(exit, next, func() string { return f.block(s.Body.List, next) })
		return "if " + c + " then\n" + indent(body) + "\nelse\n" + indent(exit())
	})
	return call("(" + fuel + ").toNat")
}

// whileLoop: any other `for [cond] { body }`: bounded by the function's `gas` parameter, `none` when it runs out.
func (f *fn) whileLoop(s *ast.ForStmt, after func() string) string {
	mod := f.assigned(s.Body)
	if s.Post != nil {
		for n := range f.assigned(s.Post) {
			mod[n] = true
		}
	}
	f.needGas, f.panics = true, true
	call := f.loopDef(mod, "Nat", "0", "gas + 1", "gas", after, func(string) string { return "none" }, func(rec string, exit func() string) string {
		next := memo(func() string {
			if s.Post == nil {
				return rec
			}
			return f.seq([]ast.Stmt{s.Post}, func() string { return rec })
		})
		body := memo(func() string { return f.inLoop(exit, next, func() string { return f.block(s.Body.List, next) }) })
		if s.Cond == nil {
			return body()
		}
		return f.branch(s.Cond, body, exit)
	})
	return call("gas")
}

// rangeLoop: `for i, x := range xs { body }` (i, x optional), xs not assigned in the body.
func (f *fn) rangeLoop(s *ast.RangeStmt, after func() string) string {
	if s.Tok != token.DEFINE && (s.Key != nil || s.Value != nil) {
		f.fail(s, "range loop that assigns to existing variables")
	}
	t := f.typeOf(s.X)
	mod := f.assigned(s.Body)
	if t.k == kList && !t.str && f.mentions(s.X, mod) {
		return f.rangeWritten(s, t, mod, after)
	}
	if t.k != kList || t.str {
		f.fail(s, "range over something that is not a slice (ranging over a string decodes runes)")
	}
	xs := f.expr(s.X) // evaluated once, before the loop
	pre := f.takePre()
	base := len(f.scope)
	key := ""
	if id, ok := s.Key.(*ast.Ident); ok && id.Name != "_" { // the index: a counter that travels with the recursion
		key = f.declare(f.pi.info.Defs[id], ty{k: kInt, bits: 64, signed: true})
		mod[key] = true
		pre += "let " + key + " : Int := 0\n"
	}
	x, mark := "_", len(f.scope)
	if id, ok := s.Value.(*ast.Ident); ok && id.Name != "_" {
		x = f.declare(f.pi.info.Defs[id], *t.elem)
	}
	elemVar := append([]lvar{}, f.scope[mark:]...)
	f.scope = f.scope[:mark]
	tl := f.fresh("tl")
	call := f.loopDef(mod, f.lean(t), "[]", x+" :: "+tl, tl, func() string {
		saved := f.scope
		f.scope = f.scope[:base] // the index is not visible after the loop
		defer func() { f.scope = saved }()
		return after()
	}, func(exit string) string { return exit }, func(rec string, exit func() string) string {
		next := func() string {
			if key != "" {
				return "let " + key + " : Int := " + key + " + 1\n" + rec
			}
			return rec
		}
		f.scope = append(f.scope, elemVar...)
		defer func() { f.scope = f.scope[:mark] }()
		return f.inLoop(exit, next, func() string { return f.block(s.Body.List, next) })
	})
	r := pre + call(xs)
	f.scope = f.scope[:base]
	return r
}

// switchStmt: `switch [tag] { case a, b: ...; default: ... }` without fallthrough, as a chain of tests in source
// order (the default last); `break` leaves the switch.
func (f *fn) switchStmt(s *ast.SwitchStmt, after func() string) string {
	if s.Init != nil {
		inner := *s
		inner.Init = nil
		return f.block([]ast.Stmt{s.Init, &inner}, after)
	}
	pre, tag := "", ""
	var tagT ty
	if s.Tag != nil {
		tagT = f.typeOf(s.Tag)
		if tagT.k != kInt && tagT.k != kBool {
			f.fail(s, "switch on a value outside the fragment")
		}
		v := f.expr(s.Tag)
		tag = f.fresh("tag")
		pre = f.takePre() + "let " + tag + " : " + f.lean(tagT) + " := " + v + "\n"
	}
	var clauses []*ast.CaseClause
	var def *ast.CaseClause
	for _, c := range s.Body.List {
		cc := c.(*ast.CaseClause)
		for _, st := range cc.Body {
			if b, ok := st.(*ast.BranchStmt); ok && b.Tok == token.FALLTHROUGH {
				f.fail(s, "fallthrough is outside the fragment")
			}
		}
		if cc.List == nil {
			def = cc
		} else {
			clauses = append(clauses, cc)
		}
	}
	ob := f.brk
	f.brk = after
	defer func() { f.brk = ob }()
	var chain func(i int) string
	chain = func(i int) string {
		if i == len(clauses) {
			if def == nil {
				return after()
			}
			return f.block(def.Body, after)
		}
		cc := clauses[i]
		body := memo(func() string { return f.block(cc.Body, after) })
		next := memo(func() string { return chain(i + 1) })
		if s.Tag == nil { // switch { case cond: }
			var test func(j int) string
			test = func(j int) string {
				if j == len(cc.List) {
					return next()
				}
				return f.branch(cc.List[j], body, memo(func() string { return test(j + 1) }))
			}
			return test(0)
		}
		var cs []string
		for _, e := range cc.List {
			cs = append(cs, tag+" = "+paren(f.expr(e)))
		}
		if len(f.pre) > 0 {
			f.fail(cc, "a case expression can panic")
		}
		a, b := body(), next()
		if a == b {
			return a
		}
		return "if " + strings.Join(cs, " ∨ ") + " then\n" + indent(a) + "\nelse\n" + indent(b)
	}
	return pre + chain(0)
}

// rangeWritten: `for i, x := range xs` whose body writes elements of xs (never xs itself): Go fixes the length at
// the start and reads xs[i] at each iteration from the written slice - a counting loop over the evolving list.
func (f *fn) rangeWritten(s *ast.RangeStmt, t ty, mod map[string]bool, after func() string) string {
	name, _, ok := f.place(s.X)
	if !ok || s.Tok != token.DEFINE {
		f.fail(s, "range over a slice expression that the loop body writes to")
	}
	whole := false
	ast.Inspect(s.Body, func(n ast.Node) bool {
		if a, isAssign := n.(*ast.AssignStmt); isAssign {
			for _, l := range a.Lhs {
				if pn, _, isPlace := f.place(l); isPlace && pn == name {
					whole = true
				}
			}
		}
		return true
	})
	if whole {
		f.fail(s, "the loop body assigns the slice it ranges over")
	}
	base := len(f.scope)
	n, i := f.fresh("n"), ""
	f.scope = append(f.scope, lvar{nil, n, "Int"})
	pre := "let " + n + " : Int := Go.len " + name + "\n"
	if id, isID := s.Key.(*ast.Ident); isID && id.Name != "_" {
		i = f.declare(f.pi.info.Defs[id], ty{k: kInt, bits: 64, signed: true})
	} else {
		i = f.fresh("i")
		f.scope = append(f.scope, lvar{nil, i, "Int"})
	}
	mod[i] = true
	pre += "let " + i + " : Int := 0\n"
	mark := len(f.scope)
	call := f.loopDef(mod, "Nat", "0", "fuel + 1", "fuel", func() string {
		saved := f.scope
		f.scope = f.scope[:base]
		defer func() { f.scope = saved }()
		return after()
	}, func(exit string) string { return exit }, func(rec string, exit func() string) string {
		next := func() string { return "let " + i + " : Int := " + i + " + 1\n" + rec }
		bind := ""
		if id, isID := s.Value.(*ast.Ident); isID && id.Name != "_" {
			v := f.bind("Go.idx " + name + " " + i)
			x := f.declare(f.pi.info.Defs[id], *t.elem)
			bind = f.takePre() + "let " + x + " : " + f.lean(*t.elem) + " := " + v + "\n"
		}
		defer func() { f.scope = f.scope[:mark] }()
		body := f.inLoop(exit, next, func() string { return f.block(s.Body.List, next) })
		return "if " + i + " < " + n + " then\n" + indent(bind+body) + "\nelse\n" + indent(exit())
	})
	r := pre + call("Int.toNat "+n)
	f.scope = f.scope[:base]
	return r
}

// switchArm: which arm of `switch tag { case a, b: ..; case c: ..; default: .. }` is taken.
func (f *fn) switchArm(s *ast.SwitchStmt) string {
	t := f.typeOf(s.Tag)
	if t.k != kInt && t.k != kBool {
		f.fail(s, "switch on a value outside the fragment")
	}
	v := f.expr(s.Tag)
	out := f.takePre() + "let tag : " + f.lean(t) + " := " + v + "\n"
	def, tail := 0, ""
	for i, c := range s.Body.List {
		cc := c.(*ast.CaseClause)
		if cc.List == nil {
			def = i + 1
			continue
		}
		var cs []string
		for _, e := range cc.List {
			cs = append(cs, "tag = "+paren(f.expr(e)))
		}
		if len(f.pre) > 0 {
			f.fail(cc, "a case expression can panic")
		}
		out += fmt.Sprintf("if %s then %s else\n", strings.Join(cs, " ∨ "), f.ret([]string{fmt.Sprint(i + 1)}))
	}
	_ = tail
	return out + f.ret([]string{fmt.Sprint(def)})
}
