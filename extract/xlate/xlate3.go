package xlate

// Third part of the translator: struct values.  A struct-typed *parameter* is flattened to the fields read
// (xlate.go).  A struct *local* built by a composite literal (or returned by a translated function) is flattened
// to one Lean variable per field; a function that returns a struct returns the tuple of its fields.  Any other
// struct value (a slice element, the result of an oracle) is opaque: a value of a type variable whose fields are
// read through accessor parameters `<Type>_<field> : α → T`.  Calls named in Unit.Oracles (interface methods,
// loaders ...) stay uninterpreted: pure function parameters of the translated function.

import (
	"go/ast"
	"go/token"
	"go/types"
	"strings"
)

type flatField struct {
	name, lean string
	t          ty
}

func tkey(t types.Type) string {
	if p, ok := t.(*types.Pointer); ok {
		t = p.Elem()
	}
	return types.TypeString(t, nil)
}

func tname(t types.Type) string {
	if p, ok := t.(*types.Pointer); ok {
		t = p.Elem()
	}
	if n, ok := t.(*types.Named); ok {
		return n.Obj().Name()
	}
	return "struct"
}

func leaf(t ty) bool { return t.k == kInt || t.k == kBool || t.k == kTime || t.k == kList }

// structOf returns the struct type behind t (through a pointer / a name).
func structOf(t types.Type) *types.Struct {
	if p, ok := t.(*types.Pointer); ok {
		t = p.Elem()
	}
	s, _ := t.Underlying().(*types.Struct)
	return s
}

// ---------------------------------------------------------------- flattened struct locals

// newFlat declares the struct variable obj as one Lean variable per field; vals gives the initial values by
// field name (missing: the zero value).
func (f *fn) newFlat(n ast.Node, obj types.Object, vals map[string]string, rest func() string) string {
	st := structOf(obj.Type())
	if st == nil {
		f.fail(n, "%s is not a struct", obj.Name())
	}
	out := f.takePre()
	var fields []flatField
	for i := 0; i < st.NumFields(); i++ {
		fl := st.Field(i)
		t := f.tyOf(fl.Type())
		if !leaf(t) {
			f.fail(n, "field %s.%s has a type outside the fragment", obj.Name(), fl.Name())
		}
		v, ok := vals[fl.Name()]
		if !ok {
			v = map[kind]string{kInt: "0", kBool: "false", kList: "[]", kTime: "0"}[t.k]
		}
		lv := f.fresh(obj.Name() + "_" + fl.Name())
		f.scope = append(f.scope, lvar{nil, lv, f.lean(t)})
		fields = append(fields, flatField{fl.Name(), lv, t})
		out += "let " + lv + " : " + f.lean(t) + " := " + v + "\n"
	}
	for k := range vals {
		found := false
		for _, fl := range fields {
			found = found || fl.name == k
		}
		if !found {
			f.fail(n, "no field %s", k)
		}
	}
	f.flat[obj] = fields
	return out + rest()
}

// literal translates T{f: e, ...} / &T{...} to field values (by name).
func (f *fn) literal(e ast.Expr) (map[string]string, *types.Struct, bool) {
	e = unparen(e)
	if u, ok := e.(*ast.UnaryExpr); ok && u.Op == token.AND {
		e = unparen(u.X)
	}
	cl, ok := e.(*ast.CompositeLit)
	if !ok {
		return nil, nil, false
	}
	st := structOf(f.pi.info.TypeOf(cl))
	if st == nil {
		return nil, nil, false
	}
	vals := map[string]string{}
	for i, el := range cl.Elts {
		if kv, ok := el.(*ast.KeyValueExpr); ok {
			vals[kv.Key.(*ast.Ident).Name] = f.expr(kv.Value)
		} else {
			vals[st.Field(i).Name()] = f.expr(el)
		}
	}
	return vals, st, true
}

// flatOf: e is a flattened struct local (or one of its fields, name != "").
func (f *fn) flatOf(e ast.Expr) ([]flatField, string, bool) {
	switch x := unparen(e).(type) {
	case *ast.Ident:
		if fl, ok := f.flat[f.pi.info.Uses[x]]; ok {
			return fl, "", true
		}
	case *ast.SelectorExpr:
		if id, ok := unparen(x.X).(*ast.Ident); ok {
			if fl, ok := f.flat[f.pi.info.Uses[id]]; ok {
				return fl, x.Sel.Name, true
			}
		}
	}
	return nil, "", false
}

func (f *fn) flatVar(n ast.Node, fl []flatField, name string) flatField {
	for _, x := range fl {
		if x.name == name {
			return x
		}
	}
	f.fail(n, "no field %s", name)
	return flatField{}
}

// structResult: the values of the fields of a returned struct, in field order.
func (f *fn) structResult(e ast.Expr, st *types.Struct) []string {
	var vals []string
	if fl, name, ok := f.flatOf(e); ok && name == "" {
		for _, x := range fl {
			vals = append(vals, x.lean)
		}
		return vals
	}
	m, _, ok := f.literal(e)
	if !ok {
		f.fail(e, "a returned struct must be a composite literal or a local built from one")
	}
	for i := 0; i < st.NumFields(); i++ {
		t := f.tyOf(st.Field(i).Type())
		if !leaf(t) {
			f.fail(e, "field %s of the result has a type outside the fragment", st.Field(i).Name())
		}
		v, ok := m[st.Field(i).Name()]
		if !ok {
			v = map[kind]string{kInt: "0", kBool: "false", kList: "[]", kTime: "0"}[t.k]
		}
		vals = append(vals, v)
	}
	return vals
}

// ---------------------------------------------------------------- opaque struct values and their accessors

// accessor registers (once) the parameter `<Type>_<path> : α → T` and returns its name.
func (f *fn) accessor(n ast.Node, root types.Type, path []string, t ty) string {
	if !leaf(t) && t.k != kStruct {
		f.fail(n, "field %s of %s has a type outside the fragment", strings.Join(path, "."), tname(root))
	}
	name := tname(root) + "_" + strings.Join(path, "_")
	lt := f.lean(ty{k: kStruct, src: root}) + " → " + f.lean(t)
	return f.param(name, lparam{ltype: lt, src: -3, accRoot: root, accPath: path, accTy: t})
}

// field translates x.f.g where x is a flattened local or an opaque struct value.
func (f *fn) field(e *ast.SelectorExpr) (string, bool) {
	if fl, name, ok := f.flatOf(e); ok && name != "" {
		return f.flatVar(e, fl, name).lean, true
	}
	var path []string
	var cur ast.Expr = e
	for {
		s, ok := unparen(cur).(*ast.SelectorExpr)
		if !ok {
			break
		}
		if sel := f.pi.info.Selections[s]; sel == nil || sel.Kind() != types.FieldVal {
			return "", false
		}
		path = append([]string{s.Sel.Name}, path...)
		cur = s.X
	}
	rt := f.pi.info.TypeOf(cur)
	if rt == nil || structOf(rt) == nil || len(path) == 0 {
		return "", false
	}
	if _, _, _, isPath := f.path(cur); isPath {
		return "", false
	}
	v := f.expr(cur) // an opaque value
	return f.accessor(e, rt, path, f.typeOf(e)) + " " + paren(v), true
}

// ---------------------------------------------------------------- oracles

func oracleKey(c *types.Func) string {
	if r := c.Type().(*types.Signature).Recv(); r != nil {
		return tname(r.Type()) + "." + c.Name()
	}
	if c.Pkg() != nil {
		return c.Pkg().Name() + "." + c.Name()
	}
	return c.Name()
}

// values expands an argument into Lean terms: a struct goes field by field (flattened local, parameter path) or
// as one opaque value.
func (f *fn) values(e ast.Expr) ([]string, []string) {
	t := f.typeOf(e)
	if t.k != kStruct {
		return []string{paren(f.expr(e))}, []string{f.lean(t)}
	}
	var vs, ts []string
	if fl, name, ok := f.flatOf(e); ok && name == "" {
		for _, x := range fl {
			vs, ts = append(vs, x.lean), append(ts, f.lean(x.t))
		}
		return vs, ts
	}
	if i, p, ord, ok := f.path(e); ok {
		var walk func(st *types.Struct, p string, ord []int)
		walk = func(st *types.Struct, p string, ord []int) {
			for j := 0; j < st.NumFields(); j++ {
				ft := f.tyOf(st.Field(j).Type())
				pp, oo := strings.TrimPrefix(p+"."+st.Field(j).Name(), "."), append(append([]int{}, ord...), j)
				switch {
				case ft.k == kStruct:
					walk(ft.st, pp, oo)
				case leaf(ft):
					vs, ts = append(vs, f.pathParam(e, i, pp, oo, ft)), append(ts, f.lean(ft))
				default:
					f.fail(e, "field %s has a type outside the fragment", pp)
				}
			}
		}
		walk(t.st, p, ord)
		return vs, ts
	}
	return []string{paren(f.expr(e))}, []string{f.lean(t)}
}

// oracle translates a call named in Unit.Oracles as an application of an uninterpreted (pure, total) function
// parameter.  A receiver that is (a field path of) a parameter of the function is part of the oracle's name.
func (f *fn) oracle(x *ast.CallExpr, c *types.Func, args []ast.Expr) (string, bool) {
	if !has(f.u.Oracles, oracleKey(c)) {
		return "", false
	}
	sg := c.Type().(*types.Signature)
	if sg.Results().Len() == 0 {
		f.fail(x, "oracle %s must have a result", oracleKey(c))
	}
	name := tname2(c)
	if sg.Recv() != nil {
		recv := unparen(args[0])
		if p := f.paramPath(recv); p != "" {
			name, args = p+"_"+c.Name(), args[1:]
		}
	}
	var vs, ts, closed []string
	for _, a := range args {
		if id, isID := unparen(a).(*ast.Ident); isID { // a whole struct variable or a foreign-typed parameter: closed over
			if _, _, _, isRoot := f.path(id); isRoot || f.foreign[f.pi.info.Uses[id]] {
				closed = append(closed, id.Name)
				continue
			}
		}
		v, t := f.values(a)
		vs, ts = append(vs, v...), append(ts, t...)
	}
	if prev, seen := f.closedOver[name]; seen && prev != strings.Join(closed, ",") {
		f.fail(x, "oracle %s is called with different closed-over arguments (%s, %s)", name, prev, strings.Join(closed, ","))
	}
	f.closedOver[name] = strings.Join(closed, ",")
	var rts []string
	for i := 0; i < sg.Results().Len(); i++ {
		rt := f.tyOf(sg.Results().At(i).Type())
		if !leaf(rt) && rt.k != kStruct && rt.k != kOpaque {
			f.fail(x, "result of oracle %s has a type outside the fragment", oracleKey(c))
		}
		rts = append(rts, f.lean(rt))
	}
	lt := strings.Join(append(ts, strings.Join(rts, " × ")), " → ")
	if p, ok := f.params[name]; ok && p.ltype != lt {
		f.fail(x, "oracle %s is used at two different types (%s, %s)", name, p.ltype, lt)
	}
	return strings.TrimSpace(f.param(name, lparam{ltype: lt, src: -4}) + " " + strings.Join(vs, " ")), true
}

func tname2(c *types.Func) string { return strings.ReplaceAll(oracleKey(c), ".", "_") }

// paramPath renders a receiver that is a parameter of the function (also of foreign type) or a field path of
// one as an identifier prefix ("" otherwise).
func (f *fn) paramPath(e ast.Expr) string {
	switch x := unparen(e).(type) {
	case *ast.Ident:
		o := f.pi.info.Uses[x]
		f.path(x) // in a statement slice a struct variable is registered on first use
		if _, ok := f.structs[o]; ok || f.foreign[o] {
			return x.Name
		}
	case *ast.SelectorExpr:
		if sel := f.pi.info.Selections[x]; sel != nil && sel.Kind() == types.FieldVal {
			if p := f.paramPath(x.X); p != "" {
				return p + "_" + x.Sel.Name
			}
		}
	}
	return ""
}

// structAssign: x.f = e / x.f op= e on a flattened local, x := T{...}, x := g(...) with a struct result.
func (f *fn) structAssign(s *ast.AssignStmt, rest func() string) (string, bool) {
	if fl, name, ok := f.flatOf(s.Lhs[0]); ok && name != "" {
		fv := f.flatVar(s, fl, name)
		var val string
		if s.Tok == token.ASSIGN {
			val = f.expr(s.Rhs[0])
		} else {
			ops := map[token.Token]token.Token{token.ADD_ASSIGN: token.ADD, token.SUB_ASSIGN: token.SUB, token.MUL_ASSIGN: token.MUL,
				token.QUO_ASSIGN: token.QUO, token.REM_ASSIGN: token.REM, token.AND_ASSIGN: token.AND, token.OR_ASSIGN: token.OR}
			op, ok := ops[s.Tok]
			if !ok {
				f.fail(s, "assignment operator %s on a struct field is outside the fragment", s.Tok)
			}
			val = f.arith(s, op, s.Lhs[0], s.Rhs[0], fv.t)
		}
		return f.takePre() + "let " + fv.lean + " : " + f.lean(fv.t) + " := " + val + "\n" + rest(), true
	}
	id, ok := s.Lhs[0].(*ast.Ident)
	if !ok || id.Name == "_" {
		return "", false
	}
	obj := f.pi.info.Defs[id]
	if obj == nil || structOf(obj.Type()) == nil {
		return "", false
	}
	if vals, _, ok := f.literal(s.Rhs[0]); ok {
		return f.newFlat(s, obj, vals, rest), true
	}
	call, ok := unparen(s.Rhs[0]).(*ast.CallExpr)
	if !ok {
		return "", false
	}
	var c *types.Func
	args := call.Args
	switch fun := call.Fun.(type) {
	case *ast.Ident:
		c, _ = f.pi.info.Uses[fun].(*types.Func)
	case *ast.SelectorExpr:
		c, _ = f.pi.info.Uses[fun.Sel].(*types.Func)
		if sel := f.pi.info.Selections[fun]; sel != nil && sel.Kind() == types.MethodVal {
			args = append([]ast.Expr{fun.X}, call.Args...)
		}
	}
	if c == nil || has(f.u.Oracles, oracleKey(c)) {
		return "", false
	}
	if pi, d := f.u.L.decl(c); pi == nil || d == nil {
		return "", false
	}
	sig := f.u.translate(c)
	if sig.StructRes == nil || len(sig.Muts) > 0 {
		return "", false
	}
	r := f.apply(call, c, sig, args)
	tmp := f.fresh("r")
	pre := f.takePre() + "let " + tmp + " := " + r + "\n"
	vals := map[string]string{}
	n := sig.StructRes.NumFields()
	for i := 0; i < n; i++ {
		p := tmp
		if n > 1 {
			p += strings.Repeat(".2", i)
			if i < n-1 {
				p += ".1"
			}
		}
		vals[sig.StructRes.Field(i).Name()] = p
	}
	return pre + f.newFlat(s, obj, vals, rest), true
}

// repoCallee resolves a call to a function of the repository that has a body (receiver first among the arguments).
func (f *fn) repoCallee(call *ast.CallExpr) (*types.Func, []ast.Expr) {
	var c *types.Func
	args := call.Args
	switch fun := call.Fun.(type) {
	case *ast.Ident:
		c, _ = f.pi.info.Uses[fun].(*types.Func)
	case *ast.SelectorExpr:
		c, _ = f.pi.info.Uses[fun.Sel].(*types.Func)
		if sel := f.pi.info.Selections[fun]; sel != nil && sel.Kind() == types.MethodVal {
			args = append([]ast.Expr{fun.X}, call.Args...)
		}
	}
	if c == nil {
		return nil, nil
	}
	if pi, d := f.u.L.decl(c); pi == nil || d == nil || d.Body == nil {
		return nil, nil
	}
	return c, args
}
