// Package lib: a small go/ast fact extractor.  Each property's extractor (cmd/cXX) re-reads /repo's
// current sources and regenerates lean/SeqVerif/Extracted/CXX.lean: constants, ordered operation lists,
// propagation facts, dispatch tables.  When a shape is not recognised NOTHING is emitted for that fact
// (and a comment says why), so the Lean obligation that mentions it fails to elaborate.
package lib

import (
	"bytes"
	"fmt"
	"go/ast"
	"go/constant"
	"go/parser"
	"go/printer"
	"go/token"
	"os"
	"path/filepath"
	"sort"
	"strings"
)

type File struct {
	Path string
	Fset *token.FileSet
	AST  *ast.File
}

type Repo struct{ Root string }

func (r Repo) Load(rel string) (*File, error) {
	fset := token.NewFileSet()
	p := filepath.Join(r.Root, rel)
	f, err := parser.ParseFile(fset, p, nil, parser.ParseComments)
	if err != nil {
		return nil, err
	}
	return &File{Path: rel, Fset: fset, AST: f}, nil
}

// Func finds a function (recv == "") or method (recv = type name without *) declaration.
func (f *File) Func(recv, name string) *ast.FuncDecl {
	for _, d := range f.AST.Decls {
		fd, ok := d.(*ast.FuncDecl)
		if !ok || fd.Name.Name != name {
			continue
		}
		if recv == "" && fd.Recv == nil {
			return fd
		}
		if recv != "" && fd.Recv != nil && len(fd.Recv.List) == 1 {
			t := fd.Recv.List[0].Type
			if s, ok := t.(*ast.StarExpr); ok {
				t = s.X
			}
			if ix, ok := t.(*ast.IndexExpr); ok {
				t = ix.X
			}
			if id, ok := t.(*ast.Ident); ok && id.Name == recv {
				return fd
			}
		}
	}
	return nil
}

func (f *File) Render(n ast.Node) string {
	var b bytes.Buffer
	printer.Fprint(&b, f.Fset, n)
	return strings.Join(strings.Fields(b.String()), " ")
}

func (f *File) Line(n ast.Node) int { return f.Fset.Position(n.Pos()).Line }

// Calls lists, in source order, the rendered callee of every call expression under n
// (e.g. "os.Rename", "f.docsFile.Sync", "util.MustSyncPath").
func (f *File) Calls(n ast.Node) []string {
	type pc struct {
		pos token.Pos
		s   string
	}
	var res []pc
	ast.Inspect(n, func(x ast.Node) bool {
		if c, ok := x.(*ast.CallExpr); ok {
			res = append(res, pc{c.Pos(), f.Render(c.Fun)})
		}
		return true
	})
	sort.SliceStable(res, func(i, j int) bool { return res[i].pos < res[j].pos })
	out := make([]string, len(res))
	for i, r := range res {
		out[i] = r.s
	}
	return out
}

// ConstInt evaluates an integer constant declared in package directory pkgRel (all non-test files).
// Supports literals, iota, references to constants of the same package, unary/binary operators, parentheses,
// simple conversions T(x), and references to constants of other repo packages given in deps (name -> pkgRel).
func (r Repo) ConstInt(pkgRel, name string) (int64, error) {
	v, err := r.constVal(pkgRel, name, 0)
	if err != nil {
		return 0, err
	}
	if v.Kind() == constant.Float {
		v = constant.ToInt(v)
	}
	i, ok := constant.Int64Val(v)
	if !ok {
		return 0, fmt.Errorf("%s.%s: not an int64 constant (%s)", pkgRel, name, v)
	}
	return i, nil
}

// ConstUint evaluates like ConstInt for values that only fit uint64.
func (r Repo) ConstUint(pkgRel, name string) (uint64, error) {
	v, err := r.constVal(pkgRel, name, 0)
	if err != nil {
		return 0, err
	}
	i, ok := constant.Uint64Val(constant.ToInt(v))
	if !ok {
		return 0, fmt.Errorf("%s.%s: not a uint64 constant (%s)", pkgRel, name, v)
	}
	return i, nil
}

func (r Repo) ConstString(pkgRel, name string) (string, error) {
	v, err := r.constVal(pkgRel, name, 0)
	if err != nil {
		return "", err
	}
	if v.Kind() != constant.String {
		return "", fmt.Errorf("%s.%s: not a string constant", pkgRel, name)
	}
	return constant.StringVal(v), nil
}

func (r Repo) pkgFiles(pkgRel string) ([]*ast.File, error) {
	ents, err := os.ReadDir(filepath.Join(r.Root, pkgRel))
	if err != nil {
		return nil, err
	}
	var res []*ast.File
	fset := token.NewFileSet()
	for _, e := range ents {
		n := e.Name()
		if e.IsDir() || !strings.HasSuffix(n, ".go") || strings.HasSuffix(n, "_test.go") {
			continue
		}
		f, err := parser.ParseFile(fset, filepath.Join(r.Root, pkgRel, n), nil, 0)
		if err != nil {
			return nil, err
		}
		res = append(res, f)
	}
	return res, nil
}

func (r Repo) constVal(pkgRel, name string, depth int) (constant.Value, error) {
	if depth > 20 {
		return nil, fmt.Errorf("constant recursion too deep at %s.%s", pkgRel, name)
	}
	files, err := r.pkgFiles(pkgRel)
	if err != nil {
		return nil, err
	}
	for _, f := range files {
		imports := map[string]string{}
		for _, im := range f.Imports {
			p := strings.Trim(im.Path.Value, `"`)
			const mod = "github.com/ozontech/seq-db/"
			if strings.HasPrefix(p, mod) {
				rel := strings.TrimPrefix(p, mod)
				n := filepath.Base(rel)
				if im.Name != nil {
					n = im.Name.Name
				}
				imports[n] = rel
			}
		}
		for _, d := range f.Decls {
			gd, ok := d.(*ast.GenDecl)
			if !ok || gd.Tok != token.CONST {
				continue
			}
			var lastExprs []ast.Expr
			for iota, sp := range gd.Specs {
				vs := sp.(*ast.ValueSpec)
				if len(vs.Values) > 0 {
					lastExprs = vs.Values
				}
				for i, n := range vs.Names {
					if n.Name != name {
						continue
					}
					if i >= len(lastExprs) {
						return nil, fmt.Errorf("%s.%s: no initialiser", pkgRel, name)
					}
					return r.eval(pkgRel, imports, lastExprs[i], int64(iota), depth)
				}
			}
		}
	}
	return nil, fmt.Errorf("constant %s not found in %s", name, pkgRel)
}

func (r Repo) eval(pkgRel string, imports map[string]string, e ast.Expr, iota int64, depth int) (constant.Value, error) {
	switch x := e.(type) {
	case *ast.BasicLit:
		v := constant.MakeFromLiteral(x.Value, x.Kind, 0)
		if v.Kind() == constant.Unknown {
			return nil, fmt.Errorf("bad literal %s", x.Value)
		}
		return v, nil
	case *ast.ParenExpr:
		return r.eval(pkgRel, imports, x.X, iota, depth)
	case *ast.Ident:
		if x.Name == "iota" {
			return constant.MakeInt64(iota), nil
		}
		return r.constVal(pkgRel, x.Name, depth+1)
	case *ast.SelectorExpr:
		if id, ok := x.X.(*ast.Ident); ok {
			if rel, ok := imports[id.Name]; ok {
				return r.constVal(rel, x.Sel.Name, depth+1)
			}
			if id.Name == "math" {
				switch x.Sel.Name {
				case "MaxUint32":
					return constant.MakeUint64(1<<32 - 1), nil
				case "MaxUint64":
					return constant.MakeUint64(1<<64 - 1), nil
				case "MaxInt64":
					return constant.MakeInt64(1<<63 - 1), nil
				case "MaxInt32":
					return constant.MakeInt64(1<<31 - 1), nil
				case "MaxUint16":
					return constant.MakeInt64(1<<16 - 1), nil
				}
			}
			if id.Name == "time" {
				m := map[string]int64{"Nanosecond": 1, "Microsecond": 1e3, "Millisecond": 1e6, "Second": 1e9, "Minute": 60e9, "Hour": 3600e9}
				if v, ok := m[x.Sel.Name]; ok {
					return constant.MakeInt64(v), nil
				}
			}
		}
		return nil, fmt.Errorf("unsupported selector in constant expression")
	case *ast.UnaryExpr:
		v, err := r.eval(pkgRel, imports, x.X, iota, depth)
		if err != nil {
			return nil, err
		}
		return constant.UnaryOp(x.Op, v, 0), nil
	case *ast.BinaryExpr:
		a, err := r.eval(pkgRel, imports, x.X, iota, depth)
		if err != nil {
			return nil, err
		}
		b, err := r.eval(pkgRel, imports, x.Y, iota, depth)
		if err != nil {
			return nil, err
		}
		if x.Op == token.SHL || x.Op == token.SHR {
			s, ok := constant.Uint64Val(constant.ToInt(b))
			if !ok {
				return nil, fmt.Errorf("bad shift")
			}
			return constant.Shift(constant.ToInt(a), x.Op, uint(s)), nil
		}
		if x.Op == token.QUO && a.Kind() == constant.Int && b.Kind() == constant.Int {
			return constant.BinaryOp(a, token.QUO_ASSIGN, b), nil // integer division
		}
		return constant.BinaryOp(a, x.Op, b), nil
	case *ast.CallExpr: // conversion T(x)
		if len(x.Args) == 1 {
			return r.eval(pkgRel, imports, x.Args[0], iota, depth)
		}
	}
	return nil, fmt.Errorf("unsupported constant expression %T", e)
}

// ---------------------------------------------------------------- Lean emitter

type Emitter struct {
	b    bytes.Buffer
	errs []string
}

func NewEmitter(prop string, sources ...string) *Emitter {
	e := &Emitter{}
	fmt.Fprintf(&e.b, "/-! GENERATED by /verif/extract/cmd/%s from /repo on every check run - do not edit.\n    Sources: %s -/\nnamespace SV.Extracted.%s\n\n", strings.ToLower(prop), strings.Join(sources, ", "), prop)
	return e
}

func (e *Emitter) Comment(s string) { fmt.Fprintf(&e.b, "-- %s\n", strings.ReplaceAll(s, "\n", " ")) }

// Missing records a fact that could not be extracted; nothing is defined, so obligations mentioning it fail.
func (e *Emitter) Missing(name string, err any) {
	e.errs = append(e.errs, fmt.Sprintf("%s: %v", name, err))
	e.Comment(fmt.Sprintf("NOT EXTRACTED %s: %v", name, err))
}

func (e *Emitter) Nat(name string, v uint64, src string) {
	fmt.Fprintf(&e.b, "/-- %s -/\ndef %s : Nat := %d\n\n", src, name, v)
}
func (e *Emitter) Int(name string, v int64, src string) {
	fmt.Fprintf(&e.b, "/-- %s -/\ndef %s : Int := %d\n\n", src, name, v)
}
func (e *Emitter) Bool(name string, v bool, src string) {
	fmt.Fprintf(&e.b, "/-- %s -/\ndef %s : Bool := %v\n\n", src, name, v)
}
func (e *Emitter) Str(name string, v string, src string) {
	fmt.Fprintf(&e.b, "/-- %s -/\ndef %s : String := %q\n\n", src, name, v)
}
func (e *Emitter) Strs(name string, vs []string, src string) {
	q := make([]string, len(vs))
	for i, v := range vs {
		q[i] = fmt.Sprintf("%q", v)
	}
	fmt.Fprintf(&e.b, "/-- %s -/\ndef %s : List String := [%s]\n\n", src, name, strings.Join(q, ", "))
}
func (e *Emitter) Raw(s string) { e.b.WriteString(s) }

// Finish writes the file only when the content changed (keeps lake's cache warm); returns extraction errors.
func (e *Emitter) Finish(prop, out string) []string {
	fmt.Fprintf(&e.b, "end SV.Extracted.%s\n", prop)
	old, _ := os.ReadFile(out)
	if !bytes.Equal(old, e.b.Bytes()) {
		os.MkdirAll(filepath.Dir(out), 0o755)
		if err := os.WriteFile(out, e.b.Bytes(), 0o644); err != nil {
			e.errs = append(e.errs, err.Error())
		}
	}
	return e.errs
}

// Filter keeps the entries of xs that satisfy keep, in order.
func Filter(xs []string, keep func(string) bool) []string {
	var r []string
	for _, x := range xs {
		if keep(x) {
			r = append(r, x)
		}
	}
	return r
}

// Main is the common CLI: extractor -repo /repo -out file.
func Main(prop string, run func(r Repo, e *Emitter), sources ...string) {
	repo, out := "/repo", ""
	for i := 1; i < len(os.Args)-1; i++ {
		switch os.Args[i] {
		case "-repo":
			repo = os.Args[i+1]
		case "-out":
			out = os.Args[i+1]
		}
	}
	if out == "" {
		fmt.Fprintln(os.Stderr, "usage: -repo DIR -out FILE")
		os.Exit(2)
	}
	e := NewEmitter(prop, sources...)
	run(Repo{Root: repo}, e)
	errs := e.Finish(prop, out)
	for _, s := range errs {
		fmt.Println("EXTRACT-MISSING", s)
	}
}
